/-
  C14 — helper lemmas for File.lean (regular-file reads, UTF-8 length).
-/
import YashModel.Pipe.File
namespace YashModel.Pipe

theorem take_add_min {α : Type} (l : List α) (n s : Nat) :
    l.take n ++ (l.drop (min n l.length)).take s = l.take (n + s) := by
  by_cases h : n ≤ l.length
  · rw [Nat.min_eq_left h, List.take_add]
  · have h' : l.length ≤ n := by omega
    rw [Nat.min_eq_right h', List.drop_length, List.take_nil, List.append_nil,
      List.take_of_length_le h', List.take_of_length_le (by omega)]

theorem reads_spec (o : RegOfd) (ns : List Nat) :
    (o.reads ns).1 = (o.content.drop o.offset).take ns.sum ∧
    (o.reads ns).2 = { o with offset := o.offset + ((o.content.drop o.offset).take ns.sum).length } := by
  induction ns generalizing o with
  | nil => simp [RegOfd.reads]
  | cons n ns ih =>
    have h := ih (o.read n).2
    simp only [RegOfd.reads, List.sum_cons]
    rw [h.1, h.2]
    simp only [RegOfd.read, List.length_take, List.length_drop, ← List.drop_drop]
    have key := take_add_min (o.content.drop o.offset) n ns.sum
    simp only [List.length_drop] at key
    constructor
    · exact key
    · congr 1
      have := congrArg List.length key
      simp only [List.length_append, List.length_take, List.length_drop] at this
      omega

theorem sum_replicate_nat (k n : Nat) : (List.replicate k n).sum = k * n := by
  induction k with
  | zero => simp
  | succ m ih => rw [List.replicate_succ, List.sum_cons, ih]; simp [Nat.succ_mul]; omega

theorem utf8_length_ge (cs : List Char) : cs.length ≤ (utf8 cs).length := by
  induction cs with
  | nil => simp [utf8]
  | cons c t ih =>
    have := Char.utf8Size_pos c
    simp only [utf8, List.flatMap_cons, List.length_append, String.length_utf8EncodeChar, List.length_cons] at ih ⊢
    omega

theorem utf8_length_gt (cs : List Char) (h : ∃ c ∈ cs, 2 ≤ c.utf8Size) : cs.length < (utf8 cs).length := by
  induction cs with
  | nil => simp at h
  | cons c t ih =>
    simp only [utf8, List.flatMap_cons, List.length_append, String.length_utf8EncodeChar, List.length_cons]
    obtain ⟨x, hx, h2⟩ := h
    cases hx with
    | head =>
      have := utf8_length_ge t
      simp only [utf8] at this
      omega
    | tail _ hm =>
      have := ih ⟨x, hm, h2⟩
      have := Char.utf8Size_pos c
      simp only [utf8] at *
      omega

theorem utf8_length_ascii (cs : List Char) (h : ∀ c ∈ cs, c.utf8Size = 1) : (utf8 cs).length = cs.length := by
  induction cs with
  | nil => simp [utf8]
  | cons c t ih =>
    have h1 := h c List.mem_cons_self
    have := ih (fun x hx => h x (List.mem_cons_of_mem c hx))
    simp only [utf8, List.flatMap_cons, List.length_append, String.length_utf8EncodeChar, List.length_cons] at this ⊢
    omega

theorem readCharBytes_ascii (b : UInt8) (rest : List UInt8) (h : b < 0x80) :
    readCharBytes b rest = some ([b], rest) := by
  simp [readCharBytes, utf8SeqLen, h]

theorem readLine_raw_ascii (line rest acc : List UInt8) (h : ∀ b ∈ line, b < 0x80 ∧ b ≠ 10)
    (fuel : Nat) (hf : line.length < fuel) :
    readLine true fuel (line ++ 10 :: rest) acc = .line (acc ++ line) true rest := by
  induction line generalizing fuel acc with
  | nil =>
    cases fuel with
    | zero => simp at hf
    | succ f =>
      simp [readLine, readCharBytes_ascii 10 rest (by decide)]
  | cons b t ih =>
    cases fuel with
    | zero => simp at hf
    | succ f =>
      have hb := h b List.mem_cons_self
      have ht : ∀ x ∈ t, x < 0x80 ∧ x ≠ 10 := fun x hx => h x (List.mem_cons_of_mem b hx)
      have hlen : t.length < f := by simp at hf; omega
      simp only [List.cons_append, readLine, readCharBytes_ascii b _ hb.1]
      have h1 : ([b] = [10]) = False := by simp [hb.2]
      simp only [h1, if_false, Bool.not_true, Bool.false_eq_true, and_false]
      rw [ih (acc ++ [b]) ht f hlen]
      simp

/-! ### short reads -/

theorem gatherF_spec (fuel need : Nat) (input : List UInt8) (sh : List Nat) (h : need ≤ fuel) :
    (gatherF fuel need input sh).1 = input.take need ∧ (gatherF fuel need input sh).2.1 = input.drop need := by
  induction fuel generalizing need input sh with
  | zero =>
    have : need = 0 := by omega
    subst this
    simp [gatherF]
  | succ f ih =>
    cases need with
    | zero => simp [gatherF]
    | succ n =>
      cases input with
      | nil => simp [gatherF]
      | cons a t =>
        simp only [gatherF]
        have hc1 : 1 ≤ min (n + 1) (max 1 (sh.headD 1)) := by omega
        have hc2 : min (n + 1) (max 1 (sh.headD 1)) ≤ n + 1 := by omega
        generalize min (n + 1) (max 1 (sh.headD 1)) = c at hc1 hc2
        have := ih (n + 1 - c) ((a :: t).drop c) sh.tail (by omega)
        refine ⟨?_, ?_⟩
        · rw [this.1]
          have e : n + 1 = c + (n + 1 - c) := by omega
          conv => rhs; rw [e, List.take_add]
        · rw [this.2, List.drop_drop]
          congr 1
          omega

theorem readCharChunked_eq (b : UInt8) (rest : List UInt8) (sh : List Nat) :
    (readCharChunked b rest sh).1 = readCharBytes b rest := by
  unfold readCharChunked readCharBytes gather
  have h := gatherF_spec (utf8SeqLen b - 1) (utf8SeqLen b - 1) rest sh (Nat.le_refl _)
  by_cases hk : utf8SeqLen b = 0
  · simp [hk]
  · simp only [hk, if_false]
    rw [← h.1, ← h.2]
    split <;> rfl

theorem readLineChunked_eq (raw : Bool) (fuel : Nat) (input acc : List UInt8) (sh : List Nat) :
    readLineChunked raw fuel input acc sh = readLine raw fuel input acc := by
  induction fuel generalizing input acc sh with
  | zero => simp [readLineChunked, readLine]
  | succ f ih =>
    cases input with
    | nil => simp [readLineChunked, readLine]
    | cons b rest =>
      simp only [readLineChunked, readLine]
      have h1 := readCharChunked_eq b rest sh
      rcases hc : readCharChunked b rest sh with ⟨o, sh'⟩
      rw [hc] at h1
      simp only at h1
      rw [← h1]
      cases o with
      | none => rfl
      | some p =>
        obtain ⟨ch, rest'⟩ := p
        simp only
        split
        · rfl
        · split
          · cases rest' with
            | nil => rfl
            | cons b2 rest2 =>
              simp only
              have h2 := readCharChunked_eq b2 rest2 sh'
              rcases hc2 : readCharChunked b2 rest2 sh' with ⟨o2, sh''⟩
              rw [hc2] at h2
              simp only at h2
              rw [← h2]
              cases o2 with
              | none => rfl
              | some p2 =>
                obtain ⟨ch2, rest3⟩ := p2
                simp only
                split
                · exact ih _ _ _
                · exact ih _ _ _
          · exact ih _ _ _

/-! ### UTF-8 byte ranges -/

theorem u8_lt_lit (n k : Nat) (hn : n < 256) (hk : k < 256) : (UInt8.ofNat n < UInt8.ofNat k) ↔ n < k := by
  rw [UInt8.lt_iff_toNat_lt]
  simp [Nat.mod_eq_of_lt hn, Nat.mod_eq_of_lt hk]

theorem u8_le_lit (n k : Nat) (hn : n < 256) (hk : k < 256) : (UInt8.ofNat k ≤ UInt8.ofNat n) ↔ k ≤ n := by
  rw [UInt8.le_iff_toNat_le]
  simp [Nat.mod_eq_of_lt hn, Nat.mod_eq_of_lt hk]

theorem utf8SeqLen_ofNat (n : Nat) (hn : n < 256) :
    utf8SeqLen (UInt8.ofNat n) =
      if n < 128 then 1 else if n < 194 then 0 else if n < 224 then 2 else if n < 240 then 3 else if n < 245 then 4 else 0 := by
  unfold utf8SeqLen
  have e1 := u8_lt_lit n 0x80 hn (by omega)
  have e2 := u8_lt_lit n 0xC2 hn (by omega)
  have e3 := u8_lt_lit n 0xE0 hn (by omega)
  have e4 := u8_lt_lit n 0xF0 hn (by omega)
  have e5 := u8_lt_lit n 0xF5 hn (by omega)
  rw [show (0x80 : UInt8) = UInt8.ofNat 0x80 from rfl, show (0xC2 : UInt8) = UInt8.ofNat 0xC2 from rfl,
    show (0xE0 : UInt8) = UInt8.ofNat 0xE0 from rfl, show (0xF0 : UInt8) = UInt8.ofNat 0xF0 from rfl,
    show (0xF5 : UInt8) = UInt8.ofNat 0xF5 from rfl]
  simp only [e1, e2, e3, e4, e5]

theorem cont_ofNat (n : Nat) (hn : n < 256) :
    ((0x80 : UInt8) ≤ UInt8.ofNat n && UInt8.ofNat n < (0xC0 : UInt8)) = (decide (128 ≤ n) && decide (n < 192)) := by
  have e1 := u8_le_lit n 0x80 hn (by omega)
  have e2 := u8_lt_lit n 0xC0 hn (by omega)
  rw [show (0x80 : UInt8) = UInt8.ofNat 0x80 from rfl, show (0xC0 : UInt8) = UInt8.ofNat 0xC0 from rfl]
  simp only [e1, e2]

theorem readCharBytes_utf8 (c : Char) (rest : List UInt8) :
    ∃ b t, String.utf8EncodeChar c = b :: t ∧ readCharBytes b (t ++ rest) = some (b :: t, rest) := by
  have hv : c.val.toNat < 0x110000 := by
    have := c.valid
    rcases this with h | h
    · have : c.val.toNat < 0xd800 := h
      omega
    · exact h.2
  generalize hvv : c.val.toNat = v at hv
  unfold String.utf8EncodeChar
  simp only [hvv]
  split
  · refine ⟨_, _, rfl, ?_⟩
    have hk : utf8SeqLen (UInt8.ofNat v) = 1 := by
      rw [utf8SeqLen_ofNat v (by omega)]
      have : v < 128 := by omega
      simp [this]
    simp [readCharBytes, hk]
  · split
    · refine ⟨_, _, rfl, ?_⟩
      have hk : utf8SeqLen (UInt8.ofNat (v / 64 % 32 + 192)) = 2 := by
        rw [utf8SeqLen_ofNat _ (by omega)]
        have h1 : ¬ (v / 64 % 32 + 192 < 128) := by omega
        have h2 : ¬ (v / 64 % 32 + 192 < 194) := by omega
        have h3 : v / 64 % 32 + 192 < 224 := by omega
        simp only [h1, h2, h3, if_false, if_true]
      have c1 := cont_ofNat (v % 64 + 128) (by omega)
      have d1 : (decide (128 ≤ v % 64 + 128) && decide (v % 64 + 128 < 192)) = true := by
        simp only [Bool.and_eq_true, decide_eq_true_eq]; omega
      rw [d1] at c1
      generalize UInt8.ofNat (v / 64 % 32 + 192) = b at hk ⊢
      generalize UInt8.ofNat (v % 64 + 128) = b2 at c1 ⊢
      simp only [Bool.and_eq_true, decide_eq_true_eq] at c1
      simp [readCharBytes, hk, c1]
    · split
      · refine ⟨_, _, rfl, ?_⟩
        have hk : utf8SeqLen (UInt8.ofNat (v / 4096 % 16 + 224)) = 3 := by
          rw [utf8SeqLen_ofNat _ (by omega)]
          have h1 : ¬ (v / 4096 % 16 + 224 < 128) := by omega
          have h2 : ¬ (v / 4096 % 16 + 224 < 194) := by omega
          have h3 : ¬ (v / 4096 % 16 + 224 < 224) := by omega
          have h4 : v / 4096 % 16 + 224 < 240 := by omega
          simp only [h1, h2, h3, h4, if_false, if_true]
        have c1 := cont_ofNat (v / 64 % 64 + 128) (by omega)
        have d1 : (decide (128 ≤ v / 64 % 64 + 128) && decide (v / 64 % 64 + 128 < 192)) = true := by
          simp only [Bool.and_eq_true, decide_eq_true_eq]; omega
        rw [d1] at c1
        have c2 := cont_ofNat (v % 64 + 128) (by omega)
        have d2 : (decide (128 ≤ v % 64 + 128) && decide (v % 64 + 128 < 192)) = true := by
          simp only [Bool.and_eq_true, decide_eq_true_eq]; omega
        rw [d2] at c2
        generalize UInt8.ofNat (v / 4096 % 16 + 224) = b at hk ⊢
        generalize UInt8.ofNat (v / 64 % 64 + 128) = b2 at c1 ⊢
        generalize UInt8.ofNat (v % 64 + 128) = b3 at c2 ⊢
        simp only [Bool.and_eq_true, decide_eq_true_eq] at c1 c2
        simp [readCharBytes, hk, c1, c2]
      · refine ⟨_, _, rfl, ?_⟩
        have hk : utf8SeqLen (UInt8.ofNat (v / 262144 % 8 + 240)) = 4 := by
          rw [utf8SeqLen_ofNat _ (by omega)]
          have h1 : ¬ (v / 262144 % 8 + 240 < 128) := by omega
          have h2 : ¬ (v / 262144 % 8 + 240 < 194) := by omega
          have h3 : ¬ (v / 262144 % 8 + 240 < 224) := by omega
          have h4 : ¬ (v / 262144 % 8 + 240 < 240) := by omega
          have h5 : v / 262144 % 8 + 240 < 245 := by omega
          simp only [h1, h2, h3, h4, h5, if_false, if_true]
        have c1 := cont_ofNat (v / 4096 % 64 + 128) (by omega)
        have d1 : (decide (128 ≤ v / 4096 % 64 + 128) && decide (v / 4096 % 64 + 128 < 192)) = true := by
          simp only [Bool.and_eq_true, decide_eq_true_eq]; omega
        rw [d1] at c1
        have c2 := cont_ofNat (v / 64 % 64 + 128) (by omega)
        have d2 : (decide (128 ≤ v / 64 % 64 + 128) && decide (v / 64 % 64 + 128 < 192)) = true := by
          simp only [Bool.and_eq_true, decide_eq_true_eq]; omega
        rw [d2] at c2
        have c3 := cont_ofNat (v % 64 + 128) (by omega)
        have d3 : (decide (128 ≤ v % 64 + 128) && decide (v % 64 + 128 < 192)) = true := by
          simp only [Bool.and_eq_true, decide_eq_true_eq]; omega
        rw [d3] at c3
        generalize UInt8.ofNat (v / 262144 % 8 + 240) = b at hk ⊢
        generalize UInt8.ofNat (v / 4096 % 64 + 128) = b2 at c1 ⊢
        generalize UInt8.ofNat (v / 64 % 64 + 128) = b3 at c2 ⊢
        generalize UInt8.ofNat (v % 64 + 128) = b4 at c3 ⊢
        simp only [Bool.and_eq_true, decide_eq_true_eq] at c1 c2 c3
        simp [readCharBytes, hk, c1, c2, c3]

theorem utf8Encode_eq_nl (c : Char) (h : String.utf8EncodeChar c = [10]) : c = '\n' := by
  unfold String.utf8EncodeChar at h
  simp only at h
  split at h
  · rename_i h1
    simp only [List.cons.injEq, and_true] at h
    have : (UInt8.ofNat c.val.toNat).toNat = (10 : UInt8).toNat := by rw [h]
    simp only [UInt8.toNat_ofNat'] at this
    have hv : c.val.toNat = 10 := by
      have : c.val.toNat % 256 = 10 := by simpa using this
      omega
    apply Char.ext
    apply UInt32.toNat_inj.mp
    simpa using hv
  · split at h
    · simp at h
    · split at h <;> simp at h

theorem readLine_raw_utf8 (cs : List Char) (rest acc : List UInt8) (h : '\n' ∉ cs)
    (fuel : Nat) (hf : cs.length < fuel) :
    readLine true fuel (utf8 cs ++ 10 :: rest) acc = .line (acc ++ utf8 cs) true rest := by
  induction cs generalizing fuel acc with
  | nil =>
    cases fuel with
    | zero => simp at hf
    | succ f => simp [utf8, readLine, readCharBytes_ascii 10 rest (by decide)]
  | cons c t ih =>
    cases fuel with
    | zero => simp at hf
    | succ f =>
      have hc : c ≠ '\n' := fun e => h (by simp [e])
      have ht : '\n' ∉ t := fun e => h (List.mem_cons_of_mem c e)
      have hlen : t.length < f := by simp at hf; omega
      obtain ⟨b, tl, he, hr⟩ := readCharBytes_utf8 c (utf8 t ++ 10 :: rest)
      have hne : (b :: tl) ≠ [10] := fun e => hc (utf8Encode_eq_nl c (he.trans e))
      have hu : utf8 (c :: t) = (b :: tl) ++ utf8 t := by simp [utf8, he]
      rw [hu]
      simp only [List.cons_append, List.append_assoc, readLine, hr]
      simp only [hne, if_false, Bool.not_true, Bool.false_eq_true, and_false]
      rw [ih (acc ++ b :: tl) ht f hlen]
      simp

end YashModel.Pipe
