/-
  C14 — Impl model of the virtual pipe and of the transfer loops that move data through it.

  Transcribed from (current /repo):
    yash-env/src/system/virtual/file_body.rs   FileBody::Fifo, open/close, poll_read, poll_write,
                                               is_ready_for_reading / is_ready_for_writing
    yash-env/src/system/virtual/io.rs          OpenFileDescription::{poll_read, poll_write, poll_write_full}
    yash-env/src/system/virtual.rs             impl Open (ENXIO rule), impl Read / impl Write (one poll)
    yash-env/src/system/concurrency/rw_all.rs  write_all / read_all loops (non-blocking fd + yield)
    yash-env/src/system/concurrency.rs         yield_for_read / yield_for_write + select readiness
    yash-semantics/src/expansion/initial/command_subst.rs   expand_common: `trim_end_matches('\n')`

  The capacity constants are a parameter (`Cfg`); `Cfg.real` instantiates them with the constants
  re-extracted from the Rust source on every run (Generated/PipeConsts.lean).  Import-free apart from
  that generated file; everything is executable (driver: Main.lean).
-/
import YashModel.Generated.PipeConsts
namespace YashModel.Pipe

/-- `PIPE_SIZE` / `PIPE_BUF` of file_body.rs -/
structure Cfg where
  pipeSize : Nat
  pipeBuf : Nat
  deriving Repr, DecidableEq

/-- the constants of the code as it is now -/
def Cfg.real : Cfg :=
  { pipeSize := Generated.PipeConsts.PIPE_SIZE, pipeBuf := Generated.PipeConsts.PIPE_BUF }

/-- hypothesis of every theorem: `1 ≤ PIPE_BUF ≤ PIPE_SIZE` -/
def Cfg.Valid (c : Cfg) : Prop := 1 ≤ c.pipeBuf ∧ c.pipeBuf ≤ c.pipeSize

instance (c : Cfg) : Decidable c.Valid := by unfold Cfg.Valid; exact inferInstance

/-! ## `FileBody::Fifo` -/

/-- `FileBody::Fifo { content, readers, writers, .. }` (the three waker sets are runtime-only) -/
structure Fifo (α : Type) where
  content : List α := []
  readers : Nat := 0
  writers : Nat := 0
  deriving Repr

variable {α : Type}

/-- `FileBody::open(is_readable, is_writable)` -/
def Fifo.openFd (p : Fifo α) (r w : Bool) : Fifo α :=
  { p with readers := p.readers + (if r then 1 else 0), writers := p.writers + (if w then 1 else 0) }

/-- `FileBody::close(is_readable, is_writable)` -/
def Fifo.closeFd (p : Fifo α) (r w : Bool) : Fifo α :=
  { p with readers := p.readers - (if r then 1 else 0), writers := p.writers - (if w then 1 else 0) }

/-- `PIPE_SIZE - content.len()` -/
def Fifo.room (c : Cfg) (p : Fifo α) : Nat := c.pipeSize - p.content.length

/-- `FileBody::is_ready_for_reading` : `writers == 0 || !content.is_empty()` -/
def Fifo.readyR (p : Fifo α) : Bool := p.writers == 0 || !p.content.isEmpty

/-- `FileBody::is_ready_for_writing` : `readers == 0 || PIPE_SIZE - content.len() >= PIPE_BUF` -/
def Fifo.readyW (c : Cfg) (p : Fifo α) : Bool := p.readers == 0 || decide (c.pipeBuf ≤ p.room c)

/-- outcome of `FileBody::poll_write` on a FIFO -/
inductive WRes where
  | epipe            -- `Ready(Err(EPIPE))`
  | block            -- `Pending`
  | wrote (n : Nat)  -- `Ready(Ok(n))`
  deriving Repr, DecidableEq

/-- `FileBody::poll_write`, FIFO arm:
    EPIPE without readers; `Pending` if `room < len` and (`room == 0` or `len <= PIPE_BUF`);
    otherwise the first `min(room, len)` bytes are appended. -/
def Fifo.write (c : Cfg) (p : Fifo α) (buf : List α) : WRes × Fifo α :=
  if p.readers = 0 then (.epipe, p)
  else if p.room c < buf.length then
    if p.room c = 0 ∨ buf.length ≤ c.pipeBuf then (.block, p)
    else (.wrote (p.room c), { p with content := p.content ++ buf.take (p.room c) })
  else (.wrote buf.length, { p with content := p.content ++ buf })

/-- outcome of `FileBody::poll_read` on a FIFO (`data []` is `Ready(Ok(0))`) -/
inductive RRes (α : Type) where
  | block
  | data (bs : List α)
  deriving Repr

/-- `FileBody::poll_read`, FIFO arm: a zero-length request returns 0 at once; `Pending` iff the
    pipe is empty and has writers; otherwise the first `min(n, len)` bytes are popped. -/
def Fifo.read (p : Fifo α) (n : Nat) : RRes α × Fifo α :=
  if n = 0 then (.data [], p)
  else if p.content.length = 0 ∧ 0 < p.writers then (.block, p)
  else (.data (p.content.take n), { p with content := p.content.drop n })

/-! ## `OpenFileDescription` and the `Read`/`Write` system calls of `VirtualSystem` -/

inductive Errno where
  | EBADF | EAGAIN | EPIPE | ENXIO
  deriving Repr, DecidableEq

/-- an open file description on the FIFO -/
structure Ofd where
  readable : Bool
  writable : Bool
  nonblocking : Bool
  deriving Repr, DecidableEq

/-- `Poll<Result<usize, Errno>>` -/
inductive Res where
  | ok (n : Nat)
  | pending
  | err (e : Errno)
  deriving Repr, DecidableEq

/-- `OpenFileDescription::poll_write`: EBADF unless writable; a `Pending` of the body becomes
    `Err(EAGAIN)` in non-blocking mode. -/
def Ofd.pollWrite (c : Cfg) (o : Ofd) (p : Fifo α) (buf : List α) : Res × Fifo α :=
  if !o.writable then (.err .EBADF, p)
  else match p.write c buf with
    | (.epipe, p') => (.err .EPIPE, p')
    | (.block, p') => (if o.nonblocking then .err .EAGAIN else .pending, p')
    | (.wrote n, p') => (.ok n, p')

/-- `OpenFileDescription::poll_write_full` (the loop of one `write` system call); `fuel` bounds the
    number of iterations (`buf.length + 1` suffices: every further iteration has written ≥ 1 byte). -/
def Ofd.pollWriteFull (c : Cfg) (o : Ofd) : Nat → Fifo α → List α → Nat → Res × Fifo α
  | 0, p, _, bw => (.ok bw, p)
  | fuel + 1, p, rem, bw =>
    if rem.isEmpty then (.ok bw, p)
    else match o.pollWrite c p rem with
      | (.ok n, p') =>
        -- `loop_on_success = !is_nonblocking && type == Fifo`
        if o.nonblocking || n == 0 then (.ok (bw + n), p')
        else o.pollWriteFull c fuel p' (rem.drop n) (bw + n)
      | (.err e, p') => (if bw > 0 then .ok bw else .err e, p')
      | (.pending, p') => (.pending, p')

/-- `impl Write for VirtualSystem`, polled once (no signal arrives) -/
def Ofd.sysWrite (c : Cfg) (o : Ofd) (p : Fifo α) (buf : List α) : Res × Fifo α :=
  o.pollWriteFull c (buf.length + 1) p buf 0

/-- `OpenFileDescription::poll_read` / `impl Read for VirtualSystem`, polled once -/
def Ofd.sysRead (o : Ofd) (p : Fifo α) (n : Nat) : Res × List α × Fifo α :=
  if !o.readable then (.err .EBADF, [], p)
  else match p.read n with
    | (.block, p') => (if o.nonblocking then .err .EAGAIN else .pending, [], p')
    | (.data bs, p') => (.ok bs.length, bs, p')

/-- `impl Open for VirtualSystem` on a FIFO with `O_NONBLOCK`: ENXIO for a write-only open without
    readers; otherwise the counts are incremented (`OpenFileDescription::new`). -/
def Fifo.openNonblock (p : Fifo α) (r w : Bool) : Option (Fifo α) :=
  if w && !r && p.readers == 0 then none else some (p.openFd r w)

/-! ## `write_all` ∥ `read_all` : one writer and one reader on one pipe, arbitrary scheduler -/

/-- where the writer process is: in the `write_all` loop (file descriptor made non-blocking by
    `TemporaryNonBlockingGuard`), suspended in `yield_for_write` (resumed by `select` when the
    descriptor is ready for writing), finished and closed, or failed with EPIPE -/
inductive WPc where
  | run | wait | closed | failed
  deriving Repr, DecidableEq

/-- where the reader process is: in the `read_all` loop, suspended in `yield_for_read`, or
    finished (saw `Ok(0)`, closed its end) -/
inductive RPc where
  | run | wait | done
  deriving Repr, DecidableEq

structure Sys (α : Type) where
  pipe : Fifo α
  /-- `data` of `write_all`: what is still to be written -/
  unsent : List α
  wpc : WPc
  /-- `buffer[..effective_length]` of `read_all_to` -/
  received : List α
  rpc : RPc
  deriving Repr

/-- state after `pipe()` and the fork: one reading and one writing open file description -/
def Sys.init (payload : List α) : Sys α :=
  { pipe := { content := [], readers := 1, writers := 1 }, unsent := payload, wpc := .run,
    received := [], rpc := .run }

/-- one scheduler choice: let the writer take a step with a request of (at most) `k` bytes — the
    whole rest for one `write_all(payload)`, the rest of the current piece for a producer that
    calls `write_all` piecewise (the `cat` built-in forwards pieces of ≤ 1024 bytes) —, or the
    reader with a buffer of `n` bytes (in `read_all_to`, `n` is the spare capacity of the vector,
    at least 0x400) -/
inductive Act where
  | w (k : Nat)
  | r (n : Nat)
  deriving Repr, DecidableEq

/-- a request or buffer of zero bytes is not a transfer step (`write_all` never issues an empty
    write; a `read` of 0 bytes returns 0, which `read_all` would take for end of file) -/
def Act.ok : Act → Bool
  | .w k => decide (1 ≤ k)
  | .r n => decide (1 ≤ n)

/-- `write_all`: `data.is_empty()` → return (then the descriptor is closed); otherwise one `write`:
    `Ok(0)` or EAGAIN → `yield_for_write`; `Ok(n)` → `data = &data[n..]`; other error → give up.
    A suspended writer resumes only when `select` reports the descriptor ready for writing. -/
def Sys.stepW (c : Cfg) (s : Sys α) (k : Nat) : Option (Sys α) :=
  match s.wpc with
  | .run =>
    if s.unsent.isEmpty then some { s with pipe := s.pipe.closeFd false true, wpc := .closed }
    else match s.pipe.write c (s.unsent.take k) with
      | (.epipe, _) => some { s with pipe := s.pipe.closeFd false true, wpc := .failed }
      | (.block, _) => some { s with wpc := .wait }
      | (.wrote n, p) =>
        if n = 0 then some { s with pipe := p, wpc := .wait }
        else some { s with pipe := p, unsent := s.unsent.drop n }
  | .wait => if s.pipe.readyW c then some { s with wpc := .run } else none
  | .closed => none
  | .failed => none

/-- `read_all_to`: one `read` into `n` spare bytes: `Ok(0)` → done (descriptor closed afterwards);
    `Ok(k)` → `effective_length += k`; EAGAIN → `yield_for_read`.  A suspended reader resumes only
    when `select` reports the descriptor ready for reading. -/
def Sys.stepR (s : Sys α) (n : Nat) : Option (Sys α) :=
  match s.rpc with
  | .run =>
    match s.pipe.read n with
    | (.block, _) => some { s with rpc := .wait }
    | (.data bs, p) =>
      if bs.isEmpty then some { s with pipe := p.closeFd true false, rpc := .done }
      else some { s with pipe := p, received := s.received ++ bs }
  | .wait => if s.pipe.readyR then some { s with rpc := .run } else none
  | .done => none

/-- a reader that stops early (`head`-like consumer): it closes its end while still running; the
    writer's next `write` then fails with EPIPE.  Not a step of `Sys.step` — the transfer theorems
    assume a reader that reads to end of file; `Reach2` (Lemmas.lean) adds this step and keeps the
    conservation law. -/
def Sys.stepRClose (s : Sys α) : Option (Sys α) :=
  match s.rpc with
  | .run => some { s with pipe := s.pipe.closeFd true false, rpc := .done }
  | _ => none

def Sys.step (c : Cfg) (s : Sys α) : Act → Option (Sys α)
  | .w k => s.stepW c k
  | .r n => s.stepR n

/-- both processes have finished -/
def Sys.final (s : Sys α) : Bool := s.wpc == .closed && s.rpc == .done

/-- runs a schedule (choices that are not enabled are skipped) -/
def Sys.run (c : Cfg) (s : Sys α) : List Act → Sys α
  | [] => s
  | a :: as => Sys.run c ((s.step c a).getD s) as

/-! ## command substitution: removal of trailing newlines -/

/-- `result.trim_end_matches('\n')` + `truncate` of `expand_common`: scan from the end while the
    last element is the newline -/
def trimEnd [DecidableEq α] (nl : α) (s : List α) : List α :=
  (s.reverse.dropWhile (· = nl)).reverse

/-- a pipeline `producer | cat | … | consumer` as data flow: every stage forwards what it received -/
def stages (f : List α → List α) : Nat → List α → List α
  | 0, x => x
  | k + 1, x => stages f k (f x)

end YashModel.Pipe
