/-
  C09 helper lemmas, part 1: the descriptor table as a finite map (`get`/`put`), the lowest-free
  search, `Equiv` (same finite map), `WF` (every open descriptor is below the soft limit).
-/
import YashModel.Redir.Model
namespace YashModel.Redir

theorem getAt_nil {α : Type} (j : Nat) : getAt ([] : List (Option α)) j = none := by
  cases j <;> rfl

theorem getAt_setAt {α : Type} (l : List (Option α)) (i j : Nat) (v : Option α) :
    getAt (setAt l i v) j = if j = i then v else getAt l j := by
  induction l generalizing i j with
  | nil =>
    induction i generalizing j with
    | zero => cases j <;> simp [setAt, getAt]
    | succ n ih =>
      cases j with
      | zero => simp [setAt, getAt]
      | succ m => simp [setAt, getAt, ih]
  | cons a t ih =>
    cases i with
    | zero => cases j <;> simp [setAt, getAt]
    | succ n =>
      cases j with
      | zero => simp [setAt, getAt]
      | succ m => simp [setAt, getAt, ih]

theorem getAt_ge_length {α : Type} (l : List (Option α)) (j : Nat) (h : l.length ≤ j) : getAt l j = none := by
  induction l generalizing j with
  | nil => exact getAt_nil j
  | cons a t ih =>
    cases j with
    | zero => simp at h
    | succ m => simp [getAt]; exact ih m (by simpa using h)

namespace FdTable

@[simp] theorem get_put (t : FdTable) (fd fd' : Fd) (v : Option FdEntry) :
    (t.put fd v).get fd' = if fd' = fd then v else t.get fd' := by
  simp [put, get, getAt_setAt]

@[simp] theorem limit_put (t : FdTable) (fd : Fd) (v : Option FdEntry) : (t.put fd v).limit = t.limit := rfl

@[simp] theorem inLimit_put (t : FdTable) (fd fd' : Fd) (v : Option FdEntry) :
    (t.put fd v).inLimit fd' = t.inLimit fd' := rfl

theorem minUnusedFrom_ge (slots : List (Option FdEntry)) (fd fuel : Nat) :
    fd ≤ minUnusedFrom slots fd fuel := by
  induction fuel generalizing fd with
  | zero => simp [minUnusedFrom]
  | succ n ih =>
    simp only [minUnusedFrom]
    split
    · exact Nat.le_refl _
    · exact Nat.le_trans (Nat.le_succ fd) (ih (fd+1))

theorem minUnusedFrom_free (slots : List (Option FdEntry)) (fd fuel : Nat) (h : slots.length ≤ fd + fuel) :
    getAt slots (minUnusedFrom slots fd fuel) = none := by
  induction fuel generalizing fd with
  | zero => simp only [minUnusedFrom]; exact getAt_ge_length _ _ (by simpa using h)
  | succ n ih =>
    simp only [minUnusedFrom]
    split
    · rename_i hn; simpa [Option.isNone_iff_eq_none] using hn
    · exact ih (fd+1) (by omega)

theorem minUnused_ge (t : FdTable) (min : Fd) : min ≤ t.minUnused min := minUnusedFrom_ge _ _ _

theorem minUnused_free (t : FdTable) (min : Fd) : t.get (t.minUnused min) = none :=
  minUnusedFrom_free _ _ _ (by omega)

/-- what a successful `open_fd_ge` did -/
theorem openFdGe_some {t : FdTable} {min : Fd} {e : FdEntry} {denied : Bool} {fd : Fd} {t' : FdTable}
    (h : t.openFdGe min e denied = some (fd, t')) :
    min ≤ fd ∧ t.get fd = none ∧ t.inLimit fd = true ∧ t' = t.put fd (some e) := by
  unfold openFdGe at h
  split at h
  · rename_i hc
    simp only [Option.some.injEq, Prod.mk.injEq] at h
    obtain ⟨h1, h2⟩ := h
    subst h1
    refine ⟨minUnused_ge t min, minUnused_free t min, ?_, h2.symm⟩
    simp only [Bool.and_eq_true] at hc
    exact hc.2
  · cases h

end FdTable

/-- the same finite map under the same limit -/
def Equiv (a b : FdTable) : Prop := a.limit = b.limit ∧ ∀ fd, a.get fd = b.get fd

theorem Equiv.refl (a : FdTable) : Equiv a a := ⟨rfl, fun _ => rfl⟩
theorem Equiv.symm {a b : FdTable} (h : Equiv a b) : Equiv b a := ⟨h.1.symm, fun fd => (h.2 fd).symm⟩
theorem Equiv.trans {a b c : FdTable} (h1 : Equiv a b) (h2 : Equiv b c) : Equiv a c :=
  ⟨h1.1.trans h2.1, fun fd => (h1.2 fd).trans (h2.2 fd)⟩

/-- every open descriptor is below the soft limit (true of any process that has not lowered its
    limit under a descriptor it already holds) -/
def WF (t : FdTable) : Prop := ∀ fd e, t.get fd = some e → t.inLimit fd = true

theorem inLimit_congr {a b : FdTable} (h : a.limit = b.limit) (fd : Fd) : a.inLimit fd = b.inLimit fd := by
  simp [FdTable.inLimit, h]

theorem WF.congr {a b : FdTable} (h : Equiv a b) (hb : WF b) : WF a := by
  intro fd e he
  rw [inLimit_congr h.1]
  exact hb fd e (by rw [← h.2 fd]; exact he)

theorem WF.put_none {t : FdTable} (h : WF t) (fd : Fd) : WF (t.put fd none) := by
  intro fd' e he
  simp only [FdTable.get_put] at he
  split at he
  · cases he
  · exact h fd' e he

theorem WF.put_some {t : FdTable} (h : WF t) (fd : Fd) (e : FdEntry) (hl : t.inLimit fd = true) :
    WF (t.put fd (some e)) := by
  intro fd' e' he
  simp only [FdTable.get_put] at he
  split at he
  · rename_i heq; subst heq; exact hl
  · exact h fd' e' he

theorem Equiv.put {a b : FdTable} (h : Equiv a b) (fd : Fd) (v : Option FdEntry) :
    Equiv (a.put fd v) (b.put fd v) :=
  ⟨h.1, fun fd' => by simp [h.2 fd']⟩

theorem Equiv.dup2 {a b : FdTable} (h : Equiv a b) (src dst : Fd) :
    (a.dup2 src dst = none ∧ b.dup2 src dst = none) ∨
    (∃ a' b', a.dup2 src dst = some a' ∧ b.dup2 src dst = some b' ∧ Equiv a' b') := by
  unfold FdTable.dup2 FdTable.setFd
  rw [h.2 src, inLimit_congr h.1 dst]
  cases b.get src with
  | none => exact .inl ⟨rfl, rfl⟩
  | some e =>
    by_cases hsd : src = dst
    · simp only [hsd, ↓reduceIte]; exact .inr ⟨_, _, rfl, rfl, h⟩
    simp only [hsd, ↓reduceIte]
    cases b.inLimit dst with
    | false => exact .inl ⟨rfl, rfl⟩
    | true => exact .inr ⟨_, _, rfl, rfl, h.put _ _⟩

theorem Equiv.undoOne {a b : FdTable} (h : Equiv a b) (s : SavedFd) : Equiv (undoOne a s) (undoOne b s) := by
  unfold YashModel.Redir.undoOne
  cases s.save with
  | none => exact h.put _ _
  | some sv =>
    simp only
    rcases h.dup2 sv s.original with ⟨ha, hb⟩ | ⟨a', b', ha, hb, hab⟩
    · rw [ha, hb]; exact h.put _ _
    · rw [ha, hb]; exact hab.put _ _

end YashModel.Redir
