/-
  C09 — end-to-end property theorems over what the driver runs (`runCommand`, `runScript`), and the
  POSIX meaning of each operator.  Property theorems and non-vacuity examples ONLY
  (lemmas: Command.lean, Meaning.lean).
-/
import YashModel.Redir.Command
import YashModel.Redir.Meaning
import YashModel.Redir.Concrete
namespace YashModel.Redir
open YashModel.Generated.RedirConsts

/-- What the property says about one command `k rs` that started from table `tb` and left trace `tr`,
    in a script that started from table `t0`. -/
structure CommandSound (t0 tb : FdTable) (k : Kind) (rs : List Redir) (wb : World) (tr : Trace) : Prop where
  /-- the hypothesis of the restoration theorems holds again at every command -/
  wf : WF tb
  /-- nothing the shell opened for itself has accumulated before this command -/
  clean_before : ∀ fd, tb.isCloexec fd = true → t0.isCloexec fd = true
  /-- afterwards the table is exactly what it was before — whether the command ran, failed, was not
      found, or a redirection failed at any position — except for the `exec` family with all
      redirections successful, where it is the redirected table minus the saved copies -/
  restored_or_persisted :
    (tr.t.limit = tb.limit ∧ ∀ fd, tr.t.get fd = tb.get fd) ∨
    (k.isExec = true ∧ (performRedirs worldOracle wb tb rs).err = none ∧
      tr.t = preserveRedirs (performRedirs worldOracle wb tb rs).t (performRedirs worldOracle wb tb rs).saved)
  /-- no command leaves a descriptor of the shell's own behind: whatever is CLOEXEC afterwards was
      CLOEXEC when the script started -/
  none_left : ∀ fd, tr.t.isCloexec fd = true → t0.isCloexec fd = true
  /-- while the command runs, the descriptors the shell holds for itself (CLOEXEC ones that were not
      there when the script started) are at 10 or above -/
  internal_during : ∀ wd td, tr.during = some (wd, td) → ∀ fd, td.isCloexec fd = true →
    t0.isCloexec fd = true ∨ 10 ≤ fd
  /-- the same at every intermediate state of the guard's loop that the harness looks at (the table
      after each `perform_redir`, the failing one included) -/
  internal_steps : ∀ steps cause, tr.steps = some (steps, cause) → ∀ p ∈ steps, ∀ fd,
    p.2.isCloexec fd = true → t0.isCloexec fd = true ∨ 10 ≤ fd

/-- ★ one command, any kind (`runCommand` is what the driver runs for it) -/
theorem command_sound (t0 : FdTable) (w : World) (t : FdTable) (k : Kind) (rs : List Redir) (prev : Nat)
    (hw : WF t) (hsub : ∀ fd, t.isCloexec fd = true → t0.isCloexec fd = true) :
    CommandSound t0 t k rs w (runCommand w t k rs prev) := by
  refine ⟨hw, hsub, ?_, fun fd h => hsub fd (runCommand_none_left w t k rs prev hw fd h), ?_, ?_⟩
  · by_cases hx : k.isExec = true ∧ (performRedirs worldOracle w t rs).err = none
    · exact .inr ⟨hx.1, hx.2, exec_persists w t k rs prev hx.1 hx.2⟩
    · exact .inl (command_restores w t k rs prev hw (fun hk he => hx ⟨hk, he⟩))
  · intro wd td h fd hc
    rcases runCommand_during_internal w t k rs prev wd td h fd hc with h1 | h2
    · exact .inl (hsub fd h1)
    · exact .inr h2
  · intro steps cause h p hp fd hc
    obtain ⟨hs, _⟩ := runCommand_steps w t k rs prev steps cause h
    rw [hs] at hp
    rcases steps_internal worldOracle w t rs p hp fd hc with h1 | h2
    · exact .inl (hsub fd h1)
    · exact .inr h2

theorem script_sound_aux (t0 : FdTable) (cmds : List (Kind × List Redir)) :
    ∀ (w : World) (t : FdTable) (prev : Nat), WF t → (∀ fd, t.isCloexec fd = true → t0.isCloexec fd = true) →
    ∀ (i : Nat) (tb : FdTable) (tr : Trace), (runScript w t prev cmds)[i]? = some (tb, tr) →
      ∃ k rs wb pv, cmds[i]? = some (k, rs) ∧ tr = runCommand wb tb k rs pv ∧ CommandSound t0 tb k rs wb tr := by
  induction cmds with
  | nil => intro w t prev _ _ i tb tr h; simp [runScript] at h
  | cons c rest ih =>
    obtain ⟨k, rs⟩ := c
    intro w t prev hw hsub i tb tr h
    have hcs := command_sound t0 w t k rs prev hw hsub
    simp only [runScript] at h
    cases i with
    | zero =>
      have : (tb, tr) = (t, runCommand w t k rs prev) := by
        split at h <;> simp at h <;> exact Prod.ext h.1.symm h.2.symm
      cases this
      exact ⟨k, rs, w, prev, rfl, rfl, hcs⟩
    | succ j =>
      split at h
      · simp at h
      · simp only [List.getElem?_cons_succ] at h
        obtain ⟨k', rs', wb, pv, h1, h2, h3⟩ :=
          ih _ _ _ (runCommand_wf w t k rs prev hw) (fun fd hfd => hcs.none_left fd hfd) j tb tr h
        exact ⟨k', rs', wb, pv, by simpa using h1, h2, h3⟩

/-- ★ END TO END.  For every world (file system, option settings, interactive or not), every starting
    table that meets `WF` (any descriptors open, any limit) and every script — any number of commands of
    any of the kinds, each with an arbitrary redirection list (the same target named any number of
    times, failures at any position, allocation failing anywhere under the limit): every command the
    driver's `runScript` executes satisfies `CommandSound` relative to the table the script started
    with. -/
theorem script_sound (w : World) (t : FdTable) (prev : Nat) (cmds : List (Kind × List Redir)) (hw : WF t) :
    ∀ (i : Nat) (tb : FdTable) (tr : Trace), (runScript w t prev cmds)[i]? = some (tb, tr) →
      ∃ k rs wb pv, cmds[i]? = some (k, rs) ∧ tr = runCommand wb tb k rs pv ∧ CommandSound t tb k rs wb tr :=
  script_sound_aux t cmds w t prev hw (fun _ h => h)

-- non-vacuity: a three-command script (exec with redirections, a command whose second redirection
-- fails, a command naming descriptor 1 twice) runs all three commands from a table meeting `WF`
example : (runScript (stdWorld false) stdTable 0
    [(.exec, [⟨3, .file .fileOut 5⟩]), (.regular, [⟨1, .file .fileOut 3⟩, ⟨0, .file .fileIn 8⟩]),
     (.regular, [⟨1, .file .fileOut 3⟩, ⟨1, .file .fileAppend 4⟩])]).length = 3 := by decide

-- non-vacuity of `internal_steps`: the guard driven directly records a state per item
example : ((runCommand (stdWorld false) stdTable .guardKeep
    [⟨1, .file .fileOut 3⟩, ⟨2, .dup false (.fd 1)⟩]).steps.map (·.1.length)) = some 2 := by decide

/-! ### the seeded mistakes are excluded by the statements -/

/-- round 3 (undo in the order the copies were saved): with the same target named twice the forward
    order does not give the table back, so `undo_restores` cannot be proved of a model that undoes
    forwards -/
theorem forward_undo_does_not_restore :
    let g := performRedirs worldOracle (stdWorld false) stdTable [⟨1, .file .fileOut 3⟩, ⟨1, .file .fileAppend 4⟩]
    g.err = none ∧ (g.saved.foldl undoOne g.t).get 1 ≠ stdTable.get 1 ∧
    (undoRedirs g.t g.saved).get 1 = stdTable.get 1 := by decide

/-- round 1 (`move_fd_internal` keeping the original when the dup fails): then the low descriptor
    stays open, contradicting `move_internal_never_leaks` -/
theorem leaky_move_is_excluded :
    let t : FdTable := { (stdTable.put 3 (some ⟨7, true⟩)) with limit := some 10 }
    (moveFdInternal worldOracle (stdWorld false) t 3).2.2 = none ∧
    (moveFdInternal worldOracle (stdWorld false) t 3).2.1.get 3 = none ∧
    t.get 3 ≠ none := by decide

/-- round 2 (`exec` with an operand that cannot be invoked undoing its redirections): the table after
    is the redirected one (`exec_persists`), which differs from the restored one -/
theorem exec_operand_keeps_redirections :
    let tr := runCommand (stdWorld false true) stdTable .execNotFound [⟨4, .file .fileOut 4⟩]
    tr.status = some 127 ∧ tr.t.get 4 ≠ stdTable.get 4 := by decide

/-! ### the POSIX meaning of each operator -/

variable {W : Type}

/-- ★ the access mode and flags the code passes to `open` for each file operator (re-extracted from
    `open_normal` in yash-semantics/src/redir.rs on every run) are the ones POSIX prescribes -/
theorem open_mode_table :
    fileIn = posixOpenArgs .fileIn ∧ fileOut = posixOpenArgs .fileOut ∧ fileOut = posixOpenArgs .fileClobber ∧
    fileAppend = posixOpenArgs .fileAppend ∧ fileInOut = posixOpenArgs .fileInOut := by decide

/-- ★ the other tables of the code the model is stated over (re-extracted from the Rust sources on
    every run; a change of any of them re-checks — and, where the property depends on it, breaks — the
    proofs): under `noclobber` neither `open` of `open_file_noclobber` truncates (the first creates
    exclusively, the second opens what exists without O_CREAT/O_TRUNC, tried on EEXIST only), both for
    writing; `<&` requires a readable, `>&` a writable descriptor; `>>|` and `<<<` are the operators
    rejected as unsupported; the `.` built-in opens its script read-only with O_CLOEXEC and no other
    flag; `exec`, `:` and `.` are special built-ins (a redirection error ends a non-interactive shell),
    `command` is not; `here_doc::open_fd` sets no descriptor flag and closes the descriptor on failure -/
theorem code_tables_posix :
    noclobberFirst.acc = .wo ∧ noclobberFirst.create = true ∧ noclobberFirst.excl = true ∧
      noclobberFirst.trunc = false ∧
    noclobberSecond.acc = .wo ∧ noclobberSecond.create = false ∧ noclobberSecond.trunc = false ∧
      noclobberSecond.excl = false ∧ noclobberRetryErrno = "EEXIST" ∧
    dupInAcc = .ro ∧ dupOutAcc = .wo ∧ unsupportedOps = ["Pipe", "String"] ∧
    dotOpenArgs = ⟨.ro, false, false, false, false⟩ ∧ dotOpenCloexec = true ∧
    typeOfExec = .special ∧ typeOfColon = .special ∧ typeOfDot = .special ∧ typeOfCommand = .mandatory ∧
    Kind.isSpecial .exec = true ∧ Kind.isSpecial .colon = true ∧ Kind.isSpecial .dot = true ∧
    Kind.isSpecial .commandExec = false ∧
    -- the here-document's descriptor is handed back without CLOEXEC (it can be the target itself, a user
    -- descriptor 0–9, with no `dup2` in between) and is closed when its content cannot be written
    hereDocCloexec = false ∧ hereDocClosesOnFailure = true ∧
    -- `open_and_overwrite` duplicates onto the target first and closes the prepared descriptor afterwards
    -- (the order `Model.overwrite` transcribes)
    overwriteDup2BeforeClose = true := by decide

/-- ★ for every oracle, table and redirection: when `perform` succeeds, the target descriptor is what
    POSIX says the operator makes of it (`Meaning`: a new non-CLOEXEC descriptor on a description
    opened with the operator's POSIX arguments — under noclobber only in one of the two ways that never
    truncate an existing regular file —, a non-CLOEXEC duplicate of the named descriptor as it was
    before, closed, or the here-document's file), and no other descriptor changes except the slot of
    the saved copy -/
theorem perform_meaning (o : Oracle W) (w : W) (t : FdTable) (r : Redir) (s : SavedFd)
    (h : (perform o w t r).r = .ok s) :
    Meaning o t r ((perform o w t r).t.get r.fd) ∧
    ∀ fd, fd ≠ r.fd → s.save ≠ some fd → (perform o w t r).t.get fd = t.get fd := by
  refine ⟨perform_meaning_lemma o w t r s h, fun fd hne hns => ?_⟩
  rcases perform_spec o w t r with ⟨s', hs', hp⟩ | ⟨e, he, _⟩
  · rw [h] at hs'; cases hs'
    cases hsv : s.save with
    | none => exact (hp.none_case hsv).2.frame fd hne
    | some sv =>
      obtain ⟨e, _, _, _, _, hch⟩ := hp.some_case sv hsv
      rw [hch.frame fd hne]
      have : fd ≠ sv := fun heq => hns (by rw [hsv, heq])
      simp [this]
  · rw [h] at he; cases he

/-- nothing but the operators of `Meaning` can succeed: `>>|`, `<<<`, a failing expansion, a NUL byte
    in the pathname, a malformed descriptor operand always fail -/
theorem perform_only_meaningful (o : Oracle W) (w : W) (t : FdTable) (fd : Fd) (b : Body)
    (hb : b = .unsupported ∨ b = .expErr ∨ b = .nulPath ∨ ∃ i, b = .dup i .malformed) :
    ∃ e, (perform o w t ⟨fd, b⟩).r = .error e := by
  cases hr : (perform o w t ⟨fd, b⟩).r with
  | error e => exact ⟨e, rfl⟩
  | ok s =>
    have hm := (perform_meaning o w t ⟨fd, b⟩ s hr).1
    rcases hb with rfl | rfl | rfl | ⟨i, rfl⟩ <;> simp [Meaning] at hm

example : Meaning worldOracle stdTable ⟨1, .file .fileAppend 4⟩
    ((perform worldOracle (stdWorld false) stdTable ⟨1, .file .fileAppend 4⟩).t.get 1) :=
  (perform_meaning worldOracle (stdWorld false) stdTable ⟨1, .file .fileAppend 4⟩ ⟨1, some 10⟩ rfl).1

/-- ★ what the operators' `open` arguments do to the file system of the concrete world (every world,
    every path that is not below a regular file and has no trailing slash): O_EXCL on an existing file fails with EEXIST and
    changes nothing; an existing regular file is emptied exactly when O_TRUNC is given, and the new
    description has the requested access, the append flag and offset 0; a missing file is created
    empty exactly when O_CREAT is given, otherwise ENOENT and nothing changes -/
theorem resolve_posix (w : World) (path : Nat) (args : OpenArgs) (hp : path ≠ pathEnotdir) (hp2 : path ≠ pathSlash)
    (hlen : path < w.files.length) :
    ((fileAt w path).present = true → args.excl = true → w.resolve ⟨path, args⟩ = (w, .error .EEXIST)) ∧
    ((fileAt w path).present = true → (fileAt w path).kind = .reg → args.excl = false →
      (w.resolve ⟨path, args⟩).2 = .ok w.ofds.length ∧
      (fileAt (w.resolve ⟨path, args⟩).1 path).content = (if args.trunc then [] else (fileAt w path).content) ∧
      ofdAt (w.resolve ⟨path, args⟩).1 w.ofds.length = ⟨path, args.acc != .wo, args.acc != .ro, args.append, 0⟩) ∧
    ((fileAt w path).present = false → args.create = true →
      (w.resolve ⟨path, args⟩).2 = .ok w.ofds.length ∧
      fileAt (w.resolve ⟨path, args⟩).1 path = ⟨true, .reg, [], false⟩) ∧
    ((fileAt w path).present = false → args.create = false → w.resolve ⟨path, args⟩ = (w, .error .ENOENT)) := by
  refine ⟨fun h1 h2 => ?_, fun h1 h2 h3 => ?_, fun h1 h2 => ?_, fun h1 h2 => ?_⟩
  · simp only [World.resolve, hp, hp2, ↓reduceIte, h1, h2]
  · have hk : ((fileAt w path).kind == FKind.dir) = false := by rw [h2]; rfl
    have hk' : ((fileAt w path).kind == FKind.reg) = true := by rw [h2]; rfl
    cases ht : args.trunc <;>
      simp only [World.resolve, hp, hp2, ↓reduceIte, h1, h3, hk, hk', ht, Bool.false_and, Bool.and_true,
        Bool.false_eq_true] <;>
      simp [fileAt, ofdAt, setFile, hlen]
  · simp only [World.resolve, hp, hp2, ↓reduceIte, h1, h2, Bool.false_eq_true]
    simp [fileAt, setFile, hlen]
  · simp only [World.resolve, hp, hp2, ↓reduceIte, h1, h2, Bool.false_eq_true]

/-! ### the operators' meaning with the world threaded (closes the existential of `Meaning`) -/

/-- ★ for every oracle: a file redirection that succeeds (`noclobber` not interfering) leaves on its
    target a non-CLOEXEC descriptor on the very description one `open` with the operator's POSIX
    arguments returned, called in the world right after the allocation check (itself preceded by the
    allocation of the saved copy when there was something to save), and the world afterwards is the
    one that call left — no other file-system operation took place -/
theorem perform_file_world (o : Oracle W) (w : W) (t : FdTable) (fd : Fd) (op : FileOp) (path : Nat)
    (s : SavedFd) (hnc : op = .fileOut → o.noclobber w = false ∧ o.noclobber (o.deny w).1 = false)
    (h : (perform o w t ⟨fd, .file op path⟩).r = .ok s) :
    ∃ w', (w' = w ∨ w' = (o.deny w).1) ∧ ∃ ofd,
      o.resolve (o.deny w').1 ⟨path, posixOpenArgs op⟩ = ((perform o w t ⟨fd, .file op path⟩).w, .ok ofd) ∧
      (perform o w t ⟨fd, .file op path⟩).t.get fd = some ⟨ofd, false⟩ :=
  perform_file_world_lemma o w t fd op path s hnc h

/-- ★ the same in the concrete world the driver runs, composed with `resolve_posix`: after a
    successful `n<f`, `n>f`, `n>|f`, `n>>f`, `n<>f` (`noclobber` off for `>`) descriptor `n` is a new,
    non-CLOEXEC descriptor on a new open file description of `f` with the access mode and append flag
    POSIX prescribes and offset 0; an existing regular file has been emptied exactly for `>` / `>|`;
    a missing file has been created empty (which only the creating operators can do) -/
theorem file_redirection_concrete (w : World) (t : FdTable) (fd : Fd) (op : FileOp) (path : Nat) (s : SavedFd)
    (hnc : op = .fileOut → w.noclobber = false) (hp : path ≠ pathEnotdir) (hp2 : path ≠ pathSlash)
    (hlen : path < w.files.length)
    (h : (perform worldOracle w t ⟨fd, .file op path⟩).r = .ok s) :
    (perform worldOracle w t ⟨fd, .file op path⟩).t.get fd = some ⟨w.ofds.length, false⟩ ∧
    ((fileAt w path).present = true → (fileAt w path).kind = .reg →
      (fileAt (perform worldOracle w t ⟨fd, .file op path⟩).w path).content =
        (if (posixOpenArgs op).trunc then [] else (fileAt w path).content) ∧
      ofdAt (perform worldOracle w t ⟨fd, .file op path⟩).w w.ofds.length =
        ⟨path, (posixOpenArgs op).acc != .wo, (posixOpenArgs op).acc != .ro, (posixOpenArgs op).append, 0⟩) ∧
    ((fileAt w path).present = false → (posixOpenArgs op).create = true ∧
      fileAt (perform worldOracle w t ⟨fd, .file op path⟩).w path = ⟨true, .reg, [], false⟩) := by
  obtain ⟨w', hw', ofd, hres, hget⟩ := perform_file_world_lemma worldOracle w t fd op path s
    (fun hop => ⟨hnc hop, hnc hop⟩) h
  have hfiles : (World.deny w').1.files = w.files := by rcases hw' with rfl | rfl <;> rfl
  have hofds : (World.deny w').1.ofds = w.ofds := by rcases hw' with rfl | rfl <;> rfl
  have hres' : (World.deny w').1.resolve ⟨path, posixOpenArgs op⟩ =
      ((perform worldOracle w t ⟨fd, .file op path⟩).w, .ok ofd) := hres
  have hofd : ofd = w.ofds.length := by
    rw [← hofds]; exact World.resolve_ok_ofd _ _ _ _ hres'
  have hf : fileAt (World.deny w').1 path = fileAt w path := fileAt_congr hfiles path
  have hex : (posixOpenArgs op).excl = false := by cases op <;> rfl
  obtain ⟨_, h2, h3, h4⟩ := resolve_posix (World.deny w').1 path (posixOpenArgs op) hp hp2 (by rw [hfiles]; exact hlen)
  rw [hf] at h2 h3 h4
  rw [hres', hofds] at h2 h3
  refine ⟨by rw [hget, hofd], fun hpres hreg => ?_, fun hmiss => ?_⟩
  · obtain ⟨_, hc, ho⟩ := h2 hpres hreg hex
    exact ⟨hc, ho⟩
  · cases hcr : (posixOpenArgs op).create with
    | true => exact ⟨rfl, (h3 hmiss hcr).2⟩
    | false => rw [h4 hmiss hcr] at hres'; exact absurd (congrArg Prod.snd hres') (by simp)

-- non-vacuity: `>>b` on the standard table
example : (perform worldOracle (stdWorld false) stdTable ⟨1, .file .fileAppend 4⟩).r = .ok ⟨1, some 10⟩ ∧
    (fileAt (stdWorld false) 4).present = true ∧ (fileAt (stdWorld false) 4).kind = .reg :=
  ⟨rfl, by decide, by decide⟩

/-- ★ here-documents in the concrete world (what `fill` does is no longer an oracle call): after a
    successful `n<<E` descriptor `n` is a new, non-CLOEXEC descriptor on a new read-write description,
    at offset 0, of a new anonymous regular file — none of the named paths — that holds exactly the
    content; reading `k` bytes through it yields the first `k` bytes of the content -/
theorem heredoc_concrete (w : World) (t : FdTable) (fd : Fd) (content : List Nat) (s : SavedFd)
    (h : (perform worldOracle w t ⟨fd, .hereDoc content⟩).r = .ok s) :
    (perform worldOracle w t ⟨fd, .hereDoc content⟩).t.get fd = some ⟨w.ofds.length, false⟩ ∧
    ofdAt (perform worldOracle w t ⟨fd, .hereDoc content⟩).w w.ofds.length = ⟨w.files.length, true, true, false, 0⟩ ∧
    fileAt (perform worldOracle w t ⟨fd, .hereDoc content⟩).w w.files.length = ⟨true, .reg, content, false⟩ ∧
    ∀ k, ((perform worldOracle w t ⟨fd, .hereDoc content⟩).w.read w.ofds.length k).map (·.2) = some (content.take k) := by
  obtain ⟨w', hw', hpw, _, hget⟩ := perform_heredoc_world_lemma worldOracle w t fd content s h
  have hfiles : w'.files = w.files := by rcases hw' with rfl | rfl <;> rfl
  have hofds : w'.ofds = w.ofds := by rcases hw' with rfl | rfl <;> rfl
  -- the world `fill` runs in: the temporary file and its description appended, one more allocation counted
  have hw0 : (World.deny (World.tmpfile w').1).1.files = w.files ++ [⟨true, .reg, [], false⟩] ∧
      (World.deny (World.tmpfile w').1).1.ofds = w.ofds ++ [⟨w.files.length, true, true, false, 0⟩] ∧
      (World.tmpfile w').2 = w.ofds.length := by
    simp [World.deny, World.tmpfile, hfiles, hofds]
  obtain ⟨hf0, ho0, hid⟩ := hw0
  have hd : ofdAt (World.deny (World.tmpfile w').1).1 w.ofds.length = ⟨w.files.length, true, true, false, 0⟩ := by
    simp [ofdAt, ho0]
  have hf : fileAt (World.deny (World.tmpfile w').1).1 w.files.length = ⟨true, .reg, [], false⟩ := by
    simp [fileAt, hf0]
  obtain ⟨_, hod, hfd⟩ := World.fill_fresh (World.deny (World.tmpfile w').1).1 w.ofds.length w.files.length content
    hd hf (by simp [ho0]) (by simp [hf0])
  have hpw' : (perform worldOracle w t ⟨fd, .hereDoc content⟩).w =
      ((World.deny (World.tmpfile w').1).1.fill w.ofds.length content).1 := by
    rw [hpw]; show (World.fill _ (World.tmpfile w').2 content).1 = _; rw [hid]; rfl
  have hget' : (perform worldOracle w t ⟨fd, .hereDoc content⟩).t.get fd = some ⟨w.ofds.length, false⟩ := by
    rw [hget]; show some (FdEntry.mk (World.tmpfile w').2 false) = _; rw [hid]
  rw [hpw']
  refine ⟨hget', hod, hfd, fun k => ?_⟩
  simp [World.read, hod, hfd]

-- non-vacuity: `0<<E` with three bytes
example : (perform worldOracle (stdWorld false) stdTable ⟨0, .hereDoc [5, 6, 10]⟩).r = .ok ⟨0, some 10⟩ := rfl

/-- ★ what "append" means for the description `>>` opens (and "write" for the others): a write
    through an appending description on a regular file lands at the end of the file whatever the
    offset; through any other writable description it overwrites at the offset -/
theorem append_writes_at_end (w w1 : World) (ofd : Nat) (bytes : List Nat)
    (hk : (fileAt w (ofdAt w ofd).file).kind = .reg) (h : w.write ofd bytes = some w1)
    (hlen : (ofdAt w ofd).file < w.files.length) :
    (fileAt w1 (ofdAt w ofd).file).content =
      if (ofdAt w ofd).app then (fileAt w (ofdAt w ofd).file).content ++ bytes
      else writeAt (fileAt w (ofdAt w ofd).file).content (ofdAt w ofd).off bytes := by
  unfold World.write at h
  simp only at h
  split at h
  · cases h
  · split at h
    · cases h
    · cases h
      rw [fileAt_setOfd, fileAt_setFile_same _ _ _ hlen]
      have hreg : ((fileAt w (ofdAt w ofd).file).kind == FKind.reg) = true := by rw [hk]; rfl
      cases happ : (ofdAt w ofd).app <;> simp [hreg, writeAt_end]

-- non-vacuity: a write through `>>b`'s description (offset 0) on b = [3,4] appends
example : let r := perform worldOracle (stdWorld false) stdTable ⟨1, .file .fileAppend 4⟩
    (r.w.write 3 [9]).map (fun w1 => (fileAt w1 4).content) = some [3, 4, 9] := by decide

/-! ### the Spec column's check is the declarative statement -/

/-- the restoration check printed in the Spec column decides equality of the finite maps -/
theorem sameTable_iff (a b : FdTable) : sameTable a b = true ↔ ∀ fd, a.get fd = b.get fd := by
  unfold sameTable
  rw [List.all_eq_true]
  constructor
  · intro h fd
    by_cases hfd : fd < max a.slots.length b.slots.length
    · simpa using h fd (List.mem_range.mpr hfd)
    · have hge : max a.slots.length b.slots.length ≤ fd := Nat.le_of_not_lt hfd
      have ha : a.slots.length ≤ fd := Nat.le_trans (Nat.le_max_left _ _) hge
      have hb : b.slots.length ≤ fd := Nat.le_trans (Nat.le_max_right _ _) hge
      simp [FdTable.get, getAt_ge_length _ _ ha, getAt_ge_length _ _ hb]
  · intro h fd _
    simp [h fd]

/-- … and it passes on every command the model runs (so a `FAIL:table-not-restored` in the Spec
    column can only come from a driver that is not this model) -/
theorem spec_restoration_check_passes (w : World) (t : FdTable) (k : Kind) (rs : List Redir) (prev : Nat)
    (hw : WF t) (h : k.isExec = true → (performRedirs worldOracle w t rs).err ≠ none) :
    sameTable t (runCommand w t k rs prev).t = true :=
  (sameTable_iff _ _).mpr fun fd => ((command_restores w t k rs prev hw h).2 fd).symm

end YashModel.Redir
