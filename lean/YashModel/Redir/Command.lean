/-
  C09 helper lemmas, part 5: facts about `runCommand` / `runScript` (the functions the driver runs)
  used by the end-to-end theorems of EndToEnd.lean.
-/
import YashModel.Redir.Theorems
namespace YashModel.Redir
open YashModel.Generated.RedirConsts

theorem WF.preserveOne {t : FdTable} (h : WF t) (s : SavedFd) : WF (preserveOne t s) := by
  unfold YashModel.Redir.preserveOne
  cases s.save with
  | none => exact h
  | some sv => exact h.put_none _

theorem WF.preserveRedirs {t : FdTable} (h : WF t) (ss : List SavedFd) : WF (preserveRedirs t ss) := by
  induction ss generalizing t with
  | nil => exact h
  | cons s ss ih => rw [preserveRedirs_cons]; exact ih (h.preserveOne s)

@[simp] theorem endOrGoOn_during (w : World) (t : FdTable) (st : Nat) (saved : List SavedFd) :
    (endOrGoOn w t st saved).during = none := by
  unfold endOrGoOn; split <;> rfl

/-- the table a command body can see is the redirected table, or (for `.`) the redirected table
    plus the descriptor `openScript` returned -/
theorem runCommand_during_cases (w : World) (t : FdTable) (k : Kind) (rs : List Redir) (prev : Nat)
    (wd : World) (td : FdTable) (h : (runCommand w t k rs prev).during = some (wd, td)) :
    (performRedirs worldOracle w t rs).err = none ∧
    (td = (performRedirs worldOracle w t rs).t ∨
     ∃ p n, (openScript worldOracle (performRedirs worldOracle w t rs).w (performRedirs worldOracle w t rs).t p).2.2 = some n ∧
       td = (openScript worldOracle (performRedirs worldOracle w t rs).w (performRedirs worldOracle w t rs).t p).2.1) := by
  unfold runCommand at h
  cases k <;> simp only at h <;> (repeat' split at h) <;> simp_all
  all_goals exact .inr ⟨_, ⟨_, by assumption⟩, h.2.symm⟩

/-- a command leaves a table that meets `WF` again -/
theorem runCommand_wf (w : World) (t : FdTable) (k : Kind) (rs : List Redir) (prev : Nat) (hw : WF t) :
    WF (runCommand w t k rs prev).t := by
  by_cases h : k.isExec = true ∧ (performRedirs worldOracle w t rs).err = none
  · rw [exec_persists w t k rs prev h.1 h.2]
    exact (performRedirs_wf _ _ _ _ hw).preserveRedirs _
  · have hr : Equiv (runCommand w t k rs prev).t t :=
      command_restores w t k rs prev hw (fun hk he => h ⟨hk, he⟩)
    exact WF.congr hr hw

/-- no command leaves a CLOEXEC descriptor that was not CLOEXEC before it — the `exec` family included -/
theorem runCommand_none_left (w : World) (t : FdTable) (k : Kind) (rs : List Redir) (prev : Nat) (hw : WF t)
    (fd : Fd) (h : (runCommand w t k rs prev).t.isCloexec fd = true) : t.isCloexec fd = true := by
  by_cases hx : k.isExec = true ∧ (performRedirs worldOracle w t rs).err = none
  · rw [exec_persists w t k rs prev hx.1 hx.2] at h
    by_cases hs : ∃ s ∈ (performRedirs worldOracle w t rs).saved, s.save = some fd
    · rw [isCloexec_of_none (preserveRedirs_save _ _ _ hs)] at h; cases h
    · have hns : ∀ s ∈ (performRedirs worldOracle w t rs).saved, s.save ≠ some fd :=
        fun s hs' he => hs ⟨s, hs', he⟩
      rw [isCloexec_congr (preserveRedirs_not_save _ _ _ hns)] at h
      rcases internal_only worldOracle w t rs fd h with h1 | h2
      · exact h1
      · exact absurd h2 hs
  · have hr : Equiv (runCommand w t k rs prev).t t :=
      command_restores w t k rs prev hw (fun hk he => hx ⟨hk, he⟩)
    rw [← isCloexec_congr (hr.2 fd)]; exact h

/-- whatever is CLOEXEC in the table a command body sees was CLOEXEC before the command or is at or
    above `MIN_INTERNAL_FD` (a saved copy of the guard, or the script descriptor of `.`) -/
theorem runCommand_during_internal (w : World) (t : FdTable) (k : Kind) (rs : List Redir) (prev : Nat)
    (wd : World) (td : FdTable) (h : (runCommand w t k rs prev).during = some (wd, td)) (fd : Fd)
    (hc : td.isCloexec fd = true) : t.isCloexec fd = true ∨ minInternalFd ≤ fd := by
  obtain ⟨_, hcase⟩ := runCommand_during_cases w t k rs prev wd td h
  have hguard : ∀ fd, (performRedirs worldOracle w t rs).t.isCloexec fd = true →
      t.isCloexec fd = true ∨ minInternalFd ≤ fd := by
    intro fd hfd
    rcases internal_only worldOracle w t rs fd hfd with h1 | ⟨s, hs, hsv⟩
    · exact .inl h1
    · exact .inr (internal_fds worldOracle w t rs s hs fd hsv).2.1
  rcases hcase with htd | ⟨p, n, hn, htd⟩
  · rw [htd] at hc; exact hguard fd hc
  · obtain ⟨_, _, hS⟩ := openScript_spec worldOracle (performRedirs worldOracle w t rs).w
      (performRedirs worldOracle w t rs).t p
    obtain ⟨hge, _, _, hframe⟩ := hS n hn
    by_cases hfd : fd = n
    · rw [hfd]; exact .inr hge
    · rw [htd, isCloexec_congr (hframe fd hfd)] at hc; exact hguard fd hc

/-- the intermediate states a trace carries are those of the guard's loop on this command's list -/
theorem runCommand_steps (w : World) (t : FdTable) (k : Kind) (rs : List Redir) (prev : Nat)
    (steps : List (World × FdTable)) (cause : Option ErrCause)
    (h : (runCommand w t k rs prev).steps = some (steps, cause)) :
    steps = performSteps worldOracle w t rs ∧ cause = (performRedirs worldOracle w t rs).err := by
  unfold runCommand at h
  cases k <;> simp only at h <;> (repeat' split at h) <;> simp_all

end YashModel.Redir
