/-
  C09 helper lemmas, part 14: a nested command whatever its inner command did (a persisting `exec`
  included): targets and saved-copy slots of the outer guard come back, everything else is what the
  inner command left.
-/
import YashModel.Redir.UndoAfter
import YashModel.Redir.Persist
namespace YashModel.Redir
open YashModel.Generated.RedirConsts
variable {W : Type}

theorem performRedirs_originals (o : Oracle W) (w : W) (t : FdTable) (rs : List Redir)
    (h : (performRedirs o w t rs).err = none) :
    (performRedirs o w t rs).saved.map (·.original) = rs.map (·.fd) := by
  induction rs generalizing w t with
  | nil => rfl
  | cons r rs ih =>
    cases hp : (perform o w t r).r with
    | error e => rw [performRedirs_cons_err o w t r rs e hp] at h; cases h
    | ok s =>
      rw [performRedirs_cons_ok o w t r rs s hp] at h ⊢
      simp only at h ⊢
      have horig : s.original = r.fd := by
        rcases perform_spec o w t r with ⟨s', hs', hok⟩ | ⟨e', he', _⟩
        · rw [hp] at hs'; cases hs'; exact hok.original
        · rw [hp] at he'; cases he'
      simp [horig, ih _ _ h]

theorem touched_of_target (o : Oracle W) (w : W) (t : FdTable) (rs : List Redir)
    (h : (performRedirs o w t rs).err = none) (r : Redir) (hr : r ∈ rs) :
    Touched (performRedirs o w t rs).saved r.fd := by
  have hm : r.fd ∈ (performRedirs o w t rs).saved.map (·.original) := by
    rw [performRedirs_originals o w t rs h]; exact List.mem_map.mpr ⟨r, hr, rfl⟩
  obtain ⟨s, hs, heq⟩ := List.mem_map.mp hm
  exact ⟨s, hs, .inl heq⟩

/-- what the outer list did not touch is, in the redirected table, what it was -/
theorem untouched_frame (o : Oracle W) (w : W) (t : FdTable) (rs : List Redir)
    (h : (performRedirs o w t rs).err = none) (fd : Fd) (hnt : ¬ Touched (performRedirs o w t rs).saved fd) :
    (performRedirs o w t rs).t.get fd = t.get fd :=
  performRedirs_frame o w t rs fd
    (fun r hr heq => hnt (heq ▸ touched_of_target o w t rs h r hr))
    (fun s hs hsv => hnt ⟨s, hs, .inr hsv⟩)

/-- no command disturbs a CLOEXEC descriptor, nor the limit -/
theorem runCommand_keeps_cloexec (w : World) (t : FdTable) (k : Kind) (rs : List Redir) (prev : Nat) (hw : WF t) :
    (runCommand w t k rs prev).t.limit = t.limit ∧
    ∀ x, t.isCloexec x = true → (runCommand w t k rs prev).t.get x = t.get x := by
  by_cases hx : k.isExec = true ∧ (performRedirs worldOracle w t rs).err = none
  · rw [exec_persists w t k rs prev hx.1 hx.2]
    refine ⟨by rw [preserveRedirs_limit, performRedirs_limit], fun x hc => ?_⟩
    have hnt := saved_avoid_cloexec worldOracle w t rs x hc
    rw [preserveRedirs_not_save _ _ _ (fun s hs hsv => hnt ⟨s, hs, .inr hsv⟩)]
    exact cloexec_untouched worldOracle w t rs x hc
  · have hr := command_restores w t k rs prev hw (fun hk he => hx ⟨hk, he⟩)
    exact ⟨hr.1, fun x _ => hr.2 x⟩

theorem nested_any_inner' (w : World) (t : FdTable) (outer : List Redir) (ki : Kind) (inner : List Redir) (prev : Nat)
    (hw : WF t) (wi : World) (ti : FdTable) (tri : Trace)
    (hin : (runNested w t outer ki inner prev).inner = some (wi, ti, tri)) :
    (runNested w t outer ki inner prev).tr.t.limit = t.limit ∧
    ∀ fd, (Touched (performRedirs worldOracle w t outer).saved fd →
            (runNested w t outer ki inner prev).tr.t.get fd = t.get fd) ∧
          (¬ Touched (performRedirs worldOracle w t outer).saved fd →
            (runNested w t outer ki inner prev).tr.t.get fd = tri.t.get fd) := by
  obtain ⟨_, rfl, rfl, rfl, ht, _⟩ := nested_inner_eq w t outer ki inner prev wi ti tri hin
  rw [ht]
  have hwg := performRedirs_wf worldOracle w t outer hw
  obtain ⟨hl, hk⟩ := runCommand_keeps_cloexec (performRedirs worldOracle w t outer).w
    (performRedirs worldOracle w t outer).t ki inner prev hwg
  apply undo_after_body worldOracle outer w t hw
  · rw [hl, performRedirs_limit]
  · intro s hs sv hsv
    exact hk sv (internal_fds worldOracle w t outer s hs sv hsv).2.2

end YashModel.Redir
