/-
  C09 — property theorems about the concrete world, second part (wave 3): `>` under `noclobber`, and the
  sharing rule of open file descriptions (offsets).  Statements and non-vacuity examples; the lemmas are in
  Noclobber.lean / Provenance.lean / Persist.lean.
-/
import YashModel.Redir.NoclobberConcrete
namespace YashModel.Redir
open YashModel.Generated.RedirConsts


/-- ★ `>` under `noclobber` in the concrete world, when it succeeds: the target is a new, non-CLOEXEC
    descriptor on a new write-only, non-appending description of the path at offset 0, and EITHER the
    path named nothing and now names a new empty regular file (the race-free O_CREAT|O_EXCL creation)
    OR it named something that is not a regular file and no file of the world changed (nothing is ever
    truncated) -/
theorem noclobber_redirection_concrete (w : World) (t : FdTable) (fd : Fd) (path : Nat) (s : SavedFd)
    (hn : w.noclobber = true) (hp : path ≠ pathEnotdir) (hp2 : path ≠ pathSlash) (hlen : path < w.files.length)
    (h : (perform worldOracle w t ⟨fd, .file .fileOut path⟩).r = .ok s) :
    (perform worldOracle w t ⟨fd, .file .fileOut path⟩).t.get fd = some ⟨w.ofds.length, false⟩ ∧
    ofdAt (perform worldOracle w t ⟨fd, .file .fileOut path⟩).w w.ofds.length = ⟨path, false, true, false, 0⟩ ∧
    (((fileAt w path).present = false ∧
        fileAt (perform worldOracle w t ⟨fd, .file .fileOut path⟩).w path = ⟨true, .reg, [], false⟩) ∨
     ((fileAt w path).present = true ∧ (fileAt w path).kind ≠ .reg ∧
        (perform worldOracle w t ⟨fd, .file .fileOut path⟩).w.files = w.files)) :=
  noclobber_redirection_concrete' w t fd path s hn hp hp2 hlen h

/-- ★ … hence on an existing regular file `>` under `noclobber` never succeeds — whatever the table, the
    limit and the allocation failures — and the descriptor table is left as it was; `>|` is not affected
    by the option at all (it is `file_redirection_concrete` with `op = .fileClobber`, whose hypothesis
    about `noclobber` is vacuous) -/
theorem noclobber_refuses_regular (w : World) (t : FdTable) (fd : Fd) (path : Nat)
    (hn : w.noclobber = true) (hp : path ≠ pathEnotdir) (hp2 : path ≠ pathSlash) (hlen : path < w.files.length)
    (hpres : (fileAt w path).present = true) (hreg : (fileAt w path).kind = .reg) :
    (∃ e, (perform worldOracle w t ⟨fd, .file .fileOut path⟩).r = .error e) ∧
    (perform worldOracle w t ⟨fd, .file .fileOut path⟩).t.limit = t.limit ∧
    ∀ fd', (perform worldOracle w t ⟨fd, .file .fileOut path⟩).t.get fd' = t.get fd' := by
  cases hr : (perform worldOracle w t ⟨fd, .file .fileOut path⟩).r with
  | ok s =>
    obtain ⟨_, _, h3⟩ := noclobber_redirection_concrete' w t fd path s hn hp hp2 hlen hr
    rcases h3 with ⟨hm, _⟩ | ⟨_, hk, _⟩
    · rw [hpres] at hm; cases hm
    · exact absurd hreg hk
  | error e => exact ⟨⟨e, rfl⟩, failed_perform_leaves_table worldOracle w t _ e hr⟩

-- non-vacuity: `>t` (a terminal device) under noclobber goes through; `>a` (regular) is refused with EEXIST
example : (perform worldOracle (stdWorld true) stdTable ⟨1, .file .fileOut 11⟩).r = .ok ⟨1, some 10⟩ ∧
    (match (perform worldOracle (stdWorld true) stdTable ⟨1, .file .fileOut 3⟩).r with
      | .error (.openFile .EEXIST) => true | _ => false) = true ∧
    (perform worldOracle (stdWorld true) stdTable ⟨1, .file .fileOut 5⟩).r = .ok ⟨1, some 10⟩ := by
  refine ⟨rfl, by decide, rfl⟩

/-! ### offsets: what is shared and what is not -/

/-- ★ the offset belongs to the open file description: a write through description `i` moves the offset of
    `i` — to the end of what it wrote, which for an appending description on a regular file starts at the
    end of the file at *every* write — and of no other description -/
theorem write_moves_only_its_description (w w1 : World) (i : Nat) (bytes : List Nat) (h : w.write i bytes = some w1) :
    (∀ j, j ≠ i → ofdAt w1 j = ofdAt w j) ∧
    (ofdAt w1 i).off =
      (if (ofdAt w i).app then (if (fileAt w (ofdAt w i).file).kind == .reg then (fileAt w (ofdAt w i).file).content.length else 0)
       else (ofdAt w i).off) + bytes.length := by
  have hi : i < w.ofds.length := by
    by_cases hi : i < w.ofds.length
    · exact hi
    · have : ofdAt w i = ⟨0, false, false, false, 0⟩ := by simp [ofdAt, Nat.not_lt.mp hi]
      simp [World.write, this] at h
  unfold World.write at h
  simp only at h
  split at h
  · cases h
  · split at h
    · cases h
    · cases h
      refine ⟨fun j hj => ?_, ?_⟩
      · simp [ofdAt, setOfd, setFile, Ne.symm hj]
      · rw [ofdAt_setOfd_same _ _ _ (by simpa [setFile] using hi)]

/-- ★ `n>&m` / `n<&m` (m ≠ n) makes `n` a second descriptor on the very open file description `m` has —
    `m` keeps it — so by `write_moves_only_its_description` the two share one offset (`exec 3>f 4>&3`) -/
theorem dup_shares_description {W : Type} (o : Oracle W) (w : W) (t : FdTable) (n m : Fd) (input : Bool) (s : SavedFd)
    (hne : m ≠ n) (h : (perform o w t ⟨n, .dup input (.fd m)⟩).r = .ok s) :
    ∃ e0, t.get m = some e0 ∧ (perform o w t ⟨n, .dup input (.fd m)⟩).t.get m = some e0 ∧
      (perform o w t ⟨n, .dup input (.fd m)⟩).t.get n = some ⟨e0.ofd, false⟩ := by
  have hm := perform_meaning_lemma o w t ⟨n, .dup input (.fd m)⟩ s h
  simp only [Meaning] at hm
  obtain ⟨e0, hg0, hafter, _⟩ := hm
  refine ⟨e0, hg0, ?_, hafter⟩
  rw [perform_frame o w t _ s h m hne]
  · exact hg0
  · intro hsv
    rcases perform_spec o w t ⟨n, .dup input (.fd m)⟩ with ⟨s', hs', hok⟩ | ⟨e', he', _⟩
    · rw [h] at hs'; cases hs'
      obtain ⟨_, _, _, hfree, _, _⟩ := hok.some_case m hsv
      rw [hg0] at hfree; cases hfree
    · rw [h] at he'; cases he'

/-- ★ … whereas opening a file gives a description no other descriptor has: after a successful file
    redirection (any operator, `noclobber` or not) in a world/table pair that is `Bounded`, no other
    descriptor of the table refers to the target's description — a file opened twice (`3>f 4>f`) has two
    independent offsets -/
theorem open_gives_fresh_description (w : World) (t : FdTable) (fd : Fd) (op : FileOp) (path : Nat) (s : SavedFd)
    (hb : Bounded w t) (h : (perform worldOracle w t ⟨fd, .file op path⟩).r = .ok s) :
    ∃ ofd, (perform worldOracle w t ⟨fd, .file op path⟩).t.get fd = some ⟨ofd, false⟩ ∧
      ∀ fd' e', fd' ≠ fd → (perform worldOracle w t ⟨fd, .file op path⟩).t.get fd' = some e' → e'.ofd ≠ ofd := by
  obtain ⟨w0, w1, args, ofd, hq0, hq1, hres, hget, _, _⟩ :=
    perform_file_resolved worldOracle_stable w t fd op path s (.file op path) (.inl rfl) h
  obtain ⟨hofd, _⟩ := World.resolve_ok w1 _ _ ofd hres
  have hge : w.ofds.length ≤ ofd := by rw [hofd]; exact Nat.le_trans hq0.2.2.2.1 hq1.2.2.2.1
  refine ⟨ofd, hget, fun fd' e' hne hg' heq => ?_⟩
  have hold : ∃ fd0 e0, t.get fd0 = some e0 ∧ e0.ofd = e'.ofd := by
    rcases perform_spec worldOracle w t ⟨fd, .file op path⟩ with ⟨s', hs', hok⟩ | ⟨e, he, _⟩
    · rw [h] at hs'; cases hs'
      cases hsv : s.save with
      | none =>
        obtain ⟨_, hch⟩ := hok.none_case hsv
        rw [hch.frame fd' hne] at hg'
        exact ⟨fd', e', hg', rfl⟩
      | some sv =>
        obtain ⟨e0, hg0, _, _, _, hch⟩ := hok.some_case sv hsv
        rw [hch.frame fd' hne, FdTable.get_put] at hg'
        split at hg'
        · cases hg'; exact ⟨fd, e0, hg0, rfl⟩
        · exact ⟨fd', e', hg', rfl⟩
    · rw [h] at he; cases he
  obtain ⟨fd0, e0, hg0, he0⟩ := hold
  have := hb fd0 e0 hg0
  omega

-- non-vacuity: `3>b 4>&3 5>b`: 3 and 4 share a description, 5 has its own
example :
    let g := performRedirs worldOracle (stdWorld false) stdTable
      [⟨3, .file .fileOut 4⟩, ⟨4, .dup false (.fd 3)⟩, ⟨5, .file .fileOut 4⟩];
    g.err = none ∧ (g.t.get 3).map (·.ofd) = (g.t.get 4).map (·.ofd) ∧ (g.t.get 3).map (·.ofd) ≠ (g.t.get 5).map (·.ofd) := by
  decide

/-! ### file contents when a redirection fails -/

theorem sysOpen_err_files (w : World) (t : FdTable) (req : OpenReq) (w' : World) (t' : FdTable) (e : Errno)
    (h : sysOpen worldOracle w t req = (w', t', .error e)) : w'.files = w.files := by
  obtain ⟨_, hc⟩ := sysOpen_err worldOracle w t req w' t' e h
  rcases hc with ⟨rfl, _⟩ | hr
  · rfl
  · have : w' = (World.deny w).1 := World.resolve_err_world _ _ _ _ hr
    rw [this]; rfl

theorem openFile_err_files (w : World) (t : FdTable) (args : OpenArgs) (path : Nat) (e : ErrCause)
    (h : (openFile worldOracle w t args path).r = .error e) : (openFile worldOracle w t args path).w.files = w.files := by
  unfold openFile at h ⊢
  rcases hs : sysOpen worldOracle w t ⟨path, args⟩ with ⟨w1, t1, r1⟩
  rw [hs] at h
  cases r1 with
  | ok fd => cases h
  | error e1 => exact sysOpen_err_files w t _ w1 t1 e1 hs

theorem openFileNoclobber_err_files (w : World) (t : FdTable) (path : Nat) (e : ErrCause)
    (h : (openFileNoclobber worldOracle w t path).r = .error e) :
    (openFileNoclobber worldOracle w t path).w.files = w.files := by
  unfold openFileNoclobber at h ⊢
  rcases hs : sysOpen worldOracle w t ⟨path, flagsExcl⟩ with ⟨w1, t1, r1⟩
  rw [hs] at h
  cases r1 with
  | ok fd => cases h
  | error e1 =>
    have h1 := sysOpen_err_files w t _ w1 t1 e1 hs
    simp only at h ⊢
    by_cases he : e1 = .EEXIST
    · subst he
      simp only [ne_eq, not_true_eq_false, ↓reduceIte] at h ⊢
      obtain ⟨_, hfirst⟩ := sysOpen_err worldOracle w t _ w1 t1 _ hs
      have hpres : (fileAt w path).present = true := by
        rcases hfirst with ⟨_, h2⟩ | h2
        · cases h2
        · exact World.resolve_eexist_present (World.deny w).1 _ ⟨path, flagsExcl⟩ h2
      rcases hs2 : sysOpen worldOracle w1 t1 ⟨path, flagsPlainWrite⟩ with ⟨w2, t2, r2⟩
      cases r2 with
      | error e2 =>
        have h2 := sysOpen_err_files w1 t1 _ w2 t2 e2 hs2
        simp only
        split <;> (simp only; rw [h2, h1])
      | ok fd =>
        obtain ⟨ofd, hres, _⟩ := sysOpen_ok worldOracle w1 t1 _ w2 t2 fd hs2
        have hf : w2.files = (World.deny w1).1.files :=
          World.resolve_ok_files_notrunc (World.deny w1).1 w2 ⟨path, flagsPlainWrite⟩ ofd
            (by rw [fileAt_congr (show (World.deny w1).1.files = w.files from h1) path]; exact hpres)
            (by show flagsPlainWrite.trunc = false; decide) hres
        simp only
        split <;> (simp only; rw [hf]; exact h1)
    · simp only [ne_eq, he, not_false_eq_true, ↓reduceIte]; exact h1

/-- ★ a redirection whose *opening step* fails has changed no file: every file-system effect of a
    redirection (creation, truncation) happens in the `open` that succeeds — a failing `open` (ENOENT,
    EISDIR, ENOTDIR, EMFILE, the EEXIST of `noclobber` incl. its second open of a regular file), a refused
    `<&`/`>&`, an unsupported operator, a failing expansion leave every named file as it was; a
    here-document that cannot get its descriptor leaves only its (unnamed) temporary file behind -/
theorem failing_open_changes_no_file (w : World) (t : FdTable) (b : Body) (e : ErrCause)
    (h : (prepare worldOracle w t b).r = .error e) :
    ∀ i, i < w.files.length → fileAt (prepare worldOracle w t b).w i = fileAt w i := by
  have key : ∀ op path (w0 : World), w0.files = w.files →
      (openNormalFile worldOracle w0 t op path).r = .error e →
      (openNormalFile worldOracle w0 t op path).w.files = w.files := by
    intro op path w0 hw0 h
    rw [← hw0]
    unfold openNormalFile at h ⊢
    cases op <;> simp only at h ⊢
    · exact openFile_err_files _ _ _ _ e h
    · split at h
      · rename_i hn; rw [if_pos hn]; exact openFileNoclobber_err_files _ _ _ e h
      · rename_i hn; rw [if_neg hn]; exact openFile_err_files _ _ _ _ e h
    · exact openFile_err_files _ _ _ _ e h
    · exact openFile_err_files _ _ _ _ e h
    · exact openFile_err_files _ _ _ _ e h
  intro i hi
  cases b with
  | file op path => exact fileAt_congr (key op path w rfl h) i
  | fileCs op path st =>
    simp only [prepare] at h ⊢
    by_cases hc : (pipeAvailable worldOracle w t).2 = true
    · rw [if_pos hc] at h ⊢; exact fileAt_congr (key op path (pipeAvailable worldOracle w t).1 rfl h) i
    · rw [if_neg hc]; rfl
  | dup input src =>
    have := prepare_inv worldOracle_stable w t (.dup input src)
    simp only [prepare, copyFd] at h ⊢
    cases src <;> simp only <;> (try rfl)
    split
    · rfl
    · simp only [ite_w]; repeat' split
      all_goals rfl
  | hereDoc c =>
    simp only [prepare, hereDocFd, allocLowest] at h ⊢
    have hfiles : ∀ w2 : World, w2.files = w.files ++ [⟨true, .reg, [], false⟩] → fileAt w2 i = fileAt w i := by
      intro w2 h2; simp [fileAt, h2, List.getElem?_append_left hi]
    have hfill : ∀ (w2 : World) (ofd : Nat), (World.fill w2 ofd c).2 = false → (World.fill w2 ofd c).1 = w2 := by
      intro w2 ofd hf
      unfold World.fill at hf ⊢
      split
      · rename_i w1 hw; rw [hw] at hf; cases hf
      · rfl
    cases ha : t.openFdGe 0 { ofd := (worldOracle.tmpfile w).2, cloexec := hereDocCloexec }
        (worldOracle.deny (worldOracle.tmpfile w).1).2 with
    | none => exact hfiles _ rfl
    | some p =>
      obtain ⟨fd, t'⟩ := p
      simp only [ha] at h ⊢
      by_cases hf : (worldOracle.fill (worldOracle.deny (worldOracle.tmpfile w).1).1 (worldOracle.tmpfile w).2 c).2 = true
      · rw [if_pos hf] at h; cases h
      · rw [if_neg hf]
        simp only
        have hf' : (World.fill (World.deny (World.tmpfile w).1).1 (World.tmpfile w).2 c).2 = false := by
          have : (worldOracle.fill (worldOracle.deny (worldOracle.tmpfile w).1).1 (worldOracle.tmpfile w).2 c).2 = false := by
            simpa using hf
          exact this
        show fileAt (World.fill (World.deny (World.tmpfile w).1).1 (World.tmpfile w).2 c).1 i = _
        rw [hfill _ _ hf']
        exact hfiles _ rfl
  | unsupported => rfl
  | expErr => rfl
  | nulPath => rfl

/-- the general claim "a failing redirection changes no file" is FALSE, in the model as in the code (and in
    every shell that opens before it duplicates): `12>a` under a soft limit of 11 opens — and truncates —
    `a` on descriptor 3, then `dup2(3, 12)` is refused (EBADF), descriptor 3 is closed, the redirection fails
    with `FdNotOverwritten`, the table is what it was, and `a` is empty -/
theorem failed_dup2_after_open_has_truncated :
    let t : FdTable := { stdTable with limit := some 11 }
    let r := perform worldOracle (stdWorld false) t ⟨12, .file .fileOut 3⟩
    (match r.r with | .error (.fdNotOverwritten 12 .EBADF) => true | _ => false) = true ∧
    (fileAt r.w 3).content = [] ∧ (fileAt (stdWorld false) 3).content = [1, 2] ∧ r.t.openFds = t.openFds := by decide

/-! ### a pathname with a trailing slash -/

/-- ★ `resolve_file` on a pathname with a trailing slash whose last component does not exist: EISDIR when
    asked to create it (`>q/`, `>|q/`, `>>q/`, `<>q/`, and the exclusive creation of `noclobber`), ENOENT
    otherwise (`<q/`) — never a descriptor, never a change of the world; hence no redirection to it
    succeeds, whatever the operator, the table, the limit and the `noclobber` option -/
theorem trailing_slash_never_opens (w : World) (t : FdTable) (fd : Fd) (op : FileOp) (args : OpenArgs) :
    w.resolve ⟨pathSlash, args⟩ = (w, .error (if args.create then .EISDIR else .ENOENT)) ∧
    ∃ e, (perform worldOracle w t ⟨fd, .file op pathSlash⟩).r = .error e := by
  refine ⟨by simp [World.resolve, pathSlash, pathEnotdir], ?_⟩
  cases hr : (perform worldOracle w t ⟨fd, .file op pathSlash⟩).r with
  | error e => exact ⟨e, rfl⟩
  | ok s =>
    obtain ⟨w0, w1, a, ofd, _, _, hres, _, _, _⟩ :=
      perform_file_resolved worldOracle_stable w t fd op pathSlash s (.file op pathSlash) (.inl rfl) hr
    have : w1.resolve ⟨pathSlash, a⟩ = (w1, .error (if a.create then .EISDIR else .ENOENT)) := by
      simp [World.resolve, pathSlash, pathEnotdir]
    rw [show worldOracle.resolve w1 ⟨pathSlash, a⟩ = w1.resolve ⟨pathSlash, a⟩ from rfl, this] at hres
    exact absurd (congrArg Prod.snd hres) (by simp)

-- the error classes: `>q/` EISDIR, `<q/` ENOENT, `>q/` under noclobber EISDIR (from the exclusive open)
example :
    (match (perform worldOracle (stdWorld false) stdTable ⟨1, .file .fileOut 12⟩).r with | .error (.openFile .EISDIR) => true | _ => false) = true ∧
    (match (perform worldOracle (stdWorld false) stdTable ⟨0, .file .fileIn 12⟩).r with | .error (.openFile .ENOENT) => true | _ => false) = true ∧
    (match (perform worldOracle (stdWorld true) stdTable ⟨1, .file .fileOut 12⟩).r with | .error (.openFile .EISDIR) => true | _ => false) = true := by
  decide

/-! ### exit status of a command substitution in an operand -/

/-- `perform_redirs`' `Option<ExitStatus>` on a list that went through is that of the LAST item whose
    operand contains a command substitution (an item without one leaves it alone) -/
theorem csStatus_snoc (rs : List Redir) (r : Redir) : csStatus (rs ++ [r]) = r.body.csStatus.or (csStatus rs) := by
  induction rs with
  | nil => simp [csStatus]
  | cons a rs ih =>
    simp only [List.cons_append, csStatus, ih]
    cases r.body.csStatus <;> cases csStatus rs <;> cases a.body.csStatus <;> rfl

/-- ★ a command without a command word (`>$(exit 3; echo f)`, `v=2 >$(…)`) whose redirections all succeed
    exits with the status of the last command substitution in its operands — 0 when there is none —
    and, like every such command, leaves the table alone (`command_restores`) -/
theorem absent_command_status (w : World) (t : FdTable) (k : Kind) (rs : List Redir) (prev : Nat)
    (hk : k = .empty ∨ k = .assign) (hne : rs ≠ []) (he : (performRedirs worldOracle w t rs).err = none) :
    (runCommand w t k rs prev).status = some ((csStatus rs).getD 0) ∧ (runCommand w t k rs prev).exited = none := by
  have hemp : rs.isEmpty = false := by cases rs with | nil => exact absurd rfl hne | cons _ _ => rfl
  rcases hk with rfl | rfl <;> simp [runCommand, hemp, he]

-- non-vacuity: `>$(echo /tmp/a; exit 3) 2>$(echo /tmp/m; exit 5)` exits with 5; with a plain third item still 5
example : (runCommand (stdWorld false) stdTable .empty [⟨1, .fileCs .fileOut 3 3⟩, ⟨2, .fileCs .fileOut 5 5⟩]).status = some 5 ∧
    csStatus [⟨1, .fileCs .fileOut 3 3⟩, ⟨2, .fileCs .fileOut 5 5⟩, ⟨0, .file .fileIn 3⟩] = some 5 := by decide

end YashModel.Redir
