/-
  C09 helper lemmas, part 9: the executable checks of Spec.lean (`noExtraInternal`, `noLowCloexec`,
  `internalOk`) as declarative statements about the finite maps, and what a trace of `runCommand`
  carries in its `saved` / `script` / `steps` fields.
-/
import YashModel.Redir.EndToEnd
namespace YashModel.Redir
open YashModel.Generated.RedirConsts

theorem openFds_go_mem (l : List (Option FdEntry)) (i : Nat) (fd : Nat) (e : FdEntry) :
    (fd, e) ∈ FdTable.openFds.go l i ↔ ∃ j, fd = i + j ∧ getAt l j = some e := by
  induction l generalizing i with
  | nil => simp [FdTable.openFds.go, getAt_nil]
  | cons a r ih =>
    cases a with
    | none =>
      simp only [FdTable.openFds.go, ih]
      constructor
      · rintro ⟨j, h1, h2⟩; exact ⟨j+1, by omega, by simpa [getAt] using h2⟩
      · rintro ⟨j, h1, h2⟩
        cases j with
        | zero => simp [getAt] at h2
        | succ j => exact ⟨j, by omega, by simpa [getAt] using h2⟩
    | some e0 =>
      simp only [FdTable.openFds.go, List.mem_cons, ih]
      constructor
      · rintro (h | ⟨j, h1, h2⟩)
        · cases h; exact ⟨0, rfl, rfl⟩
        · exact ⟨j+1, by omega, by simpa [getAt] using h2⟩
      · rintro ⟨j, h1, h2⟩
        cases j with
        | zero => left; simp only [getAt, Option.some.injEq] at h2; simp [h1, h2]
        | succ j => right; exact ⟨j, by omega, by simpa [getAt] using h2⟩

/-- `openFds` lists exactly the graph of the finite map -/
theorem mem_openFds (t : FdTable) (fd : Fd) (e : FdEntry) : (fd, e) ∈ t.openFds ↔ t.get fd = some e := by
  unfold FdTable.openFds FdTable.get
  rw [openFds_go_mem]
  constructor
  · rintro ⟨j, h1, h2⟩; rw [h1, Nat.zero_add]; exact h2
  · intro h; exact ⟨fd, by omega, h⟩

theorem noLowCloexec_iff' (before t : FdTable) :
    noLowCloexec before t = true ↔
      ∀ fd e, t.get fd = some e → fd < 10 → e.cloexec = true → before.get fd = some e := by
  unfold noLowCloexec
  rw [List.all_eq_true]
  constructor
  · intro h fd e hg hlt hc
    have := h (fd, e) ((mem_openFds t fd e).mpr hg)
    simpa [hlt, hc] using this
  · rintro h ⟨fd, e⟩ hm
    have hg := (mem_openFds t fd e).mp hm
    by_cases hlt : fd < 10
    · cases hc : e.cloexec with
      | false => simp [hc]
      | true => simp [h fd e hg hlt hc]
    · simp [hlt]

theorem internalOk_iff' (t : FdTable) (saved : List SavedFd) :
    internalOk t saved = true ↔ ∀ s ∈ saved, ∀ sv, s.save = some sv → 10 ≤ sv ∧ t.isCloexec sv = true := by
  unfold internalOk
  rw [List.all_eq_true]
  constructor
  · intro h s hs sv hsv
    have := h s hs
    simpa [hsv] using this
  · intro h s hs
    cases hsv : s.save with
    | none => rfl
    | some sv => simpa using h s hs sv hsv

theorem noExtraInternal_iff' (before after : FdTable) (allowed : List Fd) :
    noExtraInternal before after allowed = true ↔
      ∀ fd e, after.get fd = some e → fd < 10 ∨ (before.get fd).isSome = true ∨ fd ∈ allowed := by
  unfold noExtraInternal
  rw [List.all_eq_true]
  constructor
  · intro h fd e hg
    have := h (fd, e) ((mem_openFds after fd e).mpr hg)
    simpa [or_assoc] using this
  · rintro h ⟨fd, e⟩ hm
    have := h fd e ((mem_openFds after fd e).mp hm)
    simpa [or_assoc] using this

/-! ### what the trace carries -/

theorem runCommand_during_saved (w : World) (t : FdTable) (k : Kind) (rs : List Redir) (prev : Nat)
    (wd : World) (td : FdTable) (h : (runCommand w t k rs prev).during = some (wd, td)) :
    (runCommand w t k rs prev).saved = (performRedirs worldOracle w t rs).saved ∧
    ((td = (performRedirs worldOracle w t rs).t ∧ (runCommand w t k rs prev).script = none) ∨
     ∃ p n, (openScript worldOracle (performRedirs worldOracle w t rs).w (performRedirs worldOracle w t rs).t p).2.2 = some n ∧
       td = (openScript worldOracle (performRedirs worldOracle w t rs).w (performRedirs worldOracle w t rs).t p).2.1 ∧
       (runCommand w t k rs prev).script = some n) := by
  unfold runCommand at h ⊢
  cases k <;> simp only at h ⊢ <;> (repeat' split at h) <;> simp_all
  all_goals exact ⟨_, by assumption, h.2.symm⟩

theorem runCommand_steps_saved (w : World) (t : FdTable) (k : Kind) (rs : List Redir) (prev : Nat)
    (steps : List (World × FdTable)) (cause : Option ErrCause)
    (h : (runCommand w t k rs prev).steps = some (steps, cause)) :
    (runCommand w t k rs prev).saved = (performRedirs worldOracle w t rs).saved := by
  unfold runCommand at h ⊢
  cases k <;> simp only at h ⊢ <;> (repeat' split at h) <;> simp_all

/-- the Spec column's "persists" test (exec family and neither `$?` nor the exit status is 2) holds
    exactly when the kind retains its redirections and every one of them succeeded -/
theorem persists_iff (w : World) (t : FdTable) (k : Kind) (rs : List Redir) (prev : Nat) :
    (k.isExec && (runCommand w t k rs prev).status != some 2 && (runCommand w t k rs prev).exited != some 2) =
      (k.isExec && (performRedirs worldOracle w t rs).err.isNone) := by
  unfold runCommand
  cases k <;> simp only [Kind.isExec, Bool.false_and, Bool.true_and] <;>
    cases he : (performRedirs worldOracle w t rs).err <;> simp [endOrGoOn, Kind.isSpecial] <;>
    (repeat' split) <;> (try simp_all)

/-! ### each check of `specVerdict` on the model's own run -/

variable {W : Type}

/-- in the redirected table (any prefix, any oracle) a CLOEXEC descriptor below 10 is one that was
    there, unchanged, before the list started -/
theorem low_cloexec_performRedirs (o : Oracle W) (w : W) (t : FdTable) (rs : List Redir) (fd : Fd) (e : FdEntry)
    (hg : (performRedirs o w t rs).t.get fd = some e) (hlt : fd < 10) (hc : e.cloexec = true) :
    t.get fd = some e := by
  have hcl : (performRedirs o w t rs).t.isCloexec fd = true := by rw [isCloexec_of_get hg]; exact hc
  rcases internal_only o w t rs fd hcl with h1 | ⟨s, hs, hsv⟩
  · rw [← cloexec_untouched o w t rs fd h1]; exact hg
  · exact absurd (internal_fds o w t rs s hs fd hsv).1 (Nat.not_le.mpr hlt)

theorem check_noLowCloexec_after (w : World) (t : FdTable) (k : Kind) (rs : List Redir) (prev : Nat) (hw : WF t) :
    noLowCloexec t (runCommand w t k rs prev).t = true := by
  rw [noLowCloexec_iff']
  intro fd e hg hlt hc
  by_cases hx : k.isExec = true ∧ (performRedirs worldOracle w t rs).err = none
  · rw [exec_persists w t k rs prev hx.1 hx.2] at hg
    rw [(preserve_keeps_targets worldOracle w t rs).2.2.1 fd (by show fd < 10; exact hlt)] at hg
    exact low_cloexec_performRedirs worldOracle w t rs fd e hg hlt hc
  · rw [← (command_restores w t k rs prev hw (fun hk he => hx ⟨hk, he⟩)).2 fd]; exact hg

theorem check_noExtraInternal (w : World) (t : FdTable) (k : Kind) (rs : List Redir) (prev : Nat) (hw : WF t) :
    noExtraInternal t (runCommand w t k rs prev).t
      (if (k.isExec && (performRedirs worldOracle w t rs).err.isNone) = true then rs.map (·.fd) else []) = true := by
  rw [noExtraInternal_iff']
  intro fd e hg
  by_cases hx : k.isExec = true ∧ (performRedirs worldOracle w t rs).err = none
  · have hP : (k.isExec && (performRedirs worldOracle w t rs).err.isNone) = true := by simp [hx.1, hx.2]
    rw [if_pos hP]
    rw [exec_persists w t k rs prev hx.1 hx.2] at hg
    by_cases htar : ∃ r ∈ rs, r.fd = fd
    · obtain ⟨r, hr, hrf⟩ := htar
      exact .inr (.inr (List.mem_map.mpr ⟨r, hr, hrf⟩))
    · by_cases hsave : ∃ s ∈ (performRedirs worldOracle w t rs).saved, s.save = some fd
      · rw [preserveRedirs_save _ _ _ hsave] at hg; cases hg
      · have hns : ∀ s ∈ (performRedirs worldOracle w t rs).saved, s.save ≠ some fd :=
          fun s hs he => hsave ⟨s, hs, he⟩
        rw [preserveRedirs_not_save _ _ _ hns,
          performRedirs_frame worldOracle w t rs fd (fun r hr he => htar ⟨r, hr, he⟩) hns] at hg
        exact .inr (.inl (by rw [hg]; rfl))
  · have hr := (command_restores w t k rs prev hw (fun hk he => hx ⟨hk, he⟩)).2 fd
    rw [hr] at hg
    exact .inr (.inl (by rw [hg]; rfl))

theorem check_steps_noLowCloexec (w : World) (t : FdTable) (k : Kind) (rs : List Redir) (prev : Nat)
    (steps : List (World × FdTable)) (cause : Option ErrCause)
    (h : (runCommand w t k rs prev).steps = some (steps, cause)) :
    (steps.all fun (_, td) => noLowCloexec t td) = true := by
  obtain ⟨hs, _⟩ := runCommand_steps w t k rs prev steps cause h
  rw [List.all_eq_true]
  rintro ⟨ws, td⟩ hp
  rw [hs] at hp
  obtain ⟨i, hi⟩ := List.getElem?_of_mem hp
  obtain ⟨_, hpe⟩ := performSteps_prefix worldOracle w t rs i _ hi
  simp only [Prod.mk.injEq] at hpe
  simp only
  rw [hpe.2, noLowCloexec_iff']
  exact fun fd e hg hlt hc => low_cloexec_performRedirs worldOracle w t _ fd e hg hlt hc

theorem check_steps_internalOk (w : World) (t : FdTable) (k : Kind) (rs : List Redir) (prev : Nat)
    (steps : List (World × FdTable)) (h : (runCommand w t k rs prev).steps = some (steps, none)) :
    (match steps.getLast? with
      | some (_, td) => internalOk td (runCommand w t k rs prev).saved
      | none => true) = true := by
  obtain ⟨hs, _⟩ := runCommand_steps w t k rs prev steps none h
  rw [runCommand_steps_saved w t k rs prev steps none h, hs]
  by_cases hne : rs = []
  · subst hne; rfl
  · rw [performSteps_last worldOracle w t rs hne]
    simp only
    rw [internalOk_iff']
    intro s hs' sv hsv
    obtain ⟨h1, _, h3⟩ := internal_fds worldOracle w t rs s hs' sv hsv
    exact ⟨h1, h3⟩

theorem check_during (w : World) (t : FdTable) (k : Kind) (rs : List Redir) (prev : Nat)
    (wd : World) (td : FdTable) (h : (runCommand w t k rs prev).during = some (wd, td)) :
    internalOk td ((runCommand w t k rs prev).saved ++ [⟨0, (runCommand w t k rs prev).script⟩]) = true ∧
    noLowCloexec t td = true := by
  obtain ⟨hsaved, hcase⟩ := runCommand_during_saved w t k rs prev wd td h
  rw [hsaved, internalOk_iff', noLowCloexec_iff']
  rcases hcase with ⟨htd, hscr⟩ | ⟨p, n, hn, htd, hscr⟩
  · rw [hscr, htd]
    refine ⟨fun s hs sv hsv => ?_, fun fd e hg hlt hc => low_cloexec_performRedirs worldOracle w t rs fd e hg hlt hc⟩
    rcases List.mem_append.mp hs with hs | hs
    · obtain ⟨h1, _, h3⟩ := internal_fds worldOracle w t rs s hs sv hsv
      exact ⟨h1, h3⟩
    · simp only [List.mem_singleton] at hs; subst hs; cases hsv
  · obtain ⟨_, _, hS⟩ := openScript_spec worldOracle (performRedirs worldOracle w t rs).w
      (performRedirs worldOracle w t rs).t p
    obtain ⟨hge, hfree, hcl, hframe⟩ := hS n hn
    have hge10 : 10 ≤ n := hge
    rw [hscr, htd]
    refine ⟨fun s hs sv hsv => ?_, fun fd e hg hlt hc => ?_⟩
    · rcases List.mem_append.mp hs with hs | hs
      · obtain ⟨h1, _, h3⟩ := internal_fds worldOracle w t rs s hs sv hsv
        have hne : sv ≠ n := by
          intro heq; rw [heq, isCloexec_of_none hfree] at h3; cases h3
        exact ⟨h1, by rw [isCloexec_congr (hframe sv hne)]; exact h3⟩
      · simp only [List.mem_singleton] at hs; subst hs
        simp only [Option.some.injEq] at hsv; subst hsv
        exact ⟨hge10, hcl⟩
    · have hne : fd ≠ n := fun heq => absurd hge10 (Nat.not_le.mpr (heq ▸ hlt))
      rw [hframe fd hne] at hg
      exact low_cloexec_performRedirs worldOracle w t rs fd e hg hlt hc

/-- the checks after the table checks: every step, the last step of a successful guard run, the body -/
theorem spec_tail_ok (w : World) (t : FdTable) (k : Kind) (rs : List Redir) (prev : Nat) :
    (if !(match (runCommand w t k rs prev).steps with
        | some (steps, _) => steps.all fun (_, td) => noLowCloexec t td
        | none => true) then "FAIL:cloexec-below-10-after-a-step"
    else if !(match (runCommand w t k rs prev).steps with
        | some (steps, none) => (match steps.getLast? with
            | some (_, td) => internalOk td (runCommand w t k rs prev).saved
            | none => true)
        | _ => true) then "FAIL:internal-descriptor-of-the-guard"
    else match (runCommand w t k rs prev).during with
      | some (_, td) =>
        if !internalOk td ((runCommand w t k rs prev).saved ++ [⟨0, (runCommand w t k rs prev).script⟩]) then
          "FAIL:internal-descriptor"
        else if !noLowCloexec t td then "FAIL:cloexec-below-10-visible"
        else "ok"
      | none => "ok") = "ok" := by
  have h1 : (match (runCommand w t k rs prev).steps with
        | some (steps, _) => steps.all fun (_, td) => noLowCloexec t td
        | none => true) = true := by
    cases hs : (runCommand w t k rs prev).steps with
    | none => rfl
    | some p => obtain ⟨steps, cause⟩ := p; exact check_steps_noLowCloexec w t k rs prev steps cause hs
  have h2 : (match (runCommand w t k rs prev).steps with
        | some (steps, none) => (match steps.getLast? with
            | some (_, td) => internalOk td (runCommand w t k rs prev).saved
            | none => true)
        | _ => true) = true := by
    cases hs : (runCommand w t k rs prev).steps with
    | none => rfl
    | some p =>
      obtain ⟨steps, cause⟩ := p
      cases cause with
      | some c => rfl
      | none => exact check_steps_internalOk w t k rs prev steps hs
  rw [h1, h2]
  simp only [Bool.not_true, Bool.false_eq_true, ↓reduceIte]
  cases hd : (runCommand w t k rs prev).during with
  | none => rfl
  | some p =>
    obtain ⟨wd, td⟩ := p
    obtain ⟨c7a, c7b⟩ := check_during w t k rs prev wd td hd
    simp only [c7a, c7b, Bool.not_true, Bool.false_eq_true, ↓reduceIte]

end YashModel.Redir
