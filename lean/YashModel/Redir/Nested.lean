/-
  C09 — a command with redirections *inside* a command with redirections: two `RedirGuard`s alive at
  the same time (`FullCompoundCommand::execute` / `execute_function` for the outer one, any simple
  command for the inner one), e.g. `{ fds 0<a 1>&2; } 1>m 2>&1` or `h() { exec 3>b; }; h 1>a`.

  The outer guard performs its list on the table the shell has; the inner command then runs as any
  command does (`runCommand`) on the *redirected* table; when it is done the outer guard undoes its
  list from whatever table the inner command left — which is the redirected table again, unless the
  inner command is `exec`, whose redirections persist past the inner command (but whatever they did
  to a target of the outer list is undone with the outer list).

  In an interactive shell an inner command that ends in `Divert::Interrupt` (`interrupts`) skips the rest
  of the outer body; the tables are the same (the outer guard is dropped, undoing its list), only the
  second look at the table inside the body does not happen.

  Import-free (apart from the model itself) and executable: the driver runs scripts of `Cmd`s.
-/
import YashModel.Redir.Spec
namespace YashModel.Redir

/-- one top-level command of a driver script -/
inductive Cmd where
  /-- a command of kind `k` carrying the list `rs` -/
  | plain (k : Kind) (rs : List Redir)
  /-- `{ CMD inner…; } outer…` (or a function whose body is that): `ki` is the kind of the inner command -/
  | nested (outer : List Redir) (ki : Kind) (inner : List Redir)
  /-- the harness's `put FD B` (`wr`: one byte `arg` written through descriptor `fd`) / `get FD N` (up to `arg`
      bytes read through `fd`): a regular built-in carrying the list `rs`, acting on an ARBITRARY descriptor -/
  | io (wr : Bool) (fd : Fd) (arg : Nat) (rs : List Redir)

/-- what `put` / `get` report -/
inductive IoRes where
  | wrote (ok : Bool)
  | got (r : Option (List Nat)) (tainted : Bool)
  deriving DecidableEq, Repr

structure CmdTrace where
  tr : Trace
  /-- nested command whose own (outer) redirections all succeeded: the world and table the inner
      command found, and the inner command's trace -/
  inner : Option (World × FdTable × Trace) := none
  /-- the inner command ended in an interrupt the interactive shell recovers from at the top level -/
  innerInterrupted : Bool := false
  /-- `put` / `get`: what the built-in reported -/
  io : Option IoRes := none

/-- does the command end in a `Divert::Interrupt` that an interactive shell recovers from at the top
    level only — a redirection error on a special built-in, a failing expansion in an operand, a usage
    error of `exec`, a `.` script that cannot be opened?  Inside a compound command or function body the
    rest of the body is then skipped (the outer guard is dropped on the way out, undoing its list). -/
def interrupts (w : World) (t : FdTable) (k : Kind) (rs : List Redir) : Bool :=
  w.interactive && k != .empty && k != .assign && k != .guardUndo && k != .guardKeep &&
  (match (performRedirs worldOracle w t rs).err with
   | some e => k.isSpecial || e == .expansion
   | none => k == .execBadOption ||
       ((k == .dot || k == .dotMissing) &&
         (openScript worldOracle (performRedirs worldOracle w t rs).w (performRedirs worldOracle w t rs).t
           (if k == .dot then 10 else pathEnotdir)).2.2.isNone))

/-- `FullCompoundCommand::execute` (or `execute_function`) around a body that is itself a command with
    redirections.  A failing outer list is what it is for `{ }`.  Otherwise the inner command runs on
    the redirected table; if the shell ends inside it (error of a special built-in, failing expansion,
    `exec` of something that cannot be invoked) the outer guard is dropped on the way out, which undoes
    its list; otherwise the outer list is undone when the compound command is done.  The exit status
    is the inner command's. -/
def runNested (w : World) (t : FdTable) (outer : List Redir) (ki : Kind) (inner : List Redir) (prev : Nat := 0) :
    CmdTrace :=
  if (performRedirs worldOracle w t outer).err.isSome then { tr := runCommand w t .brace outer prev } else
  { tr := { w := (runCommand (performRedirs worldOracle w t outer).w (performRedirs worldOracle w t outer).t ki inner prev).w,
            t := undoRedirs
                   (runCommand (performRedirs worldOracle w t outer).w (performRedirs worldOracle w t outer).t ki inner prev).t
                   (performRedirs worldOracle w t outer).saved,
            status := (runCommand (performRedirs worldOracle w t outer).w (performRedirs worldOracle w t outer).t ki inner prev).status,
            exited := (runCommand (performRedirs worldOracle w t outer).w (performRedirs worldOracle w t outer).t ki inner prev).exited,
            saved := (performRedirs worldOracle w t outer).saved },
    inner := some ((performRedirs worldOracle w t outer).w, (performRedirs worldOracle w t outer).t,
                   runCommand (performRedirs worldOracle w t outer).w (performRedirs worldOracle w t outer).t ki inner prev),
    innerInterrupted := interrupts (performRedirs worldOracle w t outer).w (performRedirs worldOracle w t outer).t ki inner }

/-- the body of `put` / `get`: a write of the one byte `arg` / a read of up to `arg` bytes through whatever open
    file description descriptor `fd` refers to in the table the built-in sees (`OpenFileDescription::write` /
    `read`: the offset is the description's, an appending description writes at the end of the file) -/
def ioBody (w : World) (t : FdTable) (wr : Bool) (fd : Fd) (arg : Nat) : World × IoRes :=
  match t.get fd with
  | none => (w, if wr then .wrote false else .got none false)
  | some e =>
    if wr then
      match w.write e.ofd [arg] with
      | some w1 => (w1, .wrote true)
      | none => (w, .wrote false)
    else
      match w.read e.ofd arg with
      | some (w1, bs) => (w1, .got (some bs) (fileAt w (ofdAt w e.ofd).file).tainted)
      | none => (w, .got none (fileAt w (ofdAt w e.ofd).file).tainted)

def IoRes.status : IoRes → Nat
  | .wrote true => 0
  | .got (some _) _ => 0
  | _ => 1

/-- `put` / `get` as a command: a regular built-in (`execute_builtin`): a failing list is what it is for every
    regular built-in (the body does not run); otherwise the body acts on the redirected table and the list is undone -/
def runIO (w : World) (t : FdTable) (wr : Bool) (fd : Fd) (arg : Nat) (rs : List Redir) (prev : Nat := 0) : CmdTrace :=
  if (performRedirs worldOracle w t rs).err.isSome then { tr := runCommand w t .regular rs prev } else
  { tr := { w := (ioBody (performRedirs worldOracle w t rs).w (performRedirs worldOracle w t rs).t wr fd arg).1,
            t := undoRedirs (performRedirs worldOracle w t rs).t (performRedirs worldOracle w t rs).saved,
            status := some (ioBody (performRedirs worldOracle w t rs).w (performRedirs worldOracle w t rs).t wr fd arg).2.status,
            saved := (performRedirs worldOracle w t rs).saved,
            during := some ((performRedirs worldOracle w t rs).w, (performRedirs worldOracle w t rs).t) },
    io := some (ioBody (performRedirs worldOracle w t rs).w (performRedirs worldOracle w t rs).t wr fd arg).2 }

def runCmd (w : World) (t : FdTable) (prev : Nat) : Cmd → CmdTrace
  | .plain k rs => { tr := runCommand w t k rs prev }
  | .nested outer ki inner => runNested w t outer ki inner prev
  | .io wr fd arg rs => runIO w t wr fd arg rs prev

/-- `runScript` over `Cmd`s (`runScript2_plain`, NestedTheorems.lean: on plain commands it *is* `runScript`) -/
def runScript2 (w : World) (t : FdTable) (prev : Nat := 0) : List Cmd → List (FdTable × CmdTrace)
  | [] => []
  | c :: rest =>
    if (runCmd w t prev c).tr.exited.isSome then [(t, runCmd w t prev c)]
    else (t, runCmd w t prev c) ::
      runScript2 (runCmd w t prev c).tr.w (runCmd w t prev c).tr.t ((runCmd w t prev c).tr.status.getD 0) rest

/-- the Spec column for a `Cmd`: a plain command as before; a nested one at both levels — the inner
    command against the table it found (restored, or persisted for `exec`), and the whole against the
    table before it: restored unless an inner `exec` persisted (then nothing at or above 10 is left
    but what that `exec` named), no CLOEXEC descriptor below 10 left or shown, the outer guard's saved
    copies at or above 10 and CLOEXEC in the table the inner command found -/
def specVerdictCmd (before : FdTable) (c : Cmd) (ct : CmdTrace) : String :=
  match c with
  | .plain k rs => specVerdict before k rs ct.tr
  -- `put` / `get`: a failing list as for every regular built-in; otherwise the table is given back
  | .io _ _ _ rs =>
    if ct.io.isNone then specVerdict before .regular rs ct.tr
    else if sameTable before ct.tr.t then "ok" else "FAIL:table-not-restored"
  | .nested outer ki inner =>
    match ct.inner with
    | none => specVerdict before .brace outer ct.tr
    | some (_, ti, tri) =>
      if specVerdict ti ki inner tri != "ok" then "inner-" ++ specVerdict ti ki inner tri
      else if !(ki.isExec && tri.status != some 2 && tri.exited != some 2) && !sameTable before ct.tr.t then
        "FAIL:table-not-restored"
      else if !noExtraInternal before ct.tr.t
          (if ki.isExec && tri.status != some 2 && tri.exited != some 2 then inner.map (·.fd) else []) then
        "FAIL:descriptor-left-open"
      else if !noLowCloexec before ct.tr.t then "FAIL:cloexec-below-10-left"
      else if !internalOk ti ct.tr.saved then "FAIL:internal-descriptor"
      else if !noLowCloexec before ti then "FAIL:cloexec-below-10-visible"
      else "ok"

end YashModel.Redir
