/-
  C09 helper lemmas, part 15: the Spec column of nested commands (`specVerdictCmd`) on the model's own run;
  `Bounded` through `runCmd`; whole scripts of `Cmd`s.
-/
import YashModel.Redir.NestedMore
import YashModel.Redir.SpecTheorems
namespace YashModel.Redir
open YashModel.Generated.RedirConsts

theorem runNested_inner_none (w : World) (t : FdTable) (outer : List Redir) (ki : Kind) (inner : List Redir) (prev : Nat)
    (hin : (runNested w t outer ki inner prev).inner = none) :
    (runNested w t outer ki inner prev).tr = runCommand w t .brace outer prev := by
  unfold runNested at hin ⊢
  by_cases he : (performRedirs worldOracle w t outer).err.isSome = true
  · simp only [if_pos he]
  · simp only [if_neg he] at hin; cases hin

theorem spec_verdict_nested_ok' (w : World) (t : FdTable) (outer : List Redir) (ki : Kind) (inner : List Redir)
    (prev : Nat) (hw : WF t) (hb : Bounded w t) :
    specVerdictCmd t (.nested outer ki inner) (runNested w t outer ki inner prev) = "ok" := by
  unfold specVerdictCmd
  simp only
  cases hin : (runNested w t outer ki inner prev).inner with
  | none =>
    simp only
    rw [runNested_inner_none w t outer ki inner prev hin]
    exact spec_verdict_ok w t .brace outer prev hw hb
  | some p =>
    obtain ⟨wi, ti, tri⟩ := p
    simp only
    obtain ⟨hlim, hF⟩ := nested_any_inner' w t outer ki inner prev hw wi ti tri hin
    obtain ⟨herr, hwi, hti, htri, _, hsaved⟩ := nested_inner_eq w t outer ki inner prev wi ti tri hin
    have hwti : WF ti := by rw [hti]; exact performRedirs_wf worldOracle w t outer hw
    have hbti : Bounded wi ti := by rw [hwi, hti]; exact performRedirs_bounded w t outer hb
    have c0 : specVerdict ti ki inner tri = "ok" := by rw [htri]; exact spec_verdict_ok wi ti ki inner prev hwti hbti
    have hP : (ki.isExec && tri.status != some 2 && tri.exited != some 2) =
        (ki.isExec && (performRedirs worldOracle wi ti inner).err.isNone) := by
      rw [htri]; exact persists_iff wi ti ki inner prev
    have hfr : ∀ fd, ¬ Touched (performRedirs worldOracle w t outer).saved fd → ti.get fd = t.get fd := by
      intro fd hnt; rw [hti]; exact untouched_frame worldOracle w t outer herr fd hnt
    -- nothing at or above 10 left but what a persisting inner `exec` named
    have c2 : noExtraInternal t (runNested w t outer ki inner prev).tr.t
        (if (ki.isExec && (performRedirs worldOracle wi ti inner).err.isNone) = true then inner.map (·.fd) else []) = true := by
      rw [noExtraInternal_iff']
      intro fd e hg
      by_cases hT : Touched (performRedirs worldOracle w t outer).saved fd
      · rw [(hF fd).1 hT] at hg
        exact .inr (.inl (by rw [hg]; rfl))
      · rw [(hF fd).2 hT] at hg
        have := check_noExtraInternal wi ti ki inner prev hwti
        rw [noExtraInternal_iff'] at this
        rw [htri] at hg
        rcases this fd e hg with h1 | h2 | h3
        · exact .inl h1
        · exact .inr (.inl (by rw [← hfr fd hT]; exact h2))
        · exact .inr (.inr h3)
    have c3 : noLowCloexec t (runNested w t outer ki inner prev).tr.t = true := by
      rw [noLowCloexec_iff']
      intro fd e hg hlt hc
      by_cases hT : Touched (performRedirs worldOracle w t outer).saved fd
      · rw [(hF fd).1 hT] at hg; exact hg
      · rw [(hF fd).2 hT, htri] at hg
        have := check_noLowCloexec_after wi ti ki inner prev hwti
        rw [noLowCloexec_iff'] at this
        rw [← hfr fd hT]; exact this fd e hg hlt hc
    have c4 : internalOk ti (runNested w t outer ki inner prev).tr.saved = true := by
      rw [internalOk_iff', hsaved, hti]
      intro s hs sv hsv
      obtain ⟨h1, _, h3⟩ := internal_fds worldOracle w t outer s hs sv hsv
      exact ⟨h1, h3⟩
    have c5 : noLowCloexec t ti = true := by
      rw [noLowCloexec_iff', hti]
      exact fun fd e hg hlt hc => low_cloexec_performRedirs worldOracle w t outer fd e hg hlt hc
    simp only [c0, bne_self_eq_false, Bool.false_eq_true, ↓reduceIte, hP]
    by_cases hx : (ki.isExec && (performRedirs worldOracle wi ti inner).err.isNone) = true
    · simp only [hx, if_true] at c2 ⊢
      simp only [Bool.not_true, Bool.false_and, Bool.false_eq_true, ↓reduceIte, c2, c3, c4, c5]
    · have hx' : (ki.isExec && (performRedirs worldOracle wi ti inner).err.isNone) = false := by
        cases h : (ki.isExec && (performRedirs worldOracle wi ti inner).err.isNone) with
        | false => rfl
        | true => exact absurd h hx
      have hne : ki.isExec = true → (performRedirs worldOracle (performRedirs worldOracle w t outer).w
          (performRedirs worldOracle w t outer).t inner).err ≠ none := by
        intro hk he; rw [hwi, hti, hk, he] at hx'; cases hx'
      have c1 : sameTable t (runNested w t outer ki inner prev).tr.t = true := by
        rw [sameTable_iff]
        intro fd
        exact ((nested_restores' w t outer ki inner prev hw hne).1.2 fd).symm
      simp only [hx', Bool.false_eq_true, if_false] at c2 ⊢
      simp only [Bool.not_false, Bool.true_and, c1, Bool.not_true, Bool.false_eq_true, ↓reduceIte, c2, c3, c4, c5]


theorem ioBody_ofds_len (w : World) (t : FdTable) (wr : Bool) (fd : Fd) (arg : Nat) :
    (ioBody w t wr fd arg).1.ofds.length = w.ofds.length := by
  unfold ioBody
  cases t.get fd with
  | none => rfl
  | some e =>
    simp only
    cases wr with
    | true =>
      simp only [if_true]
      cases hw : w.write e.ofd [arg] with
      | none => rfl
      | some w1 => exact write_ofds_len w w1 _ _ hw
    | false =>
      simp only [Bool.false_eq_true, if_false]
      cases hr : w.read e.ofd arg with
      | none => rfl
      | some p => obtain ⟨w1, bs⟩ := p; exact read_ofds_len w w1 _ _ bs hr

theorem runCmd_bounded (w : World) (t : FdTable) (prev : Nat) (c : Cmd) (hw : WF t) (hb : Bounded w t) :
    Bounded (runCmd w t prev c).tr.w (runCmd w t prev c).tr.t := by
  cases c with
  | plain k rs => exact runCommand_bounded w t k rs prev hw hb
  | io wr fd arg rs =>
    simp only [runCmd]
    rcases runIO_cases w t wr fd arg rs prev with ⟨_, h⟩ | ⟨_, h1, h2⟩
    · rw [h]; exact runCommand_bounded w t .regular rs prev hw hb
    · rw [h1, h2]
      have hlen : w.ofds.length ≤
          (ioBody (performRedirs worldOracle w t rs).w (performRedirs worldOracle w t rs).t wr fd arg).1.ofds.length := by
        rw [ioBody_ofds_len]; exact (performRedirs_inv worldOracle_stable w t rs).2.2.2.1
      exact (hb.mono hlen).congr (undo_restores worldOracle w t rs hw).2
  | nested outer ki inner =>
    simp only [runCmd]
    cases hin : (runNested w t outer ki inner prev).inner with
    | none =>
      rw [runNested_inner_none w t outer ki inner prev hin]
      exact runCommand_bounded w t .brace outer prev hw hb
    | some p =>
      obtain ⟨wi, ti, tri⟩ := p
      obtain ⟨_, hF⟩ := nested_any_inner' w t outer ki inner prev hw wi ti tri hin
      obtain ⟨_, hwi, hti, htri, _, _⟩ := nested_inner_eq w t outer ki inner prev wi ti tri hin
      have hww : (runNested w t outer ki inner prev).tr.w = tri.w := by
        unfold runNested at hin ⊢
        by_cases he : (performRedirs worldOracle w t outer).err.isSome = true
        · simp only [if_pos he] at hin; cases hin
        · simp only [if_neg he, Option.some.injEq, Prod.mk.injEq] at hin ⊢
          rw [← hin.2.2]
      have hwti : WF ti := by rw [hti]; exact performRedirs_wf worldOracle w t outer hw
      have hbti : Bounded wi ti := by rw [hwi, hti]; exact performRedirs_bounded w t outer hb
      have hbtri : Bounded tri.w tri.t := by rw [htri]; exact runCommand_bounded wi ti ki inner prev hwti hbti
      have hlen : w.ofds.length ≤ tri.w.ofds.length := by
        have h1 := (performRedirs_inv worldOracle_stable w t outer).2.2.2.1
        have h2 := runCommand_ofds_len wi ti ki inner prev
        rw [htri, hwi] at *; omega
      rw [hww]
      intro fd e hg
      by_cases hT : Touched (performRedirs worldOracle w t outer).saved fd
      · rw [(hF fd).1 hT] at hg; exact Nat.lt_of_lt_of_le (hb fd e hg) hlen
      · rw [(hF fd).2 hT] at hg; exact hbtri fd e hg

theorem spec_verdict_cmd_ok' (w : World) (t : FdTable) (prev : Nat) (c : Cmd) (hw : WF t) (hb : Bounded w t) :
    specVerdictCmd t c (runCmd w t prev c) = "ok" := by
  cases c with
  | plain k rs => exact spec_verdict_ok w t k rs prev hw hb
  | io wr fd arg rs =>
    simp only [runCmd, specVerdictCmd]
    rcases runIO_cases w t wr fd arg rs prev with ⟨h0, h⟩ | ⟨h0, h1, _⟩
    · have hn : (runIO w t wr fd arg rs prev).io.isNone = true := by rw [h0]; rfl
      simp only [hn, if_true]
      rw [h]
      exact spec_verdict_ok w t .regular rs prev hw hb
    · have hn : (runIO w t wr fd arg rs prev).io.isNone = false := by
        cases hio : (runIO w t wr fd arg rs prev).io with
        | none => rw [hio] at h0; cases h0
        | some _ => rfl
      have hs : sameTable t (runIO w t wr fd arg rs prev).tr.t = true := by
        rw [sameTable_iff, h1]; exact fun fd' => ((undo_restores worldOracle w t rs hw).2 fd').symm
      simp [hn, hs]
  | nested outer ki inner => exact spec_verdict_nested_ok' w t outer ki inner prev hw hb

theorem script2_spec_ok_aux (cmds : List Cmd) :
    ∀ (w : World) (t : FdTable) (prev : Nat), WF t → Bounded w t →
    ∀ p ∈ (runScript2 w t prev cmds).zip cmds, specVerdictCmd p.1.1 p.2 p.1.2 = "ok" := by
  induction cmds with
  | nil => intro w t prev _ _ p hp; simp [runScript2] at hp
  | cons c rest ih =>
    intro w t prev hw hb p hp
    simp only [runScript2] at hp
    split at hp
    · simp only [List.zip_cons_cons, List.zip_nil_left, List.mem_singleton] at hp
      subst hp
      exact spec_verdict_cmd_ok' w t prev c hw hb
    · simp only [List.zip_cons_cons, List.mem_cons] at hp
      rcases hp with rfl | hm
      · exact spec_verdict_cmd_ok' w t prev c hw hb
      · exact ih _ _ _ (runCmd_wf w t prev c hw) (runCmd_bounded w t prev c hw hb) p hm

end YashModel.Redir
