/-
  C09 helper lemmas, part 11: provenance of the description a successful file redirection leaves on its
  target — for every oracle, `noclobber` included, pathname literal or out of a command substitution:
  the one `resolve` call, the world it was made in (related to the start world by any invariant of the
  oracle), the world it left (= the world after the redirection); and the last item of a successful list.
-/
import YashModel.Redir.Concrete
import YashModel.Redir.Theorems
namespace YashModel.Redir
open YashModel.Generated.RedirConsts

variable {W : Type}

theorem sysOpen_ok (o : Oracle W) (w : W) (t : FdTable) (req : OpenReq) (w' : W) (t' : FdTable) (fd : Fd)
    (h : sysOpen o w t req = (w', t', .ok fd)) :
    ∃ ofd, o.resolve (o.deny w).1 req = (w', .ok ofd) ∧ t' = t.put fd (some ⟨ofd, false⟩) := by
  unfold sysOpen at h
  by_cases hd : ((o.deny w).2 || !t.inLimit (t.minUnused 0)) = true
  · rw [if_pos hd] at h; cases h
  · rw [if_neg hd] at h
    cases hr : o.resolve (o.deny w).1 req with
    | mk w1 r =>
      cases r with
      | error e => simp only [hr] at h; cases h
      | ok ofd =>
        simp only [hr, Prod.mk.injEq, Except.ok.injEq] at h
        obtain ⟨rfl, rfl, rfl⟩ := h
        exact ⟨ofd, rfl, rfl⟩

theorem sysOpen_err (o : Oracle W) (w : W) (t : FdTable) (req : OpenReq) (w' : W) (t' : FdTable) (e : Errno)
    (h : sysOpen o w t req = (w', t', .error e)) :
    t' = t ∧ ((w' = (o.deny w).1 ∧ e = .EMFILE) ∨ o.resolve (o.deny w).1 req = (w', .error e)) := by
  unfold sysOpen at h
  by_cases hd : ((o.deny w).2 || !t.inLimit (t.minUnused 0)) = true
  · rw [if_pos hd] at h
    simp only [Prod.mk.injEq, Except.error.injEq] at h
    obtain ⟨rfl, rfl, rfl⟩ := h
    exact ⟨rfl, .inl ⟨rfl, rfl⟩⟩
  · rw [if_neg hd] at h
    cases hr : o.resolve (o.deny w).1 req with
    | mk w1 r =>
      cases r with
      | ok ofd => simp only [hr] at h; cases h
      | error e1 =>
        simp only [hr, Prod.mk.injEq, Except.error.injEq] at h
        obtain ⟨rfl, rfl, rfl⟩ := h
        exact ⟨rfl, .inr rfl⟩

/-- which arguments `open_normal` passed to the `open` that succeeded: the operator's own, or — for `>`
    with `noclobber` on in the world `open_normal` was called in — those of one of the two opens of
    `open_file_noclobber` (the second only after the first said EEXIST, and only for what `fstat` says
    is not a regular file) -/
def ArgsFor (o : Oracle W) (w0 wf : W) (op : FileOp) (path : Nat) (args : OpenArgs) (ofd : Nat) : Prop :=
  (args = plainArgs op ∧ (op = .fileOut → o.noclobber w0 = false)) ∨
  (op = .fileOut ∧ o.noclobber w0 = true ∧
    (args = flagsExcl ∨
     (args = flagsPlainWrite ∧ o.isRegular wf ofd = false ∧
       ∃ w1, o.resolve (o.deny w0).1 ⟨path, flagsExcl⟩ = (w1, .error .EEXIST))))

theorem openFileNoclobber_resolved {o : Oracle W} {Q : W → W → Prop} (hq : OracleInv o Q) (w : W) (t : FdTable)
    (path : Nat) (spec : FdSpec) (h : (openFileNoclobber o w t path).r = .ok spec) :
    ∃ fd w1 args ofd, spec = .owned fd ∧ Q w w1 ∧
      o.resolve w1 ⟨path, args⟩ = ((openFileNoclobber o w t path).w, .ok ofd) ∧
      (openFileNoclobber o w t path).t.get fd = some ⟨ofd, false⟩ ∧
      (args = flagsExcl ∨ (args = flagsPlainWrite ∧ o.isRegular (openFileNoclobber o w t path).w ofd = false ∧
         ∃ w2, o.resolve (o.deny w).1 ⟨path, flagsExcl⟩ = (w2, .error .EEXIST))) := by
  unfold openFileNoclobber at h ⊢
  rcases hs : sysOpen o w t ⟨path, flagsExcl⟩ with ⟨w1, t1, r1⟩
  rw [hs] at h
  cases r1 with
  | ok fd =>
    simp only at h ⊢
    cases h
    obtain ⟨ofd, hres, rfl⟩ := sysOpen_ok o w t _ w1 t1 fd hs
    exact ⟨fd, _, flagsExcl, ofd, rfl, hq.deny w, hres, by simp, .inl rfl⟩
  | error e =>
    simp only at h ⊢
    by_cases he : e = .EEXIST
    · subst he
      simp only [ne_eq, not_true_eq_false, ↓reduceIte] at h ⊢
      obtain ⟨rfl, hfirst⟩ := sysOpen_err o w t _ w1 t1 _ hs
      have hfirst' : ∃ w2, o.resolve (o.deny w).1 ⟨path, flagsExcl⟩ = (w2, .error .EEXIST) := by
        rcases hfirst with ⟨_, h2⟩ | h2
        · cases h2
        · exact ⟨_, h2⟩
      have hq1 : Q w w1 := by
        have := sysOpen_inv hq w t1 ⟨path, flagsExcl⟩
        rw [hs] at this; exact this
      rcases hs2 : sysOpen o w1 t1 ⟨path, flagsPlainWrite⟩ with ⟨w2, t2, r2⟩
      rw [hs2] at h
      cases r2 with
      | error e2 => simp only at h; split at h <;> cases h
      | ok fd =>
        simp only at h ⊢
        obtain ⟨ofd, hres, rfl⟩ := sysOpen_ok o w1 t1 _ w2 t2 fd hs2
        by_cases hreg : isRegularFd o w2 (t1.put fd (some ⟨ofd, false⟩)) fd = true
        · rw [if_pos hreg] at h; cases h
        · rw [if_neg hreg] at h ⊢
          cases h
          refine ⟨fd, _, flagsPlainWrite, ofd, rfl, hq.trans _ _ _ hq1 (hq.deny w1), hres, by simp, .inr ⟨rfl, ?_, hfirst'⟩⟩
          simpa [isRegularFd] using hreg
    · simp only [ne_eq, he, not_false_eq_true, ↓reduceIte] at h; cases h

theorem openNormalFile_resolved {o : Oracle W} {Q : W → W → Prop} (hq : OracleInv o Q) (w : W) (t : FdTable)
    (op : FileOp) (path : Nat) (spec : FdSpec) (h : (openNormalFile o w t op path).r = .ok spec) :
    ∃ fd w1 args ofd, spec = .owned fd ∧ Q w w1 ∧
      o.resolve w1 ⟨path, args⟩ = ((openNormalFile o w t op path).w, .ok ofd) ∧
      (openNormalFile o w t op path).t.get fd = some ⟨ofd, false⟩ ∧
      ArgsFor o w (openNormalFile o w t op path).w op path args ofd := by
  have plain : ∀ args, (openFile o w t args path).r = .ok spec →
      ∃ fd w1 ofd, spec = .owned fd ∧ Q w w1 ∧
        o.resolve w1 ⟨path, args⟩ = ((openFile o w t args path).w, .ok ofd) ∧
        (openFile o w t args path).t.get fd = some ⟨ofd, false⟩ := by
    intro args h
    obtain ⟨ofd, fd0, hres, hspec, hget⟩ := openFile_world o w t args path spec h
    exact ⟨fd0, _, ofd, hspec, hq.deny w, hres, hget⟩
  by_cases hnc : op = .fileOut ∧ o.noclobber w = true
  · obtain ⟨rfl, hn⟩ := hnc
    have heq : openNormalFile o w t .fileOut path = openFileNoclobber o w t path := by
      simp [openNormalFile, hn]
    rw [heq] at h ⊢
    obtain ⟨fd, w1, args, ofd, h1, h2, h3, h4, h5⟩ := openFileNoclobber_resolved hq w t path spec h
    exact ⟨fd, w1, args, ofd, h1, h2, h3, h4, .inr ⟨rfl, hn, h5⟩⟩
  · have hnc' : op = .fileOut → o.noclobber w = false := by
      intro hop
      cases hb : o.noclobber w with
      | false => rfl
      | true => exact absurd ⟨hop, hb⟩ hnc
    rw [openNormalFile_plain o w t op path hnc'] at h ⊢
    obtain ⟨fd, w1, ofd, h1, h2, h3, h4⟩ := plain _ h
    exact ⟨fd, w1, plainArgs op, ofd, h1, h2, h3, h4, .inl ⟨rfl, hnc'⟩⟩


/-- a successful file redirection (pathname literal or out of a command substitution), `noclobber` or not:
    the one `resolve` call whose description is on the target, the world `open_normal` was called in,
    and the world afterwards is the one that call left -/
theorem perform_file_resolved {o : Oracle W} {Q : W → W → Prop} (hq : OracleInv o Q) (w : W) (t : FdTable) (fd : Fd)
    (op : FileOp) (path : Nat) (s : SavedFd) (b : Body) (hb : b = .file op path ∨ ∃ st, b = .fileCs op path st)
    (h : (perform o w t ⟨fd, b⟩).r = .ok s) :
    ∃ w0 w1 args ofd, Q w w0 ∧ Q w0 w1 ∧
      o.resolve w1 ⟨path, args⟩ = ((perform o w t ⟨fd, b⟩).w, .ok ofd) ∧
      (perform o w t ⟨fd, b⟩).t.get fd = some ⟨ofd, false⟩ ∧
      ArgsFor o w0 (perform o w t ⟨fd, b⟩).w op path args ofd ∧
      (b = .file op path → w0 = w ∨ w0 = (o.deny w).1) := by
  obtain ⟨w', t', hw', hpw, hpt, hok⟩ := perform_ok_decomp_w o w t _ s h
  have hqw' : Q w w' := by
    rcases hw' with rfl | rfl
    · exact hq.refl _
    · exact hq.deny _
  cases hp : (prepare o w' t' b).r with
  | error e =>
    have := oao_of_prepare_err o w' t' ⟨fd, b⟩ e hp
    rw [this] at hok; cases hok
  | ok spec =>
    obtain ⟨ht, hr⟩ := oao_of_prepare_ok o w' t' ⟨fd, b⟩ spec hp
    have hw2 := oao_w o w' t' ⟨fd, b⟩
    simp only at ht hr hw2
    -- the world and table `open_normal` ran on
    have key : ∃ w0, Q w' w0 ∧ prepare o w' t' b = openNormalFile o w0 t' op path ∧ (b = .file op path → w0 = w') := by
      rcases hb with rfl | ⟨st, rfl⟩
      · exact ⟨w', hq.refl _, rfl, fun _ => rfl⟩
      · simp only [prepare] at hp ⊢
        by_cases hc : (pipeAvailable o w' t').2 = true
        · rw [if_pos hc]
          exact ⟨_, hq.deny w', rfl, fun hcontra => by cases hcontra⟩
        · rw [if_neg hc] at hp; cases hp
    obtain ⟨w0, hq0, hprep, hw0⟩ := key
    rw [hprep] at hp ht hr hw2
    obtain ⟨fd0, w1, args, ofd, hspec, hq1, hres, hget, hargs⟩ := openNormalFile_resolved hq w0 t' op path spec hp
    subst hspec
    refine ⟨w0, w1, args, ofd, hq.trans _ _ _ hqw' hq0, hq1, ?_, ?_, ?_, ?_⟩
    · rw [hres, hpw, hw2]
    · rw [hpt, ht]
      rw [hr] at hok
      exact overwrite_target_entry _ _ fd fd0 _ rfl hget rfl hok
    · rw [hpw, hw2]; exact hargs
    · intro hbf
      rw [hw0 hbf]; exact hw'

/-- the last item of a list that succeeds: it ran from the state the items before it left -/
theorem performRedirs_snoc_ok (o : Oracle W) (w : W) (t : FdTable) (rs1 : List Redir) (r : Redir)
    (h : (performRedirs o w t (rs1 ++ [r])).err = none) :
    (performRedirs o w t rs1).err = none ∧
    ∃ s, (perform o (performRedirs o w t rs1).w (performRedirs o w t rs1).t r).r = .ok s ∧
      (performRedirs o w t (rs1 ++ [r])).t = (perform o (performRedirs o w t rs1).w (performRedirs o w t rs1).t r).t ∧
      (performRedirs o w t (rs1 ++ [r])).w = (perform o (performRedirs o w t rs1).w (performRedirs o w t rs1).t r).w := by
  rw [left_to_right] at h ⊢
  cases h1 : (performRedirs o w t rs1).err with
  | some e => simp only [h1] at h; cases h
  | none =>
    simp only [h1] at h ⊢
    refine ⟨trivial, ?_⟩
    cases hp : (perform o (performRedirs o w t rs1).w (performRedirs o w t rs1).t r).r with
    | error e =>
      rw [performRedirs_cons_err o _ _ r [] e hp] at h; cases h
    | ok s =>
      rw [performRedirs_cons_ok o _ _ r [] s hp]
      exact ⟨s, rfl, rfl, rfl⟩

end YashModel.Redir
