/-
  C09 helper lemmas, part 4: `move_fd_internal` and the `.` built-in's `open_file`.
-/
import YashModel.Redir.Guard
namespace YashModel.Redir
open YashModel.Generated.RedirConsts

variable {W : Type}

/-- everything `moveFdInternal` can do, for a source that is open -/
theorem moveFdInternal_spec (o : Oracle W) (w : W) (t : FdTable) (src : Fd) (e : FdEntry)
    (hsrc : t.get src = some e) :
    (moveFdInternal o w t src).2.1.limit = t.limit ∧
    (minInternalFd ≤ src → (moveFdInternal o w t src).2.1 = t ∧ (moveFdInternal o w t src).2.2 = some src) ∧
    (src < minInternalFd →
      (moveFdInternal o w t src).2.1.get src = none ∧
      ((moveFdInternal o w t src).2.2 = none →
        ∀ fd, fd ≠ src → (moveFdInternal o w t src).2.1.get fd = t.get fd) ∧
      (∀ n, (moveFdInternal o w t src).2.2 = some n →
        minInternalFd ≤ n ∧ t.get n = none ∧
        (moveFdInternal o w t src).2.1.get n = some { ofd := e.ofd, cloexec := true } ∧
        ∀ fd, fd ≠ src → fd ≠ n → (moveFdInternal o w t src).2.1.get fd = t.get fd)) := by
  unfold moveFdInternal
  -- the facts about `move_fd_internal` the property needs; re-extracted from yash-env/src/io.rs
  rw [show moveThreshold = minInternalFd from rfl, show moveMin = minInternalFd from rfl,
    show moveCloexec = true from rfl, show moveClosesOnFailure = true from rfl]
  simp only [↓reduceIte]
  by_cases hge : minInternalFd ≤ src
  · rw [if_pos hge]
    exact ⟨rfl, fun _ => ⟨rfl, rfl⟩, fun hlt => absurd hge (Nat.not_le.mpr hlt)⟩
  · rw [if_neg hge]
    unfold FdTable.dup
    rw [hsrc]
    simp only
    cases ha : t.openFdGe minInternalFd { ofd := e.ofd, cloexec := true } (o.deny w).2 with
    | none =>
      simp only
      refine ⟨rfl, fun h => absurd h hge, fun _ => ⟨by simp [FdTable.close], fun _ fd hne => by simp [FdTable.close, hne],
        fun n h => by cases h⟩⟩
    | some p =>
      obtain ⟨n, t1⟩ := p
      obtain ⟨h1, h2, _, h4⟩ := FdTable.openFdGe_some ha
      subst h4
      simp only
      have hne : n ≠ src := fun h => hge (h ▸ h1)
      refine ⟨rfl, fun h => absurd h hge, fun _ => ⟨by simp [FdTable.close], fun h => (by cases h), fun n' h => ?_⟩⟩
      cases h
      refine ⟨h1, h2, by simp [FdTable.close, hne], fun fd hs hn => by simp [FdTable.close, hs, hn]⟩

/-- everything `openScript` can do: nothing (as a finite map), or one new CLOEXEC descriptor at or
    above `MIN_INTERNAL_FD` in a slot that was free -/
theorem openScript_spec (o : Oracle W) (w : W) (t : FdTable) (path : Nat) :
    (openScript o w t path).2.1.limit = t.limit ∧
    ((openScript o w t path).2.2 = none → ∀ fd, (openScript o w t path).2.1.get fd = t.get fd) ∧
    (∀ n, (openScript o w t path).2.2 = some n →
      minInternalFd ≤ n ∧ t.get n = none ∧ (openScript o w t path).2.1.isCloexec n = true ∧
      ∀ fd, fd ≠ n → (openScript o w t path).2.1.get fd = t.get fd) := by
  unfold openScript
  by_cases hd : ((o.deny w).2 || !t.inLimit (t.minUnused 0)) = true
  · rw [if_pos hd]; exact ⟨rfl, fun _ _ => rfl, fun n h => by cases h⟩
  rw [if_neg hd]
  rw [show dotOpenCloexec = true from rfl]
  cases hr : o.resolve (o.deny w).1 { path := path, args := dotOpenArgs } with
  | mk w1 r =>
    cases r with
    | error e => exact ⟨rfl, fun _ _ => rfl, fun n h => by cases h⟩
    | ok ofd =>
      simp only
      have h2 : t.get (t.minUnused 0) = none := FdTable.minUnused_free t 0
      generalize t.minUnused 0 = fd0 at h2 ⊢
      have hget : (t.put fd0 (some { ofd := ofd, cloexec := true })).get fd0 = some { ofd := ofd, cloexec := true } := by simp
      obtain ⟨hl, hA, hB⟩ := moveFdInternal_spec o w1 _ fd0 _ hget
      refine ⟨hl, fun hnone fd => ?_, fun n hn => ?_⟩
      · by_cases hge : minInternalFd ≤ fd0
        · rw [(hA hge).2] at hnone; cases hnone
        · obtain ⟨h0, h1, _⟩ := hB (Nat.lt_of_not_le hge)
          by_cases hfd : fd = fd0
          · rw [hfd, h0, h2]
          · rw [h1 hnone fd hfd]; simp [hfd]
      · by_cases hge : minInternalFd ≤ fd0
        · obtain ⟨ht, hr2⟩ := hA hge
          rw [hr2] at hn; cases hn
          rw [ht]
          refine ⟨hge, h2, by simp [FdTable.isCloexec], fun fd hne => by simp [hne]⟩
        · obtain ⟨h0, _, h3⟩ := hB (Nat.lt_of_not_le hge)
          obtain ⟨hn1, hn2, hn3, hn4⟩ := h3 n hn
          have hne : n ≠ fd0 := fun h => hge (h ▸ hn1)
          refine ⟨hn1, by simpa [hne] using hn2, by simp [FdTable.isCloexec, hn3], fun fd hfd => ?_⟩
          by_cases hfd0 : fd = fd0
          · rw [hfd0, h0, h2]
          · rw [hn4 fd hfd0 hfd]; simp [hfd0]

end YashModel.Redir
