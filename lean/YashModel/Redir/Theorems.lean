/-
  C09 — property theorems (and non-vacuity examples) ONLY.  Helper lemmas: Lemmas.lean (finite map),
  Steps.lean (one `perform`), Guard.lean (the guard's loops).

  Property text: "A command's redirections are applied left to right with the POSIX meaning of each
  operator (… `noclobber` refusal to overwrite an existing regular file, `>|` override, descriptor
  duplication and closing, here-documents), are in effect exactly while that command runs, and
  afterwards the shell's descriptor table is exactly what it was before - whether the command
  succeeded, failed, or a redirection itself failed - except for redirections on `exec`, which
  persist.  Descriptors the shell opens for its own use stay at 10 or above with close-on-exec set,
  and no command ever leaves an extra descriptor open, even when descriptor allocation fails
  part-way."

  Every theorem below quantifies over all world types `W`, all oracles (outcome of every `open`,
  `fstat`, access mode, here-document write, and the allocations at which EMFILE strikes), all
  tables (any descriptors open, any limit) and all redirection lists.
-/
import YashModel.Redir.Internal
import YashModel.Redir.WorldInv
namespace YashModel.Redir
open YashModel.Generated.RedirConsts

variable {W : Type}

/-! ### restoration -/

/-- ★ `undo_redirs` after `perform_redirs` gives back the table the command started with — the same
    finite map under the same limit — whether every redirection succeeded or one failed part-way
    (`(performRedirs …).err` is unconstrained), for every oracle, i.e. also when descriptor
    allocation fails at any position.  Hypothesis `WF`: no descriptor is open at or above the
    soft limit (see `undo_restores_needs_wf`). -/
theorem undo_restores (o : Oracle W) (w : W) (t : FdTable) (rs : List Redir) (hw : WF t) :
    (undoRedirs (performRedirs o w t rs).t (performRedirs o w t rs).saved).limit = t.limit ∧
    ∀ fd, (undoRedirs (performRedirs o w t rs).t (performRedirs o w t rs).saved).get fd = t.get fd := by
  suffices h : Equiv (undoRedirs (performRedirs o w t rs).t (performRedirs o w t rs).saved) t from h
  induction rs generalizing w t with
  | nil => exact Equiv.refl t
  | cons r rs ih =>
    cases hp : (perform o w t r).r with
    | error e =>
      rw [performRedirs_cons_err o w t r rs e hp]
      rcases perform_spec o w t r with ⟨s, hs, _⟩ | ⟨e', _, heq⟩
      · rw [hp] at hs; cases hs
      · exact heq
    | ok s =>
      rw [performRedirs_cons_ok o w t r rs s hp]
      simp only
      rw [undoRedirs_cons]
      have ih' := ih (perform o w t r).w (perform o w t r).t (perform_wf o w t r hw)
      exact (ih'.undoOne s).trans (undoOne_perform o w t r s hw hp)

/-- the failing half spelled out: a redirection that fails has already given back everything it
    took (its saved copy is closed, its temporary descriptor is closed, the target is untouched) -/
theorem failed_perform_leaves_table (o : Oracle W) (w : W) (t : FdTable) (r : Redir) (e : ErrCause)
    (h : (perform o w t r).r = .error e) :
    (perform o w t r).t.limit = t.limit ∧ ∀ fd, (perform o w t r).t.get fd = t.get fd := by
  rcases perform_spec o w t r with ⟨s, hs, _⟩ | ⟨e', _, heq⟩
  · rw [h] at hs; cases hs
  · exact heq

/-- `WF` is preserved by the whole list, so the theorems apply command after command -/
theorem performRedirs_wf (o : Oracle W) (w : W) (t : FdTable) (rs : List Redir) (hw : WF t) :
    WF (performRedirs o w t rs).t := by
  induction rs generalizing w t with
  | nil => exact hw
  | cons r rs ih =>
    cases hp : (perform o w t r).r with
    | error e => rw [performRedirs_cons_err o w t r rs e hp]; exact perform_wf o w t r hw
    | ok s =>
      rw [performRedirs_cons_ok o w t r rs s hp]
      exact ih _ _ (perform_wf o w t r hw)

/-- ★ the same at the level of a command, for the way each command kind uses the guard
    (`execute_builtin`, `execute_function`, `execute_external_utility`, `FullCompoundCommand::execute`,
    `execute_absent_target`), in an interactive or a non-interactive shell: afterwards the table is
    what it was before, whether the command ran, was not found, or a redirection failed — except for
    the `exec` family when its redirections all succeeded (`exec_persists`) -/
theorem command_restores (w : World) (t : FdTable) (k : Kind) (rs : List Redir) (prev : Nat) (hw : WF t)
    (h : k.isExec = true → (performRedirs worldOracle w t rs).err ≠ none) :
    (runCommand w t k rs prev).t.limit = t.limit ∧ ∀ fd, (runCommand w t k rs prev).t.get fd = t.get fd := by
  have hu := undo_restores worldOracle w t rs hw
  unfold runCommand
  cases k with
  | empty | assign =>
    simp only
    split
    · exact ⟨rfl, fun _ => rfl⟩
    · split <;> exact ⟨rfl, fun _ => rfl⟩
  | exec | commandExec | execNotFound | execNoExec | commandExecNotFound =>
    simp only
    cases he : (performRedirs worldOracle w t rs).err with
    | none => exact absurd he (h rfl)
    | some e => simp only; split <;> simp only [endOrGoOn_t] <;> exact hu
  | dot | dotMissing =>
    simp only
    cases he : (performRedirs worldOracle w t rs).err with
    | some e => simp only; split <;> simp only [endOrGoOn_t] <;> exact hu
    | none =>
      simp only
      split
      · next hnone =>
        obtain ⟨hl, hN, _⟩ := openScript_spec worldOracle (performRedirs worldOracle w t rs).w
          (performRedirs worldOracle w t rs).t _
        simp only [endOrGoOn_t]
        exact (Equiv.undoRedirs ⟨hl, hN hnone⟩ _).trans hu
      · next fd hsome =>
        obtain ⟨hl, _, hS⟩ := openScript_spec worldOracle (performRedirs worldOracle w t rs).w
          (performRedirs worldOracle w t rs).t _
        obtain ⟨_, hfree, _, hframe⟩ := hS fd hsome
        refine (Equiv.undoRedirs (a := FdTable.close _ fd) ⟨hl, fun fd' => ?_⟩ _).trans hu
        simp only [FdTable.close, FdTable.get_put]
        split
        · next heq => rw [heq]; exact hfree.symm
        · next hne => exact hframe fd' hne
  | guardUndo =>
    simp only
    have hne : (Kind.guardUndo == Kind.guardKeep) = false := by decide
    simp only [hne, Bool.false_and, Bool.false_eq_true, ↓reduceIte]
    exact hu
  | guardKeep =>
    simp only
    cases he : (performRedirs worldOracle w t rs).err with
    | none => exact absurd he (h rfl)
    | some e =>
      simp only [Option.isNone_some, Bool.and_false, Bool.false_eq_true, ↓reduceIte]
      exact hu
  | special | colon | regular | func | brace | notFound | paren | funcRet | external | execBadOption =>
    simp only
    cases he : (performRedirs worldOracle w t rs).err with
    | none => first | exact hu | (simp only; exact hu) | (simp only [endOrGoOn_t]; exact hu)
    | some e => simp only; split <;> simp only [endOrGoOn_t] <;> exact hu

/-- ★ "redirections on `exec` persist": for `exec` and `command exec`, without operand or with an
    operand that is not found (127) or cannot be executed (126), in an interactive shell (which goes
    on) and in a non-interactive one (which ends there) alike: when the redirections all succeeded the
    table the command leaves is the redirected table with exactly the saved copies closed
    (`preserve_redirs`) — `should_retain_redirs` is set on every path of the built-in -/
theorem exec_persists (w : World) (t : FdTable) (k : Kind) (rs : List Redir) (prev : Nat)
    (hk : k.isExec = true) (h : (performRedirs worldOracle w t rs).err = none) :
    (runCommand w t k rs prev).t =
      preserveRedirs (performRedirs worldOracle w t rs).t (performRedirs worldOracle w t rs).saved := by
  unfold runCommand
  cases k <;> simp [Kind.isExec] at hk <;> simp only [h, endOrGoOn_t] <;> simp

-- non-vacuity: interactive `exec nosuchcmd 4>b` keeps descriptor 4 on b and goes on with 127;
-- the non-interactive shell ends there with the same table
example : ((runCommand (stdWorld false true) stdTable .execNotFound [⟨4, .file .fileOut 4⟩]).t.get 4).isSome = true ∧
    (runCommand (stdWorld false true) stdTable .execNotFound [⟨4, .file .fileOut 4⟩]).status = some 127 ∧
    (runCommand (stdWorld false false) stdTable .execNotFound [⟨4, .file .fileOut 4⟩]).exited = some 127 ∧
    ((runCommand (stdWorld false false) stdTable .execNotFound [⟨4, .file .fileOut 4⟩]).t.get 4).isSome = true := by
  decide

-- non-vacuity: a table meeting `WF`, a list that succeeds, a list that fails part-way
example : WF stdTable := by
  intro fd e _; rfl
example : (performRedirs worldOracle (stdWorld false) stdTable
    [⟨1, .file .fileOut 3⟩, ⟨2, .dup false (.fd 1)⟩]).err = none ∧
    (performRedirs worldOracle (stdWorld false) stdTable
    [⟨1, .file .fileOut 3⟩, ⟨2, .dup false (.fd 1)⟩]).saved = [⟨1, some 10⟩, ⟨2, some 11⟩] := by decide
example : (performRedirs worldOracle (stdWorld false) stdTable
    [⟨1, .file .fileOut 3⟩, ⟨0, .file .fileIn 5⟩]).err = some (.openFile .ENOENT) ∧
    (performRedirs worldOracle (stdWorld false) stdTable
    [⟨1, .file .fileOut 3⟩, ⟨0, .file .fileIn 5⟩]).saved = [⟨1, some 10⟩] := by decide

/-- the hypothesis `WF` is needed: with descriptor 12 open above a limit of 11, `12>&-` cannot be
    undone (`dup2` onto 12 is refused), exactly as on a real kernel -/
theorem undo_restores_needs_wf :
    let t : FdTable := { (stdTable.put 12 (some ⟨0, false⟩)) with limit := some 11 }
    let g := performRedirs worldOracle (stdWorld false) t [⟨12, .dup false .closeIt⟩]
    g.err = none ∧ (undoRedirs g.t g.saved).get 12 ≠ t.get 12 := by decide

/-! ### order -/

/-- ★ left to right: the effect of a list is the effect of its first part followed, from the state
    that part left, by the effect of the rest; a failure stops everything after it.
    (`performRedirs_nil`/`performRedirs_cons_ok`/`_err` are the one-step forms.) -/
theorem left_to_right (o : Oracle W) (w : W) (t : FdTable) (rs1 rs2 : List Redir) :
    performRedirs o w t (rs1 ++ rs2) =
      match (performRedirs o w t rs1).err with
      | some _ => performRedirs o w t rs1
      | none =>
        { w := (performRedirs o (performRedirs o w t rs1).w (performRedirs o w t rs1).t rs2).w,
          t := (performRedirs o (performRedirs o w t rs1).w (performRedirs o w t rs1).t rs2).t,
          saved := (performRedirs o w t rs1).saved ++
                   (performRedirs o (performRedirs o w t rs1).w (performRedirs o w t rs1).t rs2).saved,
          err := (performRedirs o (performRedirs o w t rs1).w (performRedirs o w t rs1).t rs2).err } := by
  induction rs1 generalizing w t with
  | nil => simp [performRedirs_nil]
  | cons r rs ih =>
    cases hp : (perform o w t r).r with
    | error e =>
      rw [List.cons_append, performRedirs_cons_err o w t r (rs ++ rs2) e hp,
        performRedirs_cons_err o w t r rs e hp]
    | ok s =>
      rw [List.cons_append, performRedirs_cons_ok o w t r (rs ++ rs2) s hp,
        performRedirs_cons_ok o w t r rs s hp, ih]
      simp only
      cases herr : (performRedirs o (perform o w t r).w (perform o w t r).t rs).err with
      | none => simp
      | some v => simp [herr]

/-- the order matters: `2>&1 >m` leaves descriptor 2 on the old standard output,
    `>m 2>&1` puts both on the file -/
theorem order_matters :
    let a := performRedirs worldOracle (stdWorld false) stdTable [⟨2, .dup false (.fd 1)⟩, ⟨1, .file .fileOut 5⟩]
    let b := performRedirs worldOracle (stdWorld false) stdTable [⟨1, .file .fileOut 5⟩, ⟨2, .dup false (.fd 1)⟩]
    a.err = none ∧ b.err = none ∧
    (a.t.get 2).map (·.ofd) = (stdTable.get 1).map (·.ofd) ∧
    (a.t.get 2).map (·.ofd) ≠ (a.t.get 1).map (·.ofd) ∧
    (b.t.get 2).map (·.ofd) = (b.t.get 1).map (·.ofd) := by decide

/-! ### the shell's own descriptors -/

/-- ★ every descriptor the guard holds while the command runs is at or above `MIN_INTERNAL_FD`
    (generated from yash-env/src/io.rs; the `10 ≤` below re-checks its value) and is CLOEXEC in the
    table the command sees — later redirections of the same list do not disturb it -/
theorem internal_fds (o : Oracle W) (w : W) (t : FdTable) (rs : List Redir) :
    ∀ s ∈ (performRedirs o w t rs).saved, ∀ sv, s.save = some sv →
      10 ≤ sv ∧ minInternalFd ≤ sv ∧ (performRedirs o w t rs).t.isCloexec sv = true := by
  induction rs generalizing w t with
  | nil => intro s hs; cases hs
  | cons r rs ih =>
    cases hp : (perform o w t r).r with
    | error e => rw [performRedirs_cons_err o w t r rs e hp]; intro s hs; cases hs
    | ok s0 =>
      rw [performRedirs_cons_ok o w t r rs s0 hp]
      simp only
      intro s hs sv hsv
      rcases List.mem_cons.mp hs with heq | hmem
      · subst heq
        rcases perform_spec o w t r with ⟨s', hs', hok⟩ | ⟨e', he', _⟩
        · rw [hp] at hs'; cases hs'
          obtain ⟨e, hg, hmin, hfree, _, hch⟩ := hok.some_case sv hsv
          have hne : sv ≠ r.fd := by
            intro h; rw [h, hg] at hfree; cases hfree
          have h1 : (perform o w t r).t.isCloexec sv = true := by
            rw [isCloexec_of_get (e := { ofd := e.ofd, cloexec := saveCloexec })]
            · rfl
            · rw [hch.frame sv hne]; simp
          have hmin' : minInternalFd ≤ sv := hmin
          refine ⟨hmin', hmin', ?_⟩
          have := performRedirs_keeps_cloexec o (perform o w t r).w (perform o w t r).t rs sv h1
          simp only [FdTable.isCloexec, this] at h1 ⊢
          exact h1
        · rw [hp] at he'; cases he'
      · exact ih _ _ s hmem sv hsv

/-- ☆ conversely the guard adds no other CLOEXEC descriptor: whatever is CLOEXEC in the table the
    command sees was CLOEXEC before or is one of the guard's saved copies (so descriptors 0–9 that
    redirections create are never CLOEXEC) -/
theorem internal_only (o : Oracle W) (w : W) (t : FdTable) (rs : List Redir) (fd : Fd)
    (h : (performRedirs o w t rs).t.isCloexec fd = true) :
    t.isCloexec fd = true ∨ ∃ s ∈ (performRedirs o w t rs).saved, s.save = some fd := by
  induction rs generalizing w t with
  | nil => exact .inl h
  | cons r rs ih =>
    cases hp : (perform o w t r).r with
    | error e =>
      rw [performRedirs_cons_err o w t r rs e hp] at h ⊢
      rcases perform_cloexec_origin o w t r fd h with h1 | ⟨s, hs, _⟩
      · exact .inl h1
      · rw [hp] at hs; cases hs
    | ok s0 =>
      rw [performRedirs_cons_ok o w t r rs s0 hp] at h ⊢
      simp only at h ⊢
      rcases ih _ _ h with h1 | ⟨s, hs, hsv⟩
      · rcases perform_cloexec_origin o w t r fd h1 with h2 | ⟨s, hs, hsv⟩
        · exact .inl h2
        · rw [hp] at hs; cases hs
          exact .inr ⟨s0, List.mem_cons_self .., hsv⟩
      · exact .inr ⟨s, List.mem_cons_of_mem _ hs, hsv⟩

/-- ★ `perform` refuses to touch a CLOEXEC target (`ReservedFd`), leaving the table as it is -/
theorem perform_refuses_cloexec_target (o : Oracle W) (w : W) (t : FdTable) (r : Redir)
    (h : t.isCloexec r.fd = true) :
    (perform o w t r).r = .error (.reservedFd r.fd) ∧ (perform o w t r).t = t := by
  simp [perform, h]

/-- … and `<&` / `>&` refuse a CLOEXEC source (it is never handed to the command) -/
theorem copy_refuses_cloexec_source (o : Oracle W) (w : W) (t : FdTable) (n : Fd) (input : Bool)
    (h : t.isCloexec n = true) :
    ∃ e, (copyFd o w t (.fd n) input).r = .error e ∧ (copyFd o w t (.fd n) input).t = t := by
  unfold copyFd
  simp only
  cases hg : t.get n with
  | none => simp [FdTable.isCloexec, hg] at h
  | some e =>
    have hc : e.cloexec = true := by simpa [FdTable.isCloexec, hg] using h
    simp only
    by_cases hacc : (if input = true then (o.access w e.ofd).1 else (o.access w e.ofd).2) = true
    · rw [if_neg (by simp [hacc]), if_pos hc]; exact ⟨_, rfl, rfl⟩
    · rw [if_pos (by simpa using hacc)]; exact ⟨_, rfl, rfl⟩

/-- the order of `copy_fd`'s checks: the access mode comes first — a source that lacks the access the
    operator needs is reported as unreadable / unwritable whether or not it is CLOEXEC (`ReservedFd` is
    only said of a descriptor that could otherwise have been copied); the table is untouched -/
theorem copy_checks_access_before_cloexec (o : Oracle W) (w : W) (t : FdTable) (n : Fd) (input : Bool) (e : FdEntry)
    (hg : t.get n = some e)
    (hacc : (if input then (o.access w e.ofd).1 else (o.access w e.ofd).2) = false) :
    (copyFd o w t (.fd n) input).r = .error (if input then .unreadableFd n else .unwritableFd n) ∧
    (copyFd o w t (.fd n) input).t = t := by
  unfold copyFd
  simp only [hg, hacc]
  exact ⟨rfl, rfl⟩

-- non-vacuity: descriptor 11 read-only and CLOEXEC: `>&11` says "unwritable", `<&11` says "reserved"
example :
    let w : World := { stdWorld false with ofds := (stdWorld false).ofds ++ [⟨9, true, false, false, 0⟩] }
    let t := stdTable.put 11 (some ⟨3, true⟩)
    (match (copyFd worldOracle w t (.fd 11) false).r with | .error (.unwritableFd 11) => true | _ => false) = true ∧
    (match (copyFd worldOracle w t (.fd 11) true).r with | .error (.reservedFd 11) => true | _ => false) = true := by
  decide

/-- consequently nothing the shell holds for itself is disturbed by any redirection list -/
theorem cloexec_untouched (o : Oracle W) (w : W) (t : FdTable) (rs : List Redir) (fd : Fd)
    (h : t.isCloexec fd = true) : (performRedirs o w t rs).t.get fd = t.get fd :=
  performRedirs_keeps_cloexec o w t rs fd h

example : stdTable.isCloexec 1 = false ∧
    ((stdTable.put 10 (some ⟨0, true⟩)).isCloexec 10 = true) := by decide

/-! ### nothing but the targets; the loop observed item by item -/

/-- ★ a redirection list — successful or stopped part-way, for every oracle — changes no descriptor
    other than the targets it names and the slots (≥ 10, `internal_fds`) of the saved copies the guard
    holds; in particular every descriptor below 10 that is not named keeps its entry, and the limit
    is never touched -/
theorem only_targets_change (o : Oracle W) (w : W) (t : FdTable) (rs : List Redir) :
    (performRedirs o w t rs).t.limit = t.limit ∧
    (∀ fd, (∀ r ∈ rs, r.fd ≠ fd) → (∀ s ∈ (performRedirs o w t rs).saved, s.save ≠ some fd) →
      (performRedirs o w t rs).t.get fd = t.get fd) ∧
    (∀ fd, (∀ r ∈ rs, r.fd ≠ fd) → fd < minInternalFd → (performRedirs o w t rs).t.get fd = t.get fd) := by
  refine ⟨performRedirs_limit o w t rs, fun fd h1 h2 => performRedirs_frame o w t rs fd h1 h2, fun fd h1 hlt => ?_⟩
  apply performRedirs_frame o w t rs fd h1
  intro s hs hsv
  exact absurd (internal_fds o w t rs s hs fd hsv).2.1 (Nat.not_le.mpr hlt)

-- non-vacuity: `>a 2>&1` leaves descriptor 0 alone and changes 1 and 2
example : let g := performRedirs worldOracle (stdWorld false) stdTable [⟨1, .file .fileOut 3⟩, ⟨2, .dup false (.fd 1)⟩]
    g.t.get 0 = stdTable.get 0 ∧ g.t.get 1 ≠ stdTable.get 1 ∧ g.t.get 2 ≠ stdTable.get 2 := by decide

/-- ★ what the harness sees when it looks at the process table after every `perform_redir` call:
    one state per item tried (the successful ones and the failing one), state `i` being exactly what
    `performRedirs` makes of the first `i+1` items (so `left_to_right` applies to every prefix), and
    the last one being the state the guard is undone / preserved from -/
theorem steps_are_prefixes (o : Oracle W) (w : W) (t : FdTable) (rs : List Redir) :
    (performSteps o w t rs).length =
      (performRedirs o w t rs).saved.length + (if (performRedirs o w t rs).err.isSome then 1 else 0) ∧
    (∀ i p, (performSteps o w t rs)[i]? = some p → i < rs.length ∧
      p = ((performRedirs o w t (rs.take (i+1))).w, (performRedirs o w t (rs.take (i+1))).t)) ∧
    (rs ≠ [] → (performSteps o w t rs).getLast? =
      some ((performRedirs o w t rs).w, (performRedirs o w t rs).t)) :=
  ⟨performSteps_length o w t rs, fun i p h => performSteps_prefix o w t rs i p h, performSteps_last o w t rs⟩

-- non-vacuity: three items, the third fails: three states are recorded, two copies are held
example : (performSteps worldOracle (stdWorld false) stdTable
      [⟨1, .file .fileOut 3⟩, ⟨2, .dup false (.fd 1)⟩, ⟨0, .file .fileIn 5⟩]).length = 3 ∧
    (performRedirs worldOracle (stdWorld false) stdTable
      [⟨1, .file .fileOut 3⟩, ⟨2, .dup false (.fd 1)⟩, ⟨0, .file .fileIn 5⟩]).saved.length = 2 := by decide

/-- ★ at every one of these intermediate states (not only in the table the command finally sees)
    whatever is CLOEXEC was CLOEXEC before the list started or is at or above `MIN_INTERNAL_FD` -/
theorem steps_internal (o : Oracle W) (w : W) (t : FdTable) (rs : List Redir) :
    ∀ p ∈ performSteps o w t rs, ∀ fd, p.2.isCloexec fd = true → t.isCloexec fd = true ∨ minInternalFd ≤ fd := by
  intro p hp fd hc
  obtain ⟨i, hi⟩ := List.getElem?_of_mem hp
  obtain ⟨_, hpe⟩ := performSteps_prefix o w t rs i p hi
  rw [hpe] at hc
  rcases internal_only o w t (rs.take (i+1)) fd hc with h1 | ⟨s, hs, hsv⟩
  · exact .inl h1
  · exact .inr (internal_fds o w t (rs.take (i+1)) s hs fd hsv).2.1

/-- ★ an expansion error in a redirection operand (`<${u?}`, or a command substitution that cannot get
    its pipe) abandons the command whatever its kind — `Handle for redir::Error` delegates the
    `Expansion` cause to the handler of expansion errors: the non-interactive shell ends there with 2,
    the interactive one goes on with `$?` = 2, the body does not run — and the table is the one the
    command found (the guard is dropped on the way out).  The two kinds that perform their
    redirections in a subshell (`empty`, `assign`) and the harness's own guard driver are the
    exceptions: the error stays in the child / in the built-in. -/
theorem expansion_error_abandons_command (w : World) (t : FdTable) (k : Kind) (rs : List Redir) (prev : Nat)
    (hw : WF t) (hk : k ≠ .empty ∧ k ≠ .assign ∧ k ≠ .guardUndo ∧ k ≠ .guardKeep)
    (he : (performRedirs worldOracle w t rs).err = some .expansion) :
    (runCommand w t k rs prev).during = none ∧
    (w.interactive = false → (runCommand w t k rs prev).exited = some 2) ∧
    (w.interactive = true → (runCommand w t k rs prev).status = some 2 ∧ (runCommand w t k rs prev).exited = none) ∧
    (runCommand w t k rs prev).t.limit = t.limit ∧ ∀ fd, (runCommand w t k rs prev).t.get fd = t.get fd := by
  have hr := command_restores w t k rs prev hw (fun _ h => by rw [he] at h; cases h)
  have htr : runCommand w t k rs prev =
      endOrGoOn ((performRedirs worldOracle w t rs).w.message (performRedirs worldOracle w t rs).t)
        (undoRedirs (performRedirs worldOracle w t rs).t (performRedirs worldOracle w t rs).saved) 2 [] := by
    obtain ⟨h1, h2, h3, h4⟩ := hk
    cases k <;> simp_all [runCommand]
  have hi : ((performRedirs worldOracle w t rs).w.message (performRedirs worldOracle w t rs).t).interactive =
      w.interactive := by
    rw [message_interactive]; exact performRedirs_interactive w t rs
  rw [htr] at hr ⊢
  refine ⟨endOrGoOn_during' .., fun hf => ?_, fun ht => ?_, hr⟩
  · simp [endOrGoOn, hi, hf]
  · simp [endOrGoOn, hi, ht]

-- non-vacuity: `fds >a <${u?}` in a non-interactive shell
example : (performRedirs worldOracle (stdWorld false) stdTable [⟨1, .file .fileOut 3⟩, ⟨0, .expErr⟩]).err = some .expansion ∧
    (runCommand (stdWorld false) stdTable .regular [⟨1, .file .fileOut 3⟩, ⟨0, .expErr⟩]).exited = some 2 := by decide

/-! ### descriptors the shell opens for itself outside the guard -/

/-- ★ `move_fd_internal` on a descriptor below `MIN_INTERNAL_FD` never leaks: the original is closed
    whether or not the dup to ≥ 10 succeeded (EMFILE included), nothing else changes, and a
    successful move lands on a free slot at or above 10 with CLOEXEC -/
theorem move_internal_never_leaks (o : Oracle W) (w : W) (t : FdTable) (src : Fd) (e : FdEntry)
    (hsrc : t.get src = some e) (hlow : src < minInternalFd) :
    (moveFdInternal o w t src).2.1.get src = none ∧
    (moveFdInternal o w t src).2.1.limit = t.limit ∧
    ((moveFdInternal o w t src).2.2 = none →
      ∀ fd, fd ≠ src → (moveFdInternal o w t src).2.1.get fd = t.get fd) ∧
    (∀ n, (moveFdInternal o w t src).2.2 = some n →
      10 ≤ n ∧ t.get n = none ∧ (moveFdInternal o w t src).2.1.isCloexec n = true ∧
      ∀ fd, fd ≠ src → fd ≠ n → (moveFdInternal o w t src).2.1.get fd = t.get fd) := by
  obtain ⟨hl, _, hB⟩ := moveFdInternal_spec o w t src e hsrc
  obtain ⟨h0, h1, h2⟩ := hB hlow
  refine ⟨h0, hl, h1, fun n hn => ?_⟩
  obtain ⟨a, b, c, d⟩ := h2 n hn
  exact ⟨a, b, by simp [FdTable.isCloexec, c], d⟩

/-- ★ the `.` built-in's descriptor: when the script cannot be opened — `open` fails, or the move to
    ≥ 10 fails with EMFILE — the table is what it was; when it can, exactly one descriptor is
    added, at or above 10 and CLOEXEC, and the `close` that follows the script gives back the table
    it started from -/
theorem dot_restores (o : Oracle W) (w : W) (t : FdTable) (path : Nat) :
    ((openScript o w t path).2.2 = none →
      (openScript o w t path).2.1.limit = t.limit ∧ ∀ fd, (openScript o w t path).2.1.get fd = t.get fd) ∧
    (∀ n, (openScript o w t path).2.2 = some n →
      10 ≤ n ∧ (openScript o w t path).2.1.isCloexec n = true ∧
      (∀ fd, fd ≠ n → (openScript o w t path).2.1.get fd = t.get fd) ∧
      ((openScript o w t path).2.1.close n).limit = t.limit ∧
      ∀ fd, ((openScript o w t path).2.1.close n).get fd = t.get fd) := by
  obtain ⟨hl, hN, hS⟩ := openScript_spec o w t path
  refine ⟨fun h => ⟨hl, hN h⟩, fun n hn => ?_⟩
  obtain ⟨a, b, c, d⟩ := hS n hn
  refine ⟨a, c, d, hl, fun fd => ?_⟩
  simp only [FdTable.close, FdTable.get_put]
  split
  · next heq => rw [heq]; exact b.symm
  · next hne => exact d fd hne

-- non-vacuity: limit 10 makes the move fail after the open succeeded on descriptor 3; limit 11 lets it through
example : (openScript worldOracle (stdWorld false) { stdTable with limit := some 10 } 10).2.2 = none ∧
    (openScript worldOracle (stdWorld false) { stdTable with limit := some 10 } 10).2.1.openFds = stdTable.openFds ∧
    (openScript worldOracle (stdWorld false) { stdTable with limit := some 11 } 10).2.2 = some 10 := by decide

/-! ### `exec` -/

/-- ★ `preserve_redirs` closes every saved copy and nothing else: all descriptors that are not
    saved copies — in particular every descriptor below 10, hence every user-visible target — stay
    as the redirections left them -/
theorem preserve_keeps_targets (o : Oracle W) (w : W) (t : FdTable) (rs : List Redir) :
    (∀ s ∈ (performRedirs o w t rs).saved, ∀ sv, s.save = some sv →
        (preserveRedirs (performRedirs o w t rs).t (performRedirs o w t rs).saved).get sv = none) ∧
    (∀ fd, (∀ s ∈ (performRedirs o w t rs).saved, s.save ≠ some fd) →
        (preserveRedirs (performRedirs o w t rs).t (performRedirs o w t rs).saved).get fd =
          (performRedirs o w t rs).t.get fd) ∧
    (∀ fd, fd < minInternalFd →
        (preserveRedirs (performRedirs o w t rs).t (performRedirs o w t rs).saved).get fd =
          (performRedirs o w t rs).t.get fd) ∧
    (preserveRedirs (performRedirs o w t rs).t (performRedirs o w t rs).saved).limit = t.limit := by
  refine ⟨fun s hs sv hsv => preserveRedirs_save _ _ _ ⟨s, hs, hsv⟩,
    fun fd h => preserveRedirs_not_save _ _ _ h, fun fd hlt => ?_, ?_⟩
  · apply preserveRedirs_not_save
    intro s hs hsv
    have := (internal_fds o w t rs s hs fd hsv).2.1
    omega
  · rw [preserveRedirs_limit, performRedirs_limit]

/-- … hence (with `preserve_keeps_targets`) every descriptor below 10 is afterwards what the
    redirections made of it, and no saved copy is left -/
theorem exec_persists_targets (w : World) (t : FdTable) (k : Kind) (rs : List Redir) (prev : Nat)
    (hk : k.isExec = true) (h : (performRedirs worldOracle w t rs).err = none) :
    (∀ fd, fd < minInternalFd →
      (runCommand w t k rs prev).t.get fd = (performRedirs worldOracle w t rs).t.get fd) ∧
    (∀ s ∈ (performRedirs worldOracle w t rs).saved, ∀ sv, s.save = some sv →
      (runCommand w t k rs prev).t.get sv = none) := by
  rw [exec_persists w t k rs prev hk h]
  obtain ⟨h1, _, h3, _⟩ := preserve_keeps_targets worldOracle w t rs
  exact ⟨h3, h1⟩

example : (preserveRedirs (performRedirs worldOracle (stdWorld false) stdTable [⟨1, .file .fileOut 3⟩]).t
    (performRedirs worldOracle (stdWorld false) stdTable [⟨1, .file .fileOut 3⟩]).saved).openFds
    = [(0, ⟨0, false⟩), (1, ⟨3, false⟩), (2, ⟨2, false⟩)] := by decide

/-! ### noclobber -/

/-- the three kinds of thing a path can name in the table -/
inductive Target where
  | missing | regular | directory | device
  deriving DecidableEq, Repr

def targetWorld (k : Target) (noclobber : Bool) : World :=
  setFile (stdWorld noclobber) 3
    (match k with
     | .missing => ⟨false, .reg, [], false⟩
     | .regular => ⟨true, .reg, [1, 2], false⟩
     | .directory => ⟨true, .dir, [], false⟩
     | .device => ⟨true, .tty, [7], false⟩)

/-- one row of the table: what `>`/`>|` on path 3 do in that world -/
def noclobberRow (k : Target) (noclobber : Bool) (clobberOp : Bool) : Bool :=
  let w := targetWorld k noclobber
  let res := openNormalFile worldOracle w stdTable (if clobberOp then .fileClobber else .fileOut) 3
  let refused := noclobber && !clobberOp && k == .regular
  if k == .directory then
    -- a directory cannot be opened for writing (EISDIR, also through noclobber's second, plain open);
    -- no descriptor is left
    (match res.r with | .error (.openFile .EISDIR) => true | _ => false) &&
      res.t.openFds == stdTable.openFds
  else if k == .device then
    -- an existing file that is not regular goes through, noclobber or not (`open_file_noclobber`'s
    -- second, plain open + `fstat`), and is not truncated
    (match res.r with | .ok (.owned 3) => true | _ => false) && (fileAt res.w 3).content == [7]
  else if refused then
    -- fails with EEXIST, the file keeps its content, no descriptor is left
    (match res.r with | .error (.openFile .EEXIST) => true | _ => false) &&
      (fileAt res.w 3).content == [1, 2] && res.t.openFds == stdTable.openFds
  else
    -- succeeds on the lowest free descriptor; a regular file is truncated; a missing one is created
    (match res.r with | .ok (.owned 3) => true | _ => false) &&
      (fileAt res.w 3).present && (fileAt res.w 3).content == []

/-- ★ `>` under noclobber on an existing regular file fails without truncating it; `>|` and a missing
    file go through; an existing non-regular file (a terminal device) goes through under noclobber
    too; a directory is refused with EISDIR either way (all 4 × 2 × 2 rows) -/
theorem noclobber_table : ∀ (k : Target) (noclobber clobberOp : Bool), noclobberRow k noclobber clobberOp = true := by
  intro k nc c
  cases k <;> cases nc <;> cases c <;> decide

/-- a failing allocation has no effect on the file system: with no free descriptor below the limit
    `>a` fails with EMFILE and `a` keeps its content, `>m` does not create `m` -/
theorem emfile_has_no_side_effect :
    let t : FdTable := { stdTable with limit := some 3 }
    let ra := openNormalFile worldOracle (stdWorld false) t .fileOut 3
    let rm := openNormalFile worldOracle (stdWorld false) t .fileOut 5
    (match ra.r with | .error (.openFile .EMFILE) => true | _ => false) = true ∧
    (fileAt ra.w 3).content = [1, 2] ∧
    (match rm.r with | .error (.openFile .EMFILE) => true | _ => false) = true ∧
    (fileAt rm.w 5).present = false := by decide

end YashModel.Redir
