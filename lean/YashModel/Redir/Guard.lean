/-
  C09 helper lemmas, part 3: the guard's loops (`perform_redirs`, `undo_redirs`, `preserve_redirs`).
-/
import YashModel.Redir.Steps
namespace YashModel.Redir
open YashModel.Generated.RedirConsts

variable {W : Type}

theorem undoRedirs_nil (t : FdTable) : undoRedirs t [] = t := rfl

/-- reverse order: the later records are undone first -/
theorem undoRedirs_cons (t : FdTable) (s : SavedFd) (ss : List SavedFd) :
    undoRedirs t (s :: ss) = undoOne (undoRedirs t ss) s := by
  simp [undoRedirs, List.foldl_append]

theorem Equiv.undoRedirs {a b : FdTable} (h : Equiv a b) (ss : List SavedFd) :
    Equiv (undoRedirs a ss) (undoRedirs b ss) := by
  induction ss with
  | nil => exact h
  | cons s ss ih => rw [undoRedirs_cons, undoRedirs_cons]; exact ih.undoOne s

theorem performRedirs_nil (o : Oracle W) (w : W) (t : FdTable) :
    performRedirs o w t [] = { w := w, t := t, saved := [], err := none } := rfl

theorem performRedirs_cons_err (o : Oracle W) (w : W) (t : FdTable) (r : Redir) (rs : List Redir) (e : ErrCause)
    (h : (perform o w t r).r = .error e) :
    performRedirs o w t (r :: rs) =
      { w := (perform o w t r).w, t := (perform o w t r).t, saved := [], err := some e } := by
  simp [performRedirs, h]

theorem performRedirs_cons_ok (o : Oracle W) (w : W) (t : FdTable) (r : Redir) (rs : List Redir) (s : SavedFd)
    (h : (perform o w t r).r = .ok s) :
    performRedirs o w t (r :: rs) =
      { w := (performRedirs o (perform o w t r).w (perform o w t r).t rs).w,
        t := (performRedirs o (perform o w t r).w (perform o w t r).t rs).t,
        saved := s :: (performRedirs o (perform o w t r).w (perform o w t r).t rs).saved,
        err := (performRedirs o (perform o w t r).w (perform o w t r).t rs).err } := by
  simp [performRedirs, h]

/-- the whole list leaves every CLOEXEC descriptor alone -/
theorem performRedirs_keeps_cloexec (o : Oracle W) (w : W) (t : FdTable) (rs : List Redir) (fd : Fd)
    (h : t.isCloexec fd = true) : (performRedirs o w t rs).t.get fd = t.get fd := by
  induction rs generalizing w t with
  | nil => rfl
  | cons r rs ih =>
    have hk := perform_keeps_cloexec o w t r fd h
    cases hp : (perform o w t r).r with
    | error e => rw [performRedirs_cons_err o w t r rs e hp]; exact hk
    | ok s =>
      rw [performRedirs_cons_ok o w t r rs s hp]
      simp only
      rw [ih (perform o w t r).w (perform o w t r).t (by simp [FdTable.isCloexec, hk] at h ⊢; exact h)]
      exact hk

theorem performRedirs_limit (o : Oracle W) (w : W) (t : FdTable) (rs : List Redir) :
    (performRedirs o w t rs).t.limit = t.limit := by
  induction rs generalizing w t with
  | nil => rfl
  | cons r rs ih =>
    cases hp : (perform o w t r).r with
    | error e => rw [performRedirs_cons_err o w t r rs e hp]; exact perform_limit o w t r
    | ok s =>
      rw [performRedirs_cons_ok o w t r rs s hp]
      simp only
      rw [ih]; exact perform_limit o w t r

theorem isCloexec_congr {a b : FdTable} {fd : Fd} (h : a.get fd = b.get fd) : a.isCloexec fd = b.isCloexec fd := by
  simp [FdTable.isCloexec, h]

/-- a CLOEXEC descriptor after `perform` was CLOEXEC before or is the saved copy just made -/
theorem perform_cloexec_origin (o : Oracle W) (w : W) (t : FdTable) (r : Redir) (fd : Fd)
    (h : (perform o w t r).t.isCloexec fd = true) :
    t.isCloexec fd = true ∨ ∃ s, (perform o w t r).r = .ok s ∧ s.save = some fd := by
  rcases perform_spec o w t r with ⟨s, hs, hp⟩ | ⟨e, _, heq⟩
  · cases hsv : s.save with
    | none =>
      have hch := (hp.none_case hsv).2
      by_cases hfd : fd = r.fd
      · rw [hfd, hch.plain] at h; cases h
      · left; rw [← isCloexec_congr (hch.frame fd hfd)]; exact h
    | some sv =>
      obtain ⟨e, _, _, _, _, hch⟩ := hp.some_case sv hsv
      by_cases hfd : fd = r.fd
      · rw [hfd, hch.plain] at h; cases h
      · by_cases hsvfd : fd = sv
        · right; exact ⟨s, hs, by rw [hsv, hsvfd]⟩
        · left
          rw [isCloexec_congr (hch.frame fd hfd)] at h
          rw [← isCloexec_congr (a := t.put sv _) (b := t) (fd := fd) (by simp [hsvfd])]
          exact h
  · left; rw [← isCloexec_congr (heq.2 fd)]; exact h

theorem preserveRedirs_cons (t : FdTable) (s : SavedFd) (ss : List SavedFd) :
    preserveRedirs t (s :: ss) = preserveRedirs (preserveOne t s) ss := rfl

theorem preserveOne_get (t : FdTable) (s : SavedFd) (fd : Fd) :
    (preserveOne t s).get fd = if s.save = some fd then none else t.get fd := by
  unfold preserveOne
  cases hs : s.save with
  | none => simp
  | some sv =>
    simp only [FdTable.close, FdTable.get_put, Option.some.injEq]
    by_cases h : fd = sv
    · simp [h]
    · simp [h, Ne.symm h]

theorem preserveRedirs_limit (t : FdTable) (ss : List SavedFd) : (preserveRedirs t ss).limit = t.limit := by
  induction ss generalizing t with
  | nil => rfl
  | cons s ss ih =>
    rw [preserveRedirs_cons, ih]
    unfold preserveOne
    cases s.save <;> rfl

theorem preserveRedirs_none (t : FdTable) (ss : List SavedFd) (fd : Fd) (h : t.get fd = none) :
    (preserveRedirs t ss).get fd = none := by
  induction ss generalizing t with
  | nil => exact h
  | cons s ss ih =>
    rw [preserveRedirs_cons]
    apply ih
    rw [preserveOne_get]; split <;> simp [h]

theorem preserveRedirs_not_save (t : FdTable) (ss : List SavedFd) (fd : Fd)
    (h : ∀ s ∈ ss, s.save ≠ some fd) : (preserveRedirs t ss).get fd = t.get fd := by
  induction ss generalizing t with
  | nil => rfl
  | cons s ss ih =>
    rw [preserveRedirs_cons, ih _ (fun s' hs' => h s' (List.mem_cons_of_mem _ hs')), preserveOne_get]
    simp [h s (List.mem_cons_self ..)]

theorem preserveRedirs_save (t : FdTable) (ss : List SavedFd) (fd : Fd)
    (h : ∃ s ∈ ss, s.save = some fd) : (preserveRedirs t ss).get fd = none := by
  induction ss generalizing t with
  | nil => obtain ⟨s, hs, _⟩ := h; cases hs
  | cons s ss ih =>
    rw [preserveRedirs_cons]
    by_cases hs : s.save = some fd
    · apply preserveRedirs_none
      rw [preserveOne_get]; simp [hs]
    · obtain ⟨s', hs', hsv⟩ := h
      rcases List.mem_cons.mp hs' with heq | hmem
      · subst heq; exact absurd hsv hs
      · exact ih _ ⟨s', hmem, hsv⟩

/-! ### the loop looked at after every item (`performSteps`) and the frame of a whole list -/

/-- entry `i` of `performSteps` is the state `performRedirs` reaches on the first `i+1` items -/
theorem performSteps_prefix (o : Oracle W) (w : W) (t : FdTable) (rs : List Redir) (i : Nat) (p : W × FdTable)
    (h : (performSteps o w t rs)[i]? = some p) :
    i < rs.length ∧
    p = ((performRedirs o w t (rs.take (i+1))).w, (performRedirs o w t (rs.take (i+1))).t) := by
  induction rs generalizing w t i with
  | nil => simp [performSteps] at h
  | cons r rs ih =>
    cases hp : (perform o w t r).r with
    | error e =>
      simp only [performSteps, hp] at h
      cases i with
      | zero =>
        simp only [List.getElem?_cons_zero, Option.some.injEq] at h
        refine ⟨by simp, ?_⟩
        rw [← h]
        simp only [Nat.zero_add, List.take_succ_cons, List.take_zero]
        rw [performRedirs_cons_err o w t r [] e hp]
      | succ j => simp at h
    | ok s =>
      simp only [performSteps, hp] at h
      cases i with
      | zero =>
        simp only [List.getElem?_cons_zero, Option.some.injEq] at h
        refine ⟨by simp, ?_⟩
        rw [← h]
        simp only [Nat.zero_add, List.take_succ_cons, List.take_zero]
        rw [performRedirs_cons_ok o w t r [] s hp]
        rfl
      | succ j =>
        simp only [List.getElem?_cons_succ] at h
        obtain ⟨hlt, hpe⟩ := ih _ _ j h
        refine ⟨by simpa using hlt, ?_⟩
        rw [hpe]
        simp only [List.take_succ_cons]
        rw [performRedirs_cons_ok o w t r (rs.take (j+1)) s hp]

/-- one step is recorded for every item that was tried: the successful ones and the failing one -/
theorem performSteps_length (o : Oracle W) (w : W) (t : FdTable) (rs : List Redir) :
    (performSteps o w t rs).length =
      (performRedirs o w t rs).saved.length + (if (performRedirs o w t rs).err.isSome then 1 else 0) := by
  induction rs generalizing w t with
  | nil => rfl
  | cons r rs ih =>
    cases hp : (perform o w t r).r with
    | error e => rw [performRedirs_cons_err o w t r rs e hp]; simp [performSteps, hp]
    | ok s =>
      rw [performRedirs_cons_ok o w t r rs s hp]
      simp only [performSteps, hp, List.length_cons, ih]
      omega

/-- the last recorded step is the state the whole loop ends in (also when it stopped at a failure) -/
theorem performSteps_last (o : Oracle W) (w : W) (t : FdTable) (rs : List Redir) (hne : rs ≠ []) :
    (performSteps o w t rs).getLast? = some ((performRedirs o w t rs).w, (performRedirs o w t rs).t) := by
  induction rs generalizing w t with
  | nil => exact absurd rfl hne
  | cons r rs ih =>
    cases hp : (perform o w t r).r with
    | error e => rw [performRedirs_cons_err o w t r rs e hp]; simp [performSteps, hp]
    | ok s =>
      rw [performRedirs_cons_ok o w t r rs s hp]
      simp only [performSteps, hp]
      cases rs with
      | nil => simp [performSteps, performRedirs]
      | cons r2 rs2 =>
        have := ih (perform o w t r).w (perform o w t r).t (by simp)
        rw [List.getLast?_cons_of_ne_nil] <;> first | exact this | skip
        cases hp2 : (perform o (perform o w t r).w (perform o w t r).t r2).r <;> simp [performSteps, hp2]

/-- a successful `perform` changes nothing but its target and the slot of its saved copy -/
theorem perform_frame (o : Oracle W) (w : W) (t : FdTable) (r : Redir) (s : SavedFd)
    (h : (perform o w t r).r = .ok s) (fd : Fd) (hne : fd ≠ r.fd) (hns : s.save ≠ some fd) :
    (perform o w t r).t.get fd = t.get fd := by
  rcases perform_spec o w t r with ⟨s', hs', hp⟩ | ⟨e, he, _⟩
  · rw [h] at hs'; cases hs'
    cases hsv : s.save with
    | none => exact (hp.none_case hsv).2.frame fd hne
    | some sv =>
      obtain ⟨e, _, _, _, _, hch⟩ := hp.some_case sv hsv
      rw [hch.frame fd hne]
      have : fd ≠ sv := fun heq => hns (by rw [hsv, heq])
      simp [this]
  · rw [h] at he; cases he

/-- a whole list — whether it succeeds or stops part-way — changes nothing but the targets it names
    and the slots of the saved copies the guard still holds -/
theorem performRedirs_frame (o : Oracle W) (w : W) (t : FdTable) (rs : List Redir) (fd : Fd)
    (hnt : ∀ r ∈ rs, r.fd ≠ fd) (hns : ∀ s ∈ (performRedirs o w t rs).saved, s.save ≠ some fd) :
    (performRedirs o w t rs).t.get fd = t.get fd := by
  induction rs generalizing w t with
  | nil => rfl
  | cons r rs ih =>
    cases hp : (perform o w t r).r with
    | error e =>
      rw [performRedirs_cons_err o w t r rs e hp]
      rcases perform_spec o w t r with ⟨s, hs, _⟩ | ⟨e', _, heq⟩
      · rw [hp] at hs; cases hs
      · exact heq.2 fd
    | ok s =>
      rw [performRedirs_cons_ok o w t r rs s hp] at hns ⊢
      simp only at hns ⊢
      rw [ih _ _ (fun r' hr' => hnt r' (List.mem_cons_of_mem _ hr'))
        (fun s' hs' => hns s' (List.mem_cons_of_mem _ hs'))]
      exact perform_frame o w t r s hp fd (Ne.symm (hnt r (List.mem_cons_self ..)))
        (hns s (List.mem_cons_self ..))

end YashModel.Redir
