/-
  Impl model of `yash-semantics/src/redir.rs` (`perform`, `open_and_overwrite`, `open_normal`,
  `open_file`, `open_file_noclobber`, `copy_fd`, `RedirGuard::{perform_redir, perform_redirs,
  undo_redirs, preserve_redirs}`) and `redir/here_doc.rs` (`open_fd`).

  Import-free and executable.  The descriptor table is `FdTable`; everything else the system calls
  touch (file system, open file descriptions, the `noclobber` option, further allocation failures)
  is behind an `Oracle W` over an arbitrary world type `W`: the theorems hold for every oracle, the
  driver instantiates it with the concrete world of `World.lean`.
-/
import YashModel.Generated.RedirConsts
import YashModel.Redir.FdTable
namespace YashModel.Redir
open YashModel.Generated.RedirConsts

inductive Errno where
  | EBADF | EMFILE | EEXIST | ENOENT | ENOTDIR | EISDIR | EACCES | EIO
  deriving DecidableEq, Repr, Inhabited

/-- arguments of `Open::open` -/
structure OpenReq where
  path : Nat
  args : OpenArgs
  deriving DecidableEq, Repr

/-- What the system does around the descriptor table. -/
structure Oracle (W : Type) where
  /-- `VirtualSystem::resolve_file` + the new open file description: creation, truncation and the
      errno of `open`; only reached when a descriptor is available -/
  resolve : W → OpenReq → W × Except Errno Nat
  /-- the anonymous file of `open_tmpfile` and its open file description -/
  tmpfile : W → W × Nat
  /-- `here_doc::fill_content` through that description: `write_all` then `lseek(0)` -/
  fill : W → Nat → List Nat → W × Bool
  /-- `fstat(fd).is_regular_file()` of the description -/
  isRegular : W → Nat → Bool
  /-- `ofd_access` of the description: (readable, writable) -/
  access : W → Nat → Bool × Bool
  /-- asked at every descriptor allocation: does it fail irrespective of the process limit -/
  deny : W → W × Bool
  /-- `env.options.get(Clobber) == Off` -/
  noclobber : W → Bool

/-- `RedirOp` for files -/
inductive FileOp where
  | fileIn | fileOut | fileClobber | fileAppend | fileInOut
  deriving DecidableEq, Repr

/-- expanded operand of `<&` / `>&` -/
inductive DupSrc where
  | closeIt            -- `-`
  | fd (n : Fd)
  | malformed          -- not an integer (or one that does not fit `i32`)
  | negOne             -- `-1`: parses, and is never an open descriptor
  deriving DecidableEq, Repr

inductive Body where
  | file (op : FileOp) (path : Nat)
  | dup (input : Bool) (src : DupSrc)      -- `<&` (input = true) / `>&`
  | hereDoc (content : List Nat)
  | unsupported                            -- `>>|` and `<<<`
  | expErr                                 -- the operand's expansion fails
  | nulPath                                -- the expanded pathname contains a NUL byte (`NulByte`)
  | fileCs (op : FileOp) (path : Nat) (st : Nat)  -- the pathname comes out of a command substitution that exits with `st`
  deriving DecidableEq, Repr

structure Redir where
  fd : Fd          -- `fd_or_default()`
  body : Body
  deriving DecidableEq, Repr

inductive ErrCause where
  | expansion
  | fdNotOverwritten (fd : Fd) (e : Errno)
  | reservedFd (fd : Fd)
  | openFile (e : Errno)
  | malformedFd
  | unreadableFd (fd : Int)     -- the parsed operand (`RawFd`; may be negative)
  | unwritableFd (fd : Int)
  | tmpUnavailable (e : Errno)
  | unsupported
  | nulByte
  deriving DecidableEq, Repr

/-- `perform_redir`'s `Option<ExitStatus>`: the exit status of the command substitution an operand contains -/
def Body.csStatus : Body → Option Nat
  | .fileCs _ _ st => some st
  | _ => none

/-- `perform_redirs`' result on a list that went through: `exit_status = new_exit_status.or(exit_status)`
    item after item — the status of the LAST operand that contains a command substitution -/
def csStatus : List Redir → Option Nat
  | [] => none
  | r :: rs => (csStatus rs).or r.body.csStatus

/-- `SavedFd` -/
structure SavedFd where
  original : Fd
  save : Option Fd
  deriving DecidableEq, Repr

/-- `FdSpec` -/
inductive FdSpec where
  | owned (fd : Fd)
  | borrowed (fd : Fd)
  | closed
  deriving DecidableEq, Repr

def FdSpec.asFd : FdSpec → Option Fd
  | .owned fd => some fd
  | .borrowed fd => some fd
  | .closed => none

/-- `FdSpec::close` -/
def FdSpec.close (s : FdSpec) (t : FdTable) : FdTable :=
  match s with
  | .owned fd => t.close fd
  | _ => t

/-- state threaded through the calls: world and table, plus a result -/
structure R (W : Type) (α : Type) where
  w : W
  t : FdTable
  r : Except ErrCause α

variable {W : Type}

/-- a new descriptor for the here-document's open file description: `open_tmpfile` (lowest free) with
    the flag the descriptor has when `here_doc::open_fd` hands it back (`hereDocCloexec`) -/
def allocLowest (o : Oracle W) (w : W) (t : FdTable) (ofd : Nat) : W × Option (Fd × FdTable) :=
  ((o.deny w).1, t.openFdGe 0 { ofd := ofd, cloexec := hereDocCloexec } (o.deny w).2)

/-- `Open::open` of the virtual system: first `has_unused_fd` (EMFILE before anything happens to the
    file system; the oracle may strike here too), then resolve (creation, truncation, errno), then
    the lowest free descriptor, no flags -/
def sysOpen (o : Oracle W) (w : W) (t : FdTable) (req : OpenReq) : W × FdTable × Except Errno Fd :=
  if (o.deny w).2 || !t.inLimit (t.minUnused 0) then ((o.deny w).1, t, .error .EMFILE) else
  match o.resolve (o.deny w).1 req with
  | (w1, .error e) => (w1, t, .error e)
  | (w1, .ok ofd) => (w1, t.put (t.minUnused 0) (some { ofd := ofd, cloexec := false }), .ok (t.minUnused 0))

/-- `open_file` -/
def openFile (o : Oracle W) (w : W) (t : FdTable) (args : OpenArgs) (path : Nat) : R W FdSpec :=
  match sysOpen o w t { path := path, args := args } with
  | (w1, t1, .ok fd) => { w := w1, t := t1, r := .ok (.owned fd) }
  | (w1, t1, .error e) => { w := w1, t := t1, r := .error (.openFile e) }

/-- `fstat(fd).is_ok_and(|stat| stat.is_regular_file())` -/
def isRegularFd (o : Oracle W) (w : W) (t : FdTable) (fd : Fd) : Bool :=
  match t.get fd with
  | some e => o.isRegular w e.ofd
  | none => false

/-- arguments of the two `open` calls of `open_file_noclobber` (re-extracted from the Rust source) -/
def flagsExcl : OpenArgs := noclobberFirst
def flagsPlainWrite : OpenArgs := noclobberSecond

/-- `open_file_noclobber`: `O_CREAT|O_EXCL` first; on EEXIST a plain open, refused when the file
    turns out to be regular -/
def openFileNoclobber (o : Oracle W) (w : W) (t : FdTable) (path : Nat) : R W FdSpec :=
  match sysOpen o w t { path := path, args := flagsExcl } with
  | (w1, t1, .ok fd) => { w := w1, t := t1, r := .ok (.owned fd) }
  | (w1, t1, .error e) =>
    if e ≠ .EEXIST then { w := w1, t := t1, r := .error (.openFile e) } else
    match sysOpen o w1 t1 { path := path, args := flagsPlainWrite } with
    | (w2, t2, .ok fd) =>
      if isRegularFd o w2 t2 fd then { w := w2, t := t2.close fd, r := .error (.openFile .EEXIST) }
      else { w := w2, t := t2, r := .ok (.owned fd) }
    | (w2, t2, .error e2) =>
      if e2 = .ENOENT then { w := w2, t := t2, r := .error (.openFile .EEXIST) }
      else { w := w2, t := t2, r := .error (.openFile e2) }

/-- `copy_fd`: `-`, parse, `is_fd_valid` (access mode), then the CLOEXEC check -/
def copyFd (o : Oracle W) (w : W) (t : FdTable) (src : DupSrc) (input : Bool) : R W FdSpec :=
  match src with
  | .closeIt => { w := w, t := t, r := .ok .closed }
  | .malformed => { w := w, t := t, r := .error .malformedFd }
  -- `ofd_access(Fd(-1))` fails: `is_fd_valid` is false
  | .negOne => { w := w, t := t, r := .error (if input then .unreadableFd (-1) else .unwritableFd (-1)) }
  | .fd n =>
    match t.get n with
    | none => { w := w, t := t, r := .error (if input then .unreadableFd n else .unwritableFd n) }
    | some e =>
      if !(if input then (o.access w e.ofd).1 else (o.access w e.ofd).2) then
        { w := w, t := t, r := .error (if input then .unreadableFd n else .unwritableFd n) }
      else if e.cloexec then { w := w, t := t, r := .error (.reservedFd n) }
      else { w := w, t := t, r := .ok (.borrowed n) }

/-- `open_normal` for the file operators -/
def openNormalFile (o : Oracle W) (w : W) (t : FdTable) (op : FileOp) (path : Nat) : R W FdSpec :=
  match op with
  | .fileIn => openFile o w t fileIn path
  | .fileOut => if o.noclobber w then openFileNoclobber o w t path else openFile o w t fileOut path
  | .fileClobber => openFile o w t fileOut path
  | .fileAppend => openFile o w t fileAppend path
  | .fileInOut => openFile o w t fileInOut path

/-- `here_doc::open_fd`: `open_tmpfile` on the lowest free descriptor — the descriptor ends up with the
    flag `hereDocCloexec` (re-extracted: `open_tmpfile` sets none, an `fcntl_setfd` in `open_fd` would) —,
    `fill_content`, and — iff `hereDocClosesOnFailure` (re-extracted) — `close` when that fails -/
def hereDocFd (o : Oracle W) (w : W) (t : FdTable) (content : List Nat) : R W FdSpec :=
  match allocLowest o (o.tmpfile w).1 t (o.tmpfile w).2 with
  | (w2, none) => { w := w2, t := t, r := .error (.tmpUnavailable .EMFILE) }
  | (w2, some (fd, t')) =>
    if (o.fill w2 (o.tmpfile w).2 content).2 then { w := (o.fill w2 (o.tmpfile w).2 content).1, t := t', r := .ok (.owned fd) }
    else { w := (o.fill w2 (o.tmpfile w).2 content).1, t := if hereDocClosesOnFailure then t'.close fd else t',
           r := .error (.tmpUnavailable .EIO) }

/-- `System::pipe` as the command substitution in an operand needs it
    (`expansion/initial/command_subst.rs`): two descriptors, the lowest free and the next, both
    closed again before the file is opened.  `false` = EMFILE: the expansion fails. -/
def pipeAvailable (o : Oracle W) (w : W) (t : FdTable) : W × Bool :=
  ((o.deny w).1,
   !(o.deny w).2 && t.inLimit (t.minUnused 0) &&
     (t.put (t.minUnused 0) (some ⟨0, false⟩)).inLimit ((t.put (t.minUnused 0) (some ⟨0, false⟩)).minUnused 0))

/-- first half of `open_and_overwrite`: "Prepare an FD from the redirection body" -/
def prepare (o : Oracle W) (w : W) (t : FdTable) (b : Body) : R W FdSpec :=
  match b with
  | .file op path => openNormalFile o w t op path
  | .dup input src => copyFd o w t src input
  | .hereDoc content => hereDocFd o w t content
  | .unsupported => { w := w, t := t, r := .error .unsupported }
  | .expErr => { w := w, t := t, r := .error .expansion }
  | .nulPath => { w := w, t := t, r := .error .nulByte }
  | .fileCs op path _ =>
    if (pipeAvailable o w t).2 then openNormalFile o (pipeAvailable o w t).1 t op path
    else { w := (pipeAvailable o w t).1, t := t, r := .error .expansion }

/-- second half of `open_and_overwrite`: `dup2` onto the target and close of the owned descriptor
    (skipped when the opened descriptor *is* the target), or close of the target for `-` -/
def overwrite (t : FdTable) (spec : FdSpec) (target : Fd) : FdTable × Except ErrCause Unit :=
  match spec.asFd with
  | some fd =>
    if fd = target then (t, .ok ())
    else
      match t.dup2 fd target with
      | some t' => (spec.close t', .ok ())
      | none => (spec.close t, .error (.fdNotOverwritten target .EBADF))
  | none => (t.close target, .ok ())

/-- `open_and_overwrite` -/
def openAndOverwrite (o : Oracle W) (w : W) (t : FdTable) (r : Redir) : R W Unit :=
  match (prepare o w t r.body).r with
  | .error e => { w := (prepare o w t r.body).w, t := (prepare o w t r.body).t, r := .error e }
  | .ok spec =>
    { w := (prepare o w t r.body).w,
      t := (overwrite (prepare o w t r.body).t spec r.fd).1,
      r := (overwrite (prepare o w t r.body).t spec r.fd).2 }

/-- after the save: run `open_and_overwrite`; on failure close the saved copy -/
def finishPerform (o : Oracle W) (w : W) (t : FdTable) (r : Redir) (save : Option Fd) : R W SavedFd :=
  match (openAndOverwrite o w t r).r with
  | .ok _ => { w := (openAndOverwrite o w t r).w, t := (openAndOverwrite o w t r).t,
               r := .ok { original := r.fd, save := save } }
  | .error e =>
    { w := (openAndOverwrite o w t r).w,
      t := match save with
           | some s => (openAndOverwrite o w t r).t.close s
           | none => (openAndOverwrite o w t r).t,
      r := .error e }

/-- `perform`: reserved-descriptor check, saved copy at ≥ `MIN_INTERNAL_FD` with CLOEXEC
    (EBADF → nothing to save), then `open_and_overwrite` -/
def perform (o : Oracle W) (w : W) (t : FdTable) (r : Redir) : R W SavedFd :=
  if t.isCloexec r.fd then { w := w, t := t, r := .error (.reservedFd r.fd) } else
  match t.dup r.fd saveMin saveCloexec (o.deny w).2 with
  | .error .EBADF => finishPerform o w t r none
  | .error .EMFILE => { w := (o.deny w).1, t := t, r := .error (.fdNotOverwritten r.fd .EMFILE) }
  | .ok (s, t1) => finishPerform o (o.deny w).1 t1 r (some s)

/-- outcome of `RedirGuard::perform_redirs`: the guard's `saved_fds` in the order pushed -/
structure GuardRun (W : Type) where
  w : W
  t : FdTable
  saved : List SavedFd
  err : Option ErrCause

/-- `RedirGuard::perform_redirs`: left to right, stopping at the first failure; the effects of the
    preceding items stay -/
def performRedirs (o : Oracle W) (w : W) (t : FdTable) : List Redir → GuardRun W
  | [] => { w := w, t := t, saved := [], err := none }
  | r :: rs =>
    match (perform o w t r).r with
    | .error e => { w := (perform o w t r).w, t := (perform o w t r).t, saved := [], err := some e }
    | .ok s =>
      { performRedirs o (perform o w t r).w (perform o w t r).t rs with
        saved := s :: (performRedirs o (perform o w t r).w (perform o w t r).t rs).saved }

/-- `RedirGuard::perform_redir` called item by item, as `perform_redirs` does: the world and table
    after every call, the failing one included (the harness's `rg` built-in looks at the process
    table after each call).  `performSteps_prefix` (Guard.lean): entry `i` is the state
    `performRedirs` reaches on the first `i+1` items. -/
def performSteps (o : Oracle W) (w : W) (t : FdTable) : List Redir → List (W × FdTable)
  | [] => []
  | r :: rs =>
    match (perform o w t r).r with
    | .error _ => [((perform o w t r).w, (perform o w t r).t)]
    | .ok _ =>
      ((perform o w t r).w, (perform o w t r).t) :: performSteps o (perform o w t r).w (perform o w t r).t rs

/-- one iteration of the loop in `undo_redirs` -/
def undoOne (t : FdTable) (s : SavedFd) : FdTable :=
  match s.save with
  | some sv => ((t.dup2 sv s.original).getD t).close sv
  | none => t.close s.original

/-- `RedirGuard::undo_redirs`: `saved_fds.drain(..).rev()` -/
def undoRedirs (t : FdTable) (saved : List SavedFd) : FdTable := saved.reverse.foldl undoOne t

/-- one iteration of the loop in `preserve_redirs` -/
def preserveOne (t : FdTable) (s : SavedFd) : FdTable :=
  match s.save with
  | some sv => t.close sv
  | none => t

/-- `RedirGuard::preserve_redirs`: closes the saved copies only -/
def preserveRedirs (t : FdTable) (saved : List SavedFd) : FdTable := saved.foldl preserveOne t

/-! ### descriptors the shell opens for itself: `move_fd_internal` and the `.` built-in -/

/-- `yash_env::io::move_fd_internal`, over what the translator reads off it (`moveThreshold`,
    `moveMin`, `moveCloexec`, `moveClosesOnFailure`): a descriptor at or above the threshold stays;
    otherwise `dup(from, moveMin, moveCloexec)` and then `close(from)` — also when the dup failed iff
    `moveClosesOnFailure`; the result is the dup's (`none` = its errno) -/
def moveFdInternal (o : Oracle W) (w : W) (t : FdTable) (src : Fd) : W × FdTable × Option Fd :=
  if moveThreshold ≤ src then (w, t, some src) else
  match t.dup src moveMin moveCloexec (o.deny w).2 with
  | .ok (n, t1) => ((o.deny w).1, t1.close src, some n)
  | .error _ => ((o.deny w).1, if moveClosesOnFailure then t.close src else t, none)

/-- `yash-builtin/src/source/semantics.rs` `open_file`: `open(path, ReadOnly, O_CLOEXEC)` (arguments
    re-extracted: `dotOpenArgs`, `dotOpenCloexec`) on the lowest free descriptor (EMFILE checked first),
    then `move_fd_internal` -/
def openScript (o : Oracle W) (w : W) (t : FdTable) (path : Nat) : W × FdTable × Option Fd :=
  if (o.deny w).2 || !t.inLimit (t.minUnused 0) then ((o.deny w).1, t, none) else
  match o.resolve (o.deny w).1 { path := path, args := dotOpenArgs } with
  | (w1, .error _) => (w1, t, none)
  | (w1, .ok ofd) =>
    moveFdInternal o w1 (t.put (t.minUnused 0) (some { ofd := ofd, cloexec := dotOpenCloexec })) (t.minUnused 0)

end YashModel.Redir
