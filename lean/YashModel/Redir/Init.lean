/-
  C09 — the state every driver run starts from (what the harness's `setup_system` leaves): the standard
  descriptors of `VirtualSystem::new`, then the pre-opened descriptors of the case header (each on a new
  open file description of /tmp/p, or a standard descriptor closed), then the soft `RLIMIT_NOFILE`.
  Import-free and executable (Main.lean calls `initState`); InitTheorems.lean proves that it is `Bounded`
  and, when the header's limit is above every open descriptor (`wfCheck`), `WF`.
-/
import YashModel.Redir.World
namespace YashModel.Redir

/-- one pre-open item `<fd><r|w|b|c|R|W|x>`: (readable, writable, CLOEXEC) or `none` for `x` (close) -/
def preKind (m : Char) : Option (Option (Bool × Bool × Bool)) :=
  match m with
  | 'x' => some none
  | 'r' => some (some (true, false, false)) | 'w' => some (some (false, true, false))
  | 'b' => some (some (true, true, false)) | 'c' => some (some (true, true, true))
  -- read-only / write-only and CLOEXEC
  | 'R' => some (some (true, false, true)) | 'W' => some (some (false, true, true))
  | _ => none

/-- apply the pre-open items in order -/
def preopen (w : World) (t : FdTable) : List String → Option (World × FdTable)
  | [] => some (w, t)
  | p :: ps =>
    match p.toList.reverse with
    | m :: rfd =>
      match (String.ofList rfd.reverse).toNat?, preKind m with
      | some fd, some none => preopen w (t.close fd) ps
      | some fd, some (some acc) =>
        preopen { w with ofds := w.ofds ++ [⟨9, acc.1, acc.2.1, false, 0⟩] }
          (t.put fd (some ⟨w.ofds.length, acc.2.2⟩)) ps
      | _, _ => none
    | [] => none

/-- initial world and table: standard descriptors (read-write, appending), then the pre-opened ones,
    then the limit -/
def initState (nc : Bool) (lim : Option Nat) (pre : List String) (inter : Bool := false) : Option (World × FdTable) :=
  match preopen (stdWorld nc inter) stdTable pre with
  | some (w, t) => some (w, { t with limit := lim })
  | none => none

/-- the hypothesis `WF` as a check on a table: every open descriptor is below the soft limit -/
def wfCheck (t : FdTable) : Bool := t.openFds.all fun p => t.inLimit p.1

end YashModel.Redir
