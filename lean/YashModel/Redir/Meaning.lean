/-
  C09 helper lemmas, part 6: the model's `perform` realises the declarative `Meaning` of Spec.lean.
-/
import YashModel.Redir.Spec
import YashModel.Redir.Steps
namespace YashModel.Redir
open YashModel.Generated.RedirConsts

variable {W : Type}

/-- normal form of `sysOpen` with the provenance of the new open file description -/
theorem sysOpen_cases (o : Oracle W) (w : W) (t : FdTable) (req : OpenReq) :
    (∃ w1 w' ofd fd, sysOpen o w t req = (w', t.put fd (some { ofd := ofd, cloexec := false }), .ok fd) ∧
        o.resolve w1 req = (w', .ok ofd)) ∨
    (∃ w' e, sysOpen o w t req = (w', t, .error e)) := by
  unfold sysOpen
  by_cases hd : ((o.deny w).2 || !t.inLimit (t.minUnused 0)) = true
  · rw [if_pos hd]; exact .inr ⟨_, _, rfl⟩
  · rw [if_neg hd]
    cases hr : o.resolve (o.deny w).1 req with
    | mk w1 r =>
      cases r with
      | error e => exact .inr ⟨w1, e, rfl⟩
      | ok ofd => exact .inl ⟨_, _, ofd, _, rfl, hr⟩

/-- a file operator that succeeds owns a fresh descriptor on a description opened the POSIX way -/
def FileOpened (o : Oracle W) (op : FileOp) (path : Nat) (res : R W FdSpec) : Prop :=
  ∀ spec, res.r = .ok spec → ∃ fd w1 w2 args ofd, spec = .owned fd ∧
    o.resolve w1 { path := path, args := args } = (w2, .ok ofd) ∧
    res.t.get fd = some { ofd := ofd, cloexec := false } ∧
    (args = posixOpenArgs op ∨ (op = .fileOut ∧ (∃ w0, o.noclobber w0 = true) ∧ NoclobberOpen o w2 args ofd))

theorem openFile_meaning (o : Oracle W) (w : W) (t : FdTable) (op : FileOp) (args : OpenArgs) (path : Nat)
    (ha : args = posixOpenArgs op) : FileOpened o op path (openFile o w t args path) := by
  unfold openFile
  rcases sysOpen_cases o w t { path := path, args := args } with ⟨w1, w', ofd, fd, h, hres⟩ | ⟨w', e, h⟩
  · rw [h]
    intro spec hs
    cases hs
    exact ⟨fd, w1, w', args, ofd, rfl, hres, by simp, .inl ha⟩
  · rw [h]
    intro spec hs
    cases hs

theorem openFileNoclobber_meaning (o : Oracle W) (w : W) (t : FdTable) (path : Nat) (hn : o.noclobber w = true) :
    FileOpened o .fileOut path (openFileNoclobber o w t path) := by
  unfold openFileNoclobber
  rcases sysOpen_cases o w t { path := path, args := flagsExcl } with ⟨w1, w', ofd, fd, h, hres⟩ | ⟨w', e, h⟩
  · rw [h]
    intro spec hs
    cases hs
    exact ⟨fd, w1, w', flagsExcl, ofd, rfl, hres, by simp, .inr ⟨rfl, ⟨w, hn⟩, .inl rfl⟩⟩
  · rw [h]
    by_cases he : e = .EEXIST
    · subst he
      simp only [ne_eq, not_true_eq_false, ↓reduceIte]
      rcases sysOpen_cases o w' t { path := path, args := flagsPlainWrite } with
        ⟨w1, w2, ofd, fd, h', hres⟩ | ⟨w2, e2, h'⟩
      · rw [h']
        simp only
        by_cases hreg : isRegularFd o w2 (t.put fd (some { ofd := ofd, cloexec := false })) fd = true
        · rw [if_pos hreg]; intro spec hs; cases hs
        · rw [if_neg hreg]
          intro spec hs
          cases hs
          refine ⟨fd, w1, w2, flagsPlainWrite, ofd, rfl, hres, by simp, .inr ⟨rfl, ⟨w, hn⟩, .inr ⟨rfl, ?_⟩⟩⟩
          simpa [isRegularFd] using hreg
      · rw [h']
        simp only
        split <;> (intro spec hs; cases hs)
    · simp only [ne_eq, he, not_false_eq_true, ↓reduceIte]
      intro spec hs; cases hs

theorem openNormalFile_meaning (o : Oracle W) (w : W) (t : FdTable) (op : FileOp) (path : Nat) :
    FileOpened o op path (openNormalFile o w t op path) := by
  unfold openNormalFile
  cases op with
  | fileIn => exact openFile_meaning o w t .fileIn _ path rfl
  | fileOut =>
    simp only
    split
    · rename_i hn; exact openFileNoclobber_meaning o w t path hn
    · exact openFile_meaning o w t .fileOut _ path rfl
  | fileClobber => exact openFile_meaning o w t .fileClobber _ path rfl
  | fileAppend => exact openFile_meaning o w t .fileAppend _ path rfl
  | fileInOut => exact openFile_meaning o w t .fileInOut _ path rfl

theorem oao_of_prepare_ok (o : Oracle W) (w : W) (t : FdTable) (r : Redir) (spec : FdSpec)
    (h : (prepare o w t r.body).r = .ok spec) :
    (openAndOverwrite o w t r).t = (overwrite (prepare o w t r.body).t spec r.fd).1 ∧
    (openAndOverwrite o w t r).r = (overwrite (prepare o w t r.body).t spec r.fd).2 := by
  unfold openAndOverwrite; rw [h]; exact ⟨rfl, rfl⟩

theorem oao_of_prepare_err (o : Oracle W) (w : W) (t : FdTable) (r : Redir) (e : ErrCause)
    (h : (prepare o w t r.body).r = .error e) : (openAndOverwrite o w t r).r = .error e := by
  unfold openAndOverwrite; rw [h]

/-- after a successful `overwrite` the target is a non-CLOEXEC descriptor on the description the
    prepared descriptor has -/
theorem overwrite_target_entry (ta : FdTable) (spec : FdSpec) (target fd : Fd) (e : FdEntry)
    (hfd : spec.asFd = some fd) (hg : ta.get fd = some e) (hc : e.cloexec = false)
    (hok : (overwrite ta spec target).2 = .ok ()) :
    (overwrite ta spec target).1.get target = some { ofd := e.ofd, cloexec := false } := by
  unfold overwrite at hok ⊢
  rw [hfd] at hok ⊢
  simp only at hok ⊢
  by_cases hft : fd = target
  · rw [if_pos hft]
    subst hft
    rw [hg]; cases e; simp_all
  · rw [if_neg hft] at hok ⊢
    unfold FdTable.dup2 FdTable.setFd at hok ⊢
    rw [hg] at hok ⊢
    simp only [hft, ↓reduceIte] at hok ⊢
    by_cases hl : ta.inLimit target = true
    · rw [if_pos hl]
      simp only
      cases spec with
      | owned f =>
        simp only [FdSpec.asFd, Option.some.injEq] at hfd
        subst hfd
        simp [FdSpec.close, FdTable.close, Ne.symm hft]
      | borrowed f => simp [FdSpec.close]
      | closed => simp [FdSpec.asFd] at hfd
    · rw [if_neg hl] at hok
      simp at hok

theorem overwrite_closed (ta : FdTable) (target : Fd) : (overwrite ta .closed target).1.get target = none := by
  simp [overwrite, FdSpec.asFd, FdTable.close]

/-- ★ (lemma form) `open_and_overwrite` realises the POSIX meaning of the operator, the source of a
    duplication being looked up in the table it ran on -/
theorem openAndOverwrite_meaning (o : Oracle W) (w : W) (t : FdTable) (r : Redir)
    (hok : (openAndOverwrite o w t r).r = .ok ()) :
    Meaning o t r ((openAndOverwrite o w t r).t.get r.fd) ∧
    (∀ input n, r.body = .dup input (.fd n) → ∃ e0, t.get n = some e0 ∧ e0.cloexec = false) := by
  cases hp : (prepare o w t r.body).r with
  | error e => rw [oao_of_prepare_err o w t r e hp] at hok; cases hok
  | ok spec =>
    obtain ⟨ht, hr⟩ := oao_of_prepare_ok o w t r spec hp
    rw [hr] at hok
    rw [ht]
    unfold Meaning
    obtain ⟨tfd, body⟩ := r
    simp only at hp hok ⊢
    cases body with
    | file op path =>
      simp only
      refine ⟨?_, fun _ _ h => by cases h⟩
      obtain ⟨fd, w1, w2, args, ofd, hs, hres, hget, hargs⟩ := openNormalFile_meaning o w t op path spec hp
      subst hs
      exact ⟨w1, w2, args, ofd, hres,
        overwrite_target_entry _ _ tfd fd _ rfl hget rfl hok, hargs⟩
    | fileCs op path st =>
      simp only
      refine ⟨?_, fun _ _ h => by cases h⟩
      simp only [prepare] at hp
      split at hp
      · obtain ⟨fd, w1, w2, args, ofd, hs, hres, hget, hargs⟩ := openNormalFile_meaning o _ t op path spec hp
        subst hs
        simp only [prepare]
        rename_i hpa
        simp only [prepare, if_pos hpa] at hok
        rw [if_pos hpa]
        exact ⟨w1, w2, args, ofd, hres, overwrite_target_entry _ _ tfd fd _ rfl hget rfl hok, hargs⟩
      · cases hp
    | dup input src =>
      simp only [prepare, copyFd] at hp hok ⊢
      cases src with
      | closeIt =>
        simp only at hp hok ⊢
        cases hp
        exact ⟨overwrite_closed t tfd, fun _ _ h => by cases h⟩
      | malformed => simp only at hp; cases hp
      | negOne => simp only at hp; cases hp
      | fd n =>
        simp only at hp hok ⊢
        cases hg : t.get n with
        | none => simp only [hg] at hp; cases hp
        | some e0 =>
          simp only [hg] at hp hok
          simp only
          by_cases hacc : (if input = true then (o.access w e0.ofd).1 else (o.access w e0.ofd).2) = true
          · by_cases hc : e0.cloexec = true
            · rw [if_neg (by simp [hacc]), if_pos hc] at hp; cases hp
            · rw [if_neg (by simp [hacc]), if_neg hc] at hp hok ⊢
              cases hp
              have hc' : e0.cloexec = false := by simpa using hc
              refine ⟨⟨e0, rfl, overwrite_target_entry t _ tfd n e0 rfl hg hc' hok, ⟨w, ?_⟩⟩,
                fun i m h => ?_⟩
              · cases input <;> simpa using hacc
              · cases h; exact ⟨e0, hg, hc'⟩
          · rw [if_pos (by simpa using hacc)] at hp; cases hp
    | hereDoc content =>
      simp only [prepare, hereDocFd, allocLowest, hereDocCloexec_false, hereDocClosesOnFailure_true, if_true] at hp hok ⊢
      refine ⟨?_, fun _ _ h => by cases h⟩
      cases ha : t.openFdGe 0 { ofd := (o.tmpfile w).2, cloexec := false } (o.deny (o.tmpfile w).1).2 with
      | none => simp only [ha] at hp; cases hp
      | some p =>
        obtain ⟨fd, t'⟩ := p
        obtain ⟨_, _, _, h4⟩ := FdTable.openFdGe_some ha
        subst h4
        simp only [ha] at hp hok
        simp only
        split at hp
        · rename_i hfill
          cases hp
          rw [if_pos hfill] at hok ⊢
          exact ⟨w, overwrite_target_entry _ _ tfd fd { ofd := (o.tmpfile w).2, cloexec := false } rfl (by simp) rfl hok⟩
        · cases hp
    | unsupported => simp [prepare] at hp
    | expErr => simp [prepare] at hp
    | nulPath => simp [prepare] at hp

theorem Meaning.of_same_source (o : Oracle W) (t t' : FdTable) (r : Redir) (a : Option FdEntry)
    (hsrc : ∀ input n, r.body = .dup input (.fd n) → t'.get n = t.get n) (h : Meaning o t' r a) :
    Meaning o t r a := by
  obtain ⟨tfd, body⟩ := r
  unfold Meaning at h ⊢
  cases body with
  | dup input src =>
    cases src with
    | fd n => simp only at h ⊢; rw [← hsrc input n rfl]; exact h
    | closeIt => exact h
    | malformed => exact h
    | negOne => exact h
  | file op path => exact h
  | fileCs op path st => exact h
  | hereDoc c => exact h
  | unsupported => exact h
  | expErr => exact h
  | nulPath => exact h

/-- a successful `perform` is a successful `open_and_overwrite` on the table itself or on the table
    with the saved copy added in a free slot -/
theorem perform_ok_decomp (o : Oracle W) (w : W) (t : FdTable) (r : Redir) (s : SavedFd)
    (h : (perform o w t r).r = .ok s) :
    ∃ w' t', (perform o w t r).t = (openAndOverwrite o w' t' r).t ∧ (openAndOverwrite o w' t' r).r = .ok () ∧
      (t' = t ∨ ∃ (sv : Fd) (e : FdEntry), t.get sv = none ∧ t' = t.put sv (some { ofd := e.ofd, cloexec := saveCloexec })) := by
  unfold perform at h ⊢
  by_cases hc : t.isCloexec r.fd = true
  · rw [if_pos hc] at h; cases h
  · rw [if_neg hc] at h ⊢
    unfold FdTable.dup at h ⊢
    cases hg : t.get r.fd with
    | none =>
      simp only [hg] at h
      simp only
      unfold finishPerform at h ⊢
      cases hoo : (openAndOverwrite o w t r).r with
      | error e => simp only [hoo] at h; cases h
      | ok u => exact ⟨w, t, rfl, hoo, .inl rfl⟩
    | some e =>
      simp only [hg] at h
      simp only
      cases ha : t.openFdGe saveMin { ofd := e.ofd, cloexec := saveCloexec } (o.deny w).2 with
      | none => simp only [ha] at h; cases h
      | some p =>
        obtain ⟨sv, t1⟩ := p
        obtain ⟨_, h2, _, h4⟩ := FdTable.openFdGe_some ha
        subst h4
        simp only [ha] at h
        simp only
        unfold finishPerform at h ⊢
        cases hoo : (openAndOverwrite o (o.deny w).1 (t.put sv (some { ofd := e.ofd, cloexec := saveCloexec })) r).r with
        | error e' => simp only [hoo] at h; cases h
        | ok u => exact ⟨_, _, rfl, hoo, .inr ⟨sv, e, h2, rfl⟩⟩

/-- ★ (lemma form) `perform` realises the POSIX meaning of the operator on the target -/
theorem perform_meaning_lemma (o : Oracle W) (w : W) (t : FdTable) (r : Redir) (s : SavedFd)
    (h : (perform o w t r).r = .ok s) : Meaning o t r ((perform o w t r).t.get r.fd) := by
  obtain ⟨w', t', ht, hok, hcase⟩ := perform_ok_decomp o w t r s h
  obtain ⟨hm, hsrc⟩ := openAndOverwrite_meaning o w' t' r hok
  rw [ht]
  refine Meaning.of_same_source o t t' r _ (fun input n hb => ?_) hm
  rcases hcase with rfl | ⟨sv, e, hfree, rfl⟩
  · rfl
  · obtain ⟨e0, hg, hc⟩ := hsrc input n hb
    by_cases hn : n = sv
    · subst hn
      simp only [FdTable.get_put, ↓reduceIte, Option.some.injEq] at hg
      subst hg
      have : saveCloexec = true := rfl
      rw [this] at hc; cases hc
    · simp [hn]

end YashModel.Redir
