/-
  Descriptor table of one process, as the virtual system has it
  (`yash-env/src/system/virtual/process.rs`: `Process::fds : BTreeMap<Fd, FdBody>`, `set_fd`,
  `open_fd_ge`, `open_fd`, `close_fd`, `min_unused_fd`; `yash-env/src/system/virtual.rs`: `dup`, `dup2`,
  `close`, `fcntl_getfd`).

  Import-free and executable.  The finite map `Fd → (open file description id × CLOEXEC)` is a list of
  slots indexed by the descriptor number; two tables are the same finite map when `get` agrees
  everywhere (`Equiv` in Lemmas.lean) — trailing empty slots carry no meaning.  `limit` is the soft
  `RLIMIT_NOFILE` of the process (`none` = `INFINITY`): `set_fd` refuses a descriptor ≥ limit.

  (DESIGN.md names this file `Common/FdTable.lean`; it lives in the Redir area because builders do
  not write into `Common/`.)
-/
namespace YashModel.Redir

abbrev Fd := Nat

/-- `FdBody`: the open file description (by identity) and the descriptor flag -/
structure FdEntry where
  ofd : Nat
  cloexec : Bool
  deriving DecidableEq, Repr, Inhabited

def getAt {α : Type} : List (Option α) → Nat → Option α
  | [], _ => none
  | a :: _, 0 => a
  | _ :: t, n+1 => getAt t n

def setAt {α : Type} : List (Option α) → Nat → Option α → List (Option α)
  | [], 0, v => [v]
  | [], n+1, v => none :: setAt [] n v
  | _ :: t, 0, v => v :: t
  | a :: t, n+1, v => a :: setAt t n v

structure FdTable where
  slots : List (Option FdEntry) := []
  limit : Option Nat := none
  deriving DecidableEq, Repr, Inhabited

namespace FdTable

/-- `Process::get_fd` -/
def get (t : FdTable) (fd : Fd) : Option FdEntry := getAt t.slots fd

/-- the test in `Process::set_fd`: `limit == INFINITY || fd < limit` -/
def inLimit (t : FdTable) (fd : Fd) : Bool :=
  match t.limit with
  | none => true
  | some l => decide (fd < l)

/-- unconditional slot update (the `BTreeMap::insert` / `remove` underneath) -/
def put (t : FdTable) (fd : Fd) (v : Option FdEntry) : FdTable := { t with slots := setAt t.slots fd v }

/-- `Process::set_fd`: `none` = `Err(body)` (descriptor not below the soft limit) -/
def setFd (t : FdTable) (fd : Fd) (e : FdEntry) : Option FdTable :=
  if t.inLimit fd then some (t.put fd (some e)) else none

/-- `Process::close_fd` (`Close::close` never fails in the virtual system) -/
def close (t : FdTable) (fd : Fd) : FdTable := t.put fd none

/-- search of `min_unused_fd`: the first free slot at or after `fd`, looking at `fuel` slots -/
def minUnusedFrom (slots : List (Option FdEntry)) : Nat → Nat → Fd
  | fd, 0 => fd
  | fd, fuel+1 => if (getAt slots fd).isNone then fd else minUnusedFrom slots (fd+1) fuel

/-- `min_unused_fd(min, fds.keys())` -/
def minUnused (t : FdTable) (min : Fd) : Fd := minUnusedFrom t.slots min (t.slots.length - min)

/-- `Process::open_fd_ge`; `denied` is an allocation failure decided outside the table
    (system-wide ENFILE or whatever else the oracle strikes with). `none` = no descriptor. -/
def openFdGe (t : FdTable) (min : Fd) (e : FdEntry) (denied : Bool) : Option (Fd × FdTable) :=
  if !denied && t.inLimit (t.minUnused min) then some (t.minUnused min, t.put (t.minUnused min) (some e))
  else none

/-- `fcntl_getfd(fd)` contains `CloseOnExec` (an unopened descriptor has no flag: EBADF) -/
def isCloexec (t : FdTable) (fd : Fd) : Bool :=
  match t.get fd with
  | some e => e.cloexec
  | none => false

inductive DupErr where
  | EBADF | EMFILE
  deriving DecidableEq, Repr

/-- `Dup::dup(from, to_min, flags)` -/
def dup (t : FdTable) (src min : Fd) (cloexec : Bool) (denied : Bool) : Except DupErr (Fd × FdTable) :=
  match t.get src with
  | none => .error .EBADF
  | some e =>
    match t.openFdGe min { ofd := e.ofd, cloexec := cloexec } denied with
    | none => .error .EMFILE
    | some r => .ok r

/-- `Dup::dup2(from, to)`: `from == to` changes nothing (the flag stays); otherwise the new
    descriptor has no flags; `none` = EBADF (source not open, or target not below the limit) -/
def dup2 (t : FdTable) (src dst : Fd) : Option FdTable :=
  match t.get src with
  | none => none
  | some e => if src = dst then some t else t.setFd dst { ofd := e.ofd, cloexec := false }

/-- open descriptors in increasing order -/
def openFds (t : FdTable) : List (Fd × FdEntry) :=
  let rec go : List (Option FdEntry) → Nat → List (Fd × FdEntry)
    | [], _ => []
    | none :: r, i => go r (i+1)
    | some e :: r, i => (i, e) :: go r (i+1)
  go t.slots 0

end FdTable
end YashModel.Redir
