/-
  C09 — property theorems about the Spec column (Spec.lean `specVerdict`): each executable check is the
  declarative statement about the finite maps, and the model's own run passes them.  Property theorems
  and non-vacuity examples ONLY (lemmas: SpecLemmas.lean).
-/
import YashModel.Redir.SpecLemmas
namespace YashModel.Redir
open YashModel.Generated.RedirConsts

/-- ★ `noLowCloexec before t` decides: every CLOEXEC descriptor below 10 of `t` is, unchanged, a
    descriptor of `before` ("no CLOEXEC descriptor below 10 appears that was not there") -/
theorem noLowCloexec_iff (before t : FdTable) :
    noLowCloexec before t = true ↔
      ∀ fd e, t.get fd = some e → fd < 10 → e.cloexec = true → before.get fd = some e :=
  noLowCloexec_iff' before t

/-- ★ `internalOk t saved` decides: every saved copy the guard holds is at or above 10 and CLOEXEC in `t` -/
theorem internalOk_iff (t : FdTable) (saved : List SavedFd) :
    internalOk t saved = true ↔ ∀ s ∈ saved, ∀ sv, s.save = some sv → 10 ≤ sv ∧ t.isCloexec sv = true :=
  internalOk_iff' t saved

/-- ★ `noExtraInternal before after allowed` decides: every open descriptor of `after` is below 10, or
    was open in `before`, or is one of the allowed (persisting) targets -/
theorem noExtraInternal_iff (before after : FdTable) (allowed : List Fd) :
    noExtraInternal before after allowed = true ↔
      ∀ fd e, after.get fd = some e → fd < 10 ∨ (before.get fd).isSome = true ∨ fd ∈ allowed :=
  noExtraInternal_iff' before after allowed

example : noLowCloexec stdTable (stdTable.put 3 (some ⟨0, true⟩)) = false ∧
    noExtraInternal stdTable (stdTable.put 12 (some ⟨0, false⟩)) [] = false ∧
    internalOk (stdTable.put 10 (some ⟨1, false⟩)) [⟨1, some 10⟩] = false := by decide

/-- ★ the Spec column on the model's own run: for every world, every table meeting `WF`, every command
    kind and every redirection list, the verdict `specVerdict` prints for what `runCommand` did is
    `ok` — restoration (`sameTable`), nothing at or above 10 left (`noExtraInternal`), no CLOEXEC
    descriptor below 10 left, visible to the body, or present after any single `perform_redir`
    (`noLowCloexec`), saved copies at or above 10 and CLOEXEC (`internalOk`) all pass — or it is the one
    verdict this theorem does not cover.
    `_partial`: missing is that `lastPersisted` (the exec family's "what the last redirection asked for
    is there afterwards", a statement about paths and open file descriptions of the concrete world) is
    always true of the model; it is evaluated on every case of the run, and `exec_persists` /
    `file_redirection_concrete` / `heredoc_concrete` are its proved counterparts.
    Full statement: `specVerdict t k rs (runCommand w t k rs prev) = "ok"`. -/
theorem spec_verdict_ok_partial (w : World) (t : FdTable) (k : Kind) (rs : List Redir) (prev : Nat) (hw : WF t) :
    specVerdict t k rs (runCommand w t k rs prev) = "ok" ∨
    specVerdict t k rs (runCommand w t k rs prev) = "FAIL:exec-redirection-did-not-persist" := by
  have hP := persists_iff w t k rs prev
  have c2 := check_noExtraInternal w t k rs prev hw
  have c4 := check_noLowCloexec_after w t k rs prev hw
  unfold specVerdict
  simp only [hP]
  by_cases hx : (k.isExec && (performRedirs worldOracle w t rs).err.isNone) = true
  · simp only [hx, if_true] at c2 ⊢
    simp only [Bool.not_true, Bool.false_and, Bool.false_eq_true, ↓reduceIte, c2, Bool.true_and]
    split
    · exact .inr rfl
    · simp only [c4, Bool.not_true, Bool.false_eq_true, ↓reduceIte]
      exact .inl (spec_tail_ok w t k rs prev)
  · have hx' : (k.isExec && (performRedirs worldOracle w t rs).err.isNone) = false := by
      cases h : (k.isExec && (performRedirs worldOracle w t rs).err.isNone) with
      | false => rfl
      | true => exact absurd h hx
    have hne : k.isExec = true → (performRedirs worldOracle w t rs).err ≠ none := by
      intro hk he; rw [hk, he] at hx'; cases hx'
    have c1 := spec_restoration_check_passes w t k rs prev hw hne
    simp only [hx', Bool.false_eq_true, if_false] at c2 ⊢
    simp only [Bool.not_false, Bool.true_and, c1, Bool.not_true, Bool.false_eq_true, ↓reduceIte, c2,
      Bool.false_and, c4]
    exact .inl (spec_tail_ok w t k rs prev)

/-- ★ the Spec column on the model's own run, without exception, for every kind that does not retain its
    redirections (all kinds but the `exec` family and `guardkeep`): the verdict is `ok` for every world,
    every table meeting `WF` and every list — restoration, nothing at or above 10 left, no CLOEXEC
    descriptor below 10 left / visible / present after a step, saved copies at or above 10 and CLOEXEC -/
theorem spec_verdict_ok_nonexec (w : World) (t : FdTable) (k : Kind) (rs : List Redir) (prev : Nat) (hw : WF t)
    (hk : k.isExec = false) :
    specVerdict t k rs (runCommand w t k rs prev) = "ok" := by
  have hP := persists_iff w t k rs prev
  have c2 := check_noExtraInternal w t k rs prev hw
  have c4 := check_noLowCloexec_after w t k rs prev hw
  unfold specVerdict
  simp only [hP]
  have hx' : (k.isExec && (performRedirs worldOracle w t rs).err.isNone) = false := by simp [hk]
  have hne : k.isExec = true → (performRedirs worldOracle w t rs).err ≠ none := by
    intro h; rw [hk] at h; cases h
  have c1 := spec_restoration_check_passes w t k rs prev hw hne
  simp only [hx', Bool.false_eq_true, if_false] at c2 ⊢
  simp only [Bool.not_false, Bool.true_and, c1, Bool.not_true, Bool.false_eq_true, ↓reduceIte, c2,
    Bool.false_and, c4]
  exact spec_tail_ok w t k rs prev

example : Kind.isExec .dot = false ∧ Kind.isExec .special = false ∧ Kind.isExec .guardUndo = false := by decide

-- non-vacuity: a guard run whose second item fails, and a successful `exec 4>b`
example : specVerdict stdTable .guardUndo [⟨1, .file .fileOut 3⟩, ⟨0, .file .fileIn 5⟩]
      (runCommand (stdWorld false) stdTable .guardUndo [⟨1, .file .fileOut 3⟩, ⟨0, .file .fileIn 5⟩]) = "ok" ∧
    specVerdict stdTable .exec [⟨4, .file .fileOut 4⟩]
      (runCommand (stdWorld false) stdTable .exec [⟨4, .file .fileOut 4⟩]) = "ok" := by decide

end YashModel.Redir
