/-
  C09 — property theorems about the Spec column (Spec.lean `specVerdict`): each executable check is the
  declarative statement about the finite maps, and the model's own run passes them.  Property theorems
  and non-vacuity examples ONLY (lemmas: SpecLemmas.lean).
-/
import YashModel.Redir.Persist
namespace YashModel.Redir
open YashModel.Generated.RedirConsts

/-- ★ `noLowCloexec before t` decides: every CLOEXEC descriptor below 10 of `t` is, unchanged, a
    descriptor of `before` ("no CLOEXEC descriptor below 10 appears that was not there") -/
theorem noLowCloexec_iff (before t : FdTable) :
    noLowCloexec before t = true ↔
      ∀ fd e, t.get fd = some e → fd < 10 → e.cloexec = true → before.get fd = some e :=
  noLowCloexec_iff' before t

/-- ★ `internalOk t saved` decides: every saved copy the guard holds is at or above 10 and CLOEXEC in `t` -/
theorem internalOk_iff (t : FdTable) (saved : List SavedFd) :
    internalOk t saved = true ↔ ∀ s ∈ saved, ∀ sv, s.save = some sv → 10 ≤ sv ∧ t.isCloexec sv = true :=
  internalOk_iff' t saved

/-- ★ `noExtraInternal before after allowed` decides: every open descriptor of `after` is below 10, or
    was open in `before`, or is one of the allowed (persisting) targets -/
theorem noExtraInternal_iff (before after : FdTable) (allowed : List Fd) :
    noExtraInternal before after allowed = true ↔
      ∀ fd e, after.get fd = some e → fd < 10 ∨ (before.get fd).isSome = true ∨ fd ∈ allowed :=
  noExtraInternal_iff' before after allowed

example : noLowCloexec stdTable (stdTable.put 3 (some ⟨0, true⟩)) = false ∧
    noExtraInternal stdTable (stdTable.put 12 (some ⟨0, false⟩)) [] = false ∧
    internalOk (stdTable.put 10 (some ⟨1, false⟩)) [⟨1, some 10⟩] = false := by decide

/-- ★ the Spec column on the model's own run, every check of it: for every world, every table that meets
    `WF` and whose descriptors refer to existing open file descriptions (`Bounded`), every command kind and
    every redirection list, the verdict `specVerdict` prints for what `runCommand` did is `ok` —
    restoration (`sameTable`), nothing at or above 10 left (`noExtraInternal`), no CLOEXEC descriptor below
    10 left, visible to the body, or present after any single `perform_redir` (`noLowCloexec`), saved
    copies at or above 10 and CLOEXEC (`internalOk`), and for the `exec` family "what the last redirection
    asked for is there afterwards" (`lastPersisted`: the target carries a *new* description of that very
    path, not CLOEXEC / a new here-document description / is closed; `lastPersisted_ok`, Persist.lean).
    (Was `spec_verdict_ok_partial` until wave 3.) -/
theorem spec_verdict_ok (w : World) (t : FdTable) (k : Kind) (rs : List Redir) (prev : Nat) (hw : WF t)
    (hb : Bounded w t) :
    specVerdict t k rs (runCommand w t k rs prev) = "ok" := by
  have hP := persists_iff w t k rs prev
  have c2 := check_noExtraInternal w t k rs prev hw
  have c4 := check_noLowCloexec_after w t k rs prev hw
  unfold specVerdict
  simp only [hP]
  by_cases hx : (k.isExec && (performRedirs worldOracle w t rs).err.isNone) = true
  · have hk : k.isExec = true := by
      cases hkk : k.isExec with
      | true => rfl
      | false => rw [hkk] at hx; cases hx
    have he : (performRedirs worldOracle w t rs).err = none := by
      cases hee : (performRedirs worldOracle w t rs).err with
      | none => rfl
      | some e => rw [hk, hee] at hx; cases hx
    have hlp := lastPersisted_ok w t k rs prev hb hk he
    simp only [hx, if_true] at c2 ⊢
    simp only [Bool.not_true, Bool.false_and, Bool.false_eq_true, ↓reduceIte, c2, hlp,
      Bool.and_false, c4]
    exact spec_tail_ok w t k rs prev
  · have hx' : (k.isExec && (performRedirs worldOracle w t rs).err.isNone) = false := by
      cases h : (k.isExec && (performRedirs worldOracle w t rs).err.isNone) with
      | false => rfl
      | true => exact absurd h hx
    have hne : k.isExec = true → (performRedirs worldOracle w t rs).err ≠ none := by
      intro hk he; rw [hk, he] at hx'; cases hx'
    have c1 := spec_restoration_check_passes w t k rs prev hw hne
    simp only [hx', Bool.false_eq_true, if_false] at c2 ⊢
    simp only [Bool.not_false, Bool.true_and, c1, Bool.not_true, Bool.false_eq_true, ↓reduceIte, c2,
      Bool.false_and, c4]
    exact spec_tail_ok w t k rs prev


-- non-vacuity: the start state of every harness run
example : WF stdTable ∧ Bounded (stdWorld false) stdTable := by
  refine ⟨fun fd e _ => rfl, fun fd e h => ?_⟩
  match fd, h with
  | 0, h => cases h; decide
  | 1, h => cases h; decide
  | 2, h => cases h; decide
  | n+3, h => simp [stdTable, FdTable.get, getAt] at h

/-- … and `WF` and `Bounded` are re-established by every command (`runCommand_wf`, `runCommand_bounded`),
    so over a whole script: every verdict the driver prints for a command of `runScript` is `ok` -/
theorem script_spec_ok (cmds : List (Kind × List Redir)) :
    ∀ (w : World) (t : FdTable) (prev : Nat), WF t → Bounded w t →
    ∀ p ∈ (runScript w t prev cmds).zip cmds, specVerdict p.1.1 p.2.1 p.2.2 p.1.2 = "ok" := by
  induction cmds with
  | nil => intro w t prev _ _ p hp; simp [runScript] at hp
  | cons c rest ih =>
    obtain ⟨k, rs⟩ := c
    intro w t prev hw hb p hp
    simp only [runScript] at hp
    split at hp
    · simp only [List.zip_cons_cons, List.zip_nil_left, List.mem_singleton] at hp
      subst hp
      exact spec_verdict_ok w t k rs prev hw hb
    · simp only [List.zip_cons_cons, List.mem_cons] at hp
      rcases hp with rfl | hm
      · exact spec_verdict_ok w t k rs prev hw hb
      · exact ih _ _ _ (runCommand_wf w t k rs prev hw) (runCommand_bounded w t k rs prev hw hb) p hm

/-- ★ the Spec column on the model's own run, without exception, for every kind that does not retain its
    redirections (all kinds but the `exec` family and `guardkeep`): the verdict is `ok` for every world,
    every table meeting `WF` and every list — restoration, nothing at or above 10 left, no CLOEXEC
    descriptor below 10 left / visible / present after a step, saved copies at or above 10 and CLOEXEC -/
theorem spec_verdict_ok_nonexec (w : World) (t : FdTable) (k : Kind) (rs : List Redir) (prev : Nat) (hw : WF t)
    (hk : k.isExec = false) :
    specVerdict t k rs (runCommand w t k rs prev) = "ok" := by
  have hP := persists_iff w t k rs prev
  have c2 := check_noExtraInternal w t k rs prev hw
  have c4 := check_noLowCloexec_after w t k rs prev hw
  unfold specVerdict
  simp only [hP]
  have hx' : (k.isExec && (performRedirs worldOracle w t rs).err.isNone) = false := by simp [hk]
  have hne : k.isExec = true → (performRedirs worldOracle w t rs).err ≠ none := by
    intro h; rw [hk] at h; cases h
  have c1 := spec_restoration_check_passes w t k rs prev hw hne
  simp only [hx', Bool.false_eq_true, if_false] at c2 ⊢
  simp only [Bool.not_false, Bool.true_and, c1, Bool.not_true, Bool.false_eq_true, ↓reduceIte, c2,
    Bool.false_and, c4]
  exact spec_tail_ok w t k rs prev

example : Kind.isExec .dot = false ∧ Kind.isExec .special = false ∧ Kind.isExec .guardUndo = false := by decide

-- non-vacuity: a guard run whose second item fails, and a successful `exec 4>b`
example : specVerdict stdTable .guardUndo [⟨1, .file .fileOut 3⟩, ⟨0, .file .fileIn 5⟩]
      (runCommand (stdWorld false) stdTable .guardUndo [⟨1, .file .fileOut 3⟩, ⟨0, .file .fileIn 5⟩]) = "ok" ∧
    specVerdict stdTable .exec [⟨4, .file .fileOut 4⟩]
      (runCommand (stdWorld false) stdTable .exec [⟨4, .file .fileOut 4⟩]) = "ok" := by decide

end YashModel.Redir
