/-
  C09 helper lemmas, part 16: `>` under `noclobber` with the exact worlds of its two opens, for every
  oracle; the facts about `World.resolve` the concrete statement needs.
-/
import YashModel.Redir.Persist
namespace YashModel.Redir
open YashModel.Generated.RedirConsts
variable {W : Type}

/-- `open_file_noclobber` that succeeds, with the exact worlds: either the exclusive creation went
    through, or it said EEXIST and the plain open (no O_CREAT, no O_TRUNC) that followed, in the world the
    first one left, found something `fstat` does not call a regular file -/
theorem openFileNoclobber_exact (o : Oracle W) (w : W) (t : FdTable) (path : Nat) (spec : FdSpec)
    (h : (openFileNoclobber o w t path).r = .ok spec) :
    (∃ ofd fd, o.resolve (o.deny w).1 ⟨path, flagsExcl⟩ = ((openFileNoclobber o w t path).w, .ok ofd) ∧
        spec = .owned fd ∧ (openFileNoclobber o w t path).t.get fd = some ⟨ofd, false⟩) ∨
    (∃ w1 ofd fd, o.resolve (o.deny w).1 ⟨path, flagsExcl⟩ = (w1, .error .EEXIST) ∧
        o.resolve (o.deny w1).1 ⟨path, flagsPlainWrite⟩ = ((openFileNoclobber o w t path).w, .ok ofd) ∧
        o.isRegular (openFileNoclobber o w t path).w ofd = false ∧
        spec = .owned fd ∧ (openFileNoclobber o w t path).t.get fd = some ⟨ofd, false⟩) := by
  unfold openFileNoclobber at h ⊢
  rcases hs : sysOpen o w t ⟨path, flagsExcl⟩ with ⟨w1, t1, r1⟩
  rw [hs] at h
  cases r1 with
  | ok fd =>
    simp only at h ⊢
    cases h
    obtain ⟨ofd, hres, rfl⟩ := sysOpen_ok o w t _ w1 t1 fd hs
    exact .inl ⟨ofd, fd, hres, rfl, by simp⟩
  | error e =>
    simp only at h ⊢
    by_cases he : e = .EEXIST
    · subst he
      simp only [ne_eq, not_true_eq_false, ↓reduceIte] at h ⊢
      obtain ⟨rfl, hfirst⟩ := sysOpen_err o w t _ w1 t1 _ hs
      have hfirst' : o.resolve (o.deny w).1 ⟨path, flagsExcl⟩ = (w1, .error .EEXIST) := by
        rcases hfirst with ⟨_, h2⟩ | h2
        · cases h2
        · exact h2
      rcases hs2 : sysOpen o w1 t1 ⟨path, flagsPlainWrite⟩ with ⟨w2, t2, r2⟩
      rw [hs2] at h
      cases r2 with
      | error e2 => simp only at h; split at h <;> cases h
      | ok fd =>
        simp only at h ⊢
        obtain ⟨ofd, hres, rfl⟩ := sysOpen_ok o w1 t1 _ w2 t2 fd hs2
        by_cases hreg : isRegularFd o w2 (t1.put fd (some ⟨ofd, false⟩)) fd = true
        · rw [if_pos hreg] at h; cases h
        · rw [if_neg hreg] at h ⊢
          cases h
          refine .inr ⟨w1, ofd, fd, hfirst', hres, ?_, rfl, by simp⟩
          simpa [isRegularFd] using hreg
    · simp only [ne_eq, he, not_false_eq_true, ↓reduceIte] at h; cases h

/-- a successful `>` under `noclobber`, at the level of `perform` -/
theorem perform_noclobber_exact (o : Oracle W) (w : W) (t : FdTable) (fd : Fd) (path : Nat) (s : SavedFd)
    (hn : o.noclobber w = true ∧ o.noclobber (o.deny w).1 = true)
    (h : (perform o w t ⟨fd, .file .fileOut path⟩).r = .ok s) :
    ∃ w', (w' = w ∨ w' = (o.deny w).1) ∧
    ((∃ ofd, o.resolve (o.deny w').1 ⟨path, flagsExcl⟩ = ((perform o w t ⟨fd, .file .fileOut path⟩).w, .ok ofd) ∧
        (perform o w t ⟨fd, .file .fileOut path⟩).t.get fd = some ⟨ofd, false⟩) ∨
     (∃ w1 ofd, o.resolve (o.deny w').1 ⟨path, flagsExcl⟩ = (w1, .error .EEXIST) ∧
        o.resolve (o.deny w1).1 ⟨path, flagsPlainWrite⟩ = ((perform o w t ⟨fd, .file .fileOut path⟩).w, .ok ofd) ∧
        o.isRegular (perform o w t ⟨fd, .file .fileOut path⟩).w ofd = false ∧
        (perform o w t ⟨fd, .file .fileOut path⟩).t.get fd = some ⟨ofd, false⟩)) := by
  obtain ⟨w', t', hw', hpw, hpt, hok⟩ := perform_ok_decomp_w o w t _ s h
  have hn' : o.noclobber w' = true := by rcases hw' with rfl | rfl; exact hn.1; exact hn.2
  have hprep : prepare o w' t' (.file .fileOut path) = openFileNoclobber o w' t' path := by
    simp [prepare, openNormalFile, hn']
  cases hp : (prepare o w' t' (.file .fileOut path)).r with
  | error e =>
    have := oao_of_prepare_err o w' t' ⟨fd, .file .fileOut path⟩ e hp
    rw [this] at hok; cases hok
  | ok spec =>
    obtain ⟨ht, hr⟩ := oao_of_prepare_ok o w' t' ⟨fd, .file .fileOut path⟩ spec hp
    have hw2 := oao_w o w' t' ⟨fd, .file .fileOut path⟩
    simp only at ht hr hw2
    rw [hprep] at hp ht hr hw2
    refine ⟨w', hw', ?_⟩
    rcases openFileNoclobber_exact o w' t' path spec hp with ⟨ofd, fd0, hres, rfl, hget⟩ | ⟨w1, ofd, fd0, h1, hres, hreg, rfl, hget⟩
    · left
      refine ⟨ofd, by rw [hres, hpw, hw2], ?_⟩
      rw [hpt, ht]; rw [hr] at hok
      exact overwrite_target_entry _ _ fd fd0 _ rfl hget rfl hok
    · right
      refine ⟨w1, ofd, h1, by rw [hres, hpw, hw2], by rw [hpw, hw2]; exact hreg, ?_⟩
      rw [hpt, ht]; rw [hr] at hok
      exact overwrite_target_entry _ _ fd fd0 _ rfl hget rfl hok

/-! ### concrete world -/

theorem World.resolve_err_world (w w2 : World) (req : OpenReq) (e : Errno) (h : w.resolve req = (w2, .error e)) :
    w2 = w := by
  unfold World.resolve at h
  simp only at h
  repeat' split at h
  all_goals (cases h; first | rfl | done)

theorem World.resolve_eexist_present (w w2 : World) (req : OpenReq) (h : w.resolve req = (w2, .error .EEXIST)) :
    (fileAt w req.path).present = true := by
  unfold World.resolve at h
  simp only at h
  repeat' split at h
  all_goals first | assumption | cases h

theorem World.resolve_ok_files_notrunc (w w2 : World) (req : OpenReq) (ofd : Nat)
    (hp : (fileAt w req.path).present = true) (ht : req.args.trunc = false)
    (h : w.resolve req = (w2, .ok ofd)) : w2.files = w.files := by
  unfold World.resolve at h
  simp only at h
  repeat' split at h
  all_goals (cases h <;> first | rfl | simp_all)

end YashModel.Redir
