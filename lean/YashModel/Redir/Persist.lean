/-
  C09 helper lemmas, part 12: "redirections on `exec` persist" as the Spec column checks it
  (`lastPersisted`) holds of every run of the model — in the concrete world, for a table whose
  descriptors all refer to existing open file descriptions (`Bounded`).
-/
import YashModel.Redir.Provenance
import YashModel.Redir.SpecLemmas
import YashModel.Redir.Command
namespace YashModel.Redir
open YashModel.Generated.RedirConsts

/-- every descriptor of the table refers to an open file description that exists in the world -/
def Bounded (w : World) (t : FdTable) : Prop := ∀ fd e, t.get fd = some e → e.ofd < w.ofds.length

theorem World.resolve_ok (w w2 : World) (req : OpenReq) (ofd : Nat) (h : w.resolve req = (w2, .ok ofd)) :
    ofd = w.ofds.length ∧
    w2.ofds = w.ofds ++ [⟨req.path, req.args.acc != .wo, req.args.acc != .ro, req.args.append, 0⟩] := by
  unfold World.resolve at h
  simp only at h
  repeat' split at h
  all_goals (cases h; first | done | simp [setFile])

theorem dropLast_append_of_getLast? {α : Type} (l : List α) (a : α) (h : l.getLast? = some a) :
    l.dropLast ++ [a] = l := by
  have hne : l ≠ [] := by intro hn; subst hn; simp at h
  have h2 := List.dropLast_concat_getLast hne
  rw [List.getLast?_eq_some_getLast hne] at h
  cases h
  exact h2

theorem message_ofds (w : World) (t : FdTable) : (w.message t).ofds = w.ofds := by
  unfold World.message
  split
  · rfl
  · simp only; split <;> rfl

theorem ofdAt_congr {a b : World} (h : a.ofds = b.ofds) (i : Nat) : ofdAt a i = ofdAt b i := by
  simp [ofdAt, h]

theorem runCommand_exec_ofds (w : World) (t : FdTable) (k : Kind) (rs : List Redir) (prev : Nat)
    (hk : k.isExec = true) (h : (performRedirs worldOracle w t rs).err = none) :
    (runCommand w t k rs prev).w.ofds = (performRedirs worldOracle w t rs).w.ofds := by
  unfold runCommand
  cases k <;> simp [Kind.isExec] at hk <;> simp only [h] <;>
    first | rfl | (simp only [endOrGoOn]; split <;> simp [message_ofds])

theorem lastPersisted_ok (w : World) (t : FdTable) (k : Kind) (rs : List Redir) (prev : Nat)
    (hb : Bounded w t) (hk : k.isExec = true) (he : (performRedirs worldOracle w t rs).err = none) :
    lastPersisted t rs (runCommand w t k rs prev) = true := by
  unfold lastPersisted
  cases hl : rs.getLast? with
  | none => rfl
  | some r =>
    have hrs : rs.dropLast ++ [r] = rs := dropLast_append_of_getLast? rs r hl
    have he' := he
    rw [← hrs] at he'
    obtain ⟨_, s, hok, hgt, hgw⟩ := performRedirs_snoc_ok worldOracle w t rs.dropLast r he'
    rw [hrs] at hgt hgw
    have hst : World.Stable w (performRedirs worldOracle w t rs.dropLast).w :=
      performRedirs_inv worldOracle_stable w t rs.dropLast
    have htr : (runCommand w t k rs prev).t =
        preserveRedirs (performRedirs worldOracle w t rs).t (performRedirs worldOracle w t rs).saved :=
      exec_persists w t k rs prev hk he
    have hkeep : (performRedirs worldOracle w t rs).t.isCloexec r.fd = false →
        (runCommand w t k rs prev).t.get r.fd = (performRedirs worldOracle w t rs).t.get r.fd := by
      intro hc
      rw [htr]
      apply preserveRedirs_not_save
      intro s' hs' hsv
      have := (internal_fds worldOracle w t rs s' hs' r.fd hsv).2.2
      rw [hc] at this; cases this
    have hofds := runCommand_exec_ofds w t k rs prev hk he
    obtain ⟨rfd, body⟩ := r
    simp only at hok hgt hgw hkeep ⊢
    cases body with
    | file op p =>
      simp only
      by_cases hp : (p == 3 || p == 4 || p == 5 || p == 6) = true
      · rw [if_pos hp]
        obtain ⟨w0, w1, args, ofd, hq0, hq1, hres, hget, _, _⟩ :=
          perform_file_resolved worldOracle_stable _ _ rfd op p s (.file op p) (.inl rfl) hok
        obtain ⟨hofd, hnew⟩ := World.resolve_ok w1 _ _ ofd hres
        have hge : w.ofds.length ≤ ofd := by
          rw [hofd]; exact Nat.le_trans hst.2.2.2.1 (Nat.le_trans hq0.2.2.2.1 hq1.2.2.2.1)
        rw [← hgt] at hget
        rw [hkeep (by rw [isCloexec_of_get hget]), hget]
        simp only
        have hwo : (runCommand w t k rs prev).w.ofds = w1.ofds ++ [⟨p, args.acc != .wo, args.acc != .ro, args.append, 0⟩] := by
          rw [hofds, hgw]; exact hnew
        have h1 : (ofdAt (runCommand w t k rs prev).w ofd).file = p := by
          unfold ofdAt
          rw [hwo, hofd]
          simp
        have h2 : t.get rfd ≠ some ⟨ofd, false⟩ := by
          intro hcontra
          have := hb rfd _ hcontra
          simp only at this
          omega
        simp [h1, h2]
      · rw [if_neg hp]
    | hereDoc c =>
      simp only
      obtain ⟨w', hw', _, _, hget⟩ := perform_heredoc_world_lemma worldOracle _ _ rfd c s hok
      have hid : (worldOracle.tmpfile w').2 = (performRedirs worldOracle w t rs.dropLast).w.ofds.length := by
        rcases hw' with rfl | rfl <;> rfl
      rw [← hgt] at hget
      rw [hkeep (by rw [isCloexec_of_get hget]), hget]
      have h2 : t.get rfd ≠ some ⟨(worldOracle.tmpfile w').2, false⟩ := by
        intro hcontra
        have := hb rfd _ hcontra
        simp only [hid] at this
        have := hst.2.2.2.1
        omega
      simp [Ne.symm h2]
    | dup input src =>
      cases src with
      | closeIt =>
        simp only
        have hm := perform_meaning_lemma worldOracle _ _ ⟨rfd, .dup input .closeIt⟩ s hok
        simp only [Meaning] at hm
        rw [← hgt] at hm
        rw [htr, preserveRedirs_none _ _ _ hm]; rfl
      | fd n => rfl
      | malformed => rfl
      | negOne => rfl
    | unsupported => rfl
    | expErr => rfl
    | nulPath => rfl
    | fileCs op p st => rfl

/-! ### `Bounded` is kept by everything the driver runs -/

theorem Bounded.mono {w w' : World} {t : FdTable} (h : Bounded w t) (hl : w.ofds.length ≤ w'.ofds.length) :
    Bounded w' t := fun fd e hg => Nat.lt_of_lt_of_le (h fd e hg) hl

theorem Bounded.congr {w : World} {t t' : FdTable} (h : Bounded w t) (he : ∀ fd, t'.get fd = t.get fd) :
    Bounded w t' := fun fd e hg => h fd e (by rw [← he fd]; exact hg)

theorem perform_bounded (w : World) (t : FdTable) (r : Redir) (hb : Bounded w t) :
    Bounded (perform worldOracle w t r).w (perform worldOracle w t r).t := by
  have hst : World.Stable w (perform worldOracle w t r).w := perform_inv worldOracle_stable w t r
  have hold : Bounded (perform worldOracle w t r).w t := hb.mono hst.2.2.2.1
  rcases perform_spec worldOracle w t r with ⟨s, hs, hok⟩ | ⟨e, _, heq⟩
  · intro fd e hg
    by_cases hfd : fd = r.fd
    · subst hfd
      obtain ⟨rfd, body⟩ := r
      simp only at hg hs hst hold ⊢
      have hm := perform_meaning_lemma worldOracle w t ⟨rfd, body⟩ s hs
      cases body with
      | file op p =>
        obtain ⟨w0, w1, args, ofd, _, _, hres, hget, _, _⟩ :=
          perform_file_resolved worldOracle_stable w t rfd op p s (.file op p) (.inl rfl) hs
        obtain ⟨hofd, hnew⟩ := World.resolve_ok w1 _ _ ofd hres
        rw [hget] at hg; cases hg
        simp only [hnew, hofd, List.length_append, List.length_singleton]; omega
      | fileCs op p st =>
        obtain ⟨w0, w1, args, ofd, _, _, hres, hget, _, _⟩ :=
          perform_file_resolved worldOracle_stable w t rfd op p s (.fileCs op p st) (.inr ⟨st, rfl⟩) hs
        obtain ⟨hofd, hnew⟩ := World.resolve_ok w1 _ _ ofd hres
        rw [hget] at hg; cases hg
        simp only [hnew, hofd, List.length_append, List.length_singleton]; omega
      | hereDoc c =>
        obtain ⟨w', hw', hpw, _, hget⟩ := perform_heredoc_world_lemma worldOracle w t rfd c s hs
        rw [hget] at hg; cases hg
        have h1 : World.Stable (World.deny (World.tmpfile w').1).1 (perform worldOracle w t ⟨rfd, .hereDoc c⟩).w := by
          rw [hpw]; exact World.fill_stable _ _ _
        have h2 : (World.deny (World.tmpfile w').1).1.ofds.length = w'.ofds.length + 1 := by
          simp [World.deny, World.tmpfile]
        have := h1.2.2.2.1
        show w'.ofds.length < _
        omega
      | dup input src =>
        cases src with
        | fd n =>
          simp only [Meaning] at hm
          obtain ⟨e0, hg0, hafter, _⟩ := hm
          rw [hafter] at hg; cases hg
          exact hold n e0 hg0
        | closeIt => simp only [Meaning] at hm; rw [hm] at hg; cases hg
        | malformed => simp [Meaning] at hm
        | negOne => simp [Meaning] at hm
      | unsupported => simp [Meaning] at hm
      | expErr => simp [Meaning] at hm
      | nulPath => simp [Meaning] at hm
    · cases hsv : s.save with
      | none =>
        obtain ⟨_, hch⟩ := hok.none_case hsv
        rw [hch.frame fd hfd] at hg
        exact hold fd e hg
      | some sv =>
        obtain ⟨e0, hg0, _, _, _, hch⟩ := hok.some_case sv hsv
        rw [hch.frame fd hfd, FdTable.get_put] at hg
        split at hg
        · cases hg; exact hold _ e0 hg0
        · exact hold fd e hg
  · exact hold.congr heq.2

theorem performRedirs_bounded (w : World) (t : FdTable) (rs : List Redir) (hb : Bounded w t) :
    Bounded (performRedirs worldOracle w t rs).w (performRedirs worldOracle w t rs).t := by
  induction rs generalizing w t with
  | nil => exact hb
  | cons r rs ih =>
    cases hp : (perform worldOracle w t r).r with
    | error e => rw [performRedirs_cons_err worldOracle w t r rs e hp]; exact perform_bounded w t r hb
    | ok s =>
      rw [performRedirs_cons_ok worldOracle w t r rs s hp]
      exact ih _ _ (perform_bounded w t r hb)


theorem write_ofds_len (w w1 : World) (ofd : Nat) (bytes : List Nat) (h : w.write ofd bytes = some w1) :
    w1.ofds.length = w.ofds.length := by
  unfold World.write at h
  simp only at h
  split at h
  · cases h
  · split at h
    · cases h
    · cases h; simp [setOfd, setFile]

theorem read_ofds_len (w w1 : World) (ofd n : Nat) (bs : List Nat) (h : w.read ofd n = some (w1, bs)) :
    w1.ofds.length = w.ofds.length := by
  unfold World.read at h
  simp only at h
  split at h
  · cases h
  · split at h
    · cases h
    · cases h; simp [setOfd]

theorem probeIO_ofds_len (w : World) (t : FdTable) : (probeIO w t).1.ofds.length = w.ofds.length := by
  unfold probeIO
  simp only
  have hw : ∀ e : FdEntry, (match w.write e.ofd [8] with | some w1 => (w1, true) | none => (w, false)).1.ofds.length
      = w.ofds.length := by
    intro e
    cases hwr : w.write e.ofd [8] with
    | none => rfl
    | some w1 => exact write_ofds_len w w1 _ _ hwr
  cases h1 : t.get 1 with
  | none =>
    simp only
    cases h0 : t.get 0 with
    | none => rfl
    | some e0 =>
      simp only
      cases hr : w.read e0.ofd 2 with
      | none => rfl
      | some p => obtain ⟨w2, bs⟩ := p; exact read_ofds_len w w2 _ _ bs hr
  | some e1 =>
    simp only
    cases hwr : w.write e1.ofd [8] with
    | none =>
      simp only
      cases h0 : t.get 0 with
      | none => rfl
      | some e0 =>
        simp only
        cases hr : w.read e0.ofd 2 with
        | none => rfl
        | some p => obtain ⟨w2, bs⟩ := p; exact read_ofds_len w w2 _ _ bs hr
    | some w1 =>
      simp only
      have hl := write_ofds_len w w1 _ _ hwr
      cases h0 : t.get 0 with
      | none => exact hl
      | some e0 =>
        simp only
        cases hr : w1.read e0.ofd 2 with
        | none => exact hl
        | some p => obtain ⟨w2, bs⟩ := p; simp only; rw [read_ofds_len w1 w2 _ _ bs hr]; exact hl

theorem openScript_ofds_len (w : World) (t : FdTable) (p : Nat) :
    w.ofds.length ≤ (openScript worldOracle w t p).1.ofds.length := by
  unfold openScript
  split
  · exact Nat.le_refl _
  · have h1 := (World.resolve_stable (worldOracle.deny w).1 ⟨p, dotOpenArgs⟩).2.2.2.1
    have h0 : (worldOracle.deny w).1.ofds.length = w.ofds.length := rfl
    split
    · rename_i w1 e heq
      have : (worldOracle.resolve (worldOracle.deny w).1 ⟨p, dotOpenArgs⟩).1 = w1 := by rw [heq]
      rw [← this]; show w.ofds.length ≤ (World.resolve _ _).1.ofds.length; omega
    · rename_i w1 ofd heq
      have : (worldOracle.resolve (worldOracle.deny w).1 ⟨p, dotOpenArgs⟩).1 = w1 := by rw [heq]
      have h2 : w.ofds.length ≤ w1.ofds.length := by
        rw [← this]; show w.ofds.length ≤ (World.resolve _ _).1.ofds.length; omega
      unfold moveFdInternal
      split
      · exact h2
      · split <;> exact h2


theorem endOrGoOn_w (w : World) (t : FdTable) (st : Nat) (saved : List SavedFd) : (endOrGoOn w t st saved).w = w := by
  unfold endOrGoOn; split <;> rfl

theorem runCommand_ofds_len (w : World) (t : FdTable) (k : Kind) (rs : List Redir) (prev : Nat) :
    w.ofds.length ≤ (runCommand w t k rs prev).w.ofds.length := by
  have hg := (performRedirs_inv worldOracle_stable w t rs).2.2.2.1
  have hp := probeIO_ofds_len (performRedirs worldOracle w t rs).w (performRedirs worldOracle w t rs).t
  have hs := fun p => openScript_ofds_len (performRedirs worldOracle w t rs).w (performRedirs worldOracle w t rs).t p
  unfold runCommand
  cases k <;> simp only <;> (repeat' split) <;> (try simp only [endOrGoOn_w, message_ofds]) <;> try omega
  all_goals first | exact Nat.le_trans hg (hs _) | (rw [probeIO_ofds_len]; exact Nat.le_trans hg (hs _))


theorem preserveRedirs_get_sub (t : FdTable) (ss : List SavedFd) (fd : Fd) (e : FdEntry)
    (h : (preserveRedirs t ss).get fd = some e) : t.get fd = some e := by
  by_cases hs : ∃ s ∈ ss, s.save = some fd
  · rw [preserveRedirs_save _ _ _ hs] at h; cases h
  · rw [preserveRedirs_not_save _ _ _ (fun s hs' he => hs ⟨s, hs', he⟩)] at h; exact h

theorem runCommand_bounded (w : World) (t : FdTable) (k : Kind) (rs : List Redir) (prev : Nat) (hw : WF t)
    (hb : Bounded w t) : Bounded (runCommand w t k rs prev).w (runCommand w t k rs prev).t := by
  by_cases hx : k.isExec = true ∧ (performRedirs worldOracle w t rs).err = none
  · have hg := performRedirs_bounded w t rs hb
    have hl : (performRedirs worldOracle w t rs).w.ofds.length ≤ (runCommand w t k rs prev).w.ofds.length := by
      rw [runCommand_exec_ofds w t k rs prev hx.1 hx.2]; exact Nat.le_refl _
    intro fd e hget
    rw [exec_persists w t k rs prev hx.1 hx.2] at hget
    exact Nat.lt_of_lt_of_le (hg fd e (preserveRedirs_get_sub _ _ fd e hget)) hl
  · have hr := command_restores w t k rs prev hw (fun hk he => hx ⟨hk, he⟩)
    exact (hb.mono (runCommand_ofds_len w t k rs prev)).congr hr.2

end YashModel.Redir
