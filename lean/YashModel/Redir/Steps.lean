/-
  C09 helper lemmas, part 2: what each function of the model does to the descriptor table, for
  every oracle.  `PrepOK` describes a successful "prepare an FD from the redirection body";
  `Changed` a successful `open_and_overwrite`; `perform_spec` collects everything the theorems use.
-/
import YashModel.Redir.Lemmas
namespace YashModel.Redir
open YashModel.Generated.RedirConsts

variable {W : Type}

theorem put_then_close_equiv {t : FdTable} {fd : Fd} (v : Option FdEntry) (h : t.get fd = none) :
    Equiv ((t.put fd v).close fd) t := by
  refine ⟨rfl, fun fd' => ?_⟩
  simp only [FdTable.close, FdTable.get_put]
  split
  · rename_i heq; subst heq; exact h.symm
  · rfl

/-- normal form of `sysOpen`: a fresh non-CLOEXEC descriptor in a free slot below the limit, or the
    table untouched -/
theorem sysOpen_spec (o : Oracle W) (w : W) (t : FdTable) (req : OpenReq) :
    (∃ w' e fd, sysOpen o w t req = (w', t.put fd (some e), .ok fd) ∧ e.cloexec = false ∧
        t.get fd = none ∧ t.inLimit fd = true) ∨
    (∃ w' e, sysOpen o w t req = (w', t, .error e)) := by
  unfold sysOpen
  by_cases hd : ((o.deny w).2 || !t.inLimit (t.minUnused 0)) = true
  · rw [if_pos hd]; exact .inr ⟨_, _, rfl⟩
  · rw [if_neg hd]
    have hl : t.inLimit (t.minUnused 0) = true := by
      cases h : t.inLimit (t.minUnused 0) <;> simp_all
    cases hr : o.resolve (o.deny w).1 req with
    | mk w1 r =>
      cases r with
      | error e => exact .inr ⟨w1, e, rfl⟩
      | ok ofd => exact .inl ⟨_, _, _, rfl, rfl, FdTable.minUnused_free t 0, hl⟩

/-- outcome of a successful preparation -/
inductive PrepOK (t : FdTable) : FdTable → FdSpec → Prop
  | owned (fd : Fd) (e : FdEntry) : t.get fd = none → t.inLimit fd = true → e.cloexec = false →
      PrepOK t (t.put fd (some e)) (.owned fd)
  | borrowed (fd : Fd) (e : FdEntry) : t.get fd = some e → e.cloexec = false → PrepOK t t (.borrowed fd)
  | closed : PrepOK t t .closed

def PrepSpec (t : FdTable) (res : R W FdSpec) : Prop :=
  (∃ spec, res.r = .ok spec ∧ PrepOK t res.t spec) ∨ (∃ e, res.r = .error e ∧ Equiv res.t t)

theorem openFile_spec (o : Oracle W) (w : W) (t : FdTable) (args : OpenArgs) (path : Nat) :
    PrepSpec t (openFile o w t args path) := by
  unfold openFile
  rcases sysOpen_spec o w t { path := path, args := args } with ⟨w', e, fd, h, h1, h2, h3⟩ | ⟨w', e, h⟩
  · rw [h]; exact .inl ⟨_, rfl, .owned fd e h2 h3 h1⟩
  · rw [h]; exact .inr ⟨_, rfl, Equiv.refl _⟩

theorem openFileNoclobber_spec (o : Oracle W) (w : W) (t : FdTable) (path : Nat) :
    PrepSpec t (openFileNoclobber o w t path) := by
  unfold openFileNoclobber
  rcases sysOpen_spec o w t { path := path, args := flagsExcl } with ⟨w1, e, fd, h, h1, h2, h3⟩ | ⟨w1, e, h⟩
  · rw [h]; exact .inl ⟨_, rfl, .owned fd e h2 h3 h1⟩
  · rw [h]
    by_cases he : e = .EEXIST
    · subst he
      simp only [ne_eq, not_true_eq_false, ↓reduceIte]
      rcases sysOpen_spec o w1 t { path := path, args := flagsPlainWrite } with
        ⟨w2, e2, fd, h', h1, h2, h3⟩ | ⟨w2, e2, h'⟩
      · rw [h']
        simp only
        split
        · exact .inr ⟨_, rfl, put_then_close_equiv _ h2⟩
        · exact .inl ⟨_, rfl, .owned fd e2 h2 h3 h1⟩
      · rw [h']
        simp only
        split <;> exact .inr ⟨_, rfl, Equiv.refl _⟩
    · simp only [ne_eq, he, not_false_eq_true, ↓reduceIte]
      exact .inr ⟨_, rfl, Equiv.refl _⟩

theorem copyFd_spec (o : Oracle W) (w : W) (t : FdTable) (src : DupSrc) (input : Bool) :
    PrepSpec t (copyFd o w t src input) := by
  unfold copyFd
  cases src with
  | closeIt => exact .inl ⟨_, rfl, .closed⟩
  | malformed => exact .inr ⟨_, rfl, Equiv.refl _⟩
  | negOne => exact .inr ⟨_, rfl, Equiv.refl _⟩
  | fd n =>
    simp only
    cases hg : t.get n with
    | none => exact .inr ⟨_, rfl, Equiv.refl _⟩
    | some e =>
      simp only
      by_cases hacc : (if input = true then (o.access w e.ofd).1 else (o.access w e.ofd).2) = true
      · by_cases hc : e.cloexec = true
        · rw [if_neg (by simp [hacc]), if_pos hc]
          exact .inr ⟨_, rfl, Equiv.refl _⟩
        · rw [if_neg (by simp [hacc]), if_neg hc]
          exact .inl ⟨_, rfl, .borrowed n e hg (by simpa using hc)⟩
      · rw [if_pos (by simpa using hacc)]
        exact .inr ⟨_, rfl, Equiv.refl _⟩

/-- what the proofs need of `here_doc::open_fd` as extracted from the code: the descriptor it hands
    back is not CLOEXEC (it may become a user descriptor 0–9 without any `dup2`), and it is closed when
    the content cannot be written.  A different extracted value stops the build here. -/
theorem hereDocCloexec_false : hereDocCloexec = false := rfl
theorem hereDocClosesOnFailure_true : hereDocClosesOnFailure = true := rfl

theorem hereDocFd_spec (o : Oracle W) (w : W) (t : FdTable) (content : List Nat) :
    PrepSpec t (hereDocFd o w t content) := by
  unfold hereDocFd
  simp only [allocLowest, hereDocCloexec_false, hereDocClosesOnFailure_true, if_true]
  cases ha : t.openFdGe 0 { ofd := (o.tmpfile w).2, cloexec := false } (o.deny (o.tmpfile w).1).2 with
  | none => exact .inr ⟨_, rfl, Equiv.refl _⟩
  | some p =>
    obtain ⟨fd, t'⟩ := p
    obtain ⟨_, h2, h3, h4⟩ := FdTable.openFdGe_some ha
    subst h4
    simp only
    split
    · exact .inl ⟨_, rfl, .owned fd _ h2 h3 rfl⟩
    · exact .inr ⟨_, rfl, put_then_close_equiv _ h2⟩

theorem openNormalFile_spec (o : Oracle W) (w : W) (t : FdTable) (op : FileOp) (path : Nat) :
    PrepSpec t (openNormalFile o w t op path) := by
  simp only [openNormalFile]
  cases op <;> simp only
  · exact openFile_spec ..
  · split
    · exact openFileNoclobber_spec ..
    · exact openFile_spec ..
  · exact openFile_spec ..
  · exact openFile_spec ..
  · exact openFile_spec ..

theorem prepare_spec (o : Oracle W) (w : W) (t : FdTable) (b : Body) : PrepSpec t (prepare o w t b) := by
  unfold prepare
  cases b with
  | nulPath => exact .inr ⟨_, rfl, Equiv.refl _⟩
  | fileCs op path st =>
    simp only
    split
    · exact openNormalFile_spec ..
    · exact .inr ⟨_, rfl, Equiv.refl _⟩
  | file op path =>
    simp only [openNormalFile]
    cases op <;> simp only
    · exact openFile_spec ..
    · split
      · exact openFileNoclobber_spec ..
      · exact openFile_spec ..
    · exact openFile_spec ..
    · exact openFile_spec ..
    · exact openFile_spec ..
  | dup input src => exact copyFd_spec ..
  | hereDoc content => exact hereDocFd_spec ..
  | unsupported => exact .inr ⟨_, rfl, Equiv.refl _⟩
  | expErr => exact .inr ⟨_, rfl, Equiv.refl _⟩

/-- what a successful `open_and_overwrite` did to the table: only the target changed, and what is
    there now is not CLOEXEC -/
structure Changed (t tb : FdTable) (target : Fd) : Prop where
  limit : tb.limit = t.limit
  frame : ∀ fd, fd ≠ target → tb.get fd = t.get fd
  plain : tb.isCloexec target = false
  wf : WF t → WF tb

theorem isCloexec_of_get {t : FdTable} {fd : Fd} {e : FdEntry} (h : t.get fd = some e) :
    t.isCloexec fd = e.cloexec := by simp [FdTable.isCloexec, h]

theorem isCloexec_of_none {t : FdTable} {fd : Fd} (h : t.get fd = none) :
    t.isCloexec fd = false := by simp [FdTable.isCloexec, h]

theorem overwrite_spec {t ta : FdTable} {spec : FdSpec} (target : Fd) (hp : PrepOK t ta spec) :
    ((overwrite ta spec target).2 = .ok () ∧ Changed t (overwrite ta spec target).1 target) ∨
    ((∃ e, (overwrite ta spec target).2 = .error e) ∧ Equiv (overwrite ta spec target).1 t) := by
  cases hp with
  | owned fd e h1 h2 h3 =>
    by_cases hft : fd = target
    · subst hft
      have h : overwrite (t.put fd (some e)) (.owned fd) fd = (t.put fd (some e), .ok ()) := by
        simp [overwrite, FdSpec.asFd]
      rw [h]
      refine .inl ⟨rfl, rfl, fun fd' hne => by simp [hne], ?_, fun hw => hw.put_some _ _ h2⟩
      rw [isCloexec_of_get (e := e) (by simp)]; exact h3
    · by_cases hl : t.inLimit target = true
      · have h : overwrite (t.put fd (some e)) (.owned fd) target =
            (((t.put fd (some e)).put target (some { ofd := e.ofd, cloexec := false })).put fd none, .ok ()) := by
          simp [overwrite, FdSpec.asFd, hft, FdTable.dup2, FdTable.setFd, hl, FdSpec.close, FdTable.close]
        rw [h]
        refine .inl ⟨rfl, rfl, fun fd' hne => ?_, ?_, fun hw => ?_⟩
        · simp only [FdTable.get_put, hne, ↓reduceIte]
          split
          · rename_i heq; subst heq; exact h1.symm
          · rfl
        · rw [isCloexec_of_get (e := { ofd := e.ofd, cloexec := false })]
          simp [Ne.symm hft]
        · exact ((hw.put_some _ _ h2).put_some _ _ (by simpa using hl)).put_none _
      · have h : overwrite (t.put fd (some e)) (.owned fd) target =
            ((t.put fd (some e)).close fd, .error (.fdNotOverwritten target .EBADF)) := by
          simp [overwrite, FdSpec.asFd, hft, FdTable.dup2, FdTable.setFd, hl, FdSpec.close]
        rw [h]
        exact .inr ⟨⟨_, rfl⟩, put_then_close_equiv _ h1⟩
  | borrowed fd e h1 h2 =>
    by_cases hft : fd = target
    · subst hft
      have h : overwrite t (.borrowed fd) fd = (t, .ok ()) := by simp [overwrite, FdSpec.asFd]
      rw [h]
      exact .inl ⟨rfl, rfl, fun _ _ => rfl, by rw [isCloexec_of_get h1]; exact h2, fun hw => hw⟩
    · by_cases hl : t.inLimit target = true
      · have h : overwrite t (.borrowed fd) target =
            (t.put target (some { ofd := e.ofd, cloexec := false }), .ok ()) := by
          simp [overwrite, FdSpec.asFd, hft, FdTable.dup2, FdTable.setFd, hl, FdSpec.close, h1]
        rw [h]
        refine .inl ⟨rfl, rfl, fun fd' hne => by simp [hne], ?_, fun hw => hw.put_some _ _ hl⟩
        rw [isCloexec_of_get (e := { ofd := e.ofd, cloexec := false }) (by simp)]
      · have h : overwrite t (.borrowed fd) target = (t, .error (.fdNotOverwritten target .EBADF)) := by
          simp [overwrite, FdSpec.asFd, hft, FdTable.dup2, FdTable.setFd, hl, FdSpec.close, h1]
        rw [h]
        exact .inr ⟨⟨_, rfl⟩, Equiv.refl _⟩
  | closed =>
    have h : overwrite t .closed target = (t.close target, .ok ()) := by simp [overwrite, FdSpec.asFd]
    rw [h]
    refine .inl ⟨rfl, rfl, fun fd' hne => by simp [FdTable.close, hne], ?_, fun hw => hw.put_none _⟩
    exact isCloexec_of_none (by simp [FdTable.close])

theorem Changed.of_equiv {t t0 tb : FdTable} {target : Fd} (h : Changed t tb target) (he : Equiv t t0) :
    Changed t0 tb target :=
  ⟨h.limit.trans he.1, fun fd hne => (h.frame fd hne).trans (he.2 fd), h.plain,
   fun hw => h.wf (WF.congr he hw)⟩

theorem openAndOverwrite_spec (o : Oracle W) (w : W) (t : FdTable) (r : Redir) :
    ((openAndOverwrite o w t r).r = .ok () ∧ Changed t (openAndOverwrite o w t r).t r.fd) ∨
    ((∃ e, (openAndOverwrite o w t r).r = .error e) ∧ Equiv (openAndOverwrite o w t r).t t) := by
  unfold openAndOverwrite
  rcases prepare_spec o w t r.body with ⟨spec, hs, hp⟩ | ⟨e, he, heq⟩
  · rw [hs]
    simp only
    exact overwrite_spec r.fd hp
  · rw [he]
    exact .inr ⟨⟨_, rfl⟩, heq⟩

/-- what a successful `perform` did -/
structure PerformOK (t t1 : FdTable) (r : Redir) (s : SavedFd) : Prop where
  original : s.original = r.fd
  target_plain : t.isCloexec r.fd = false
  /-- nothing to save: the target was closed -/
  none_case : s.save = none → t.get r.fd = none ∧ Changed t t1 r.fd
  /-- the saved copy went to a free slot at or above `saveMin`, below the limit, with `saveCloexec` -/
  some_case : ∀ sv, s.save = some sv → ∃ e, t.get r.fd = some e ∧ saveMin ≤ sv ∧ t.get sv = none ∧
      t.inLimit sv = true ∧ Changed (t.put sv (some { ofd := e.ofd, cloexec := saveCloexec })) t1 r.fd

theorem finishPerform_spec (o : Oracle W) (w : W) (t : FdTable) (r : Redir) (save : Option Fd) :
    ((finishPerform o w t r save).r = .ok { original := r.fd, save := save } ∧
        Changed t (finishPerform o w t r save).t r.fd) ∨
    ((∃ e, (finishPerform o w t r save).r = .error e) ∧
        Equiv (finishPerform o w t r save).t
          (match save with | some s => t.close s | none => t)) := by
  unfold finishPerform
  rcases openAndOverwrite_spec o w t r with ⟨hok, hch⟩ | ⟨⟨e, he⟩, heq⟩
  · rw [hok]; exact .inl ⟨rfl, hch⟩
  · rw [he]
    refine .inr ⟨⟨_, rfl⟩, ?_⟩
    cases save with
    | none => exact heq
    | some s => exact heq.put _ _

theorem perform_spec (o : Oracle W) (w : W) (t : FdTable) (r : Redir) :
    (∃ s, (perform o w t r).r = .ok s ∧ PerformOK t (perform o w t r).t r s) ∨
    (∃ e, (perform o w t r).r = .error e ∧ Equiv (perform o w t r).t t) := by
  unfold perform
  by_cases hc : t.isCloexec r.fd = true
  · rw [if_pos hc]; exact .inr ⟨_, rfl, Equiv.refl _⟩
  · rw [if_neg hc]
    have hplain : t.isCloexec r.fd = false := by simpa using hc
    unfold FdTable.dup
    cases hg : t.get r.fd with
    | none =>
      simp only
      rcases finishPerform_spec o w t r none with ⟨hok, hch⟩ | ⟨⟨e, he⟩, heq⟩
      · exact .inl ⟨_, hok, ⟨rfl, hplain, fun _ => ⟨hg, hch⟩, fun sv h => (by cases h)⟩⟩
      · exact .inr ⟨e, he, heq⟩
    | some e =>
      simp only
      cases ha : t.openFdGe saveMin { ofd := e.ofd, cloexec := saveCloexec } (o.deny w).2 with
      | none => exact .inr ⟨_, rfl, Equiv.refl _⟩
      | some p =>
        obtain ⟨sv, t1⟩ := p
        obtain ⟨h1, h2, h3, h4⟩ := FdTable.openFdGe_some ha
        subst h4
        simp only
        rcases finishPerform_spec o (o.deny w).1 (t.put sv (some { ofd := e.ofd, cloexec := saveCloexec })) r (some sv)
          with ⟨hok, hch⟩ | ⟨⟨e', he'⟩, heq⟩
        · refine .inl ⟨_, hok, ⟨rfl, hplain, fun h => (by cases h), fun sv' h => ?_⟩⟩
          cases h
          exact ⟨e, hg, h1, h2, h3, hch⟩
        · exact .inr ⟨e', he', heq.trans (put_then_close_equiv _ h2)⟩

/-- `perform` leaves every CLOEXEC descriptor alone -/
theorem perform_keeps_cloexec (o : Oracle W) (w : W) (t : FdTable) (r : Redir) (fd : Fd)
    (h : t.isCloexec fd = true) : (perform o w t r).t.get fd = t.get fd := by
  rcases perform_spec o w t r with ⟨s, _, hp⟩ | ⟨e, _, heq⟩
  · have hne : fd ≠ r.fd := by
      intro heq; rw [heq, hp.target_plain] at h; cases h
    cases hs : s.save with
    | none => exact (hp.none_case hs).2.frame fd hne
    | some sv =>
      obtain ⟨e, _, _, hfree, _, hch⟩ := hp.some_case sv hs
      rw [hch.frame fd hne]
      have : fd ≠ sv := by
        intro heq; rw [heq, isCloexec_of_none hfree] at h; cases h
      simp [this]
  · exact heq.2 fd

theorem perform_limit (o : Oracle W) (w : W) (t : FdTable) (r : Redir) :
    (perform o w t r).t.limit = t.limit := by
  rcases perform_spec o w t r with ⟨s, _, hp⟩ | ⟨e, _, heq⟩
  · cases hs : s.save with
    | none => exact (hp.none_case hs).2.limit
    | some sv =>
      obtain ⟨e, _, _, _, _, hch⟩ := hp.some_case sv hs
      exact hch.limit
  · exact heq.1

theorem perform_wf (o : Oracle W) (w : W) (t : FdTable) (r : Redir) (hw : WF t) :
    WF (perform o w t r).t := by
  rcases perform_spec o w t r with ⟨s, _, hp⟩ | ⟨e, _, heq⟩
  · cases hs : s.save with
    | none => exact (hp.none_case hs).2.wf hw
    | some sv =>
      obtain ⟨e, _, _, _, hl, hch⟩ := hp.some_case sv hs
      exact hch.wf (hw.put_some _ _ hl)
  · exact WF.congr heq hw

/-- undoing one successful `perform` gives back the table it started from -/
theorem undoOne_perform (o : Oracle W) (w : W) (t : FdTable) (r : Redir) (s : SavedFd) (hw : WF t)
    (hs : (perform o w t r).r = .ok s) : Equiv (undoOne (perform o w t r).t s) t := by
  rcases perform_spec o w t r with ⟨s', hs', hp⟩ | ⟨e, he, _⟩
  · rw [hs] at hs'; cases hs'
    unfold undoOne
    cases hsv : s.save with
    | none =>
      obtain ⟨hg, hch⟩ := hp.none_case hsv
      simp only [hp.original]
      refine ⟨hch.limit, fun fd => ?_⟩
      simp only [FdTable.close, FdTable.get_put]
      split
      · rename_i heq; subst heq; exact hg.symm
      · rename_i hne; exact hch.frame fd hne
    | some sv =>
      obtain ⟨e, hg, _, hfree, hl, hch⟩ := hp.some_case sv hsv
      have hne : sv ≠ r.fd := by
        intro heq; rw [heq, hg] at hfree; cases hfree
      have hsvget : (perform o w t r).t.get sv = some { ofd := e.ofd, cloexec := saveCloexec } := by
        rw [hch.frame sv hne]; simp
      have hlim : (perform o w t r).t.inLimit r.fd = true := by
        rw [inLimit_congr hch.limit]; exact hw r.fd e hg
      have hcl : e.cloexec = false := by
        have := hp.target_plain; rw [isCloexec_of_get hg] at this; exact this
      simp only [hp.original, FdTable.dup2, hsvget, hne, FdTable.setFd, hlim, ↓reduceIte, Option.getD_some]
      refine ⟨hch.limit, fun fd => ?_⟩
      simp only [FdTable.close, FdTable.get_put]
      split
      · rename_i heq; subst heq; exact hfree.symm
      · split
        · rename_i heq; subst heq
          rw [hg]; cases e; simp_all
        · rename_i hne1 hne2
          rw [hch.frame fd hne2]; simp [hne1]
  · rw [hs] at he; cases he

end YashModel.Redir
