/-
  C09 — property theorems about nested guards (a command with redirections inside a command with
  redirections; model: Nested.lean).  Statements and non-vacuity examples ONLY (lemmas: NestedLemmas.lean).
-/
import YashModel.Redir.NestedSpec
namespace YashModel.Redir
open YashModel.Generated.RedirConsts

/-- ★ "in effect exactly while that command runs", two guards deep: for every world, every table meeting
    `WF`, every outer and inner list (failures at any position of either, shared targets, any limit) and
    every kind of inner command other than a successful `exec`: when the inner command is done the table
    is again the one it found — the table with the *outer* list applied — and when the outer command is
    done the table is the one the shell had before it.  Also when the shell ends inside the inner
    command (the outer guard is dropped on the way out). -/
theorem nested_restores (w : World) (t : FdTable) (outer : List Redir) (ki : Kind) (inner : List Redir) (prev : Nat)
    (hw : WF t)
    (h : ki.isExec = true → (performRedirs worldOracle (performRedirs worldOracle w t outer).w
        (performRedirs worldOracle w t outer).t inner).err ≠ none) :
    ((runNested w t outer ki inner prev).tr.t.limit = t.limit ∧
      ∀ fd, (runNested w t outer ki inner prev).tr.t.get fd = t.get fd) ∧
    ∀ wi ti tri, (runNested w t outer ki inner prev).inner = some (wi, ti, tri) →
      (performRedirs worldOracle w t outer).err = none ∧
      wi = (performRedirs worldOracle w t outer).w ∧ ti = (performRedirs worldOracle w t outer).t ∧
      tri = runCommand wi ti ki inner prev ∧
      tri.t.limit = ti.limit ∧ ∀ fd, tri.t.get fd = ti.get fd :=
  nested_restores' w t outer ki inner prev hw h

-- non-vacuity: `{ fds 0<a 1>&2; } 1>m 2>&1`: the inner command runs, sees both lists, and everything is given back
example :
    let r := runNested (stdWorld false) stdTable [⟨1, .file .fileOut 5⟩, ⟨2, .dup false (.fd 1)⟩] .regular
      [⟨0, .file .fileIn 3⟩, ⟨1, .dup false (.fd 2)⟩]
    r.inner.isSome = true ∧ r.tr.t.openFds = stdTable.openFds ∧ r.tr.saved = [⟨1, some 10⟩, ⟨2, some 11⟩] ∧
    (r.inner.map fun p => p.2.2.saved) = some [⟨0, some 12⟩, ⟨1, some 13⟩] := by decide

/-- ★ the shell's own descriptors, two guards deep: whatever is CLOEXEC in the table the inner command
    finds, and in the table its body sees, was CLOEXEC before the outer command or is at or above
    `MIN_INTERNAL_FD`; every saved copy of the *outer* guard is at or above `MIN_INTERNAL_FD`, CLOEXEC, and
    left alone by the whole inner list (which is refused on it: `perform_refuses_cloexec_target`,
    `copy_refuses_cloexec_source`) -/
theorem nested_internal (w : World) (t : FdTable) (outer : List Redir) (ki : Kind) (inner : List Redir) (prev : Nat)
    (wi : World) (ti : FdTable) (tri : Trace) (hin : (runNested w t outer ki inner prev).inner = some (wi, ti, tri)) :
    (∀ fd, ti.isCloexec fd = true → t.isCloexec fd = true ∨ minInternalFd ≤ fd) ∧
    (∀ wd td, tri.during = some (wd, td) → ∀ fd, td.isCloexec fd = true → t.isCloexec fd = true ∨ minInternalFd ≤ fd) ∧
    (∀ s ∈ (runNested w t outer ki inner prev).tr.saved, ∀ sv, s.save = some sv →
      minInternalFd ≤ sv ∧ ti.isCloexec sv = true ∧ (performRedirs worldOracle wi ti inner).t.get sv = ti.get sv) :=
  nested_internal' w t outer ki inner prev wi ti tri hin

/-- ★ no nested command leaves a CLOEXEC descriptor that was not CLOEXEC before it — for every inner
    kind, a successful inner `exec` included (its redirections persist, the saved copies of both guards
    do not) -/
theorem nested_none_left (w : World) (t : FdTable) (outer : List Redir) (ki : Kind) (inner : List Redir) (prev : Nat)
    (hw : WF t) (fd : Fd) (h : (runNested w t outer ki inner prev).tr.t.isCloexec fd = true) :
    t.isCloexec fd = true :=
  nested_none_left' w t outer ki inner prev hw fd h

-- an inner `exec` persists where the outer list does not reach: `{ exec 3>b 1>b; } 1>a` leaves 3 on b and
-- gives 1 back; no saved copy of either guard is left
example :
    let r := runNested (stdWorld false) stdTable [⟨1, .file .fileOut 3⟩] .exec
      [⟨3, .file .fileOut 4⟩, ⟨1, .file .fileOut 4⟩]
    (r.tr.t.get 3).isSome = true ∧ r.tr.t.get 1 = stdTable.get 1 ∧ r.tr.t.get 10 = none ∧ r.tr.t.get 11 = none := by
  decide

/-! ### the body changed the table: `exec` inside a redirected command -/

variable {W : Type}

/-- ★ `undo_restores` for a body that does not leave the table alone (an `exec` in the body, a nested
    command whose `exec` persists, anything): for every oracle, WF table and list, `undo_redirs` run on
    ANY table `A` with the same limit that still has the guard's saved copies where the guard put them
    gives back every descriptor the guard speaks of — each target it changed, each slot of a saved copy —
    exactly as it was before the list was performed, and leaves every other descriptor as `A` has it.
    (`A` = the redirected table itself is `undo_restores`.) -/
theorem undo_restores_after_body (o : Oracle W) (w : W) (t : FdTable) (rs : List Redir) (hw : WF t) (A : FdTable)
    (hl : A.limit = t.limit)
    (hA : ∀ s ∈ (performRedirs o w t rs).saved, ∀ sv, s.save = some sv → A.get sv = (performRedirs o w t rs).t.get sv) :
    (undoRedirs A (performRedirs o w t rs).saved).limit = t.limit ∧
    ∀ fd, (Touched (performRedirs o w t rs).saved fd → (undoRedirs A (performRedirs o w t rs).saved).get fd = t.get fd) ∧
      (¬ Touched (performRedirs o w t rs).saved fd → (undoRedirs A (performRedirs o w t rs).saved).get fd = A.get fd) :=
  undo_after_body o rs w t hw A hl hA

/-- when the whole list succeeded, the descriptors the guard speaks of are the targets the list names and
    the slots of the saved copies -/
theorem touched_iff_target_or_save (o : Oracle W) (w : W) (t : FdTable) (rs : List Redir)
    (h : (performRedirs o w t rs).err = none) (fd : Fd) :
    Touched (performRedirs o w t rs).saved fd ↔
      (∃ r ∈ rs, r.fd = fd) ∨ ∃ s ∈ (performRedirs o w t rs).saved, s.save = some fd := by
  constructor
  · rintro ⟨s, hs, h1 | h2⟩
    · have hm : fd ∈ (performRedirs o w t rs).saved.map (·.original) := List.mem_map.mpr ⟨s, hs, h1⟩
      rw [performRedirs_originals o w t rs h] at hm
      obtain ⟨r, hr, hrf⟩ := List.mem_map.mp hm
      exact .inl ⟨r, hr, hrf⟩
    · exact .inr ⟨s, hs, h2⟩
  · rintro (⟨r, hr, rfl⟩ | ⟨s, hs, hsv⟩)
    · exact touched_of_target o w t rs h r hr
    · exact ⟨s, hs, .inr hsv⟩

/-- ★ a nested command whatever its inner command is and did — a successful `exec` included: when the
    outer command is done, every descriptor the outer guard speaks of (its targets, the slots of its
    saved copies) is what it was before the outer command, and every other descriptor is what the inner
    command left -/
theorem nested_any_inner (w : World) (t : FdTable) (outer : List Redir) (ki : Kind) (inner : List Redir) (prev : Nat)
    (hw : WF t) (wi : World) (ti : FdTable) (tri : Trace)
    (hin : (runNested w t outer ki inner prev).inner = some (wi, ti, tri)) :
    (runNested w t outer ki inner prev).tr.t.limit = t.limit ∧
    ∀ fd, (Touched (performRedirs worldOracle w t outer).saved fd →
            (runNested w t outer ki inner prev).tr.t.get fd = t.get fd) ∧
          (¬ Touched (performRedirs worldOracle w t outer).saved fd →
            (runNested w t outer ki inner prev).tr.t.get fd = tri.t.get fd) :=
  nested_any_inner' w t outer ki inner prev hw wi ti tri hin

/-- ★ "except for redirections on `exec`, which persist", two guards deep: after `{ exec inner…; } outer…`
    with both lists successful, a descriptor the outer list names (or a slot of its saved copies) is what
    it was before the outer command — whatever `exec` made of it goes away with the outer list —; every
    other descriptor is what `exec`'s list made of it with `exec`'s own saved copies closed
    (`preserve_redirs`); in particular a descriptor below 10 that `exec` names and the outer list does not
    keeps its new meaning, and one that neither names is untouched -/
theorem nested_exec_persists (w : World) (t : FdTable) (outer : List Redir) (ki : Kind) (inner : List Redir) (prev : Nat)
    (hw : WF t) (hk : ki.isExec = true) (ho : (performRedirs worldOracle w t outer).err = none)
    (hi : (performRedirs worldOracle (performRedirs worldOracle w t outer).w
            (performRedirs worldOracle w t outer).t inner).err = none) :
    let g := performRedirs worldOracle w t outer
    let g2 := performRedirs worldOracle g.w g.t inner
    ∀ fd, (Touched g.saved fd → (runNested w t outer ki inner prev).tr.t.get fd = t.get fd) ∧
      (¬ Touched g.saved fd →
        (runNested w t outer ki inner prev).tr.t.get fd = (preserveRedirs g2.t g2.saved).get fd ∧
        (fd < minInternalFd → (runNested w t outer ki inner prev).tr.t.get fd = g2.t.get fd) ∧
        ((∀ r ∈ inner, r.fd ≠ fd) → fd < minInternalFd → (runNested w t outer ki inner prev).tr.t.get fd = t.get fd)) := by
  intro g g2 fd
  have hsome : (runNested w t outer ki inner prev).inner =
      some (g.w, g.t, runCommand g.w g.t ki inner prev) := by
    unfold runNested
    have : (performRedirs worldOracle w t outer).err.isSome = false := by rw [ho]; rfl
    simp only [this, Bool.false_eq_true, ↓reduceIte]
    rfl
  obtain ⟨_, hF⟩ := nested_any_inner' w t outer ki inner prev hw _ _ _ hsome
  refine ⟨(hF fd).1, fun hnt => ?_⟩
  have h1 := (hF fd).2 hnt
  rw [exec_persists g.w g.t ki inner prev hk hi] at h1
  obtain ⟨_, _, hlow, _⟩ := preserve_keeps_targets worldOracle g.w g.t inner
  refine ⟨h1, fun hlt => by rw [h1]; exact hlow fd hlt, fun hni hlt => ?_⟩
  rw [h1, hlow fd hlt, (only_targets_change worldOracle g.w g.t inner).2.2 fd hni hlt]
  exact untouched_frame worldOracle w t outer ho fd hnt

-- non-vacuity: `{ exec 3>b 1>b; } 1>a`: 1 (named by both) comes back, 3 (named by `exec` only) stays on b
example : (performRedirs worldOracle (stdWorld false) stdTable [⟨1, .file .fileOut 3⟩]).err = none ∧
    (performRedirs worldOracle
      (performRedirs worldOracle (stdWorld false) stdTable [⟨1, .file .fileOut 3⟩]).w
      (performRedirs worldOracle (stdWorld false) stdTable [⟨1, .file .fileOut 3⟩]).t
      [⟨3, .file .fileOut 4⟩, ⟨1, .file .fileOut 4⟩]).err = none := by decide

/-! ### the Spec column of nested commands -/

/-- ★ the Spec column on the model's own run for every `Cmd` — plain or nested, any inner kind, a
    persisting inner `exec` included: `specVerdictCmd` is `ok` for every world and table meeting `WF` and
    `Bounded` (restoration at both levels or persistence, nothing at or above 10 left but what a
    persisting `exec` named, no CLOEXEC descriptor below 10 left or shown, saved copies of both guards
    at or above 10 and CLOEXEC) -/
theorem spec_verdict_cmd_ok (w : World) (t : FdTable) (prev : Nat) (c : Cmd) (hw : WF t) (hb : Bounded w t) :
    specVerdictCmd t c (runCmd w t prev c) = "ok" :=
  spec_verdict_cmd_ok' w t prev c hw hb

/-- … and over whole scripts: every verdict the driver prints for a command of `runScript2` is `ok`
    (`runCmd_wf`, `runCmd_bounded` re-establish the hypotheses command after command) -/
theorem script2_spec_ok (w : World) (t : FdTable) (prev : Nat) (cmds : List Cmd) (hw : WF t) (hb : Bounded w t) :
    ∀ p ∈ (runScript2 w t prev cmds).zip cmds, specVerdictCmd p.1.1 p.2 p.1.2 = "ok" :=
  script2_spec_ok_aux cmds w t prev hw hb

/-- the driver's `runScript2` on plain commands is `runScript`: everything proved of `runScript`
    (`script_sound`) is about what the driver runs -/
theorem runScript2_plain (w : World) (t : FdTable) (prev : Nat) (cmds : List (Kind × List Redir)) :
    runScript2 w t prev (cmds.map fun p => .plain p.1 p.2) =
      (runScript w t prev cmds).map fun p => (p.1, { tr := p.2 }) :=
  runScript2_plain_lemma w t prev cmds

/-- ★ whole scripts of plain and nested commands: every command the driver runs is `runCmd` of a command
    of the script on a table that meets `WF` again (so `command_restores` / `exec_persists` /
    `nested_restores` / `nested_internal` apply to it), and neither the table it finds nor the table it
    leaves has a CLOEXEC descriptor that was not CLOEXEC when the script started -/
theorem script2_sound (w : World) (t : FdTable) (prev : Nat) (cmds : List Cmd) (hw : WF t) :
    ∀ p ∈ runScript2 w t prev cmds, ∃ c ∈ cmds, ∃ wb prev', WF p.1 ∧ p.2 = runCmd wb p.1 prev' c ∧
      (∀ fd, p.1.isCloexec fd = true → t.isCloexec fd = true) ∧
      (∀ fd, p.2.tr.t.isCloexec fd = true → t.isCloexec fd = true) :=
  script2_sound_aux t cmds w t prev hw (fun _ h => h)

example : (runScript2 (stdWorld false) stdTable 0
    [.nested [⟨1, .file .fileOut 3⟩] .regular [⟨0, .file .fileIn 5⟩], .plain .regular [⟨1, .file .fileOut 5⟩]]).length = 2 := by
  decide

end YashModel.Redir
