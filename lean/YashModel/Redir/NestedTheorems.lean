/-
  C09 — property theorems about nested guards (a command with redirections inside a command with
  redirections; model: Nested.lean).  Statements and non-vacuity examples ONLY (lemmas: NestedLemmas.lean).
-/
import YashModel.Redir.NestedLemmas
namespace YashModel.Redir
open YashModel.Generated.RedirConsts

/-- ★ "in effect exactly while that command runs", two guards deep: for every world, every table meeting
    `WF`, every outer and inner list (failures at any position of either, shared targets, any limit) and
    every kind of inner command other than a successful `exec`: when the inner command is done the table
    is again the one it found — the table with the *outer* list applied — and when the outer command is
    done the table is the one the shell had before it.  Also when the shell ends inside the inner
    command (the outer guard is dropped on the way out). -/
theorem nested_restores (w : World) (t : FdTable) (outer : List Redir) (ki : Kind) (inner : List Redir) (prev : Nat)
    (hw : WF t)
    (h : ki.isExec = true → (performRedirs worldOracle (performRedirs worldOracle w t outer).w
        (performRedirs worldOracle w t outer).t inner).err ≠ none) :
    ((runNested w t outer ki inner prev).tr.t.limit = t.limit ∧
      ∀ fd, (runNested w t outer ki inner prev).tr.t.get fd = t.get fd) ∧
    ∀ wi ti tri, (runNested w t outer ki inner prev).inner = some (wi, ti, tri) →
      (performRedirs worldOracle w t outer).err = none ∧
      wi = (performRedirs worldOracle w t outer).w ∧ ti = (performRedirs worldOracle w t outer).t ∧
      tri = runCommand wi ti ki inner prev ∧
      tri.t.limit = ti.limit ∧ ∀ fd, tri.t.get fd = ti.get fd :=
  nested_restores' w t outer ki inner prev hw h

-- non-vacuity: `{ fds 0<a 1>&2; } 1>m 2>&1`: the inner command runs, sees both lists, and everything is given back
example :
    let r := runNested (stdWorld false) stdTable [⟨1, .file .fileOut 5⟩, ⟨2, .dup false (.fd 1)⟩] .regular
      [⟨0, .file .fileIn 3⟩, ⟨1, .dup false (.fd 2)⟩]
    r.inner.isSome = true ∧ r.tr.t.openFds = stdTable.openFds ∧ r.tr.saved = [⟨1, some 10⟩, ⟨2, some 11⟩] ∧
    (r.inner.map fun p => p.2.2.saved) = some [⟨0, some 12⟩, ⟨1, some 13⟩] := by decide

/-- ★ the shell's own descriptors, two guards deep: whatever is CLOEXEC in the table the inner command
    finds, and in the table its body sees, was CLOEXEC before the outer command or is at or above
    `MIN_INTERNAL_FD`; every saved copy of the *outer* guard is at or above `MIN_INTERNAL_FD`, CLOEXEC, and
    left alone by the whole inner list (which is refused on it: `perform_refuses_cloexec_target`,
    `copy_refuses_cloexec_source`) -/
theorem nested_internal (w : World) (t : FdTable) (outer : List Redir) (ki : Kind) (inner : List Redir) (prev : Nat)
    (wi : World) (ti : FdTable) (tri : Trace) (hin : (runNested w t outer ki inner prev).inner = some (wi, ti, tri)) :
    (∀ fd, ti.isCloexec fd = true → t.isCloexec fd = true ∨ minInternalFd ≤ fd) ∧
    (∀ wd td, tri.during = some (wd, td) → ∀ fd, td.isCloexec fd = true → t.isCloexec fd = true ∨ minInternalFd ≤ fd) ∧
    (∀ s ∈ (runNested w t outer ki inner prev).tr.saved, ∀ sv, s.save = some sv →
      minInternalFd ≤ sv ∧ ti.isCloexec sv = true ∧ (performRedirs worldOracle wi ti inner).t.get sv = ti.get sv) :=
  nested_internal' w t outer ki inner prev wi ti tri hin

/-- ★ no nested command leaves a CLOEXEC descriptor that was not CLOEXEC before it — for every inner
    kind, a successful inner `exec` included (its redirections persist, the saved copies of both guards
    do not) -/
theorem nested_none_left (w : World) (t : FdTable) (outer : List Redir) (ki : Kind) (inner : List Redir) (prev : Nat)
    (hw : WF t) (fd : Fd) (h : (runNested w t outer ki inner prev).tr.t.isCloexec fd = true) :
    t.isCloexec fd = true :=
  nested_none_left' w t outer ki inner prev hw fd h

-- an inner `exec` persists where the outer list does not reach: `{ exec 3>b 1>b; } 1>a` leaves 3 on b and
-- gives 1 back; no saved copy of either guard is left
example :
    let r := runNested (stdWorld false) stdTable [⟨1, .file .fileOut 3⟩] .exec
      [⟨3, .file .fileOut 4⟩, ⟨1, .file .fileOut 4⟩]
    (r.tr.t.get 3).isSome = true ∧ r.tr.t.get 1 = stdTable.get 1 ∧ r.tr.t.get 10 = none ∧ r.tr.t.get 11 = none := by
  decide

/-- the driver's `runScript2` on plain commands is `runScript`: everything proved of `runScript`
    (`script_sound`) is about what the driver runs -/
theorem runScript2_plain (w : World) (t : FdTable) (prev : Nat) (cmds : List (Kind × List Redir)) :
    runScript2 w t prev (cmds.map fun p => .plain p.1 p.2) =
      (runScript w t prev cmds).map fun p => (p.1, { tr := p.2 }) :=
  runScript2_plain_lemma w t prev cmds

/-- ★ whole scripts of plain and nested commands: every command the driver runs is `runCmd` of a command
    of the script on a table that meets `WF` again (so `command_restores` / `exec_persists` /
    `nested_restores` / `nested_internal` apply to it), and neither the table it finds nor the table it
    leaves has a CLOEXEC descriptor that was not CLOEXEC when the script started -/
theorem script2_sound (w : World) (t : FdTable) (prev : Nat) (cmds : List Cmd) (hw : WF t) :
    ∀ p ∈ runScript2 w t prev cmds, ∃ c ∈ cmds, ∃ wb prev', WF p.1 ∧ p.2 = runCmd wb p.1 prev' c ∧
      (∀ fd, p.1.isCloexec fd = true → t.isCloexec fd = true) ∧
      (∀ fd, p.2.tr.t.isCloexec fd = true → t.isCloexec fd = true) :=
  script2_sound_aux t cmds w t prev hw (fun _ h => h)

example : (runScript2 (stdWorld false) stdTable 0
    [.nested [⟨1, .file .fileOut 3⟩] .regular [⟨0, .file .fileIn 5⟩], .plain .regular [⟨1, .file .fileOut 5⟩]]).length = 2 := by
  decide

end YashModel.Redir
