/-
  Spec for C09: what the property text says about one command, as a decidable check on the run
  (no mechanism: only the tables before / during / after are compared).

  * afterwards the descriptor table is exactly what it was before — whether the command succeeded,
    failed, or a redirection failed — except for a successful `exec`;
  * descriptors the shell holds for its own use while the command runs are ≥ 10 and CLOEXEC;
  * no descriptor ≥ 10 that was not open before is left open (also after `exec`);
  * no CLOEXEC descriptor below 10 is ever visible or left that was not there before.
-/
import YashModel.Redir.World
namespace YashModel.Redir

/-! ### the POSIX meaning of the operators (XCU 2.7 Redirection), declaratively -/

/-- `open(2)` arguments POSIX prescribes per file operator: `<` O_RDONLY; `>` and `>|`
    O_WRONLY|O_CREAT|O_TRUNC; `>>` O_WRONLY|O_CREAT|O_APPEND; `<>` O_RDWR|O_CREAT -/
def posixOpenArgs : FileOp → Generated.RedirConsts.OpenArgs
  | .fileIn => ⟨.ro, false, false, false, false⟩
  | .fileOut => ⟨.wo, true, true, false, false⟩
  | .fileClobber => ⟨.wo, true, true, false, false⟩
  | .fileAppend => ⟨.wo, true, false, true, false⟩
  | .fileInOut => ⟨.rw, true, false, false, false⟩

/-- the two ways `>` may open its file under `noclobber` without ever truncating an existing regular
    file: create it exclusively (O_CREAT|O_EXCL), or open what exists without O_TRUNC provided it
    turns out not to be a regular file -/
def NoclobberOpen {W : Type} (o : Oracle W) (w2 : W) (args : Generated.RedirConsts.OpenArgs) (ofd : Nat) : Prop :=
  args = ⟨.wo, true, false, false, true⟩ ∨ (args = ⟨.wo, false, false, false, false⟩ ∧ o.isRegular w2 ofd = false)

/-- What descriptor `r.fd` is after redirection `r` has been applied, in terms of the table `t`
    before it: a new, non-CLOEXEC descriptor on the open file description an `open` with the POSIX
    arguments of the operator returned; a non-CLOEXEC duplicate of descriptor `n`; closed; a
    descriptor on the here-document's temporary file.  Nothing else can succeed. -/
def Meaning {W : Type} (o : Oracle W) (t : FdTable) (r : Redir) (after : Option FdEntry) : Prop :=
  match r.body with
  | .file op path | .fileCs op path _ =>
    ∃ w1 w2 args ofd, o.resolve w1 { path := path, args := args } = (w2, .ok ofd) ∧
      after = some { ofd := ofd, cloexec := false } ∧
      (args = posixOpenArgs op ∨ (op = .fileOut ∧ (∃ w0, o.noclobber w0 = true) ∧ NoclobberOpen o w2 args ofd))
  | .dup input (.fd n) =>
    ∃ e0, t.get n = some e0 ∧ after = some { ofd := e0.ofd, cloexec := false } ∧
      (∃ w1, (if input then (o.access w1 e0.ofd).1 else (o.access w1 e0.ofd).2) = true)
  | .dup _ .closeIt => after = none
  | .hereDoc _ => ∃ w1, after = some { ofd := (o.tmpfile w1).2, cloexec := false }
  | _ => False

/-- same finite map (trailing empty slots do not count): every descriptor up to the longer slot list
    has the same entry (`sameTable_iff` in EndToEnd.lean: this is `∀ fd, a.get fd = b.get fd`) -/
def sameTable (a b : FdTable) : Bool :=
  (List.range (max a.slots.length b.slots.length)).all fun fd => decide (a.get fd = b.get fd)

def internalOk (t : FdTable) (saved : List SavedFd) : Bool :=
  saved.all fun s => match s.save with
    | none => true
    | some sv => decide (10 ≤ sv) && t.isCloexec sv

def noExtraInternal (before after : FdTable) (allowed : List Fd) : Bool :=
  after.openFds.all fun (fd, _) => decide (fd < 10) || (before.get fd).isSome || allowed.contains fd

/-- no CLOEXEC descriptor below 10 appears that was not there before -/
def noLowCloexec (before t : FdTable) : Bool :=
  t.openFds.all fun (fd, e) => !(decide (fd < 10) && e.cloexec) || before.get fd == some e

/-- "redirections on `exec` persist": what the last redirection of the list asked for is there
    afterwards (a file on that descriptor, not CLOEXEC; a here-document; a closed descriptor) -/
def lastPersisted (before : FdTable) (rs : List Redir) (tr : Trace) : Bool :=
  match rs.getLast? with
  | none => true
  | some r =>
    match r.body with
    | .file _ p =>
      if p == 3 || p == 4 || p == 5 || p == 6 then
        match tr.t.get r.fd with
        | some e => (ofdAt tr.w e.ofd).file == p && !e.cloexec && before.get r.fd != some e
        | none => false
      else true
    | .hereDoc _ => (tr.t.get r.fd).isSome && tr.t.get r.fd != before.get r.fd
    | .dup _ .closeIt => (tr.t.get r.fd).isNone
    | _ => true

def specVerdict (before : FdTable) (k : Kind) (rs : List Redir) (tr : Trace) : String :=
  -- all redirections succeeded (a redirection error gives 2): on `exec` they persist whether or not
  -- an operand could be invoked
  let persists := k.isExec && tr.status != some 2 && tr.exited != some 2
  if !persists && !sameTable before tr.t then "FAIL:table-not-restored"
  else if !noExtraInternal before tr.t (if persists then rs.map (·.fd) else []) then "FAIL:descriptor-left-open"
  else if persists && !lastPersisted before rs tr then "FAIL:exec-redirection-did-not-persist"
  else if !noLowCloexec before tr.t then "FAIL:cloexec-below-10-left"
  else if !(match tr.steps with
      | some (steps, _) => steps.all fun (_, td) => noLowCloexec before td
      | none => true) then "FAIL:cloexec-below-10-after-a-step"
  else if !(match tr.steps with
      | some (steps, none) => (match steps.getLast? with
          | some (_, td) => internalOk td tr.saved
          | none => true)
      | _ => true) then "FAIL:internal-descriptor-of-the-guard"
  else match tr.during with
    | some (_, td) =>
      if !internalOk td (tr.saved ++ [⟨0, tr.script⟩]) then "FAIL:internal-descriptor"
      else if !noLowCloexec before td then "FAIL:cloexec-below-10-visible"
      else "ok"
    | none => "ok"

end YashModel.Redir
