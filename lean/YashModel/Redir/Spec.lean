/-
  Spec for C09: what the property text says about one command, as a decidable check on the run
  (no mechanism: only the tables before / during / after are compared).

  * afterwards the descriptor table is exactly what it was before — whether the command succeeded,
    failed, or a redirection failed — except for a successful `exec`;
  * descriptors the shell holds for its own use while the command runs are ≥ 10 and CLOEXEC;
  * no descriptor ≥ 10 that was not open before is left open (also after `exec`);
  * no CLOEXEC descriptor below 10 is ever visible or left that was not there before.
-/
import YashModel.Redir.World
namespace YashModel.Redir

/-- same finite map (trailing empty slots do not count) -/
def sameTable (a b : FdTable) : Bool := a.openFds == b.openFds

def internalOk (t : FdTable) (saved : List SavedFd) : Bool :=
  saved.all fun s => match s.save with
    | none => true
    | some sv => decide (10 ≤ sv) && t.isCloexec sv

def noExtraInternal (before after : FdTable) (allowed : List Fd) : Bool :=
  after.openFds.all fun (fd, _) => decide (fd < 10) || (before.get fd).isSome || allowed.contains fd

/-- no CLOEXEC descriptor below 10 appears that was not there before -/
def noLowCloexec (before t : FdTable) : Bool :=
  t.openFds.all fun (fd, e) => !(decide (fd < 10) && e.cloexec) || before.get fd == some e

/-- "redirections on `exec` persist": what the last redirection of the list asked for is there
    afterwards (a file on that descriptor, not CLOEXEC; a here-document; a closed descriptor) -/
def lastPersisted (before : FdTable) (rs : List Redir) (tr : Trace) : Bool :=
  match rs.getLast? with
  | none => true
  | some r =>
    match r.body with
    | .file _ p =>
      if p == 3 || p == 4 || p == 5 || p == 6 then
        match tr.t.get r.fd with
        | some e => (ofdAt tr.w e.ofd).file == p && !e.cloexec && before.get r.fd != some e
        | none => false
      else true
    | .hereDoc _ => (tr.t.get r.fd).isSome && tr.t.get r.fd != before.get r.fd
    | .dup _ .closeIt => (tr.t.get r.fd).isNone
    | _ => true

def specVerdict (before : FdTable) (k : Kind) (rs : List Redir) (tr : Trace) : String :=
  -- all redirections succeeded (a redirection error gives 2): on `exec` they persist whether or not
  -- an operand could be invoked
  let persists := k.isExec && tr.status != some 2 && tr.exited != some 2
  if !persists && !sameTable before tr.t then "FAIL:table-not-restored"
  else if !noExtraInternal before tr.t (if persists then rs.map (·.fd) else []) then "FAIL:descriptor-left-open"
  else if persists && !lastPersisted before rs tr then "FAIL:exec-redirection-did-not-persist"
  else if !noLowCloexec before tr.t then "FAIL:cloexec-below-10-left"
  else match tr.during with
    | some (_, td) =>
      if !internalOk td (tr.saved ++ [⟨0, tr.script⟩]) then "FAIL:internal-descriptor"
      else if !noLowCloexec before td then "FAIL:cloexec-below-10-visible"
      else "ok"
    | none => "ok"

end YashModel.Redir
