/-
  Spec for C09: what the property text says about one command, as a decidable check on the run
  (no mechanism: only the tables before / during / after are compared).

  * afterwards the descriptor table is exactly what it was before — whether the command succeeded,
    failed, or a redirection failed — except for a successful `exec`;
  * descriptors the shell holds for its own use while the command runs are ≥ 10 and CLOEXEC;
  * no descriptor ≥ 10 that was not open before is left open (also after `exec`);
  * no CLOEXEC descriptor below 10 is ever visible or left that was not there before.
-/
import YashModel.Redir.World
namespace YashModel.Redir

/-- same finite map (trailing empty slots do not count) -/
def sameTable (a b : FdTable) : Bool := a.openFds == b.openFds

def internalOk (t : FdTable) (saved : List SavedFd) : Bool :=
  saved.all fun s => match s.save with
    | none => true
    | some sv => decide (10 ≤ sv) && t.isCloexec sv

def noExtraInternal (before after : FdTable) (allowed : List Fd) : Bool :=
  after.openFds.all fun (fd, _) => decide (fd < 10) || (before.get fd).isSome || allowed.contains fd

/-- no CLOEXEC descriptor below 10 appears that was not there before -/
def noLowCloexec (before t : FdTable) : Bool :=
  t.openFds.all fun (fd, e) => !(decide (fd < 10) && e.cloexec) || before.get fd == some e

def specVerdict (before : FdTable) (k : Kind) (rs : List Redir) (tr : Trace) : String :=
  let persists := (k == .exec || k == .commandExec) && tr.status == some 0
  if !persists && !sameTable before tr.t then "FAIL:table-not-restored"
  else if !noExtraInternal before tr.t (if persists then rs.map (·.fd) else []) then "FAIL:descriptor-left-open"
  else if !noLowCloexec before tr.t then "FAIL:cloexec-below-10-left"
  else match tr.during with
    | some (_, td) =>
      if !internalOk td (tr.saved ++ [⟨0, tr.script⟩]) then "FAIL:internal-descriptor"
      else if !noLowCloexec before td then "FAIL:cloexec-below-10-visible"
      else "ok"
    | none => "ok"

end YashModel.Redir
