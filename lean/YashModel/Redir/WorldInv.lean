/-
  C09 helper lemmas, part 7: what `perform` / `performRedirs` do to the *world* — an invariant of the
  oracle's operations is an invariant of the whole list (used for the `interactive` flag, the
  `noclobber` option and the growth of the table of open file descriptions of the concrete world).
-/
import YashModel.Redir.Guard
import YashModel.Redir.World
namespace YashModel.Redir
open YashModel.Generated.RedirConsts

variable {W : Type}

/-- a relation between the world before and after that every operation of the oracle respects -/
structure OracleInv (o : Oracle W) (Q : W → W → Prop) : Prop where
  refl : ∀ w, Q w w
  trans : ∀ a b c, Q a b → Q b c → Q a c
  resolve : ∀ w req, Q w (o.resolve w req).1
  tmpfile : ∀ w, Q w (o.tmpfile w).1
  fill : ∀ w ofd c, Q w (o.fill w ofd c).1
  deny : ∀ w, Q w (o.deny w).1

theorem ite_w {α : Type} (c : Prop) [Decidable c] (a b : R W α) :
    (if c then a else b).w = if c then a.w else b.w := by
  split <;> rfl

theorem sysOpen_inv {o : Oracle W} {Q : W → W → Prop} (hq : OracleInv o Q) (w : W) (t : FdTable) (req : OpenReq) :
    Q w (sysOpen o w t req).1 := by
  unfold sysOpen
  split
  · exact hq.deny w
  · have h := hq.trans _ _ _ (hq.deny w) (hq.resolve (o.deny w).1 req)
    split <;> (rename_i heq; rw [heq] at h; exact h)

theorem openFile_inv {o : Oracle W} {Q : W → W → Prop} (hq : OracleInv o Q) (w : W) (t : FdTable)
    (args : OpenArgs) (path : Nat) : Q w (openFile o w t args path).w := by
  have h := sysOpen_inv hq w t { path := path, args := args }
  unfold openFile
  split <;> (rename_i heq; rw [heq] at h; exact h)

theorem openFileNoclobber_inv {o : Oracle W} {Q : W → W → Prop} (hq : OracleInv o Q) (w : W) (t : FdTable)
    (path : Nat) : Q w (openFileNoclobber o w t path).w := by
  have h := sysOpen_inv hq w t { path := path, args := flagsExcl }
  unfold openFileNoclobber
  split
  · rename_i heq; rw [heq] at h; exact h
  · rename_i w1 t1 e heq
    rw [heq] at h
    split
    · exact h
    · have h2 := sysOpen_inv hq w1 t1 { path := path, args := flagsPlainWrite }
      split <;> (rename_i heq2; rw [heq2] at h2; have h3 := hq.trans _ _ _ h h2; split <;> exact h3)

theorem openNormalFile_inv {o : Oracle W} {Q : W → W → Prop} (hq : OracleInv o Q) (w : W) (t : FdTable)
    (op : FileOp) (path : Nat) : Q w (openNormalFile o w t op path).w := by
  unfold openNormalFile
  cases op <;> simp only
  · exact openFile_inv hq ..
  · split
    · exact openFileNoclobber_inv hq ..
    · exact openFile_inv hq ..
  · exact openFile_inv hq ..
  · exact openFile_inv hq ..
  · exact openFile_inv hq ..

theorem prepare_inv {o : Oracle W} {Q : W → W → Prop} (hq : OracleInv o Q) (w : W) (t : FdTable) (b : Body) :
    Q w (prepare o w t b).w := by
  unfold prepare
  cases b with
  | file op path => exact openNormalFile_inv hq ..
  | dup input src =>
    simp only [copyFd]
    cases src with
    | closeIt => exact hq.refl w
    | malformed => exact hq.refl w
    | negOne => exact hq.refl w
    | fd n =>
      simp only
      split
      · exact hq.refl w
      · simp only [ite_w]
        repeat' split
        all_goals exact hq.refl w
  | hereDoc content =>
    simp only [hereDocFd, allocLowest]
    have h1 := hq.trans _ _ _ (hq.tmpfile w) (hq.deny (o.tmpfile w).1)
    split
    · rename_i heq; simp only [Prod.mk.injEq] at heq; rw [← heq.1]; exact h1
    · rename_i heq; simp only [Prod.mk.injEq] at heq
      split <;> (rw [← heq.1]; exact hq.trans _ _ _ h1 (hq.fill _ _ _))
  | unsupported => exact hq.refl w
  | expErr => exact hq.refl w
  | nulPath => exact hq.refl w
  | fileCs op path st =>
    simp only
    have h1 : Q w (pipeAvailable o w t).1 := hq.deny w
    by_cases hc : (pipeAvailable o w t).2 = true
    · rw [if_pos hc]; exact hq.trans _ _ _ h1 (openNormalFile_inv hq ..)
    · rw [if_neg hc]; exact h1

theorem perform_inv {o : Oracle W} {Q : W → W → Prop} (hq : OracleInv o Q) (w : W) (t : FdTable) (r : Redir) :
    Q w (perform o w t r).w := by
  have hoao : ∀ w' t', Q w' (openAndOverwrite o w' t' r).w := by
    intro w' t'
    have := prepare_inv hq w' t' r.body
    unfold openAndOverwrite
    split <;> exact this
  have hfin : ∀ w' t' sv, Q w' (finishPerform o w' t' r sv).w := by
    intro w' t' sv
    unfold finishPerform
    split <;> exact hoao w' t'
  unfold perform
  split
  · exact hq.refl w
  · split
    · exact hfin ..
    · exact hq.deny w
    · exact hq.trans _ _ _ (hq.deny w) (hfin ..)

theorem performRedirs_inv {o : Oracle W} {Q : W → W → Prop} (hq : OracleInv o Q) (w : W) (t : FdTable)
    (rs : List Redir) : Q w (performRedirs o w t rs).w := by
  induction rs generalizing w t with
  | nil => exact hq.refl w
  | cons r rs ih =>
    cases hp : (perform o w t r).r with
    | error e => rw [performRedirs_cons_err o w t r rs e hp]; exact perform_inv hq w t r
    | ok s =>
      rw [performRedirs_cons_ok o w t r rs s hp]
      exact hq.trans _ _ _ (perform_inv hq w t r) (ih _ _)

/-! ### the concrete world -/

/-- what no operation of the concrete oracle changes (option settings, the planned allocation
    failure), and what only grows (the table of open file descriptions) -/
def World.Stable (a b : World) : Prop :=
  b.noclobber = a.noclobber ∧ b.interactive = a.interactive ∧ b.denyAt = a.denyAt ∧
  a.ofds.length ≤ b.ofds.length ∧ a.files.length ≤ b.files.length

theorem setFile_ofds (w : World) (i : Nat) (f : File) : (setFile w i f).ofds = w.ofds := rfl
theorem setOfd_length (w : World) (i : Nat) (d : Ofd) : (setOfd w i d).ofds.length = w.ofds.length := by
  simp [setOfd]
theorem setFile_length (w : World) (i : Nat) (f : File) : (setFile w i f).files.length = w.files.length := by
  simp [setFile]

theorem World.resolve_stable (w : World) (req : OpenReq) : World.Stable w (w.resolve req).1 := by
  unfold World.resolve World.Stable
  simp only
  repeat' split
  all_goals simp [setFile]

theorem World.write_stable (w w1 : World) (ofd : Nat) (bytes : List Nat) (h : w.write ofd bytes = some w1) :
    World.Stable w w1 := by
  unfold World.write at h
  simp only at h
  split at h
  · cases h
  · split at h
    · cases h
    · cases h; simp [World.Stable, setOfd, setFile]

theorem World.fill_stable (w : World) (ofd : Nat) (c : List Nat) : World.Stable w (w.fill ofd c).1 := by
  unfold World.fill
  split
  · rename_i w1 h
    have := World.write_stable w w1 ofd c h
    simp only [World.Stable, setOfd] at this ⊢
    simpa using this
  · simp [World.Stable]

theorem worldOracle_stable : OracleInv worldOracle World.Stable where
  refl := fun w => by simp [World.Stable]
  trans := fun a b c h1 h2 => by
    obtain ⟨a1, a2, a3, a4, a5⟩ := h1
    obtain ⟨b1, b2, b3, b4, b5⟩ := h2
    exact ⟨b1.trans a1, b2.trans a2, b3.trans a3, Nat.le_trans a4 b4, Nat.le_trans a5 b5⟩
  resolve := World.resolve_stable
  tmpfile := fun w => by simp [worldOracle, World.tmpfile, World.Stable]
  fill := World.fill_stable
  deny := fun w => by simp [worldOracle, World.deny, World.Stable]

theorem performRedirs_interactive (w : World) (t : FdTable) (rs : List Redir) :
    (performRedirs worldOracle w t rs).w.interactive = w.interactive :=
  (performRedirs_inv worldOracle_stable w t rs).2.1

theorem message_interactive (w : World) (t : FdTable) : (w.message t).interactive = w.interactive := by
  unfold World.message
  split
  · rfl
  · simp only; split <;> rfl

theorem endOrGoOn_during' (w : World) (t : FdTable) (st : Nat) (saved : List SavedFd) :
    (endOrGoOn w t st saved).during = none := by
  unfold endOrGoOn; split <;> rfl

@[simp] theorem endOrGoOn_steps (w : World) (t : FdTable) (st : Nat) (saved : List SavedFd) :
    (endOrGoOn w t st saved).steps = none := by
  unfold endOrGoOn; split <;> rfl

end YashModel.Redir
