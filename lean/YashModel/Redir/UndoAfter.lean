/-
  C09 helper lemmas, part 13: `undo_redirs` run on a table the command body has changed (an `exec` in the
  body, a nested command that persists) — as long as the guard's saved copies are where it put them,
  every target and every saved-copy slot comes back as it was, and nothing else is touched.
-/
import YashModel.Redir.NestedLemmas
namespace YashModel.Redir
open YashModel.Generated.RedirConsts
variable {W : Type}

/-- descriptors a guard's `saved_fds` speak of: the targets it changed and the slots of its saved copies -/
def Touched (ss : List SavedFd) (fd : Fd) : Prop := ∃ s ∈ ss, s.original = fd ∨ s.save = some fd

theorem saved_avoid_cloexec (o : Oracle W) (w : W) (t : FdTable) (rs : List Redir) (x : Fd)
    (hx : t.isCloexec x = true) : ¬ Touched (performRedirs o w t rs).saved x := by
  induction rs generalizing w t with
  | nil => rintro ⟨s, hs, _⟩; cases hs
  | cons r rs ih =>
    cases hp : (perform o w t r).r with
    | error e => rw [performRedirs_cons_err o w t r rs e hp]; rintro ⟨s, hs, _⟩; cases hs
    | ok s0 =>
      rw [performRedirs_cons_ok o w t r rs s0 hp]
      simp only
      have hx1 : (perform o w t r).t.isCloexec x = true := by
        rw [isCloexec_congr (perform_keeps_cloexec o w t r x hx)]; exact hx
      rintro ⟨s, hs, hor⟩
      rcases List.mem_cons.mp hs with rfl | hm
      · rcases perform_spec o w t r with ⟨s', hs', hok⟩ | ⟨e', he', _⟩
        · rw [hp] at hs'; cases hs'
          rcases hor with h1 | h2
          · rw [hok.original] at h1; rw [← h1, hok.target_plain] at hx; cases hx
          · obtain ⟨e, _, _, hfree, _, _⟩ := hok.some_case x h2
            rw [isCloexec_of_none hfree] at hx; cases hx
        · rw [hp] at he'; cases he'
      · exact ih _ _ hx1 ⟨s, hm, hor⟩

/-- ★ (lemma form) `undo_redirs` run on *any* table that still has the guard's saved copies where the guard
    put them — whatever else the command body did to the table meanwhile — gives back every target and
    frees every saved-copy slot exactly as they were before the list was performed, and touches no
    other descriptor -/
theorem undo_after_body (o : Oracle W) (rs : List Redir) :
    ∀ (w : W) (t : FdTable), WF t → ∀ A : FdTable, A.limit = t.limit →
    (∀ s ∈ (performRedirs o w t rs).saved, ∀ sv, s.save = some sv → A.get sv = (performRedirs o w t rs).t.get sv) →
    (undoRedirs A (performRedirs o w t rs).saved).limit = t.limit ∧
    ∀ fd, (Touched (performRedirs o w t rs).saved fd → (undoRedirs A (performRedirs o w t rs).saved).get fd = t.get fd) ∧
      (¬ Touched (performRedirs o w t rs).saved fd → (undoRedirs A (performRedirs o w t rs).saved).get fd = A.get fd) := by
  induction rs with
  | nil =>
    intro w t _ A hl _
    refine ⟨hl, fun fd => ⟨?_, fun _ => rfl⟩⟩
    rintro ⟨s, hs, _⟩; cases hs
  | cons r rs ih =>
    intro w t hw A hl hA
    cases hp : (perform o w t r).r with
    | error e =>
      rw [performRedirs_cons_err o w t r rs e hp]
      refine ⟨hl, fun fd => ⟨?_, fun _ => rfl⟩⟩
      rintro ⟨s, hs, _⟩; cases hs
    | ok s0 =>
      rw [performRedirs_cons_ok o w t r rs s0 hp] at hA ⊢
      simp only at hA ⊢
      rw [undoRedirs_cons]
      have hw1 := perform_wf o w t r hw
      have hl1 : A.limit = (perform o w t r).t.limit := by rw [perform_limit]; exact hl
      obtain ⟨hUl, hU⟩ := ih (perform o w t r).w (perform o w t r).t hw1 A hl1
        (fun s hs sv hsv => hA s (List.mem_cons_of_mem _ hs) sv hsv)
      rw [perform_limit] at hUl
      generalize hUdef : undoRedirs A (performRedirs o (perform o w t r).w (perform o w t r).t rs).saved = U at hUl hU
      have hok : PerformOK t (perform o w t r).t r s0 := by
        rcases perform_spec o w t r with ⟨s', hs', hok⟩ | ⟨e', he', _⟩
        · rw [hp] at hs'; cases hs'; exact hok
        · rw [hp] at he'; cases he'
      have horig := hok.original
      have touched_cons : ∀ fd, fd ≠ r.fd → s0.save ≠ some fd →
          (Touched (s0 :: (performRedirs o (perform o w t r).w (perform o w t r).t rs).saved) fd ↔
            Touched (performRedirs o (perform o w t r).w (perform o w t r).t rs).saved fd) := by
        intro fd h1 h2
        constructor
        · rintro ⟨s, hs, hor⟩
          rcases List.mem_cons.mp hs with rfl | hm
          · rcases hor with h | h
            · exact absurd (horig.symm.trans h).symm h1
            · exact absurd h h2
          · exact ⟨s, hm, hor⟩
        · rintro ⟨s, hs, hor⟩; exact ⟨s, List.mem_cons_of_mem _ hs, hor⟩
      cases hsv : s0.save with
      | none =>
        obtain ⟨hg, hch⟩ := hok.none_case hsv
        have hone : undoOne U s0 = U.close r.fd := by simp [undoOne, hsv, horig]
        rw [hone]
        refine ⟨by simpa [FdTable.close] using hUl, fun fd => ?_⟩
        by_cases hfd : fd = r.fd
        · subst hfd
          refine ⟨fun _ => by simp [FdTable.close, hg], fun hnt => absurd ⟨s0, List.mem_cons_self .., .inl horig⟩ hnt⟩
        · have hiff := touched_cons fd hfd (by rw [hsv]; simp)
          simp only [FdTable.close, FdTable.get_put, hfd, ↓reduceIte]
          refine ⟨fun ht => ?_, fun hnt => (hU fd).2 (fun h => hnt (hiff.mpr h))⟩
          rw [(hU fd).1 (hiff.mp ht)]; exact hch.frame fd hfd
      | some sv =>
        obtain ⟨e, hg, _, hfree, hlsv, hch⟩ := hok.some_case sv hsv
        have hne : sv ≠ r.fd := by
          intro heq; rw [heq, hg] at hfree; cases hfree
        have ht1sv : (perform o w t r).t.get sv = some { ofd := e.ofd, cloexec := saveCloexec } := by
          rw [hch.frame sv hne]; simp
        have hc1 : (perform o w t r).t.isCloexec sv = true := by rw [isCloexec_of_get ht1sv]; rfl
        have hnt' := saved_avoid_cloexec o (perform o w t r).w (perform o w t r).t rs sv hc1
        have hUsv : U.get sv = some { ofd := e.ofd, cloexec := saveCloexec } := by
          rw [(hU sv).2 hnt', hA s0 (List.mem_cons_self ..) sv hsv,
            performRedirs_keeps_cloexec o _ _ rs sv hc1, ht1sv]
        have hlim : U.inLimit r.fd = true := by
          rw [inLimit_congr hUl]; exact hw r.fd e hg
        have hcl : e.cloexec = false := by
          have := hok.target_plain; rw [isCloexec_of_get hg] at this; exact this
        have hone : undoOne U s0 = (U.put r.fd (some ⟨e.ofd, false⟩)).close sv := by
          simp [undoOne, hsv, horig, FdTable.dup2, hUsv, hne, FdTable.setFd, hlim]
        rw [hone]
        refine ⟨by simpa [FdTable.close] using hUl, fun fd => ?_⟩
        simp only [FdTable.close, FdTable.get_put]
        by_cases hfsv : fd = sv
        · subst hfsv
          simp only [↓reduceIte]
          exact ⟨fun _ => hfree.symm, fun hnt => absurd ⟨s0, List.mem_cons_self .., .inr hsv⟩ hnt⟩
        · simp only [hfsv, ↓reduceIte]
          by_cases hfd : fd = r.fd
          · subst hfd
            simp only [↓reduceIte]
            refine ⟨fun _ => ?_, fun hnt => absurd ⟨s0, List.mem_cons_self .., .inl horig⟩ hnt⟩
            rw [hg]; cases e; simp_all
          · simp only [hfd, ↓reduceIte]
            have hiff := touched_cons fd hfd (by rw [hsv]; intro h; cases h; exact hfsv rfl)
            refine ⟨fun ht => ?_, fun hnt => (hU fd).2 (fun h => hnt (hiff.mpr h))⟩
            rw [(hU fd).1 (hiff.mp ht), hch.frame fd hfd]; simp [hfsv]

end YashModel.Redir
