/-
  C09 helper lemmas, part 8: the world a successful file redirection / here-document leaves, first for
  every oracle (which `resolve` / `tmpfile` / `fill` call produced it, at which world), then in the
  concrete world of World.lean.
-/
import YashModel.Redir.Meaning
import YashModel.Redir.WorldInv
namespace YashModel.Redir
open YashModel.Generated.RedirConsts

variable {W : Type}

/-- a successful `open_file`: the `resolve` call it made, at the world after the allocation check -/
theorem openFile_world (o : Oracle W) (w : W) (t : FdTable) (args : OpenArgs) (path : Nat) (spec : FdSpec)
    (h : (openFile o w t args path).r = .ok spec) :
    ∃ ofd fd0, o.resolve (o.deny w).1 ⟨path, args⟩ = ((openFile o w t args path).w, .ok ofd) ∧
      spec = .owned fd0 ∧ (openFile o w t args path).t.get fd0 = some ⟨ofd, false⟩ := by
  unfold openFile sysOpen at h ⊢
  by_cases hd : ((o.deny w).2 || !t.inLimit (t.minUnused 0)) = true
  · simp only [if_pos hd] at h; cases h
  · simp only [if_neg hd] at h ⊢
    cases hr : o.resolve (o.deny w).1 ⟨path, args⟩ with
    | mk w1 r =>
      cases r with
      | error e => simp only [hr] at h; cases h
      | ok ofd =>
        simp only [hr] at h ⊢
        cases h
        exact ⟨ofd, _, rfl, rfl, by simp⟩

/-- `perform_ok_decomp` with the worlds: a successful `perform` is `open_and_overwrite` run from the
    world itself (nothing to save) or from the world after the saving `dup`'s allocation -/
theorem perform_ok_decomp_w (o : Oracle W) (w : W) (t : FdTable) (r : Redir) (s : SavedFd)
    (h : (perform o w t r).r = .ok s) :
    ∃ w' t', (w' = w ∨ w' = (o.deny w).1) ∧ (perform o w t r).w = (openAndOverwrite o w' t' r).w ∧
      (perform o w t r).t = (openAndOverwrite o w' t' r).t ∧ (openAndOverwrite o w' t' r).r = .ok () := by
  unfold perform at h ⊢
  by_cases hc : t.isCloexec r.fd = true
  · rw [if_pos hc] at h; cases h
  · rw [if_neg hc] at h ⊢
    unfold FdTable.dup at h ⊢
    cases hg : t.get r.fd with
    | none =>
      simp only [hg] at h
      simp only
      unfold finishPerform at h ⊢
      cases hoo : (openAndOverwrite o w t r).r with
      | error e => simp only [hoo] at h; cases h
      | ok u => exact ⟨w, t, .inl rfl, rfl, rfl, hoo⟩
    | some e =>
      simp only [hg] at h
      simp only
      cases ha : t.openFdGe saveMin { ofd := e.ofd, cloexec := saveCloexec } (o.deny w).2 with
      | none => simp only [ha] at h; cases h
      | some p =>
        obtain ⟨sv, t1⟩ := p
        simp only [ha] at h
        simp only
        unfold finishPerform at h ⊢
        cases hoo : (openAndOverwrite o (o.deny w).1 t1 r).r with
        | error e' => simp only [hoo] at h; cases h
        | ok u => exact ⟨_, _, .inr rfl, rfl, rfl, hoo⟩

/-- the arguments `open_normal` passes for an operator when `noclobber` does not interfere -/
def plainArgs : FileOp → OpenArgs
  | .fileIn => fileIn | .fileOut => fileOut | .fileClobber => fileOut
  | .fileAppend => fileAppend | .fileInOut => fileInOut

theorem plainArgs_posix (op : FileOp) : plainArgs op = posixOpenArgs op := by cases op <;> rfl

theorem openNormalFile_plain (o : Oracle W) (w : W) (t : FdTable) (op : FileOp) (path : Nat)
    (hnc : op = .fileOut → o.noclobber w = false) :
    openNormalFile o w t op path = openFile o w t (plainArgs op) path := by
  cases op <;> simp only [openNormalFile, plainArgs]
  rw [hnc rfl]; rfl

/-- a successful here-document preparation: file and description come from `tmpfile` at the world it
    was called in, the content went in through `fill` after the allocation -/
theorem hereDocFd_world (o : Oracle W) (w : W) (t : FdTable) (content : List Nat) (spec : FdSpec)
    (h : (hereDocFd o w t content).r = .ok spec) :
    ∃ fd0, spec = .owned fd0 ∧
      (hereDocFd o w t content).w = (o.fill (o.deny (o.tmpfile w).1).1 (o.tmpfile w).2 content).1 ∧
      (o.fill (o.deny (o.tmpfile w).1).1 (o.tmpfile w).2 content).2 = true ∧
      (hereDocFd o w t content).t.get fd0 = some ⟨(o.tmpfile w).2, false⟩ := by
  unfold hereDocFd allocLowest at h ⊢
  simp only [hereDocCloexec_false, hereDocClosesOnFailure_true, if_true] at h ⊢
  cases ha : t.openFdGe 0 { ofd := (o.tmpfile w).2, cloexec := false } (o.deny (o.tmpfile w).1).2 with
  | none => simp only [ha] at h; cases h
  | some p =>
    obtain ⟨fd, t'⟩ := p
    obtain ⟨_, _, _, h4⟩ := FdTable.openFdGe_some ha
    subst h4
    simp only [ha] at h ⊢
    by_cases hf : (o.fill (o.deny (o.tmpfile w).1).1 (o.tmpfile w).2 content).2 = true
    · simp only [if_pos hf] at h ⊢
      cases h
      exact ⟨fd, rfl, trivial, hf, by simp⟩
    · simp only [if_neg hf] at h; cases h

theorem oao_w (o : Oracle W) (w : W) (t : FdTable) (r : Redir) :
    (openAndOverwrite o w t r).w = (prepare o w t r.body).w := by
  unfold openAndOverwrite; split <;> rfl

/-- (lemma form) a file redirection that succeeds, `noclobber` not interfering: the `resolve` call
    whose result is on the target, with the world it was made in and the world it left -/
theorem perform_file_world_lemma (o : Oracle W) (w : W) (t : FdTable) (fd : Fd) (op : FileOp) (path : Nat)
    (s : SavedFd) (hnc : op = .fileOut → o.noclobber w = false ∧ o.noclobber (o.deny w).1 = false)
    (h : (perform o w t ⟨fd, .file op path⟩).r = .ok s) :
    ∃ w', (w' = w ∨ w' = (o.deny w).1) ∧ ∃ ofd,
      o.resolve (o.deny w').1 ⟨path, posixOpenArgs op⟩ = ((perform o w t ⟨fd, .file op path⟩).w, .ok ofd) ∧
      (perform o w t ⟨fd, .file op path⟩).t.get fd = some ⟨ofd, false⟩ := by
  obtain ⟨w', t', hw', hpw, hpt, hok⟩ := perform_ok_decomp_w o w t _ s h
  have hnc' : op = .fileOut → o.noclobber w' = false := by
    intro hop
    rcases hw' with rfl | rfl
    · exact (hnc hop).1
    · exact (hnc hop).2
  have hprep : prepare o w' t' (.file op path) = openFile o w' t' (plainArgs op) path := by
    simp only [prepare]; exact openNormalFile_plain o w' t' op path hnc'
  cases hp : (prepare o w' t' (.file op path)).r with
  | error e =>
    have := oao_of_prepare_err o w' t' ⟨fd, .file op path⟩ e hp
    rw [this] at hok; cases hok
  | ok spec =>
    obtain ⟨ht, hr⟩ := oao_of_prepare_ok o w' t' ⟨fd, .file op path⟩ spec hp
    have hw2 := oao_w o w' t' ⟨fd, .file op path⟩
    simp only at ht hr hw2
    rw [hprep] at hp ht hr hw2
    obtain ⟨ofd, fd0, hres, hspec, hget⟩ := openFile_world o w' t' (plainArgs op) path spec hp
    subst hspec
    refine ⟨w', hw', ofd, ?_, ?_⟩
    · rw [← plainArgs_posix, hres, hpw, hw2]
    · rw [hpt, ht]
      rw [hr] at hok
      exact overwrite_target_entry _ _ fd fd0 _ rfl hget rfl hok

/-- (lemma form) a here-document that succeeds: which `tmpfile` / `fill` calls produced what is on the
    target -/
theorem perform_heredoc_world_lemma (o : Oracle W) (w : W) (t : FdTable) (fd : Fd) (content : List Nat)
    (s : SavedFd) (h : (perform o w t ⟨fd, .hereDoc content⟩).r = .ok s) :
    ∃ w', (w' = w ∨ w' = (o.deny w).1) ∧
      (perform o w t ⟨fd, .hereDoc content⟩).w = (o.fill (o.deny (o.tmpfile w').1).1 (o.tmpfile w').2 content).1 ∧
      (o.fill (o.deny (o.tmpfile w').1).1 (o.tmpfile w').2 content).2 = true ∧
      (perform o w t ⟨fd, .hereDoc content⟩).t.get fd = some ⟨(o.tmpfile w').2, false⟩ := by
  obtain ⟨w', t', hw', hpw, hpt, hok⟩ := perform_ok_decomp_w o w t _ s h
  cases hp : (prepare o w' t' (.hereDoc content)).r with
  | error e =>
    have := oao_of_prepare_err o w' t' ⟨fd, .hereDoc content⟩ e hp
    rw [this] at hok; cases hok
  | ok spec =>
    obtain ⟨ht, hr⟩ := oao_of_prepare_ok o w' t' ⟨fd, .hereDoc content⟩ spec hp
    have hw2 := oao_w o w' t' ⟨fd, .hereDoc content⟩
    simp only [prepare] at ht hr hw2 hp
    obtain ⟨fd0, hspec, hww, hfill, hget⟩ := hereDocFd_world o w' t' content spec hp
    subst hspec
    refine ⟨w', hw', by rw [hpw, hw2, hww], hfill, ?_⟩
    rw [hpt, ht]
    rw [hr] at hok
    exact overwrite_target_entry _ _ fd fd0 _ rfl hget rfl hok

/-! ### the concrete world -/

theorem deny_files (w : World) : (World.deny w).1.files = w.files := rfl
theorem deny_ofds (w : World) : (World.deny w).1.ofds = w.ofds := rfl
theorem deny_noclobber (w : World) : (World.deny w).1.noclobber = w.noclobber := rfl

theorem fileAt_congr {a b : World} (h : a.files = b.files) (i : Nat) : fileAt a i = fileAt b i := by
  simp [fileAt, h]

/-- `writeAt` on an empty file at offset 0 stores exactly the bytes -/
theorem writeAt_empty (bytes : List Nat) : writeAt [] 0 bytes = bytes := by
  simp [writeAt]

/-- an appending write lands at the end whatever the offset of the description is -/
theorem writeAt_end (content bytes : List Nat) : writeAt content content.length bytes = content ++ bytes := by
  simp [writeAt]

theorem World.resolve_ok_ofd (w w2 : World) (req : OpenReq) (ofd : Nat) (h : w.resolve req = (w2, .ok ofd)) :
    ofd = w.ofds.length := by
  unfold World.resolve at h
  simp only at h
  repeat' split at h
  all_goals simp_all [setFile]

theorem fileAt_setFile_same (w : World) (i : Nat) (f : File) (h : i < w.files.length) :
    fileAt (setFile w i f) i = f := by
  simp [fileAt, setFile, h]

theorem ofdAt_setOfd_same (w : World) (i : Nat) (d : Ofd) (h : i < w.ofds.length) :
    ofdAt (setOfd w i d) i = d := by
  simp [ofdAt, setOfd, h]

theorem fileAt_setOfd (w : World) (i j : Nat) (d : Ofd) : fileAt (setOfd w i d) j = fileAt w j := rfl
theorem ofdAt_setFile (w : World) (i j : Nat) (f : File) : ofdAt (setFile w i f) j = ofdAt w j := rfl

/-- filling a fresh read-write description at offset 0 on an empty regular file: the file holds the
    content, the offset is back at 0 -/
theorem World.fill_fresh (w0 : World) (i fi : Nat) (content : List Nat)
    (hd : ofdAt w0 i = ⟨fi, true, true, false, 0⟩) (hf : fileAt w0 fi = ⟨true, .reg, [], false⟩)
    (hi : i < w0.ofds.length) (hfi : fi < w0.files.length) :
    (w0.fill i content).2 = true ∧ ofdAt (w0.fill i content).1 i = ⟨fi, true, true, false, 0⟩ ∧
    fileAt (w0.fill i content).1 fi = ⟨true, .reg, content, false⟩ := by
  have hw : w0.write i content =
      some (setOfd (setFile w0 fi ⟨true, .reg, content, false⟩) i ⟨fi, true, true, false, content.length⟩) := by
    simp [World.write, hd, hf, writeAt_empty]
  unfold World.fill
  rw [hw]
  simp only
  have hi' : i < (setFile w0 fi ⟨true, .reg, content, false⟩).ofds.length := hi
  have hi'' : i < (setOfd (setFile w0 fi ⟨true, .reg, content, false⟩) i ⟨fi, true, true, false, content.length⟩).ofds.length := by
    rw [setOfd_length]; exact hi'
  refine ⟨trivial, ?_, ?_⟩
  · rw [ofdAt_setOfd_same _ _ _ hi'', ofdAt_setOfd_same _ _ _ hi']
  · rw [fileAt_setOfd, fileAt_setOfd, fileAt_setFile_same _ _ _ hfi]

end YashModel.Redir
