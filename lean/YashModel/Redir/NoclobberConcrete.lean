/-
  C09 helper lemmas, part 17: `>` under `noclobber` in the concrete world (lemma form).
-/
import YashModel.Redir.Noclobber
import YashModel.Redir.EndToEnd
namespace YashModel.Redir
open YashModel.Generated.RedirConsts

theorem noclobber_redirection_concrete' (w : World) (t : FdTable) (fd : Fd) (path : Nat) (s : SavedFd)
    (hn : w.noclobber = true) (hp : path ≠ pathEnotdir) (hp2 : path ≠ pathSlash) (hlen : path < w.files.length)
    (h : (perform worldOracle w t ⟨fd, .file .fileOut path⟩).r = .ok s) :
    (perform worldOracle w t ⟨fd, .file .fileOut path⟩).t.get fd = some ⟨w.ofds.length, false⟩ ∧
    ofdAt (perform worldOracle w t ⟨fd, .file .fileOut path⟩).w w.ofds.length = ⟨path, false, true, false, 0⟩ ∧
    (((fileAt w path).present = false ∧
        fileAt (perform worldOracle w t ⟨fd, .file .fileOut path⟩).w path = ⟨true, .reg, [], false⟩) ∨
     ((fileAt w path).present = true ∧ (fileAt w path).kind ≠ .reg ∧
        (perform worldOracle w t ⟨fd, .file .fileOut path⟩).w.files = w.files)) := by
  obtain ⟨w', hw', hcase⟩ := perform_noclobber_exact worldOracle w t fd path s ⟨hn, hn⟩ h
  have hfiles : (World.deny w').1.files = w.files := by rcases hw' with rfl | rfl <;> rfl
  have hofds : (World.deny w').1.ofds = w.ofds := by rcases hw' with rfl | rfl <;> rfl
  have hf : fileAt (World.deny w').1 path = fileAt w path := fileAt_congr hfiles path
  rcases hcase with ⟨ofd, hres, hget⟩ | ⟨w1, ofd, h1, hres, hreg, hget⟩
  · have hres' : (World.deny w').1.resolve ⟨path, flagsExcl⟩ =
        ((perform worldOracle w t ⟨fd, .file .fileOut path⟩).w, .ok ofd) := hres
    obtain ⟨hofd, hnew⟩ := World.resolve_ok _ _ _ ofd hres'
    rw [hofds] at hofd hnew
    obtain ⟨c1, _, c3, _⟩ := resolve_posix (World.deny w').1 path flagsExcl hp hp2 (by rw [hfiles]; exact hlen)
    rw [hf] at c1 c3
    have hmiss : (fileAt w path).present = false := by
      cases hpr : (fileAt w path).present with
      | false => rfl
      | true =>
        have := c1 hpr (by decide)
        rw [hres'] at this
        exact absurd (congrArg Prod.snd this) (by simp)
    refine ⟨by rw [hget, hofd], ?_, .inl ⟨hmiss, ?_⟩⟩
    · unfold ofdAt; rw [hnew]; simp; decide
    · have := (c3 hmiss (by decide)).2
      rw [hres'] at this; exact this
  · have h1' : (World.deny w').1.resolve ⟨path, flagsExcl⟩ = (w1, .error .EEXIST) := h1
    have hw1 : w1 = (World.deny w').1 := World.resolve_err_world _ _ _ _ h1'
    have hpres : (fileAt w path).present = true := by
      rw [← hf]; exact World.resolve_eexist_present _ _ _ h1'
    subst hw1
    have hres' : (World.deny (World.deny w').1).1.resolve ⟨path, flagsPlainWrite⟩ =
        ((perform worldOracle w t ⟨fd, .file .fileOut path⟩).w, .ok ofd) := hres
    have hfiles2 : (World.deny (World.deny w').1).1.files = w.files := hfiles
    have hofds2 : (World.deny (World.deny w').1).1.ofds = w.ofds := hofds
    obtain ⟨hofd, hnew⟩ := World.resolve_ok _ _ _ ofd hres'
    rw [hofds2] at hofd hnew
    have hff := World.resolve_ok_files_notrunc _ _ _ ofd
      (by rw [fileAt_congr hfiles2 path]; exact hpres) (by show flagsPlainWrite.trunc = false; decide) hres'
    rw [hfiles2] at hff
    have hod : ofdAt (perform worldOracle w t ⟨fd, .file .fileOut path⟩).w w.ofds.length = ⟨path, false, true, false, 0⟩ := by
      unfold ofdAt; rw [hnew]; simp; decide
    refine ⟨by rw [hget, hofd], hod, .inr ⟨hpres, ?_, hff⟩⟩
    intro hk
    have hreg' : ((fileAt (perform worldOracle w t ⟨fd, .file .fileOut path⟩).w
        (ofdAt (perform worldOracle w t ⟨fd, .file .fileOut path⟩).w ofd).file).kind == FKind.reg) = false := hreg
    rw [hofd, hod, fileAt_congr hff path, hk] at hreg'
    exact absurd hreg' (by decide)

end YashModel.Redir
