/-
  Driver for C09.  stdin: one case per line

      <noclobber 0|1> <limit N|-> <pre-opened descriptors|-> | <kind> | <fd> <op> <operand>; …

  pre-opened: comma-separated `<fd><r|w|b|c|R|W>` (a descriptor on /tmp/p: read-only, write-only,
  read-write, read-write with CLOEXEC, read-only with CLOEXEC, write-only with CLOEXEC) or `<fd>x`
  (a standard descriptor closed).
  op: in out clob app rw dupin dupout here pipe hstr; operand: a b m n d e (paths), a descriptor
  number, `-`, `z` (malformed), `E` (failing expansion).

  stdout: `<model observation>\t<spec verdict>`.
-/
import YashModel.Common.Proto
import YashModel.Redir.Nested
import YashModel.Redir.Init
open YashModel YashModel.Redir YashModel.Proto

def fileName (i : Nat) : String :=
  match i with
  | 0 => "in" | 1 => "out" | 2 => "err" | 3 => "a" | 4 => "b" | 5 => "m" | 6 => "n" | 7 => "d"
  | 8 => "e" | 9 => "p" | 10 => "s" | 11 => "t" | 12 => "q" | _ => "tmp"

def pathOf (s : String) : Option Nat :=
  match s with
  | "a" => some 3 | "b" => some 4 | "m" => some 5 | "n" => some 6 | "d" => some 7 | "e" => some 8
  | "t" => some 11 | "qs" => some 12
  | _ => none

def fileOpOf (s : String) : Option FileOp :=
  match s with
  | "in" => some .fileIn | "out" => some .fileOut | "clob" => some .fileClobber | "app" => some .fileAppend
  | "rw" => some .fileInOut | _ => none

def parseRedir (s : String) : Option Redir :=
  match words s with
  | [fd, op, operand] => do
    let fd ← fd.toNat?
    if operand = "E" ∧ op ≠ "here" then pure ⟨fd, .expErr⟩ else
    if operand = "N" ∧ (fileOpOf op).isSome then pure ⟨fd, .nulPath⟩ else
    if (operand = "ca" ∨ operand = "cm" ∨ operand = "c3" ∨ operand = "c5m") ∧ (fileOpOf op).isSome then
      -- `$(echo /tmp/a)`, `$(echo /tmp/m)`, `$(echo /tmp/a; exit 3)`, `$(echo /tmp/m; exit 5)`
      (fileOpOf op).map fun o => ⟨fd, .fileCs o (if operand = "ca" ∨ operand = "c3" then 3 else 5)
        (if operand = "c3" then 3 else if operand = "c5m" then 5 else 0)⟩ else
    match op with
    | "in" => do pure ⟨fd, .file .fileIn (← pathOf operand)⟩
    | "out" => do pure ⟨fd, .file .fileOut (← pathOf operand)⟩
    | "clob" => do pure ⟨fd, .file .fileClobber (← pathOf operand)⟩
    | "app" => do pure ⟨fd, .file .fileAppend (← pathOf operand)⟩
    | "rw" => do pure ⟨fd, .file .fileInOut (← pathOf operand)⟩
    | "dupin" | "dupout" =>
      let src := if operand = "-" then some DupSrc.closeIt
                 else if operand = "z" ∨ operand = "big" then some DupSrc.malformed
                 else if operand = "neg" then some DupSrc.negOne
                 else operand.toNat?.map DupSrc.fd
      src.map fun s => ⟨fd, .dup (op = "dupin") s⟩
    | "here" => some ⟨fd, .hereDoc [5, 6, 10]⟩
    | "pipe" | "hstr" => some ⟨fd, .unsupported⟩
    | _ => none
  | _ => none

def parseKind (s : String) : Option Kind :=
  match s with
  | "special" => some .special | "colon" => some .colon | "regular" => some .regular
  | "func" => some .func | "brace" => some .brace | "notfound" => some .notFound
  -- the other compound commands use the guard exactly like `{ }` (`FullCompoundCommand::execute`)
  | "forloop" | "whileloop" | "untilloop" | "ifcmd" | "casecmd" => some .brace
  -- every non-special built-in type goes the same way through `execute_builtin`
  | "elective" | "extension" | "substitutive" => some .regular
  -- a substitutive built-in whose external counterpart is lost after the assignments: message while the
  -- redirections are in effect, 127 — the same steps as a command that is not found
  | "substlost" => some .notFound
  | "funcret" => some .funcRet | "assign" => some .assign | "ext" | "extp" => some .external
  | "execbad" => some .execBadOption
  | "empty" => some .empty | "exec" => some .exec | "paren" => some .paren
  | "cmdexec" => some .commandExec | "dot" => some .dot | "dotx" => some .dotMissing
  | "execnf" => some .execNotFound | "execne" => some .execNoExec | "cmdexecnf" => some .commandExecNotFound
  | "guard" => some .guardUndo | "guardkeep" => some .guardKeep
  | _ => none

def hexOf (bs : List Nat) : String :=
  if bs.isEmpty then "-" else bytesToHex (bs.map UInt8.ofNat)

def lowestSharing (t : FdTable) (ofd : Nat) : Nat :=
  match t.openFds.find? (fun p => p.2.ofd == ofd) with
  | some p => p.1
  | none => 0

def showSnap (w : World) (t : FdTable) : String :=
  let es := t.openFds.map fun (fd, e) =>
    let d := ofdAt w e.ofd
    let f := fileAt w d.file
    let acc := if d.rd && d.wr then "b" else if d.rd then "r" else if d.wr then "w" else "n"
    -- `lseek` on a terminal fails: no offset to report
    let off := if f.tainted then "T" else if f.kind == .tty then "?" else toString d.off
    s!"{fd}:{fileName d.file}:{acc}:={lowestSharing t e.ofd}:@{off}:{if e.cloexec then "c" else "-"}"
  if es.isEmpty then "-" else ",".intercalate es

def showFile (w : World) (i : Nat) : String :=
  let f := fileAt w i
  if !f.present then "x" else if f.kind == .dir then "dir" else if f.tainted then "T" else hexOf f.content

def showFiles (w : World) : String :=
  ",".intercalate ([0, 1, 3, 4, 5, 6, 9, 11].map fun i => s!"{fileName i}:{showFile w i}")

def showErrno : Errno → String
  | .EBADF => "EBADF" | .EMFILE => "EMFILE" | .EEXIST => "EEXIST" | .ENOENT => "ENOENT"
  | .ENOTDIR => "ENOTDIR" | .EISDIR => "EISDIR" | .EACCES => "EACCES" | .EIO => "EIO"

/-- the class of `redir::ErrorCause` (variant, descriptor, errno — no message, no pathname) -/
def showCause : ErrCause → String
  | .expansion => "exp"
  | .fdNotOverwritten fd e => s!"fno:{fd}:{showErrno e}"
  | .reservedFd fd => s!"rsv:{fd}"
  | .openFile e => s!"open:{showErrno e}"
  | .malformedFd => "mal"
  | .unreadableFd fd => s!"unr:{fd}"
  | .unwritableFd fd => s!"unw:{fd}"
  | .tmpUnavailable e => s!"tmp:{showErrno e}"
  | .unsupported => "uns"
  | .nulByte => "nul"

def obsD (tr : Trace) : String :=
  match tr.steps with
    | some (steps, cause) =>
      -- the guard driven directly: the table after every `perform_redir`, then the error cause
      let ss := steps.map fun (ws, ts) => showSnap ws ts
      s!"G:{"/".intercalate ss}|e{(cause.map showCause).getD "-"}|x{(tr.cs.map toString).getD "-"}"
    | none =>
    match tr.during, tr.wrote, tr.readRes with
    | some (wd, td), some wrote, some (rd, tainted) =>
      let r := match rd with
        | none => "e"
        | some bs => if tainted then "T" else hexOf bs
      s!"{showSnap wd td}|w{if wrote then 1 else 0}|r{r}"
    | _, _, _ => "-"

def obsA (tr : Trace) : String :=
  match tr.status with
    | some st => if tr.exited.isSome then "-" else s!"{st}:{showSnap tr.w tr.t}"
    | none => "-"

/-- a nested command shows: the table its first `imark` saw (outer list applied), what the inner command's
    body saw, `$?` and table at the second `imark` (inner list undone or persisted) -/
def observeCmd (ct : CmdTrace) : String :=
  match ct.inner with
  | none =>
    match ct.io, ct.tr.during with
    | some r, some (wd, td) =>
      -- `put` / `get`: the table the built-in saw, then what it reported
      let res := match r with
        | .wrote ok => s!"p{if ok then 1 else 0}"
        | .got none _ => "ge"
        | .got (some bs) tainted => if tainted then "gT" else s!"g{hexOf bs}"
      s!"D={showSnap wd td}|{res} A={obsA ct.tr}"
    | _, _ => s!"D={obsD ct.tr} A={obsA ct.tr}"
  | some (wi, ti, tri) =>
    -- an interrupted inner command (interactive shell) skips the rest of the outer body: no second `imark`
    let second := if ct.innerInterrupted then "-" else obsA tri
    s!"D=N:{showSnap wi ti}~{obsD tri}~{second} A={obsA ct.tr}"

/-- kinds of the nested family: the inner command's kind -/
def parseNestKind (s : String) : Option Kind :=
  match s with
  -- the outer command is `{ }`, a function call, `for`, `if` or `case`: all use the guard alike
  | "nest" | "nestfn" | "nestfor" | "nestif" | "nestcase" => some .regular | "nestsp" => some .special | "nestexec" => some .exec
  | "nestnf" => some .notFound | "nestcolon" => some .colon | "nestexecnf" => some .execNotFound
  | _ => none

/-- the list of a nested command: `outer…; 0 nest -; inner…` -/
def splitNest (items : List String) : List String × List String :=
  (items.takeWhile (fun i => (words i)[1]? != some "nest"), (items.dropWhile (fun i => (words i)[1]? != some "nest")).drop 1)

def parseCmds : List String → Option (List Cmd)
  | kind :: redirs :: rest => do
    let items := (splitTrim redirs ";").filter (· ≠ "")
    let more ← parseCmds rest
    -- `put<fd>.<byte>` / `get<fd>.<count>`
    let ioKind : Option (Bool × Nat × Nat) :=
      if kind.startsWith "put" || kind.startsWith "get" then
        match (String.ofList (kind.toList.drop 3)).splitOn "." with
        | [a, b] => do pure (kind.startsWith "put", ← a.toNat?, ← b.toNat?)
        | _ => none
      else none
    if let some (wr, fd, arg) := ioKind then
      pure (.io wr fd arg (← items.mapM parseRedir) :: more) else
    match parseNestKind kind with
    | some ki =>
      let (o, i) := splitNest items
      if !(items.any fun it => (words it)[1]? == some "nest") then none else
      pure (.nested (← o.mapM parseRedir) ki (← i.mapM parseRedir) :: more)
    | none =>
      let k ← parseKind kind
      let rs ← items.mapM parseRedir
      pure (.plain k rs :: more)
  | [] => some []
  | [_] => none

def Cmd.isNested : Cmd → Bool
  | .nested .. => true
  | _ => false

def runLine (line : String) : String :=
  match splitTrim line "|" with
  | hdr :: cmdFields =>
    let parsed : Option (Bool × Option Nat × List String × List Cmd × Bool) := do
      let ws := words hdr
      let inter := ws.length == 4 && ws[3]? == some "i"
      match ws.take 3 with
      | [nc, lim, pre] =>
        if ws.length != 3 && !inter then none else
        let nc ← nc.toNat?
        let lim ← (if lim = "-" then some none else lim.toNat?.map some)
        let pre := if pre = "-" then [] else pre.splitOn ","
        let cmds ← parseCmds cmdFields
        if cmds.isEmpty then none else pure (nc != 0, lim, pre, cmds, inter)
      | _ => none
    match parsed with
    | none => "bad-case\t-"
    | some (nc, lim, pre, cmds, inter) =>
      match initState nc lim pre inter with
      | none => "bad-case\t-"
      | some (w0, t0) =>
        let trs := runScript2 w0 t0 0 cmds
        let ran := trs.map fun (_, ct) => observeCmd ct
        let skipped := List.replicate (cmds.length - trs.length) "D=- A=-"
        let (wf, tf, ex) := match trs.getLast? with
          | some (_, ct) => (ct.tr.w, ct.tr.t, match ct.tr.exited with | some n => n | none => ct.tr.status.getD 0)
          | none => (w0, t0, 0)
        let verdicts := (trs.zip cmds).map fun ((tb, ct), c) => specVerdictCmd tb c ct
        let verdict := (verdicts.find? (· ≠ "ok")).getD "ok"
        s!"B={showSnap w0 t0} {" ".intercalate (ran ++ skipped)} F={showSnap wf tf} files={showFiles wf} exit={ex}"
          ++ "\t" ++ verdict
  | _ => "bad-case\t-"

def main : IO Unit := mainLoop runLine
