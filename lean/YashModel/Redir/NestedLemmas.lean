/-
  C09 helper lemmas, part 10: nested guards (Nested.lean) — `undo_redirs` keeps `WF` and never sets
  CLOEXEC; what `runNested` is made of; lemma forms of the statements of NestedTheorems.lean.
-/
import YashModel.Redir.Nested
import YashModel.Redir.Command
namespace YashModel.Redir
open YashModel.Generated.RedirConsts

theorem WF.undoOne {t : FdTable} (h : WF t) (s : SavedFd) : WF (undoOne t s) := by
  unfold YashModel.Redir.undoOne
  cases s.save with
  | none => exact h.put_none _
  | some sv =>
    simp only
    apply WF.put_none
    unfold FdTable.dup2
    cases t.get sv with
    | none => exact h
    | some e =>
      simp only
      split
      · exact h
      · unfold FdTable.setFd
        split
        · rename_i hl; exact h.put_some _ _ hl
        · exact h

theorem WF.undoRedirs {t : FdTable} (h : WF t) (ss : List SavedFd) : WF (undoRedirs t ss) := by
  unfold YashModel.Redir.undoRedirs
  generalize ss.reverse = l
  induction l generalizing t with
  | nil => exact h
  | cons s l ih => exact ih (h.undoOne s)

theorem isCloexec_put_ne (t : FdTable) (x fd : Fd) (v : Option FdEntry) (h : fd ≠ x) :
    (t.put x v).isCloexec fd = t.isCloexec fd := by
  simp [FdTable.isCloexec, FdTable.get_put, h]

theorem isCloexec_put_none (t : FdTable) (x : Fd) : (t.put x none).isCloexec x = false := by
  simp [FdTable.isCloexec, FdTable.get_put]

theorem isCloexec_put_plain (t : FdTable) (x : Fd) (ofd : Nat) : (t.put x (some ⟨ofd, false⟩)).isCloexec x = false := by
  simp [FdTable.isCloexec, FdTable.get_put]

/-- `dup2` never sets CLOEXEC -/
theorem dup2_cloexec (t : FdTable) (src dst fd : Fd) (h : ((t.dup2 src dst).getD t).isCloexec fd = true) :
    t.isCloexec fd = true := by
  unfold FdTable.dup2 at h
  cases hg : t.get src with
  | none => simpa [hg] using h
  | some e =>
    simp only [hg] at h
    by_cases hsd : src = dst
    · simpa [hsd] using h
    · simp only [if_neg hsd, FdTable.setFd] at h
      by_cases hl : t.inLimit dst = true
      · simp only [if_pos hl, Option.getD_some] at h
        by_cases hfd : fd = dst
        · rw [hfd, isCloexec_put_plain] at h; cases h
        · rwa [isCloexec_put_ne _ _ _ _ hfd] at h
      · simpa [if_neg hl] using h

/-- `undo_redirs` never sets CLOEXEC: what is CLOEXEC afterwards was CLOEXEC and is not a saved copy -/
theorem undoOne_cloexec (t : FdTable) (s : SavedFd) (fd : Fd) (h : (undoOne t s).isCloexec fd = true) :
    t.isCloexec fd = true ∧ s.save ≠ some fd := by
  unfold undoOne at h
  cases hs : s.save with
  | none =>
    simp only [hs, FdTable.close] at h
    by_cases hfd : fd = s.original
    · rw [hfd, isCloexec_put_none] at h; cases h
    · rw [isCloexec_put_ne _ _ _ _ hfd] at h; exact ⟨h, by simp⟩
  | some sv =>
    simp only [hs, FdTable.close] at h
    by_cases hfd : fd = sv
    · rw [hfd, isCloexec_put_none] at h; cases h
    · rw [isCloexec_put_ne _ _ _ _ hfd] at h
      exact ⟨dup2_cloexec t sv s.original fd h, by intro he; cases he; exact hfd rfl⟩

theorem undoRedirs_cloexec (t : FdTable) (ss : List SavedFd) (fd : Fd) (h : (undoRedirs t ss).isCloexec fd = true) :
    t.isCloexec fd = true ∧ ∀ s ∈ ss, s.save ≠ some fd := by
  unfold undoRedirs at h
  have : ∀ (l : List SavedFd) (t : FdTable), (l.foldl undoOne t).isCloexec fd = true →
      t.isCloexec fd = true ∧ ∀ s ∈ l, s.save ≠ some fd := by
    intro l
    induction l with
    | nil => intro t h; exact ⟨h, fun _ hs => by cases hs⟩
    | cons s l ih =>
      intro t h
      obtain ⟨h1, h2⟩ := ih _ h
      obtain ⟨h3, h4⟩ := undoOne_cloexec t s fd h1
      refine ⟨h3, fun s' hs' => ?_⟩
      rcases List.mem_cons.mp hs' with rfl | hm
      · exact h4
      · exact h2 s' hm
  obtain ⟨h1, h2⟩ := this _ _ h
  exact ⟨h1, fun s hs => h2 s (List.mem_reverse.mpr hs)⟩


/-! ### statements -/

theorem nested_restores' (w : World) (t : FdTable) (outer : List Redir) (ki : Kind) (inner : List Redir) (prev : Nat)
    (hw : WF t)
    (h : ki.isExec = true → (performRedirs worldOracle (performRedirs worldOracle w t outer).w
        (performRedirs worldOracle w t outer).t inner).err ≠ none) :
    ((runNested w t outer ki inner prev).tr.t.limit = t.limit ∧
      ∀ fd, (runNested w t outer ki inner prev).tr.t.get fd = t.get fd) ∧
    ∀ wi ti tri, (runNested w t outer ki inner prev).inner = some (wi, ti, tri) →
      (performRedirs worldOracle w t outer).err = none ∧
      wi = (performRedirs worldOracle w t outer).w ∧ ti = (performRedirs worldOracle w t outer).t ∧
      tri = runCommand wi ti ki inner prev ∧
      tri.t.limit = ti.limit ∧ ∀ fd, tri.t.get fd = ti.get fd := by
  unfold runNested
  by_cases he : (performRedirs worldOracle w t outer).err.isSome = true
  · simp only [if_pos he]
    refine ⟨command_restores w t .brace outer prev hw (fun hk => by cases hk), ?_⟩
    intro wi ti tri hin; cases hin
  · simp only [if_neg he]
    have hnone : (performRedirs worldOracle w t outer).err = none := by
      cases hx : (performRedirs worldOracle w t outer).err with
      | none => rfl
      | some e => rw [hx] at he; exact absurd rfl he
    have hwg := performRedirs_wf worldOracle w t outer hw
    have hin : Equiv (runCommand (performRedirs worldOracle w t outer).w (performRedirs worldOracle w t outer).t ki inner prev).t
        (performRedirs worldOracle w t outer).t :=
      command_restores _ _ ki inner prev hwg h
    refine ⟨(Equiv.undoRedirs hin _).trans (undo_restores worldOracle w t outer hw), ?_⟩
    intro wi ti tri hsome
    simp only [Option.some.injEq, Prod.mk.injEq] at hsome
    obtain ⟨rfl, rfl, rfl⟩ := hsome
    exact ⟨hnone, rfl, rfl, rfl, hin.1, hin.2⟩

theorem nested_inner_eq (w : World) (t : FdTable) (outer : List Redir) (ki : Kind) (inner : List Redir) (prev : Nat)
    (wi : World) (ti : FdTable) (tri : Trace) (hin : (runNested w t outer ki inner prev).inner = some (wi, ti, tri)) :
    (performRedirs worldOracle w t outer).err = none ∧
    wi = (performRedirs worldOracle w t outer).w ∧ ti = (performRedirs worldOracle w t outer).t ∧
    tri = runCommand wi ti ki inner prev ∧
    (runNested w t outer ki inner prev).tr.t = undoRedirs tri.t (performRedirs worldOracle w t outer).saved ∧
    (runNested w t outer ki inner prev).tr.saved = (performRedirs worldOracle w t outer).saved := by
  unfold runNested at hin ⊢
  by_cases he : (performRedirs worldOracle w t outer).err.isSome = true
  · simp only [if_pos he] at hin; cases hin
  · simp only [if_neg he] at hin ⊢
    have hnone : (performRedirs worldOracle w t outer).err = none := by
      cases hx : (performRedirs worldOracle w t outer).err with
      | none => rfl
      | some e => rw [hx] at he; exact absurd rfl he
    simp only [Option.some.injEq, Prod.mk.injEq] at hin
    obtain ⟨rfl, rfl, rfl⟩ := hin
    refine ⟨hnone, rfl, rfl, rfl, ?_, ?_⟩ <;> first | rfl | trivial

theorem nested_internal' (w : World) (t : FdTable) (outer : List Redir) (ki : Kind) (inner : List Redir) (prev : Nat)
    (wi : World) (ti : FdTable) (tri : Trace) (hin : (runNested w t outer ki inner prev).inner = some (wi, ti, tri)) :
    (∀ fd, ti.isCloexec fd = true → t.isCloexec fd = true ∨ minInternalFd ≤ fd) ∧
    (∀ wd td, tri.during = some (wd, td) → ∀ fd, td.isCloexec fd = true → t.isCloexec fd = true ∨ minInternalFd ≤ fd) ∧
    (∀ s ∈ (runNested w t outer ki inner prev).tr.saved, ∀ sv, s.save = some sv →
      minInternalFd ≤ sv ∧ ti.isCloexec sv = true ∧ (performRedirs worldOracle wi ti inner).t.get sv = ti.get sv) := by
  obtain ⟨_, rfl, rfl, rfl, _, hsaved⟩ := nested_inner_eq w t outer ki inner prev wi ti tri hin
  have hguard : ∀ fd, (performRedirs worldOracle w t outer).t.isCloexec fd = true →
      t.isCloexec fd = true ∨ minInternalFd ≤ fd := by
    intro fd hfd
    rcases internal_only worldOracle w t outer fd hfd with h1 | ⟨s, hs, hsv⟩
    · exact .inl h1
    · exact .inr (internal_fds worldOracle w t outer s hs fd hsv).2.1
  refine ⟨hguard, fun wd td hd fd hc => ?_, fun s hs sv hsv => ?_⟩
  · rcases runCommand_during_internal _ _ ki inner prev wd td hd fd hc with h1 | h2
    · exact hguard fd h1
    · exact .inr h2
  · rw [hsaved] at hs
    obtain ⟨_, h2, h3⟩ := internal_fds worldOracle w t outer s hs sv hsv
    exact ⟨h2, h3, cloexec_untouched worldOracle _ _ inner sv h3⟩

theorem nested_none_left' (w : World) (t : FdTable) (outer : List Redir) (ki : Kind) (inner : List Redir) (prev : Nat)
    (hw : WF t) (fd : Fd) (h : (runNested w t outer ki inner prev).tr.t.isCloexec fd = true) :
    t.isCloexec fd = true := by
  cases hin : (runNested w t outer ki inner prev).inner with
  | none =>
    have : (runNested w t outer ki inner prev).tr = runCommand w t .brace outer prev := by
      unfold runNested at hin ⊢
      by_cases he : (performRedirs worldOracle w t outer).err.isSome = true
      · simp only [if_pos he]
      · simp only [if_neg he] at hin; cases hin
    rw [this] at h
    exact runCommand_none_left w t .brace outer prev hw fd h
  | some p =>
    obtain ⟨wi, ti, tri⟩ := p
    obtain ⟨_, rfl, rfl, rfl, ht, _⟩ := nested_inner_eq w t outer ki inner prev wi ti tri hin
    rw [ht] at h
    obtain ⟨h1, h2⟩ := undoRedirs_cloexec _ _ fd h
    have h3 := runCommand_none_left _ _ ki inner prev (performRedirs_wf worldOracle w t outer hw) fd h1
    rcases internal_only worldOracle w t outer fd h3 with h4 | ⟨s, hs, hsv⟩
    · exact h4
    · exact absurd hsv (h2 s hs)

theorem runIO_cases (w : World) (t : FdTable) (wr : Bool) (fd : Fd) (arg : Nat) (rs : List Redir) (prev : Nat) :
    ((runIO w t wr fd arg rs prev).io = none ∧ (runIO w t wr fd arg rs prev).tr = runCommand w t .regular rs prev) ∨
    ((runIO w t wr fd arg rs prev).io.isSome = true ∧
      (runIO w t wr fd arg rs prev).tr.t =
        undoRedirs (performRedirs worldOracle w t rs).t (performRedirs worldOracle w t rs).saved ∧
      (runIO w t wr fd arg rs prev).tr.w =
        (ioBody (performRedirs worldOracle w t rs).w (performRedirs worldOracle w t rs).t wr fd arg).1) := by
  unfold runIO
  by_cases he : (performRedirs worldOracle w t rs).err.isSome = true
  · rw [if_pos he]; exact .inl ⟨rfl, rfl⟩
  · rw [if_neg he]; exact .inr ⟨rfl, rfl, rfl⟩

theorem runCmd_wf (w : World) (t : FdTable) (prev : Nat) (c : Cmd) (hw : WF t) : WF (runCmd w t prev c).tr.t := by
  cases c with
  | plain k rs => exact runCommand_wf w t k rs prev hw
  | io wr fd arg rs =>
    simp only [runCmd]
    rcases runIO_cases w t wr fd arg rs prev with ⟨_, h⟩ | ⟨_, h, _⟩
    · rw [h]; exact runCommand_wf w t .regular rs prev hw
    · rw [h]; exact (performRedirs_wf worldOracle w t rs hw).undoRedirs _
  | nested outer ki inner =>
    simp only [runCmd]
    cases hin : (runNested w t outer ki inner prev).inner with
    | none =>
      have : (runNested w t outer ki inner prev).tr = runCommand w t .brace outer prev := by
        unfold runNested at hin ⊢
        by_cases he : (performRedirs worldOracle w t outer).err.isSome = true
        · simp only [if_pos he]
        · simp only [if_neg he] at hin; cases hin
      rw [this]; exact runCommand_wf w t .brace outer prev hw
    | some p =>
      obtain ⟨wi, ti, tri⟩ := p
      obtain ⟨_, rfl, rfl, rfl, ht, _⟩ := nested_inner_eq w t outer ki inner prev wi ti tri hin
      rw [ht]
      exact (runCommand_wf _ _ ki inner prev (performRedirs_wf worldOracle w t outer hw)).undoRedirs _

theorem runCmd_none_left (w : World) (t : FdTable) (prev : Nat) (c : Cmd) (hw : WF t) (fd : Fd)
    (h : (runCmd w t prev c).tr.t.isCloexec fd = true) : t.isCloexec fd = true := by
  cases c with
  | plain k rs => exact runCommand_none_left w t k rs prev hw fd h
  | io wr fd0 arg rs =>
    simp only [runCmd] at h
    rcases runIO_cases w t wr fd0 arg rs prev with ⟨_, h1⟩ | ⟨_, h1, _⟩
    · rw [h1] at h; exact runCommand_none_left w t .regular rs prev hw fd h
    · rw [h1, isCloexec_congr ((undo_restores worldOracle w t rs hw).2 fd)] at h; exact h
  | nested outer ki inner => exact nested_none_left' w t outer ki inner prev hw fd h

theorem runScript2_plain_lemma (w : World) (t : FdTable) (prev : Nat) (cmds : List (Kind × List Redir)) :
    runScript2 w t prev (cmds.map fun p => .plain p.1 p.2) =
      (runScript w t prev cmds).map fun p => (p.1, { tr := p.2 }) := by
  induction cmds generalizing w t prev with
  | nil => rfl
  | cons c rest ih =>
    obtain ⟨k, rs⟩ := c
    simp only [List.map_cons, runScript2, runScript, runCmd]
    by_cases hx : (runCommand w t k rs prev).exited.isSome = true
    · simp [hx]
    · simp [hx, ih]

theorem script2_sound_aux (t0 : FdTable) (cmds : List Cmd) :
    ∀ (w : World) (t : FdTable) (prev : Nat), WF t → (∀ fd, t.isCloexec fd = true → t0.isCloexec fd = true) →
    ∀ p ∈ runScript2 w t prev cmds, ∃ c ∈ cmds, ∃ wb prev', WF p.1 ∧ p.2 = runCmd wb p.1 prev' c ∧
      (∀ fd, p.1.isCloexec fd = true → t0.isCloexec fd = true) ∧
      (∀ fd, p.2.tr.t.isCloexec fd = true → t0.isCloexec fd = true) := by
  induction cmds with
  | nil => intro w t prev _ _ p hp; simp [runScript2] at hp
  | cons c rest ih =>
    intro w t prev hw hc p hp
    have hhead : WF t ∧ (t, runCmd w t prev c).2 = runCmd w t prev c ∧
        (∀ fd, t.isCloexec fd = true → t0.isCloexec fd = true) ∧
        (∀ fd, (runCmd w t prev c).tr.t.isCloexec fd = true → t0.isCloexec fd = true) :=
      ⟨hw, rfl, hc, fun fd h => hc fd (runCmd_none_left w t prev c hw fd h)⟩
    simp only [runScript2] at hp
    split at hp
    · simp only [List.mem_singleton] at hp; subst hp
      exact ⟨c, List.mem_cons_self .., w, prev, hhead⟩
    · rcases List.mem_cons.mp hp with rfl | hm
      · exact ⟨c, List.mem_cons_self .., w, prev, hhead⟩
      · obtain ⟨c', hc', rest'⟩ := ih _ _ _ (runCmd_wf w t prev c hw) hhead.2.2.2 p hm
        exact ⟨c', List.mem_cons_of_mem _ hc', rest'⟩

end YashModel.Redir
