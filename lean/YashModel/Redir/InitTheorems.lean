/-
  C09 — the driver's start state meets the hypotheses of the Spec-column theorems, so for driver runs they
  have no hypothesis left but the decidable `wfCheck` of the case header.  Statements + the few lemmas.
-/
import YashModel.Redir.Init
import YashModel.Redir.NestedTheorems
namespace YashModel.Redir
open YashModel.Generated.RedirConsts

theorem bounded_std (nc inter : Bool) : Bounded (stdWorld nc inter) stdTable := by
  intro fd e h
  match fd, h with
  | 0, h => cases h; simp [stdWorld]
  | 1, h => cases h; simp [stdWorld]
  | 2, h => cases h; simp [stdWorld]
  | n+3, h => simp [stdTable, FdTable.get, getAt] at h

theorem preopen_bounded (ps : List String) : ∀ (w : World) (t : FdTable) (w' : World) (t' : FdTable),
    Bounded w t → preopen w t ps = some (w', t') → Bounded w' t' := by
  induction ps with
  | nil => intro w t w' t' hb h; simp only [preopen, Option.some.injEq, Prod.mk.injEq] at h; obtain ⟨rfl, rfl⟩ := h; exact hb
  | cons p ps ih =>
    intro w t w' t' hb h
    unfold preopen at h
    split at h
    · split at h
      · refine ih _ _ _ _ ?_ h
        intro fd e hg
        simp only [FdTable.close, FdTable.get_put] at hg
        split at hg
        · cases hg
        · exact hb fd e hg
      · refine ih _ _ _ _ ?_ h
        intro fd e hg
        simp only [FdTable.get_put] at hg
        simp only [List.length_append, List.length_singleton]
        split at hg
        · cases hg; simp
        · exact Nat.lt_succ_of_lt (hb fd e hg)
      · cases h
    · cases h

/-- ★ the start state of every driver run is `Bounded`: every descriptor refers to an existing description -/
theorem initState_bounded (nc : Bool) (lim : Option Nat) (pre : List String) (inter : Bool) (w : World) (t : FdTable)
    (h : initState nc lim pre inter = some (w, t)) : Bounded w t := by
  unfold initState at h
  split at h
  · rename_i w0 t0 hp
    simp only [Option.some.injEq, Prod.mk.injEq] at h
    obtain ⟨rfl, rfl⟩ := h
    exact fun fd e hg => (preopen_bounded pre _ _ _ _ (bounded_std nc inter) hp) fd e hg
  · cases h

/-- ★ `wfCheck` decides the hypothesis `WF` -/
theorem wfCheck_iff (t : FdTable) : wfCheck t = true ↔ WF t := by
  unfold wfCheck WF
  rw [List.all_eq_true]
  constructor
  · intro h fd e hg; exact h (fd, e) ((mem_openFds t fd e).mpr hg)
  · rintro h ⟨fd, e⟩ hm; exact h fd e ((mem_openFds t fd e).mp hm)

/-- ★ closed corollary for driver runs: for every case header whose limit is above every open descriptor
    (`wfCheck`, decidable — the generator never produces another) and every script of plain and nested
    commands, every Spec verdict the driver prints is `ok`; `WF` and `Bounded` hold of `initState` and are
    re-established by every command (`runCmd_wf`, `runCmd_bounded`) -/
theorem driver_spec_ok (nc : Bool) (lim : Option Nat) (pre : List String) (inter : Bool) (w : World) (t : FdTable)
    (cmds : List Cmd) (h : initState nc lim pre inter = some (w, t)) (hwf : wfCheck t = true) :
    ∀ p ∈ (runScript2 w t 0 cmds).zip cmds, specVerdictCmd p.1.1 p.2 p.1.2 = "ok" :=
  script2_spec_ok w t 0 cmds ((wfCheck_iff t).mp hwf) (initState_bounded nc lim pre inter w t h)

-- non-vacuity: the limit just above / at the highest open descriptor
example : wfCheck { stdTable with limit := some 3 } = true ∧ wfCheck { stdTable with limit := some 2 } = false ∧
    wfCheck ((stdTable.put 11 (some ⟨3, true⟩)).close 1) = true := by decide

end YashModel.Redir
