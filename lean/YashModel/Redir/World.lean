/-
  The concrete world the C09 driver runs the model in: the part of the virtual system
  (`yash-env/src/system/virtual.rs`, `virtual/io.rs`, `virtual/file_body.rs`, `virtual/file_system.rs`)
  that redirections can observe — a handful of paths, regular files and a directory, open file
  descriptions with access mode / append flag / offset — and the way each command kind of
  `yash-semantics/src/command/{simple_command/*, compound_command}.rs` uses the `RedirGuard`.

  Error messages written to descriptor 2 have no modelled text: a file that received one is
  *tainted* for the rest of the run (its content and the offsets of descriptions on it are reported
  as `T` on both sides, also after a later truncation, because offsets that moved past a message
  are no longer known).
-/
import YashModel.Redir.Model
namespace YashModel.Redir
open YashModel.Generated.RedirConsts

inductive FKind where
  | reg | dir
  | tty   -- `FileBody::Terminal`: read and written like a regular file, not regular for `fstat`, not truncated
  deriving DecidableEq, Repr

structure File where
  present : Bool
  kind : FKind
  content : List Nat
  tainted : Bool := false
  deriving DecidableEq, Repr

structure Ofd where
  file : Nat
  rd : Bool
  wr : Bool
  app : Bool
  off : Nat
  deriving DecidableEq, Repr

structure World where
  files : List File
  ofds : List Ofd
  noclobber : Bool
  /-- `Env::is_interactive()` of the main shell process -/
  interactive : Bool := false
  /-- number of descriptor allocations so far / the allocation the oracle strikes at -/
  allocs : Nat := 0
  denyAt : Option Nat := none
  deriving DecidableEq, Repr

/-- path ids.  0 /dev/stdin, 1 /dev/stdout, 2 /dev/stderr, 3 /tmp/a, 4 /tmp/b (regular files),
    5 /tmp/m (missing), 6 /tmp/x/n (in a missing directory), 7 /tmp/d (directory),
    8 /tmp/a/e (below a regular file), 9 /tmp/p (regular; what pre-opened descriptors refer to);
    10 /tmp/s (script for `.`); 11 /tmp/t (terminal device);
    12 /tmp/q/ (trailing slash, never exists); ≥ 13: anonymous here-document files -/
def pathEnotdir : Nat := 8
/-- 12: `/tmp/q/` — a pathname with a trailing slash whose last component does not exist (nothing ever
    creates /tmp/q): `resolve_file` answers EISDIR when asked to create it, ENOENT otherwise -/
def pathSlash : Nat := 12

def fileAt (w : World) (i : Nat) : File := (w.files[i]?).getD ⟨false, .reg, [], false⟩
def ofdAt (w : World) (i : Nat) : Ofd := (w.ofds[i]?).getD ⟨0, false, false, false, 0⟩

def setFile (w : World) (i : Nat) (f : File) : World := { w with files := w.files.set i f }
def setOfd (w : World) (i : Nat) (d : Ofd) : World := { w with ofds := w.ofds.set i d }

/-- `VirtualSystem::resolve_file` followed by `OpenFileDescription::new` -/
def World.resolve (w : World) (req : OpenReq) : World × Except Errno Nat :=
  if req.path = pathEnotdir then (w, .error .ENOTDIR) else
  -- "A pathname with a trailing slash names a directory, which cannot be created by opening it"
  if req.path = pathSlash then (w, .error (if req.args.create then .EISDIR else .ENOENT)) else
  let f := fileAt w req.path
  let rd := req.args.acc != .wo
  let wr := req.args.acc != .ro
  let mk (w : World) : World × Except Errno Nat :=
    ({ w with ofds := w.ofds ++ [⟨req.path, rd, wr, req.args.append, 0⟩] }, .ok w.ofds.length)
  if f.present then
    if req.args.excl then (w, .error .EEXIST)
    else if f.kind == .dir && (wr || req.args.create || req.args.trunc) then (w, .error .EISDIR)
    else if req.args.trunc && f.kind == .reg then mk (setFile w req.path { f with content := [] })
    else mk w
  else if req.args.create then mk (setFile w req.path ⟨true, .reg, [], false⟩)
  else (w, .error .ENOENT)

def World.tmpfile (w : World) : World × Nat :=
  ({ w with files := w.files ++ [⟨true, .reg, [], false⟩],
            ofds := w.ofds ++ [⟨w.files.length, true, true, false, 0⟩] }, w.ofds.length)

/-- `FileBody::poll_write` on a regular file: overwrite at the offset, zero-fill a gap, extend -/
def writeAt (content : List Nat) (off : Nat) (bytes : List Nat) : List Nat :=
  let padded := content ++ List.replicate (off - content.length) 0
  padded.take off ++ bytes ++ padded.drop (off + bytes.length)

/-- `OpenFileDescription::write` of harness bytes; `none` = an error (EBADF / EISDIR) -/
def World.write (w : World) (ofd : Nat) (bytes : List Nat) : Option World :=
  let d := ofdAt w ofd
  let f := fileAt w d.file
  if !d.wr then none
  else if f.kind == .dir then none
  else
    -- `FileBody::size()` is 0 for a terminal, so an appending write to one lands at offset 0
    let off := if d.app then (if f.kind == .reg then f.content.length else 0) else d.off
    some (setOfd (setFile w d.file { f with content := writeAt f.content off bytes }) ofd
            { d with off := off + bytes.length })

/-- `OpenFileDescription::read`; `none` = an error -/
def World.read (w : World) (ofd : Nat) (n : Nat) : Option (World × List Nat) :=
  let d := ofdAt w ofd
  let f := fileAt w d.file
  if !d.rd then none
  else if f.kind == .dir then none
  else
    let got := (f.content.drop d.off).take n
    some (setOfd w ofd { d with off := d.off + got.length }, got)

/-- `fill_content`: `write_all` then `lseek(Start(0))` -/
def World.fill (w : World) (ofd : Nat) (content : List Nat) : World × Bool :=
  match w.write ofd content with
  | some w1 => (setOfd w1 ofd { ofdAt w1 ofd with off := 0 }, true)
  | none => (w, false)

/-- an error message goes to descriptor 2: the file behind it (if writable, regular) is tainted -/
def World.message (w : World) (t : FdTable) : World :=
  match t.get 2 with
  | none => w
  | some e =>
    let d := ofdAt w e.ofd
    let f := fileAt w d.file
    if d.wr && f.kind != .dir then setFile w d.file { f with tainted := true } else w

def World.deny (w : World) : World × Bool :=
  ({ w with allocs := w.allocs + 1 }, w.denyAt == some w.allocs)

/-- the oracle of the concrete world -/
def worldOracle : Oracle World where
  resolve := World.resolve
  tmpfile := World.tmpfile
  fill := World.fill
  isRegular := fun w ofd => (fileAt w (ofdAt w ofd).file).kind == .reg
  access := fun w ofd => ((ofdAt w ofd).rd, (ofdAt w ofd).wr)
  deny := World.deny
  noclobber := fun w => w.noclobber

/-- the files of a fresh harness run (path ids above) -/
def initialFiles : List File :=
  [ ⟨true, .reg, [], false⟩, ⟨true, .reg, [], false⟩, ⟨true, .reg, [], true⟩,
    ⟨true, .reg, [1, 2], false⟩, ⟨true, .reg, [3, 4], false⟩,
    ⟨false, .reg, [], false⟩, ⟨false, .reg, [], false⟩, ⟨true, .dir, [], false⟩,
    ⟨false, .reg, [], false⟩, ⟨true, .reg, [5, 6], false⟩,
    -- 10: /tmp/s, the script the `.` built-in reads (shell text, reported like a tainted file)
    ⟨true, .reg, [], true⟩,
    -- 11: /tmp/t, a terminal device file (existing, not regular)
    ⟨true, .tty, [7], false⟩,
    -- 12: /tmp/q/ (see `pathSlash`): never present
    ⟨false, .reg, [], false⟩ ]

/-- `VirtualSystem::new`: descriptors 0, 1, 2 on /dev/stdin, /dev/stdout, /dev/stderr, read-write and
    appending -/
def stdWorld (noclobber : Bool) (interactive : Bool := false) : World :=
  { files := initialFiles,
    ofds := [⟨0, true, true, true, 0⟩, ⟨1, true, true, true, 0⟩, ⟨2, true, true, true, 0⟩],
    noclobber := noclobber, interactive := interactive }

def stdTable : FdTable :=
  { slots := [some ⟨0, false⟩, some ⟨1, false⟩, some ⟨2, false⟩], limit := none }

/-! ### command kinds -/

inductive Kind where
  | special      -- a special built-in that looks at the table while it runs (`sfds`)
  | colon        -- `:`
  | regular      -- a regular built-in that looks at the table (`fds`)
  | func         -- a function whose body runs `fds`
  | brace        -- `{ fds; }`
  | notFound     -- a command that does not exist
  | empty        -- redirections only
  | exec         -- `exec` without operands
  | paren        -- `( fds )`: the guard is the parent's, the body runs in a child
  | commandExec  -- `command exec`: a regular built-in whose result asks to retain the redirections
  | execNotFound -- `exec nosuchcmd`: the operand is not found (127)
  | execNoExec   -- `exec /tmp/a`: the operand exists but cannot be executed (126)
  | commandExecNotFound -- `command exec nosuchcmd`
  | funcRet      -- a function whose body runs `fds` and then `return 3`
  | assign       -- an assignment and redirections, no command word
  | external     -- an executable file that is found; the child's `execve` fails (ENOSYS in the simulator): 126
  | execBadOption -- `exec --no-such-option`: the built-in reports a usage error and does not retain
  | dot          -- `. /tmp/s` where the script runs `fds`
  | dotMissing   -- `. /tmp/a/e`: the script cannot be opened
  | guardUndo    -- the harness's `rg` built-in: `RedirGuard::new`, `perform_redir` item by item (the
                 -- table is looked at after every call, the error cause is kept), then `undo_redirs`
  | guardKeep    -- the same, ending with `preserve_redirs` when every item succeeded (what
                 -- `execute_builtin` does for `exec`); a failure is undone
  deriving DecidableEq, Repr

/-- what was seen of one run -/
structure Trace where
  w : World
  t : FdTable
  /-- table and world as the command body saw them (before its own I/O) -/
  during : Option (World × FdTable) := none
  /-- result of the body's write to descriptor 1 and read from descriptor 0 -/
  wrote : Option Bool := none
  readRes : Option (Option (List Nat) × Bool) := none    -- (bytes or error, file tainted)
  /-- `$?` seen by the next command; `none` when the shell exited -/
  status : Option Nat
  /-- exit status of the shell when it exited on the spot -/
  exited : Option Nat := none
  /-- descriptors the guard held while the body ran -/
  saved : List SavedFd := []
  /-- the descriptor the `.` built-in reads the script from -/
  script : Option Fd := none
  /-- the guard driven directly (`guardUndo`/`guardKeep`): world and table after every
      `perform_redir` call, and the cause of the call that failed -/
  steps : Option (List (World × FdTable) × Option ErrCause) := none
  /-- the guard driven directly: the `Option<ExitStatus>` accumulated over the `perform_redir` calls that
      succeeded (`new.or(old)`) -/
  cs : Option Nat := none

/-- the probe built-in's I/O: one byte to descriptor 1, up to two bytes from descriptor 0 -/
def probeIO (w : World) (t : FdTable) : World × Bool × (Option (List Nat) × Bool) :=
  let (w1, wrote) := match t.get 1 with
    | none => (w, false)
    | some e => match w.write e.ofd [8] with
      | some w1 => (w1, true)
      | none => (w, false)
  match t.get 0 with
  | none => (w1, wrote, (none, false))
  | some e =>
    let tainted := (fileAt w1 (ofdAt w1 e.ofd).file).tainted
    match w1.read e.ofd 2 with
    | some (w2, bs) => (w2, wrote, (some bs, tainted))
    | none => (w1, wrote, (none, tainted))

/-- kinds whose built-in is `exec` (its result always asks to retain the redirections) -/
def Kind.isExec : Kind → Bool
  | .exec | .commandExec | .execNotFound | .execNoExec | .commandExecNotFound | .guardKeep => true
  | _ => false

/-- kinds that are special built-ins: a redirection error (or an error the built-in reports)
    interrupts the shell -/
def Kind.isSpecial : Kind → Bool
  | .special => true     -- the harness's own `sfds`, registered as `Type::Special`
  -- the types yash-builtin/src/lib.rs registers (re-extracted on every run)
  | .colon => typeOfColon == .special
  | .exec | .execNotFound | .execNoExec | .execBadOption => typeOfExec == .special
  | .dot | .dotMissing => typeOfDot == .special
  -- `command exec …` runs under the type of `command`
  | .commandExec | .commandExecNotFound => typeOfCommand == .special
  | _ => false

/-- `Divert::Interrupt` from a special built-in, or `Divert::Abort` from an `exec` that could not
    invoke its operand: a non-interactive shell ends here with that status; the interactive
    read-eval loop recovers from the interrupt (and `exec` does not abort) and goes on -/
def endOrGoOn (w : World) (t : FdTable) (st : Nat) (saved : List SavedFd) : Trace :=
  if w.interactive then { w := w, t := t, status := some st, saved := saved }
  else { w := w, t := t, status := none, exited := some st, saved := saved }

@[simp] theorem endOrGoOn_t (w : World) (t : FdTable) (st : Nat) (saved : List SavedFd) :
    (endOrGoOn w t st saved).t = t := by
  unfold endOrGoOn; split <;> rfl

/-- `execute_builtin` / `execute_function` / `execute_external_utility` /
    `FullCompoundCommand::execute` / `execute_absent_target` around the guard -/
def runCommand (w : World) (t : FdTable) (k : Kind) (rs : List Redir) (prev : Nat := 0) : Trace :=
  match k with
  | .empty | .assign =>
    -- no word, no redirection: there is no command at all and `$?` stays (an assignment alone is a
    -- command with status 0)
    if rs.isEmpty then { w := w, t := t, status := some (if k == .assign then 0 else prev) } else
    -- the subshell's table is a copy of the parent's (`fork_from` copies descriptors and limits)
    let g := performRedirs worldOracle w t rs
    match g.err with
    | some _ => { w := g.w.message g.t, t := t, status := some 2 }
    -- `redir_exit_status.unwrap_or(exit_status)`: the status of the last command substitution in an operand
    | none => { w := g.w, t := t, status := some ((csStatus rs).getD 0) }
  | .guardUndo | .guardKeep =>
    -- the built-in itself carries no redirection; `rs` is the list it hands to its own guard.  It
    -- prints nothing; its exit status is 2 when a `perform_redir` failed
    let g := performRedirs worldOracle w t rs
    { w := g.w,
      t := if k == .guardKeep && g.err.isNone then preserveRedirs g.t g.saved else undoRedirs g.t g.saved,
      status := some (if g.err.isSome then 2 else 0), saved := g.saved,
      steps := some (performSteps worldOracle w t rs, g.err), cs := csStatus (rs.take g.saved.length) }
  | _ =>
    let g := performRedirs worldOracle w t rs
    match g.err with
    | some e =>
      let w1 := g.w.message g.t
      let t1 := undoRedirs g.t g.saved
      -- `Handle for redir::Error` (yash-semantics/src/handle.rs): an `Expansion` cause is handled like
      -- any other expansion error — `Divert::Interrupt` whatever the command is (the guard is dropped on
      -- the way out); every other cause gives status 2 and interrupts only a special built-in
      if k.isSpecial || e == .expansion then endOrGoOn w1 t1 2 [] else { w := w1, t := t1, status := some 2 }
    | none =>
      match k with
      | .exec | .commandExec =>
        { w := g.w, t := preserveRedirs g.t g.saved, status := some 0, saved := g.saved }
      -- `exec` with an operand that cannot be invoked: message, `should_retain_redirs` all the same;
      -- `Abort` unless the shell is interactive (`command exec`: the same result passes through)
      | .execNotFound | .commandExecNotFound =>
        endOrGoOn (g.w.message g.t) (preserveRedirs g.t g.saved) 127 g.saved
      | .execNoExec => endOrGoOn (g.w.message g.t) (preserveRedirs g.t g.saved) 126 g.saved
      | .colon => { w := g.w, t := undoRedirs g.t g.saved, status := some 0, saved := g.saved }
      | .dot | .dotMissing =>
        -- `source::Command::execute`: open + `move_fd_internal`, read-eval loop, `close(fd)`;
        -- failure to open is reported by a special built-in: the shell exits with FAILURE
        let r := openScript worldOracle g.w g.t (if k == .dot then 10 else pathEnotdir)
        match r.2.2 with
        | none =>
          endOrGoOn (r.1.message r.2.1) (undoRedirs r.2.1 g.saved) 1 g.saved
        | some fd =>
          let (w1, wrote, rd) := probeIO r.1 r.2.1
          { w := w1, t := undoRedirs (r.2.1.close fd) g.saved, during := some (r.1, r.2.1),
            wrote := some wrote, readRes := some rd, status := some 0, saved := g.saved, script := some fd }
      | .notFound =>
        { w := g.w.message g.t, t := undoRedirs g.t g.saved, status := some 127, saved := g.saved }
      -- the child (a copy of the table) fails to exec and says so on its descriptor 2
      | .external =>
        { w := g.w.message g.t, t := undoRedirs g.t g.saved, status := some 126, saved := g.saved }
      -- usage error of a special built-in: message, `Interrupt`, nothing retained
      | .execBadOption => endOrGoOn (g.w.message g.t) (undoRedirs g.t g.saved) 2 g.saved
      | _ =>
        let (w1, wrote, rd) := probeIO g.w g.t
        { w := w1, t := undoRedirs g.t g.saved, during := some (g.w, g.t), wrote := some wrote,
          readRes := some rd, status := some (if k == .funcRet then 3 else 0), saved := g.saved }

/-- a script: one command after the other, each from the world and table the previous one left;
    nothing runs after the shell has exited.  Returns each command's table-before and trace. -/
def runScript (w : World) (t : FdTable) (prev : Nat := 0) : List (Kind × List Redir) → List (FdTable × Trace)
  | [] => []
  | (k, rs) :: rest =>
    let tr := runCommand w t k rs prev
    if tr.exited.isSome then [(t, tr)] else (t, tr) :: runScript tr.w tr.t (tr.status.getD 0) rest

end YashModel.Redir
