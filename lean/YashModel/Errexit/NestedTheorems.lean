/-
  C10, wave 3 — property theorems about structured simple commands at ANY depth of the constructs that decide
  whether errexit applies and where a shell error ends (model: Errexit/Nested.lean; lemmas: NestedLemmas.lean).
  Statements and non-vacuity examples only.
-/
import YashModel.Errexit.NestedLemmas
import YashModel.Errexit.ScTheorems
namespace YashModel.Errexit
open YashModel.Exec
open YashModel.Generated.ErrexitTables

/-! ### ★ a shell error ends the shell from any depth -/

/-- A simple command whose first failing part is a syntax error, an error of a special built-in, or an
    assignment/expansion error (docs/src/termination.md), placed as the first command of ANY nesting of groups
    (with redirections), function calls, `if`/`while`/`until` conditions, negations and and-or lists — with
    anything at all after it in each of them: the whole construct does exactly what the command alone does in the
    frame stack the constructs have built (`framesAll p`), i.e. it ends in an `Interrupt`/`Exit` with `$?` = the
    error's status, every construct only pops its own frames, and nothing else of any of them runs. -/
theorem shell_error_stops_at_any_depth (p : List Layer) (hp : ∀ l ∈ p, l.ok) (fuel : Nat) (s : St) (c : Simple)
    (e : ShellError) (st : Nat) (h : c.shellError = some (e, st)) (he : e ≠ .redirection) :
    let leaf := execSimple fuel (withStack s (framesAll p ++ s.stack)) c
    let out := execN (fuel + 1 + costAll p) s (plugAll p (.simple c))
    out = (withStack leaf.1 s.stack, leaf.2) ∧
    stopsShell out.2 = true ∧ (out.1.applyResult out.2).status = st ∧ out.1.stack = s.stack := by
  intro leaf out
  have hm := shell_error_stops_the_shell fuel (withStack s (framesAll p ++ s.stack)) c e st h he
  have hk := (simple_command_meets_termination_doc fuel (withStack s (framesAll p ++ s.stack)) c e st h).2.1
  have hx : execN (fuel + 1) (withStack s (framesAll p ++ s.stack)) (.simple c) = leaf := rfl
  have := stops_through_context p hp (fuel + 1) s (.simple c) (by rw [hx]; exact hm.1) (by rw [hx]; exact hk)
  rw [hx] at this
  have hout : out = (withStack leaf.1 s.stack, leaf.2) := this
  refine ⟨hout, ?_, ?_, ?_⟩
  · rw [hout]; exact hm.1
  · rw [hout]
    rw [← hm.2]
    exact applyResult_status_congr _ _ _ rfl
  · rw [hout]; rfl

/-! ### ★ whether errexit applies is decided by the whole chain of enclosing constructs -/

/-- in the hole of nested constructs errexit is in force iff it is in force outside and NONE of the constructs
    is an exempt context — functions and groups do not restore it -/
theorem errexit_applicable_at_depth (p : List Layer) (s : St) :
    (withStack s (framesAll p ++ s.stack)).errexitApplicable = (s.errexitApplicable && !p.any Layer.exempt) := by
  have h1 : (framesAll p).contains .condition = p.any Layer.exempt := by
    rw [contains_condition_framesAll]
    congr 1
    funext l
    cases l <;> rfl
  simp only [St.errexitApplicable, withStack]
  rw [← h1]
  cases s.errexit <;> simp [List.contains_eq_mem, List.mem_append]
  by_cases ha : Frame.condition ∈ framesAll p <;> by_cases hb : Frame.condition ∈ s.stack <;> simp [ha, hb]

/-- A plain failing command (an external utility or a command that is not found: `$?` = `st` ≠ 0) as the first
    command of nested groups and function calls (no exempt construct) under errexit: the shell exits from any
    depth with that status and nothing after the command runs in any of the constructs. -/
theorem errexit_fires_at_any_depth (p : List Layer) (hp : ∀ l ∈ p, l.ok) (hex : p.any Layer.exempt = false)
    (fuel : Nat) (s : St) (st : Nat) (hst : st ≠ 0) (hee : s.errexitApplicable = true) :
    execN (fuel + 1 + costAll p) s (plugAll p (.simple (.mk (.ok none) (.external st) .none (.ok none)))) =
      ({ s with status := st }, .break_ (.exit none)) := by
  have happ := errexit_applicable_at_depth p s
  rw [hee, hex] at happ
  have hleaf : execSimple fuel (withStack s (framesAll p ++ s.stack)) (.mk (.ok none) (.external st) .none (.ok none)) =
      ({ withStack s (framesAll p ++ s.stack) with status := st }, .break_ (.exit none)) := by
    simp only [execSimple, execTarget]
    have : ({ withStack s (framesAll p ++ s.stack) with status := st } : St).applyErrexit = .break_ (.exit none) :=
      applyErrexit_of_applicable _ happ hst
    rw [this]
  have hx : execN (fuel + 1) (withStack s (framesAll p ++ s.stack))
      (.simple (.mk (.ok none) (.external st) .none (.ok none))) = _ := hleaf
  have := stops_through_context p hp (fuel + 1) s _ (by rw [hx]; rfl) (by rw [hx]; rfl)
  rw [hx] at this
  exact this

/-- …and as soon as ONE of the enclosing constructs is an exempt context — however many function calls and
    groups lie between it and the command — the command only sets `$?` and execution continues, although the
    option is on. -/
theorem errexit_exempt_at_any_depth (p : List Layer) (hex : p.any Layer.exempt = true) (fuel : Nat) (s : St)
    (st : Nat) :
    execSimple fuel (withStack s (framesAll p ++ s.stack)) (.mk (.ok none) (.external st) .none (.ok none)) =
      ({ withStack s (framesAll p ++ s.stack) with status := st }, .continue_) := by
  have happ := errexit_applicable_at_depth p s
  rw [hex] at happ
  simp only [Bool.not_true, Bool.and_false] at happ
  simp only [execSimple, execTarget]
  have : ({ withStack s (framesAll p ++ s.stack) with status := st } : St).applyErrexit = .continue_ :=
    applyErrexit_of_not_applicable _ happ
  rw [this]

/-- a redirection error of an ordinary command at any depth: the shell exits with 2 iff errexit is on and no
    enclosing construct (nor the caller's stack) is an exempt context; otherwise the command only sets `$? = 2` -/
theorem redirection_error_at_any_depth (p : List Layer) (hp : ∀ l ∈ p, l.ok) (fuel : Nat) (s : St) (c : Simple)
    (st : Nat) (h : c.shellError = some (.redirection, st)) :
    let leaf := execSimple fuel (withStack s (framesAll p ++ s.stack)) c
    let out := execN (fuel + 1 + costAll p) s (plugAll p (.simple c))
    ((s.errexitApplicable && !p.any Layer.exempt) = true →
      stopsShell out.2 = true ∧ (out.1.applyResult out.2).status = st ∧ out.1.stack = s.stack) ∧
    ((s.errexitApplicable && !p.any Layer.exempt) = false → leaf.2 = .continue_ ∧ leaf.1.status = st) := by
  intro leaf out
  have hr := redirection_error_consequence fuel (withStack s (framesAll p ++ s.stack)) c st h
  rw [errexit_applicable_at_depth] at hr
  refine ⟨fun ha => ?_, fun ha => hr.1 ha⟩
  have hm := hr.2 ha
  have hk := (simple_command_meets_termination_doc fuel (withStack s (framesAll p ++ s.stack)) c _ st h).2.1
  have hx : execN (fuel + 1) (withStack s (framesAll p ++ s.stack)) (.simple c) = leaf := rfl
  have := stops_through_context p hp (fuel + 1) s (.simple c) (by rw [hx]; exact hm.1) (by rw [hx]; exact hk)
  rw [hx] at this
  have hout : out = (withStack leaf.1 s.stack, leaf.2) := this
  refine ⟨?_, ?_, ?_⟩
  · rw [hout]; exact hm.1
  · rw [hout, ← hm.2]; exact applyResult_status_congr _ _ _ rfl
  · rw [hout]; rfl

/-! ### ★ a subshell is where a shell error stops -/

/-- A command (of any shape) that ends in an `Interrupt`/`Exit` as the first command of a subshell: only the
    subshell ends.  Its exit status becomes `$?` of the parent, whose stack and options are untouched, nothing
    else of the subshell runs, and the parent goes on unless errexit applies to that status. -/
theorem shell_error_ends_only_the_subshell (fuel : Nat) (s : St) (n : NCmd) (rest : List NCmd)
    (hstop : stopsShell (execN fuel (s.push .subshell) n).2 = true) :
    let x := execN fuel (s.push .subshell) n
    let s1 : St := { s with status := (x.1.applyResult x.2).status, trace := x.1.trace }
    execN (fuel + 1) s (.sub (n :: rest)) = (s1, s1.applyErrexit) := by
  intro x s1
  have hx : execN fuel (s.push .subshell) n = x := rfl
  obtain ⟨x1, x2⟩ := x
  rcases stops_cases hstop with ⟨e, he⟩ | ⟨e, he⟩ <;> rw [hx] at he <;> simp only at he <;> subst he <;>
    simp only [execN, execSeq, hx] <;> cases e <;> rfl

/-! ### the fixed shapes of the `sc` family are instances of the nested model -/

/-- `execStmt` (the model the `sc` family runs) is `execN` on the embedded shape, for every statement that does
    not run out of fuel inside a subshell: the fixed shapes are not a second model but instances of this one -/
theorem fixed_shapes_are_instances (fuel : Nat) (s : St) (st : Stmt)
    (hf : ∀ c m, st = .sub c m →
      (execSimple fuel (s.push .subshell) c).2 ≠ .outOfFuel ∧
      ((execSimple fuel (s.push .subshell) c).2 = .continue_ →
        (execSimple fuel (execSimple fuel (s.push .subshell) c).1 (probeSimple m)).2 ≠ .outOfFuel)) :
    execN (fuel + 2) s st.toN = execStmt fuel s st := by
  cases st with
  | plain c => simp [Stmt.toN, execN, execStmt]
  | ifc c a b =>
    simp only [Stmt.toN, execN, execStmt, execSeq_single]
    cases hy : (execSimple fuel (s.push .condition) c).2 <;> simp only []
    split <;> rfl
  | neg c =>
    simp only [Stmt.toN, execN, execStmt]
    cases hy : (execSimple fuel (s.push .condition) c).2 <;> rfl
  | andor c isAnd m =>
    simp only [Stmt.toN, execN, execStmt, execAndOrN]
    cases hy : (execSimple fuel (s.push .condition) c).2 <;> rfl
  | grp r m =>
    cases r with
    | error e =>
      simp only [Stmt.toN, execN, execStmt]
      cases hy : (handleRedirError s e).2 <;> rfl
    | _ => simp [Stmt.toN, execN, execStmt, execSeq_single]
  | sub c m =>
    have h := hf c m rfl
    simp only [Stmt.toN, execN, execStmt, execSeq] at h ⊢
    cases hy : (execSimple fuel (s.push .subshell) c).2 with
    | continue_ =>
      have h2 := h.2 hy
      simp only [] at h2 ⊢
      cases hz : (execSimple fuel (execSimple fuel (s.push .subshell) c).1 (probeSimple m)).2 with
      | outOfFuel => exact absurd hz h2
      | _ => rfl
    | break_ d => rfl
    | outOfFuel => exact absurd hy h.1

/-! ### the frames of the constructs are the code's -/

/-- Which construct pushes which frame is read from the sources on every run (`framePushes`: every
    `push_frame` call of yash-semantics/src/command/**): the frames the model's constructs push before their hole
    runs are exactly those — `Condition` by `AndOrList::execute`, by the negation in `Pipeline::execute` and by
    `evaluate_condition` (if/while/until), `Loop` by `execute_common`; `if.rs`, `function.rs`
    (`execute_function[_body]`), `subshell.rs`, `simple_command.rs` and the `List`/`Item` executors push nothing. -/
theorem construct_frames_are_the_codes :
    (∀ r rest, (Layer.andFirst r rest).frames = (pushesIn "and_or.rs").filterMap frameOfName) ∧
    Layer.neg.frames = (pushesIn "pipeline.rs").filterMap frameOfName ∧
    (∀ rc b e, (Layer.ifCond rc b e).frames = (pushesIn "compound_command.rs" ++ pushesIn "if.rs").filterMap frameOfName) ∧
    (∀ u rc b, (Layer.loopCond u rc b).frames =
      (pushesIn "compound_command.rs" ++ pushesIn "while_loop.rs").filterMap frameOfName) ∧
    (∀ rest, (Layer.call rest).frames = (pushesIn "function.rs" ++ pushesIn "simple_command.rs").filterMap frameOfName) ∧
    (∀ rest r, (Layer.group rest r).frames = (pushesIn "command.rs" ++ pushesIn "item.rs").filterMap frameOfName) ∧
    pushesIn "subshell.rs" = [] ∧ pushesIn "builtin.rs" = ["Builtin"] ∧ pushesIn "for_loop.rs" = ["Loop"] ∧
    framePushes.length = 6 := by
  have h1 : (pushesIn "and_or.rs").filterMap frameOfName = [.condition] := by decide
  have h2 : (pushesIn "pipeline.rs").filterMap frameOfName = [.condition] := by decide
  have h3 : (pushesIn "compound_command.rs" ++ pushesIn "if.rs").filterMap frameOfName = [.condition] := by decide
  have h4 : (pushesIn "compound_command.rs" ++ pushesIn "while_loop.rs").filterMap frameOfName = [.condition, .loop] := by
    decide
  have h5 : (pushesIn "function.rs" ++ pushesIn "simple_command.rs").filterMap frameOfName = [] := by decide
  have h6 : (pushesIn "command.rs" ++ pushesIn "item.rs").filterMap frameOfName = [] := by decide
  refine ⟨fun _ _ => h1.symm, h2.symm, fun _ _ _ => h3.symm, fun _ _ _ => h4.symm, fun _ => h5.symm,
    fun _ _ => h6.symm, by decide, by decide, by decide, by decide⟩

/-! ### non-vacuity -/

/-- `if { f; probe 5; }; then probe 6; fi; probe 7` with `f() { ! shift 99; }` — a special built-in's error under a
    negation, inside a function, inside a group, inside an `if` condition: the hypotheses of
    `shell_error_stops_at_any_depth` hold, and (computed) the whole thing is `Interrupt` with `$? = 1`, no probe ran -/
example :
    let c : Simple := .mk (.ok none) (.builtin .special (.report 1)) .none (.ok none)
    let p : List Layer := [.ifCond [] [.simple (probeSimple 6)] none, .group [.simple (probeSimple 5)] .none, .call [], .neg]
    (∀ l ∈ p, l.ok) ∧ c.shellError = some (.specialBuiltin, 1) ∧ framesAll p = [.condition, .condition] ∧
    (execN 20 { errexit := true } (plugAll p (.simple c))).2 = .break_ (.interrupt none) ∧
    (execN 20 { errexit := true } (plugAll p (.simple c))).1.status = 1 ∧
    (execN 20 { errexit := true } (plugAll p (.simple c))).1.trace = [] := by
  refine ⟨?_, by decide, by decide, by decide, by decide, by decide⟩
  intro l hl
  simp only [List.mem_cons, List.mem_nil_iff, or_false] at hl
  rcases hl with rfl | rfl | rfl | rfl <;> trivial

/-- `set -e; { f; probe 5; }` with `f() { no_such_command; probe 4; }` exits with 127 from inside the function
    (`errexit_fires_at_any_depth`), while `set -e; if f; then probe 6; fi; probe 7` runs on (`probe 4`, `probe 7`): the `if` of the
    CALLER exempts the function's body (`errexit_exempt_at_any_depth`) -/
example :
    let bad : NCmd := .simple (.mk (.ok none) (.external 127) .none (.ok none))
    let f : NCmd := .call [bad, .simple (probeSimple 4)]
    (execN 20 { errexit := true } (.group [f, .simple (probeSimple 5)] .none)).2 = .break_ (.exit none) ∧
    (execN 20 { errexit := true } (.group [f, .simple (probeSimple 5)] .none)).1.trace = [] ∧
    (execSeq (execN 20) { errexit := true } [.ifc [f] [.simple (probeSimple 6)] none, .simple (probeSimple 7)]).2 = .continue_ ∧
    (execSeq (execN 20) { errexit := true } [.ifc [f] [.simple (probeSimple 6)] none, .simple (probeSimple 7)]).1.trace
      = [(7, 0), (4, 127)] := by
  decide

/-- `( ${u?}; probe 1 ); probe 2`: the expansion error ends the subshell with 2, the parent goes on
    (hypothesis of `shell_error_ends_only_the_subshell`); under errexit the parent then exits -/
example :
    let bad : NCmd := .simple (.mk .error .absent .none (.ok none))
    stopsShell (execN 9 (({} : St).push .subshell) bad).2 = true ∧
    (execSeq (execN 10) {} [.sub [bad, .simple (probeSimple 1)], .simple (probeSimple 2)]).1.trace = [(2, 2)] ∧
    (execSeq (execN 10) { errexit := true } [.sub [bad, .simple (probeSimple 1)], .simple (probeSimple 2)]).2
      = .break_ (.exit none) := by
  decide

/-- `break` inside a function called from a loop leaves the loop (a call pushes no frame), and a shell error in
    the body of a loop ends the shell after the first iteration:
    `while tick 1 3; do probe 1; f; probe 2; done` with `f() { break; }`, and the same with `f() { shift 99; }` -/
example :
    let loop (f : NCmd) : NCmd := .loop false [.ctl (.tick 1 3)] [.simple (probeSimple 1), .call [f], .simple (probeSimple 2)]
    (execN 30 {} (loop (.ctl (.brk 1)))).2 = .continue_ ∧
    (execN 30 {} (loop (.ctl (.brk 1)))).1.trace = [(1, 0)] ∧
    (execN 30 {} (loop (.simple (.mk (.ok none) (.builtin .special (.report 1)) .none (.ok none))))).2
      = .break_ (.interrupt none) ∧
    (execN 30 {} (loop (.simple (.mk (.ok none) (.builtin .special (.report 1)) .none (.ok none))))).1.trace = [(1, 0)] := by
  decide

end YashModel.Errexit
