/-
  C10, wave 3 — property theorems about structured simple commands at ANY depth of the constructs that decide
  whether errexit applies and where a shell error ends (model: Errexit/Nested.lean; lemmas: NestedLemmas.lean).
  Statements and non-vacuity examples only.
-/
import YashModel.Errexit.NestedLemmas
import YashModel.Errexit.NestedBalance
import YashModel.Errexit.NestedHole
import YashModel.Errexit.ScTheorems
namespace YashModel.Errexit
open YashModel.Exec
open YashModel.Generated.ErrexitTables

/-! ### ★ a shell error ends the shell from any depth -/

/-- A simple command whose first failing part is a syntax error, an error of a special built-in, or an
    assignment/expansion error (docs/src/termination.md), placed as the first command of ANY nesting of groups
    (with redirections), function calls, `if`/`while`/`until` conditions, negations and and-or lists — with
    anything at all after it in each of them: the whole construct does exactly what the command alone does in the
    frame stack the constructs have built (`framesAll p`), i.e. it ends in an `Interrupt`/`Exit` with `$?` = the
    error's status, every construct only pops its own frames, and nothing else of any of them runs. -/
theorem shell_error_stops_at_any_depth (p : List Layer) (hp : ∀ l ∈ p, l.ok) (fuel : Nat) (s : St) (c : Simple)
    (e : ShellError) (st : Nat) (h : c.shellError = some (e, st)) (he : e ≠ .redirection) :
    let leaf := execSimple fuel (withStack s (framesAll p ++ s.stack)) c
    let out := execN (fuel + 1 + costAll p) s (plugAll p (.simple c))
    out = (withStack leaf.1 s.stack, leaf.2) ∧
    stopsShell out.2 = true ∧ (out.1.applyResult out.2).status = st ∧ out.1.stack = s.stack := by
  intro leaf out
  have hm := shell_error_stops_the_shell fuel (withStack s (framesAll p ++ s.stack)) c e st h he
  have hk := (simple_command_meets_termination_doc fuel (withStack s (framesAll p ++ s.stack)) c e st h).2.1
  have hx : execN (fuel + 1) (withStack s (framesAll p ++ s.stack)) (.simple c) = leaf := rfl
  have := stops_through_context p hp (fuel + 1) s (.simple c) (by rw [hx]; exact hm.1) (by rw [hx]; exact hk)
  rw [hx] at this
  have hout : out = (withStack leaf.1 s.stack, leaf.2) := this
  refine ⟨hout, ?_, ?_, ?_⟩
  · rw [hout]; exact hm.1
  · rw [hout]
    rw [← hm.2]
    exact applyResult_status_congr _ _ _ rfl
  · rw [hout]; rfl

/-! ### ★ every construct pops exactly the frames it pushed, on every path -/

/-- `SimpleCommand::execute` leaves the frame stack it found — for EVERY command and state, whatever fails
    (no hypothesis; `simple_command_meets_termination_doc` had this only for commands with a classified error) -/
theorem simple_command_restores_the_stack (fuel : Nat) (s : St) (c : Simple) :
    (execSimple fuel s c).1.stack = s.stack :=
  execSimple_stack fuel c s

/-- …and so does every construct of the nested model (groups, subshells, `if`, loops, negations, and-or lists,
    function calls) on every path — normal completion, `break`/`continue`/`return`, shell errors, errexit, fuel
    exhaustion: a `Condition` or `Loop` frame can never leak out of the construct that pushed it (a leaked
    `Condition` frame would switch errexit off for the rest of the script). -/
theorem frames_are_balanced (fuel : Nat) (s : St) (c : NCmd) : (execN fuel s c).1.stack = s.stack :=
  (balN fuel).n s c

/-- Any command at all (not only a simple command) that ends in `Interrupt`/`Exit` as the first command of any
    nesting of non-subshell constructs: the whole nest does what the command did and nothing more. -/
theorem stop_passes_through_any_context (p : List Layer) (hp : ∀ l ∈ p, l.ok) (fuel : Nat) (s : St) (n : NCmd)
    (hstop : stopsShell (execN fuel (withStack s (framesAll p ++ s.stack)) n).2 = true) :
    execN (fuel + costAll p) s (plugAll p n) =
      (withStack (execN fuel (withStack s (framesAll p ++ s.stack)) n).1 s.stack,
       (execN fuel (withStack s (framesAll p ++ s.stack)) n).2) :=
  stops_through_context p hp fuel s n hstop (frames_are_balanced fuel _ n)

/-- A function call is a simple command: when its body completes (or `return`s) with a non-zero status where
    errexit applies the shell exits; `break`/`continue` (a call pushes no frame), `exit` and shell errors pass
    through it unchanged. -/
theorem function_call_errexit (fuel : Nat) (s : St) (body : List NCmd) :
    let y := execSeq (execN fuel) s body
    (y.2 = .continue_ → execN (fuel + 1) s (.call body) = (y.1, y.1.applyErrexit)) ∧
    (∀ e, y.2 = .break_ (.return_ (some e)) →
      execN (fuel + 1) s (.call body) = ({ y.1 with status := e }, ({ y.1 with status := e } : St).applyErrexit)) ∧
    (y.2 = .break_ (.return_ none) → execN (fuel + 1) s (.call body) = (y.1, y.1.applyErrexit)) ∧
    (∀ d, y.2 = .break_ d → (∀ e, d ≠ .return_ e) → execN (fuel + 1) s (.call body) = (y.1, .break_ d)) := by
  intro y
  refine ⟨fun h => ?_, fun e h => ?_, fun h => ?_, fun d h hd => ?_⟩
  · show execN (fuel + 1) s (.call body) = _
    simp only [execN]
    have : (execSeq (execN fuel) s body).2 = .continue_ := h
    rw [this]
  · simp only [execN]
    have : (execSeq (execN fuel) s body).2 = .break_ (.return_ (some e)) := h
    rw [this]
  · simp only [execN]
    have : (execSeq (execN fuel) s body).2 = .break_ (.return_ none) := h
    rw [this]
  · simp only [execN]
    have : (execSeq (execN fuel) s body).2 = .break_ d := h
    rw [this]
    cases d with
    | return_ e => exact absurd rfl (hd e)
    | _ => rfl

/-! ### ★ whether errexit applies is decided by the whole chain of enclosing constructs -/

/-- in the hole of nested constructs errexit is in force iff it is in force outside and NONE of the constructs
    is an exempt context — functions and groups do not restore it -/
theorem errexit_applicable_at_depth (p : List Layer) (s : St) :
    (withStack s (framesAll p ++ s.stack)).errexitApplicable = (s.errexitApplicable && !p.any Layer.exempt) := by
  have h1 : (framesAll p).contains .condition = p.any Layer.exempt := by
    rw [contains_condition_framesAll]
    congr 1
    funext l
    cases l <;> rfl
  simp only [St.errexitApplicable, withStack]
  rw [← h1]
  cases s.errexit <;> simp [List.contains_eq_mem, List.mem_append]
  by_cases ha : Frame.condition ∈ framesAll p <;> by_cases hb : Frame.condition ∈ s.stack <;> simp [ha, hb]

/-- A plain failing command (an external utility or a command that is not found: `$?` = `st` ≠ 0) as the first
    command of nested groups and function calls (no exempt construct) under errexit: the shell exits from any
    depth with that status and nothing after the command runs in any of the constructs. -/
theorem errexit_fires_at_any_depth (p : List Layer) (hp : ∀ l ∈ p, l.ok) (hex : p.any Layer.exempt = false)
    (fuel : Nat) (s : St) (st : Nat) (hst : st ≠ 0) (hee : s.errexitApplicable = true) :
    execN (fuel + 1 + costAll p) s (plugAll p (.simple (.mk (.ok none) (.external st) .none (.ok none)))) =
      ({ s with status := st }, .break_ (.exit none)) := by
  have happ := errexit_applicable_at_depth p s
  rw [hee, hex] at happ
  have hleaf : execSimple fuel (withStack s (framesAll p ++ s.stack)) (.mk (.ok none) (.external st) .none (.ok none)) =
      ({ withStack s (framesAll p ++ s.stack) with status := st }, .break_ (.exit none)) := by
    simp only [execSimple, execTarget]
    have : ({ withStack s (framesAll p ++ s.stack) with status := st } : St).applyErrexit = .break_ (.exit none) :=
      applyErrexit_of_applicable _ happ hst
    rw [this]
  have hx : execN (fuel + 1) (withStack s (framesAll p ++ s.stack))
      (.simple (.mk (.ok none) (.external st) .none (.ok none))) = _ := hleaf
  have := stops_through_context p hp (fuel + 1) s _ (by rw [hx]; rfl) (by rw [hx]; rfl)
  rw [hx] at this
  exact this

/-- …and as soon as ONE of the enclosing constructs is an exempt context — however many function calls and
    groups lie between it and the command — the command only sets `$?` and execution continues, although the
    option is on. -/
theorem errexit_exempt_at_any_depth (p : List Layer) (hex : p.any Layer.exempt = true) (fuel : Nat) (s : St)
    (st : Nat) :
    execSimple fuel (withStack s (framesAll p ++ s.stack)) (.mk (.ok none) (.external st) .none (.ok none)) =
      ({ withStack s (framesAll p ++ s.stack) with status := st }, .continue_) := by
  have happ := errexit_applicable_at_depth p s
  rw [hex] at happ
  simp only [Bool.not_true, Bool.and_false] at happ
  simp only [execSimple, execTarget]
  have : ({ withStack s (framesAll p ++ s.stack) with status := st } : St).applyErrexit = .continue_ :=
    applyErrexit_of_not_applicable _ happ
  rw [this]

/-- a redirection error of an ordinary command at any depth: the shell exits with 2 iff errexit is on and no
    enclosing construct (nor the caller's stack) is an exempt context; otherwise the command only sets `$? = 2` -/
theorem redirection_error_at_any_depth (p : List Layer) (hp : ∀ l ∈ p, l.ok) (fuel : Nat) (s : St) (c : Simple)
    (st : Nat) (h : c.shellError = some (.redirection, st)) :
    let leaf := execSimple fuel (withStack s (framesAll p ++ s.stack)) c
    let out := execN (fuel + 1 + costAll p) s (plugAll p (.simple c))
    ((s.errexitApplicable && !p.any Layer.exempt) = true →
      stopsShell out.2 = true ∧ (out.1.applyResult out.2).status = st ∧ out.1.stack = s.stack) ∧
    ((s.errexitApplicable && !p.any Layer.exempt) = false → leaf.2 = .continue_ ∧ leaf.1.status = st) := by
  intro leaf out
  have hr := redirection_error_consequence fuel (withStack s (framesAll p ++ s.stack)) c st h
  rw [errexit_applicable_at_depth] at hr
  refine ⟨fun ha => ?_, fun ha => hr.1 ha⟩
  have hm := hr.2 ha
  have hk := (simple_command_meets_termination_doc fuel (withStack s (framesAll p ++ s.stack)) c _ st h).2.1
  have hx : execN (fuel + 1) (withStack s (framesAll p ++ s.stack)) (.simple c) = leaf := rfl
  have := stops_through_context p hp (fuel + 1) s (.simple c) (by rw [hx]; exact hm.1) (by rw [hx]; exact hk)
  rw [hx] at this
  have hout : out = (withStack leaf.1 s.stack, leaf.2) := this
  refine ⟨?_, ?_, ?_⟩
  · rw [hout]; exact hm.1
  · rw [hout, ← hm.2]; exact applyResult_status_congr _ _ _ rfl
  · rw [hout]; rfl

/-! ### ★ a subshell is where a shell error stops -/

/-- A command (of any shape) that ends in an `Interrupt`/`Exit` as the first command of a subshell: only the
    subshell ends.  Its exit status becomes `$?` of the parent, whose stack and options are untouched, nothing
    else of the subshell runs, and the parent goes on unless errexit applies to that status. -/
theorem shell_error_ends_only_the_subshell (fuel : Nat) (s : St) (n : NCmd) (rest : List NCmd)
    (hstop : stopsShell (execN fuel (s.push .subshell) n).2 = true) :
    let x := execN fuel (s.push .subshell) n
    let s1 : St := { s with status := (x.1.applyResult x.2).status, trace := x.1.trace, pending := x.1.pending }
    execN (fuel + 1) s (.sub (n :: rest)) = (s1, s1.applyErrexit) := by
  intro x s1
  have hx : execN fuel (s.push .subshell) n = x := rfl
  obtain ⟨x1, x2⟩ := x
  rcases stops_cases hstop with ⟨e, he⟩ | ⟨e, he⟩ <;> rw [hx] at he <;> simp only at he <;> subst he <;>
    simp only [execN, execSeq, hx] <;> cases e <;> rfl

/-! ### the fixed shapes of the `sc` family are instances of the nested model -/

/-- `execStmt` (the model the `sc` family runs) is `execN` on the embedded shape, for every statement that does
    not run out of fuel inside a subshell: the fixed shapes are not a second model but instances of this one -/
theorem fixed_shapes_are_instances (fuel : Nat) (s : St) (st : Stmt)
    (hf : ∀ c m, st = .sub c m →
      (execSimple fuel (s.push .subshell) c).2 ≠ .outOfFuel ∧
      ((execSimple fuel (s.push .subshell) c).2 = .continue_ →
        (execSimple fuel (execSimple fuel (s.push .subshell) c).1 (probeSimple m)).2 ≠ .outOfFuel)) :
    execN (fuel + 2) s st.toN = execStmt fuel s st := by
  cases st with
  | plain c => simp [Stmt.toN, execN, execStmt]
  | ifc c a b =>
    simp only [Stmt.toN, execN, execStmt, execSeq_single]
    cases hy : (execSimple fuel (s.push .condition) c).2 <;> simp only []
    split <;> rfl
  | neg c =>
    simp only [Stmt.toN, execN, execStmt]
    cases hy : (execSimple fuel (s.push .condition) c).2 <;> rfl
  | andor c isAnd m =>
    simp only [Stmt.toN, execN, execStmt, execAndOrN]
    cases hy : (execSimple fuel (s.push .condition) c).2 <;> rfl
  | grp r m =>
    cases r with
    | error e =>
      simp only [Stmt.toN, execN, execStmt]
      cases hy : (handleRedirError s e).2 <;> rfl
    | _ => simp [Stmt.toN, execN, execStmt, execSeq_single]
  | sub c m =>
    have h := hf c m rfl
    simp only [Stmt.toN, execN, execStmt, execSeq] at h ⊢
    cases hy : (execSimple fuel (s.push .subshell) c).2 with
    | continue_ =>
      have h2 := h.2 hy
      simp only [] at h2 ⊢
      cases hz : (execSimple fuel (execSimple fuel (s.push .subshell) c).1 (probeSimple m)).2 with
      | outOfFuel => exact absurd hz h2
      | _ => rfl
    | break_ d => rfl
    | outOfFuel => exact absurd hy h.1

/-! ### the frames of the constructs are the code's -/

/-- Which construct pushes which frame is read from the sources on every run (`framePushes`: every
    `push_frame` call of yash-semantics/src/command/**): the frames the model's constructs push before their hole
    runs are exactly those — `Condition` by `AndOrList::execute`, by the negation in `Pipeline::execute` and by
    `evaluate_condition` (if/while/until), `Loop` by `execute_common`; `if.rs`, `function.rs`
    (`execute_function[_body]`), `subshell.rs`, `simple_command.rs` and the `List`/`Item` executors push nothing. -/
theorem construct_frames_are_the_codes :
    (∀ r rest, (Layer.andFirst r rest).frames = (pushesIn "and_or.rs").filterMap frameOfName) ∧
    Layer.neg.frames = (pushesIn "pipeline.rs").filterMap frameOfName ∧
    (∀ rc b e, (Layer.ifCond rc b e).frames = (pushesIn "compound_command.rs" ++ pushesIn "if.rs").filterMap frameOfName) ∧
    (∀ u rc b, (Layer.loopCond u rc b).frames =
      (pushesIn "compound_command.rs" ++ pushesIn "while_loop.rs").filterMap frameOfName) ∧
    (∀ rest, (Layer.call rest).frames = (pushesIn "function.rs" ++ pushesIn "simple_command.rs").filterMap frameOfName) ∧
    (∀ rest r, (Layer.group rest r).frames = (pushesIn "command.rs" ++ pushesIn "item.rs").filterMap frameOfName) ∧
    pushesIn "subshell.rs" = [] ∧ pushesIn "builtin.rs" = ["Builtin"] ∧ pushesIn "for_loop.rs" = ["Loop"] ∧
    framePushes.length = 6 := by
  have h1 : (pushesIn "and_or.rs").filterMap frameOfName = [.condition] := by decide
  have h2 : (pushesIn "pipeline.rs").filterMap frameOfName = [.condition] := by decide
  have h3 : (pushesIn "compound_command.rs" ++ pushesIn "if.rs").filterMap frameOfName = [.condition] := by decide
  have h4 : (pushesIn "compound_command.rs" ++ pushesIn "while_loop.rs").filterMap frameOfName = [.condition, .loop] := by
    decide
  have h5 : (pushesIn "function.rs" ++ pushesIn "simple_command.rs").filterMap frameOfName = [] := by decide
  have h6 : (pushesIn "command.rs" ++ pushesIn "item.rs").filterMap frameOfName = [] := by decide
  refine ⟨fun _ _ => h1.symm, h2.symm, fun _ _ _ => h3.symm, fun _ _ _ => h4.symm, fun _ => h5.symm,
    fun _ _ => h6.symm, by decide, by decide, by decide, by decide⟩

/-! ### ★ a hole at any position -/

/-- The hole at ANY position (`HoleRun`: after any commands that completed normally — in a list, in a condition,
    in the branch or body the condition selected, in the first iteration of a loop, in the first matching `case`
    item): any command that ends in `Interrupt`/`Exit` there ends the whole construct, frames popped, nothing
    else run. -/
theorem stop_at_any_position {fw g : Nat} {s s' : St} {whole n : NCmd} (h : HoleRun fw s whole g s' n)
    (hstop : stopsShell (execN g s' n).2 = true) :
    execN fw s whole = (withStack (execN g s' n).1 s.stack, (execN g s' n).2) :=
  stop_at_hole h hstop

/-- …so a shell error of a simple command (syntax / special built-in / assignment-or-expansion) at any position ends
    the shell with the error's status, and the trace is what had run before it -/
theorem shell_error_stops_at_any_position {fw g : Nat} {s s' : St} {whole : NCmd} {c : Simple}
    (h : HoleRun fw s whole (g + 1) s' (.simple c)) (e : ShellError) (st : Nat)
    (hc : c.shellError = some (e, st)) (he : e ≠ .redirection) :
    let leaf := execSimple g s' c
    let out := execN fw s whole
    out = (withStack leaf.1 s.stack, leaf.2) ∧ stopsShell out.2 = true ∧
    (out.1.applyResult out.2).status = st ∧ out.1.stack = s.stack ∧ out.1.trace = leaf.1.trace := by
  intro leaf out
  have hm := shell_error_stops_the_shell g s' c e st hc he
  have hx : execN (g + 1) s' (.simple c) = leaf := rfl
  have := stop_at_hole h (by rw [hx]; exact hm.1)
  rw [hx] at this
  have hout : out = (withStack leaf.1 s.stack, leaf.2) := this
  refine ⟨hout, ?_, ?_, ?_, ?_⟩
  · rw [hout]; exact hm.1
  · rw [hout, ← hm.2]; exact applyResult_status_congr _ _ _ rfl
  · rw [hout]; rfl
  · rw [hout]; rfl

/-! ### ★ pipelines, `for`, `case`, asynchronous lists -/

/-- A two-command pipeline `a | b`: each command runs in its own subshell, whatever it ends with (a shell error,
    `exit`, `break`, …) ends only that stage — its exit status is what counts; the pipeline's status is the last
    command's, or under `pipefail` the last non-zero one; and only then the parent's errexit check is applied. -/
theorem pipeline_two_stages (fuel : Nat) (s : St) (a b : NCmd)
    (ha : (execN (fuel + 2) (s.enterJc.push .subshell) a).2 ≠ .outOfFuel) :
    let xa := execN (fuel + 2) (s.enterJc.push .subshell) a
    let ca := xa.1.applyResult xa.2
    let sa : St := { s.enterJc with trace := ca.trace, pending := ca.pending }
    let xb := execN (fuel + 1) (sa.push .subshell) b
    let cb := xb.1.applyResult xb.2
    xb.2 ≠ .outOfFuel →
    let st := if cb.status ≠ 0 ∨ !s.enterJc.pipefail then cb.status
              else if ca.status ≠ 0 ∨ !s.enterJc.pipefail then ca.status else 0
    let out : St := s.leaveJc { s.enterJc with trace := cb.trace, pending := cb.pending, status := st }
    execN (fuel + 4) s (.pipe [a, b]) = (out, out.applyErrexit) := by
  intro xa ca sa xb cb hb st out
  have h0 : execN (fuel + 4) s (.pipe [a, b]) =
      (match (execPipeN (fuel + 3) s.enterJc [a, b] 0).2 with
       | .continue_ => (s.leaveJc (execPipeN (fuel + 3) s.enterJc [a, b] 0).1,
                        (s.leaveJc (execPipeN (fuel + 3) s.enterJc [a, b] 0).1).applyErrexit)
       | r => (s.leaveJc (execPipeN (fuel + 3) s.enterJc [a, b] 0).1, r)) := rfl
  rw [h0, execPipeN_cons (fuel + 2) s.enterJc a [b] 0 ha]
  rw [execPipeN_cons (fuel + 1) _ b [] _ hb]
  rfl

/-- Expansion errors of `for` and `case` are shell errors: a word list that does not expand, a read-only loop
    variable (with at least one value), a `case` subject that does not expand and a pattern that does not expand
    (in an item reached without falling through) end in `Handle for expansion::Error` — Interrupt/Exit with status
    2 — before any body runs; an item entered by `;&` does not even evaluate its patterns. -/
theorem for_case_expansion_errors (fuel : Nat) (s : St) (ro : Bool) (n : Nat) (body : List NCmd)
    (items : List (Bool × Bool × List NCmd × CaseCont)) (m : Bool) (k : CaseCont) (u : Bool) :
    execN (fuel + 1) s (.forLoop true ro n body) = (s, handleExpansionError s) ∧
    execN (fuel + 1) s (.forLoop false true (n + 1) body) = (s, handleExpansionError s) ∧
    execN (fuel + 1) s (.caseC true items) = (s, handleExpansionError s) ∧
    execN (fuel + 2) s (.caseC false ((m, true, body, k) :: items)) = (s, handleExpansionError s) ∧
    execCaseN (fuel + 1) s ((m, true, body, k) :: items) true u =
      execCaseN (fuel + 1) s ((true, false, body, k) :: items) true u ∧
    stopsShell (handleExpansionError s) = true ∧ (s.applyResult (handleExpansionError s)).status = ERROR := by
  refine ⟨by simp [execN], by simp [execN], by simp [execN], ?_, by simp [execCaseN], handleExpansionError_stops s⟩
  simp only [execN, execCaseN]
  rcases handleExpansionError_cases s with h | h <;> simp [h]

/-- An asynchronous list cannot end the shell: whatever its body does (shell errors, `exit`, errexit) stays in
    its subshell; the parent goes on with `$? = 0` and its own stack and options. -/
theorem async_list_cannot_end_the_shell (fuel : Nat) (s : St) (body : List NCmd)
    (h : (execSeq (execN fuel) (s.push .subshell) body).2 ≠ .outOfFuel) :
    (execN (fuel + 1) s (.async body)).2 = .continue_ ∧
    (execN (fuel + 1) s (.async body)).1 =
      { s with status := 0, trace := ((execSeq (execN fuel) (s.push .subshell) body).1.applyResult
                                        (execSeq (execN fuel) (s.push .subshell) body).2).trace,
               pending := ((execSeq (execN fuel) (s.push .subshell) body).1.applyResult
                                        (execSeq (execN fuel) (s.push .subshell) body).2).pending } := by
  simp only [execN]
  cases hr : (execSeq (execN fuel) (s.push .subshell) body).2 with
  | outOfFuel => exact absurd hr h
  | _ => simp [St.applyErrexit, SUCCESS]

/-! ### ★ the EXIT action: once, with the right `$?`; an error inside it (F23) -/

/-- Whatever the script ends with except `Abort` — normal end, errexit, a shell error at any depth, `exit` — the
    final state is that of exactly ONE run of the EXIT action, started with `$?` = the status `apply_result` left
    (the failing command's / the error's); after `Abort` the action does not run. -/
theorem exit_action_runs_once_with_the_abort_status (fuel : Nat) (s : St) (action : Option (List NLine))
    (script : List NLine) :
    let x := readEvalLoopN fuel s true script
    let s1 := x.1.applyResult x.2
    (runShellN fuel s action script).pre = s1.status ∧
    ((∀ e, x.2 ≠ .break_ (.abort e)) → x.2 ≠ .outOfFuel →
      (runShellN fuel s action script).final = (runExitTrapN fuel s1 action).1) ∧
    (∀ e, x.2 = .break_ (.abort e) → (runShellN fuel s action script).final = s1) := by
  intro x s1
  refine ⟨rfl, fun ha hf => ?_, fun e he => ?_⟩
  · have : runsExitTrap x.2 = true := by
      cases hb : runsExitTrap x.2 with
      | true => rfl
      | false =>
        obtain ⟨e, he⟩ := (exit_trap_skipped_only_after_abort x.2 hf).1 hb
        exact absurd he (ha e)
    simp only [runShellN]
    have hx : readEvalLoopN fuel s true script = x := rfl
    rw [hx, this]
    rfl
  · have hx : readEvalLoopN fuel s true script = x := rfl
    have hb : runsExitTrap (.break_ (.abort e)) = false :=
      (exit_trap_skipped_only_after_abort _ (by simp)).2 ⟨e, rfl⟩
    simp only [runShellN, hx, he, hb]
    simp only [s1, he]
    rfl

/-- F23's statement: the exit status after the EXIT action.  If the action is interrupted by an error with a
    status of its own (a line that does not parse, an expansion error: `Interrupt(Some e)`) that status is the
    shell's; if it is interrupted by a special built-in's error (`Interrupt(None)`) the status that error set
    stays; in every other case the `$?` from before the action is restored and then `exit n` / `return n` inside
    the action may replace it. -/
theorem error_inside_exit_action (fuel : Nat) (s : St) (lines : List NLine) :
    let x := readEvalLoopN fuel (s.push .trap) false lines
    (∀ e, x.2 = .break_ (.interrupt (some e)) → (runExitTrapN fuel s (some lines)).1.status = e) ∧
    (x.2 = .break_ (.interrupt none) → (runExitTrapN fuel s (some lines)).1.status = x.1.status) ∧
    (x.2 = .continue_ → (runExitTrapN fuel s (some lines)).1.status = s.status) ∧
    (∀ d, x.2 = .break_ d → (∀ e, d ≠ .interrupt e) →
      (runExitTrapN fuel s (some lines)).1.status = d.exitStatus.getD s.status) ∧
    (runExitTrapN fuel s (some lines)).1.stack = x.1.stack.tail := by
  intro x
  have hx : readEvalLoopN fuel (s.push .trap) false lines = x := rfl
  refine ⟨fun e h => ?_, fun h => ?_, fun h => ?_, fun d h hd => ?_, ?_⟩
  · simp [runExitTrapN, hx, h, St.applyResult, Divert.exitStatus]
  · simp [runExitTrapN, hx, h, St.applyResult, Divert.exitStatus, St.pop]
  · simp [runExitTrapN, hx, h, St.applyResult]
  · simp only [runExitTrapN, hx, h]
    cases d with
    | interrupt e => exact absurd rfl (hd e)
    | _ => simp only [St.applyResult, Divert.exitStatus] <;> (try cases ‹Option Nat›) <;> rfl
  · simp only [runExitTrapN, hx]
    cases hr : x.2 with
    | break_ d => cases d <;> simp [St.applyResult, Divert.exitStatus, St.pop] <;> (try split) <;> simp
    | _ => simp [St.applyResult]

/-- …in particular a line of the action that does not parse, after lines that completed: exit status 2 -/
theorem syntax_error_inside_exit_action (fuel : Nat) (s : St) (pre : List NCmd) (rest : List NLine)
    (hpre : (execSeq (execN fuel) (s.push .trap) pre).2 = .continue_) :
    (runExitTrapN fuel s (some (.cmds pre :: .syntaxError :: rest))).1.status = ERROR := by
  have h := (error_inside_exit_action fuel s (.cmds pre :: .syntaxError :: rest)).1 ERROR
  apply h
  simp only [readEvalLoopN, hpre]
  rfl

/-! ### non-vacuity -/

/-- `if { f; probe 5; }; then probe 6; fi; probe 7` with `f() { ! shift 99; }` — a special built-in's error under a
    negation, inside a function, inside a group, inside an `if` condition: the hypotheses of
    `shell_error_stops_at_any_depth` hold, and (computed) the whole thing is `Interrupt` with `$? = 1`, no probe ran -/
example :
    let c : Simple := .mk (.ok none) (.builtin .special (.report 1)) .none (.ok none)
    let p : List Layer := [.ifCond [] [.simple (probeSimple 6)] none, .group [.simple (probeSimple 5)] .none, .call [], .neg]
    (∀ l ∈ p, l.ok) ∧ c.shellError = some (.specialBuiltin, 1) ∧ framesAll p = [.condition, .condition] ∧
    (execN 20 { errexit := true } (plugAll p (.simple c))).2 = .break_ (.interrupt none) ∧
    (execN 20 { errexit := true } (plugAll p (.simple c))).1.status = 1 ∧
    (execN 20 { errexit := true } (plugAll p (.simple c))).1.trace = [] := by
  refine ⟨?_, by decide, by decide, by decide, by decide, by decide⟩
  intro l hl
  simp only [List.mem_cons, List.mem_nil_iff, or_false] at hl
  rcases hl with rfl | rfl | rfl | rfl <;> trivial

/-- `set -e; { f; probe 5; }` with `f() { no_such_command; probe 4; }` exits with 127 from inside the function
    (`errexit_fires_at_any_depth`), while `set -e; if f; then probe 6; fi; probe 7` runs on (`probe 4`, `probe 7`): the `if` of the
    CALLER exempts the function's body (`errexit_exempt_at_any_depth`) -/
example :
    let bad : NCmd := .simple (.mk (.ok none) (.external 127) .none (.ok none))
    let f : NCmd := .call [bad, .simple (probeSimple 4)]
    (execN 20 { errexit := true } (.group [f, .simple (probeSimple 5)] .none)).2 = .break_ (.exit none) ∧
    (execN 20 { errexit := true } (.group [f, .simple (probeSimple 5)] .none)).1.trace = [] ∧
    (execSeq (execN 20) { errexit := true } [.ifc [f] [.simple (probeSimple 6)] none, .simple (probeSimple 7)]).2 = .continue_ ∧
    (execSeq (execN 20) { errexit := true } [.ifc [f] [.simple (probeSimple 6)] none, .simple (probeSimple 7)]).1.trace
      = [(7, 0), (4, 127)] := by
  decide

/-- `( ${u?}; probe 1 ); probe 2`: the expansion error ends the subshell with 2, the parent goes on
    (hypothesis of `shell_error_ends_only_the_subshell`); under errexit the parent then exits -/
example :
    let bad : NCmd := .simple (.mk .error .absent .none (.ok none))
    stopsShell (execN 9 (({} : St).push .subshell) bad).2 = true ∧
    (execSeq (execN 10) {} [.sub [bad, .simple (probeSimple 1)], .simple (probeSimple 2)]).1.trace = [(2, 2)] ∧
    (execSeq (execN 10) { errexit := true } [.sub [bad, .simple (probeSimple 1)], .simple (probeSimple 2)]).2
      = .break_ (.exit none) := by
  decide

/-- `break` inside a function called from a loop leaves the loop (a call pushes no frame), and a shell error in
    the body of a loop ends the shell after the first iteration:
    `while tick 1 3; do probe 1; f; probe 2; done` with `f() { break; }`, and the same with `f() { shift 99; }` -/
example :
    let loop (f : NCmd) : NCmd := .loop false [.ctl (.tick 1 3)] [.simple (probeSimple 1), .call [f], .simple (probeSimple 2)]
    (execN 30 {} (loop (.ctl (.brk 1)))).2 = .continue_ ∧
    (execN 30 {} (loop (.ctl (.brk 1)))).1.trace = [(1, 0)] ∧
    (execN 30 {} (loop (.simple (.mk (.ok none) (.builtin .special (.report 1)) .none (.ok none))))).2
      = .break_ (.interrupt none) ∧
    (execN 30 {} (loop (.simple (.mk (.ok none) (.builtin .special (.report 1)) .none (.ok none))))).1.trace = [(1, 0)] := by
  decide

/-- `{ f; probe 5; }` with `f() { ! exit 3; }`: the hypothesis of `stop_passes_through_any_context` for a leaf that
    is not a structured simple command, and `set -e; f; probe 1` with `f() { probe 4; return 3; }`: the second
    clause of `function_call_errexit` fires (`Exit`, `$? = 3`, `probe 1` does not run) -/
example :
    let p : List Layer := [.group [.simple (probeSimple 5)] .none, .call [], .neg]
    stopsShell (execN 5 (withStack {} (framesAll p ++ [])) (.ctl (.exit (some 3)))).2 = true ∧
    (execN 20 {} (plugAll p (.ctl (.exit (some 3))))).2 = .break_ (.exit (some 3)) ∧
    (execN 20 {} (plugAll p (.ctl (.exit (some 3))))).1.trace = [] ∧
    (execSeq (execN 20) { errexit := true }
      [.call [.simple (probeSimple 4), .ctl (.ret (some 3))], .simple (probeSimple 1)]).2 = .break_ (.exit none) ∧
    (execSeq (execN 20) { errexit := true }
      [.call [.simple (probeSimple 4), .ctl (.ret (some 3))], .simple (probeSimple 1)]).1.trace = [(4, 0)] ∧
    (execSeq (execN 20) { errexit := true }
      [.call [.simple (probeSimple 4), .ctl (.ret (some 3))], .simple (probeSimple 1)]).1.status = 3 := by
  decide

/-- `{ probe 1; if probe 2; then probe 3; shift 99; probe 4; fi; probe 5; }`: a `HoleRun` to the `shift 99` in the
    then-branch after three probes have run; the whole group ends in `Interrupt`, trace 1 2 3 -/
example :
    let bad : Simple := .mk (.ok none) (.builtin .special (.report 1)) .none (.ok none)
    let p (m : Nat) : NCmd := .simple (probeSimple m)
    let whole : NCmd := .group ([p 1] ++ .ifc [p 2] ([p 3] ++ .simple bad :: [p 4]) none :: [p 5]) .none
    (∃ s', HoleRun 8 {} whole 6 s' (.simple bad)) ∧
    (execN 8 {} whole).2 = .break_ (.interrupt none) ∧ (execN 8 {} whole).1.trace = [(3, 0), (2, 0), (1, 0)] := by
  intro bad p whole
  refine ⟨?_, by decide, by decide⟩
  refine Exists.intro ?w ?h
  case h =>
    refine HoleRun.group (by intro e; exact Redirs.noConfusion) (completes_of (by decide)) ?_
    refine HoleRun.ifThen (completes_of (by decide)) (by decide) (completes_of (by decide)) ?_
    exact HoleRun.here _ _ _

/-- `set -e; ${u?} | st 0; probe 1` goes on (the error ends only its stage, the pipeline's status is 0) while with
    `set -o pipefail` the shell exits with 2; `! ${u?} | st 3` never exits; the hypotheses of `pipeline_two_stages` -/
example :
    let bad : NCmd := .simple (.mk .error .absent .none (.ok none))
    let ok : NCmd := .ctl (.st 0)
    (execN 5 (({ errexit := true } : St).enterJc.push .subshell) bad).2 ≠ .outOfFuel ∧
    (execN 9 { errexit := true } (.pipe [bad, ok])).2 = .continue_ ∧
    (execN 9 { errexit := true, pipefail := true } (.pipe [bad, ok])).2 = .break_ (.exit none) ∧
    (execN 9 { errexit := true, pipefail := true } (.pipe [bad, ok])).1.status = 2 ∧
    (execN 9 { errexit := true } (.neg (.pipe [bad, .ctl (.st 3)]))).2 = .continue_ := by
  decide

/-- `trap 'probe 99' EXIT; set -e; f` with `f() { no_such_command; }`: the action runs once with `$? = 127`;
    `trap 'probe 99 <newline> fi <newline> probe 98' EXIT; st 0`: the action stops at the line that does not parse
    and the exit status is 2 (hypothesis of `syntax_error_inside_exit_action`) -/
example :
    let bad : NCmd := .call [.simple (.mk (.ok none) (.external 127) .none (.ok none))]
    let p (m : Nat) : NCmd := .simple (probeSimple m)
    (runShellN 20 { errexit := true } (some [.cmds [p 99]]) [.cmds [bad, p 1]]).final.trace = [(99, 127)] ∧
    (runShellN 20 { errexit := true } (some [.cmds [p 99]]) [.cmds [bad, p 1]]).final.status = 127 ∧
    (execSeq (execN 20) (({} : St).push .trap) [p 99]).2 = .continue_ ∧
    (runShellN 20 {} (some [.cmds [p 99], .syntaxError, .cmds [p 98]]) [.cmds [.ctl (.st 0)]]).final.trace = [(99, 0)] ∧
    (runShellN 20 {} (some [.cmds [p 99], .syntaxError, .cmds [p 98]]) [.cmds [.ctl (.st 0)]]).final.status = 2 := by
  decide

/-! ### ★ third pass: signal traps at command boundaries, `for v do`, `exec` that fails, unreadable main input -/

/-- the command boundary is invisible when no trap action is due after the command -/
theorem polled_without_due_trap_is_identity (fuel : Nat) (s : St) (c : NCmd)
    (h : (execN fuel s c).1.trapDue = none) : execN (fuel + 1) s (.polled c) = execN fuel s c := by
  simp only [execN, pollWith]
  cases hr : (execN fuel s c).2 <;> simp [h, ← hr]

/-- The round-3 seed's statement, for the boundary of ANY command (simple or compound, at whatever depth: the
    state and its frame stack are arbitrary): when the command ends in a divert `d` (a shell error, errexit, `exit` …)
    and a trapped signal was caught meanwhile, the action runs first — under a `Trap` frame, with the pending
    flag cleared — and THEN the divert proceeds: if the action completes normally the result is `d` and `$?` is
    the command's again; if the action diverts with `m` the more severe of the two (`Divert.max`) is followed. -/
theorem trap_action_runs_then_abort_proceeds (fuel : Nat) (s : St) (c : NCmd) (d : Divert) (body : List Item)
    (hd : (execN fuel s c).2 = .break_ d) (hdue : (execN fuel s c).1.trapDue = some body) :
    let x := execN fuel s c
    let t := execList fuel ({ x.1 with pending := false }.push .trap) body
    execN (fuel + 1) s (.polled c) = finishPoll x.1.status t.1.pop (.break_ d) t.2 ∧
    (t.2 = .continue_ →
      (execN (fuel + 1) s (.polled c)).2 = .break_ d ∧ (execN (fuel + 1) s (.polled c)).1.status = x.1.status) ∧
    (∀ m, t.2 = .break_ m → (execN (fuel + 1) s (.polled c)).2 = .break_ (d.max m)) := by
  intro x t
  have h0 : execN (fuel + 1) s (.polled c) = finishPoll x.1.status t.1.pop (.break_ d) t.2 := by
    simp only [execN, pollWith, hd, hdue]
    rfl
  refine ⟨h0, fun ht => ?_, fun m hm => ?_⟩
  · rw [h0, ht]; simp [finishPoll]
  · rw [h0, hm]; cases m <;> simp [finishPoll]

/-- `for v do …` is `for v in "$@"`: the loop over the positional parameters of the current context -/
theorem for_over_positional_parameters (fuel : Nat) (s : St) (body : List NCmd) :
    execN (fuel + 2) s (.forPos body) = execN (fuel + 2) s (.forLoop false false s.params body) := by
  simp only [execN]
  by_cases h1 : s.params = 0 ∧ (!body.isEmpty) = true
  · simp [h1]
  · by_cases h2 : s.params = 0
    · simp only [h2] at h1 ⊢
      simp [execForN, St.pop, St.push]
    · simp [h2]

/-- `exec no_such_command` (exec.rs): `$? = 127`; a non-interactive shell — and any subshell — is ABORTED
    (`Divert::Abort`: not even the EXIT trap runs, `exit_trap_skipped_only_after_abort`); an interactive shell
    goes on (then subject to errexit like any failing command). -/
theorem exec_failure (fuel : Nat) (s : St) (i : Bool) (cs acs : Option Nat) :
    execSimple fuel s (.mk (.ok cs) (.builtin .special (.execFail i)) .none (.ok acs)) =
      ({ s with status := NOT_FOUND },
       if i && !s.stack.contains .subshell then ({ s with status := NOT_FOUND } : St).applyErrexit
       else .break_ (.abort none)) := by
  simp only [execSimple, execTarget, execBody]
  by_cases h : (i && !s.stack.contains .subshell) = true
  · have h' : (i && !(s.push (.builtin (BuiltinType.special == .special))).stack.contains .subshell) = true := by
      simpa [St.push] using h
    simp only [h, h', if_true]
    rfl
  · have h' : ¬ (i && !(s.push (.builtin (BuiltinType.special == .special))).stack.contains .subshell) = true := by
      simpa [St.push] using h
    simp only [h, h']
    rfl

/-- the main input cannot be read (`yash <directory>`, driven in-process): the loop returns
    `Interrupt(READ_ERROR)` — interactive or not, a read error is not recoverable — and the exit status is 128;
    the EXIT action still runs (it is not an `Abort`) -/
theorem read_error_of_main_input (fuel : Nat) (s : St) (action : Option (List Stmt)) :
    (readErrorShell fuel s action).loopResult = .break_ (.interrupt (some READ_ERROR)) ∧
    (readErrorShell fuel s action).pre = 128 ∧
    (readErrorShell fuel s none).final.status = 128 ∧
    (readErrorShell fuel s action).final = (runExitTrapSc fuel { s with status := READ_ERROR } action).1 := by
  refine ⟨rfl, rfl, ?_, ?_⟩
  · simp [readErrorShell, handleParserError, runExitTrapSc, St.applyResult, Divert.exitStatus, READ_ERROR]
  · have : runsExitTrap (handleParserError false false) = true := by decide
    simp only [readErrorShell, this, if_true]
    rfl

/-- `trap 'probe 97; exit 5' USR1; f` with `f() { st 0 $(kill -s USR1 $$) ${u?}; probe 1; }`: the action runs at the
    boundary of the failing command inside the function, then of the error's `Interrupt(2)` and the action's
    `Exit(5)` the more severe one ends the shell (hypotheses of `trap_action_runs_then_abort_proceeds`) -/
example :
    let s : St := { sigTrap := some [.mk (.mk false [.probe 97]) [], .mk (.mk false [.exit (some 5)]) []] }
    let c : NCmd := .ctl .raiseErr
    (execN 9 s c).2 = .break_ (.interrupt (some 2)) ∧ (execN 9 s c).1.trapDue.isSome = true ∧
    (execN 12 s (.polled (.call [.polled c, .simple (probeSimple 1)]))).2 = .break_ (.exit (some 5)) ∧
    (execN 12 s (.polled (.call [.polled c, .simple (probeSimple 1)]))).1.trace = [(97, 0)] := by
  refine ⟨by decide, by decide, by decide, by decide⟩

/-! ### ★ lines without a command (after 4afb140) -/

/-- A read-eval loop over lines NONE of which holds a command (blank lines, comments — a `.` script, an `eval`
    text, a trap action or a main script made only of those) never ends the shell and leaves `$? = 0`, whatever
    `$?` was: POSIX `.`/`eval` "zero if no command is executed" (docs/src/builtins/source.md) — so errexit cannot
    fire on such a `.` after an exempt failure. -/
theorem blank_script_leaves_zero (fuel : Nat) : ∀ (lines : List NLine) (s : St),
    (∀ l ∈ lines, l = .cmds []) → readEvalLoopN fuel s false lines = ({ s with status := 0 }, .continue_)
  | [], s, _ => by simp [readEvalLoopN, SUCCESS]
  | l :: rest, s, h => by
    have hl : l = .cmds [] := h l (by simp)
    subst hl
    simp only [readEvalLoopN, execSeq]
    exact blank_script_leaves_zero fuel rest s (fun l hl => h l (by simp [hl]))

/-- …and the same for the loop of the `sc` family (both the interactive and the non-interactive one) -/
theorem blank_script_leaves_zero_sc (i : Bool) (fuel : Nat) : ∀ (lines : List ScLine) (s : St),
    (∀ l ∈ lines, l = .cmds []) → readEvalLoop i fuel s false lines = ({ s with status := 0 }, .continue_)
  | [], s, _ => by simp [readEvalLoop, SUCCESS]
  | l :: rest, s, h => by
    have hl : l = .cmds [] := h l (by simp)
    subst hl
    have ih := blank_script_leaves_zero_sc i fuel rest s (fun l hl => h l (by simp [hl]))
    cases i <;> simpa [readEvalLoop, execStmts] using ih

/-- Blank/comment lines AFTER a line that executed a command keep that command's status: once `executed` is set
    trailing lines without commands change nothing, and a line with at least one command that completes sets it. -/
theorem trailing_blank_lines_keep_status (fuel : Nat) (s : St) (c : NCmd) (l : List NCmd) :
    (∀ (blanks : List NLine) (t : St), (∀ b ∈ blanks, b = .cmds []) →
      readEvalLoopN fuel t true blanks = (t, .continue_)) ∧
    (∀ (ex : Bool) (blanks : List NLine), (∀ b ∈ blanks, b = .cmds []) →
      (execSeq (execN fuel) s (c :: l)).2 = .continue_ →
      readEvalLoopN fuel s ex (.cmds (c :: l) :: blanks) = ((execSeq (execN fuel) s (c :: l)).1, .continue_)) := by
  have h1 : ∀ (blanks : List NLine) (t : St), (∀ b ∈ blanks, b = .cmds []) →
      readEvalLoopN fuel t true blanks = (t, .continue_) := by
    intro blanks
    induction blanks with
    | nil => intro t _; simp [readEvalLoopN]
    | cons b rest ih =>
      intro t h
      have hb : b = .cmds [] := h b (by simp)
      subst hb
      simp only [readEvalLoopN, execSeq]
      exact ih t (fun b hb => h b (by simp [hb]))
  refine ⟨h1, fun ex blanks hb hc => ?_⟩
  have : readEvalLoopN fuel s ex (.cmds (c :: l) :: blanks) =
      readEvalLoopN fuel (execSeq (execN fuel) s (c :: l)).1 true blanks := by
    simp only [readEvalLoopN, hc]
    simp
  rw [this, h1 blanks _ hb]

/-- `! st 0; . comments_only; probe 1` under errexit (the input of the finding): the `.` built-in — body
    `evalEmpty` = a loop over lines without commands — sets `$? = 0` and the script goes on -/
example :
    readEvalLoopN 9 { status := 1 } false [.cmds [], .cmds [], .cmds []] = (({ status := 0 } : St), .continue_) ∧
    (execSeq (execN 9) { errexit := true }
      [.neg (.ctl (.st 0)), .simple (.mk (.ok none) (.builtin .special .evalEmpty) .none (.ok none)),
       .simple (probeSimple 1)]).1.trace = [(1, 0)] := by
  refine ⟨blank_script_leaves_zero 9 _ _ (by simp), by decide⟩

end YashModel.Errexit
