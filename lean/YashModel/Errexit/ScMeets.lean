/-
  C10, extension round — the proof that the transcribed simple command keeps the promises of
  docs/src/termination.md (mutual structural induction over `Body` / `Simple`).  Lemma file.
-/
import YashModel.Errexit.ScLemmas
namespace YashModel.Errexit
open YashModel.Exec
open YashModel.Generated.ErrexitTables

theorem applyResult_status (s : St) (r : Res) :
    (s.applyResult r).status =
      (match r with
       | .break_ d => (match d.exitStatus with | some e => e | none => s.status)
       | _ => s.status) := by
  cases r with
  | break_ d => simp only [St.applyResult]; cases d.exitStatus <;> rfl
  | _ => rfl

theorem applyResult_status_congr (a b : St) (r : Res) (h : a.status = b.status) :
    (a.applyResult r).status = (b.applyResult r).status := by
  rw [applyResult_status, applyResult_status, h]

theorem consequence_continues {ee : Bool} {e : ShellError} (h : consequence false ee e = .continues) :
    ee = false := by
  cases e <;> cases ee <;> simp [consequence] at h ⊢

theorem handleExpansionError_cases (s : St) :
    handleExpansionError s = .break_ (.exit (some ERROR)) ∨ handleExpansionError s = .break_ (.interrupt (some ERROR)) := by
  unfold handleExpansionError; split <;> simp

/-- `execSimple` passes a result that stops the shell through unchanged -/
theorem finish_of_stops (x : St × Res) (h : stopsShell x.2 = true) :
    (match x.2 with
     | .continue_ => (x.1, x.1.applyErrexit)
     | r => (x.1, r)) = x := by
  obtain ⟨a, r⟩ := x
  cases r with
  | continue_ => simp [stopsShell] at h
  | _ => rfl

/-- moving a `BodyOk` from the state with the frames of the built-in pushed back to the caller's state -/
theorem bodyOk_transfer {s' s : St} {e : ShellError} {st : Nat} {x y : St × Nat × Res}
    (h : BodyOk s' e st x) (hee : s'.errexitApplicable = s.errexitApplicable) (he : s'.errexit = s.errexit)
    (h2 : y.2 = x.2) (hstack : y.1.stack = s.stack) (herr : y.1.errexit = x.1.errexit) :
    BodyOk s e st y := by
  obtain ⟨hm, _, hx⟩ := h
  refine ⟨?_, hstack, by rw [herr, hx, he]⟩
  rw [← hee]
  cases hc : consequence false s'.errexitApplicable e <;> simp only [hc] at hm ⊢
  · rw [h2]
    refine ⟨hm.1, ?_⟩
    rw [← hm.2]
    exact applyResult_status_congr _ _ _ rfl
  · rw [h2]; exact hm

/-- closes a goal `SimpleOk s .assignOrExpansion ERROR (execSimple …)` whose run ends in the expansion-error handler -/
macro "exp_case" s:term : tactic =>
  `(tactic| (rcases handleExpansionError_cases $s with hb | hb <;>
      simp only [execSimple, execTarget, handleRedirError, hb, if_true] <;>
      (rw [← hb]; exact simpleOk_expansion $s)))

mutual
  theorem body_meets (fuel : Nat) : ∀ (b : Body) (s : St) (sp : Bool) (tl : List Frame) (e : ShellError) (st : Nat),
      s.stack = .builtin sp :: tl → b.shellError sp = some (e, st) → BodyOk s e st (execBody fuel s b)
    | .result _ _, _, _, _, _, _, _, h => by simp [Body.shellError] at h
    | .probe _, _, _, _, _, _, _, h => by simp [Body.shellError] at h
    | .dotIoErr, _, _, _, _, _, _, h => by simp [Body.shellError] at h
    | .report n, s, sp, tl, e, st, hs, h => by
      simp only [Body.shellError] at h
      split at h
      · rename_i hc
        obtain ⟨h1, _⟩ := hc
        simp only [Option.some.injEq, Prod.mk.injEq] at h
        obtain ⟨he, hst⟩ := h
        subst he hst h1
        simp only [execBody]
        refine ⟨?_, rfl, rfl⟩
        rw [consequence_special, hs, reportDivert_special]
        simp [stopsShell, St.applyResult, Divert.exitStatus]
      · cases h
    | .dotMissing, s, sp, tl, e, st, hs, h => by
      simp only [Body.shellError] at h
      split at h
      · rename_i h1
        simp only [Option.some.injEq, Prod.mk.injEq] at h
        obtain ⟨he, hst⟩ := h
        subst he hst h1
        simp only [execBody]
        refine ⟨?_, rfl, rfl⟩
        rw [consequence_special]
        have : (s.push .dotScript).stack = .dotScript :: .builtin true :: tl := by simp [St.push, hs]
        rw [this, reportDivert_dot_special]
        simp [stopsShell, St.applyResult, Divert.exitStatus]
      · cases h
    | .evalSyn, s, _, _, e, st, _, h => by
      simp only [Body.shellError, Option.some.injEq, Prod.mk.injEq] at h
      obtain ⟨he, hst⟩ := h
      subst he hst
      simp only [execBody]
      refine ⟨?_, rfl, rfl⟩
      rw [consequence_syntax]
      simp [handleParserError, stopsShell, St.applyResult, Divert.exitStatus]
    | .dotSyn, s, _, _, e, st, _, h => by
      simp only [Body.shellError, Option.some.injEq, Prod.mk.injEq] at h
      obtain ⟨he, hst⟩ := h
      subst he hst
      simp only [execBody]
      refine ⟨?_, rfl, rfl⟩
      rw [consequence_syntax]
      simp [handleParserError, stopsShell, St.applyResult, Divert.exitStatus]
    | .command inner, s, _, _, e, st, _, h => by
      simp only [Body.shellError] at h
      have ih := body_meets fuel inner (s.push (.builtin false)) false s.stack e st rfl h
      simp only [execBody]
      refine bodyOk_transfer (x := execBody fuel (s.push (.builtin false)) inner) ih
        (errexitApplicable_push_builtin s false) rfl rfl ?_ rfl
      show (execBody fuel (s.push (.builtin false)) inner).1.pop.stack = s.stack
      have hst : (execBody fuel (s.push (.builtin false)) inner).1.stack = (s.push (.builtin false)).stack := ih.2.1
      simp only [St.pop]; rw [hst]; rfl
    | .eval inner, s, _, _, e, st, _, h => by
      simp only [Body.shellError] at h
      have ih := simple_meets fuel inner s e st h
      simp only [execBody]
      obtain ⟨hm, hstack, herr⟩ := ih
      refine ⟨?_, hstack, herr⟩
      unfold MeetsDoc at hm
      cases hc : consequence false s.errexitApplicable e <;> simp only [hc] at hm ⊢
      · exact ⟨hm.1, hm.2⟩
      · exact hm
    | .dot inner, s, _, _, e, st, _, h => by
      simp only [Body.shellError] at h
      have ih := simple_meets fuel inner (s.push .dotScript) e st h
      simp only [execBody]
      obtain ⟨hm, hstack, herr⟩ := ih
      rw [errexitApplicable_push_dot] at hm
      generalize execSimple fuel (s.push .dotScript) inner = out at hm hstack herr
      obtain ⟨o1, r⟩ := out
      simp only at hm hstack herr
      have hpop : o1.pop.stack = s.stack := by simp only [St.pop]; rw [hstack]; rfl
      have hpe : o1.pop.errexit = s.errexit := herr
      unfold MeetsDoc at hm
      dsimp only
      cases hc : consequence false s.errexitApplicable e <;> simp only [hc] at hm
      · -- exits: the result stops the shell, so it is not a `Return`
        obtain ⟨h1, h2⟩ := hm
        split
        · simp [stopsShell] at h1
        refine ⟨?_, hpop, hpe⟩
        simp only [hc]
        refine ⟨h1, ?_⟩
        rw [← h2]
        exact applyResult_status_congr _ _ _ rfl
      · obtain ⟨h1, h2⟩ := hm
        subst h1
        refine ⟨?_, hpop, hpe⟩
        simp only [hc]
        exact ⟨trivial, h2⟩

  theorem simple_meets (fuel : Nat) : ∀ (c : Simple) (s : St) (e : ShellError) (st : Nat),
      c.shellError = some (e, st) → SimpleOk s e st (execSimple fuel s c)
    | .mk .error _ _ _, s, e, st, h => by
      simp only [Simple.shellError, Option.some.injEq, Prod.mk.injEq] at h
      obtain ⟨he, hst⟩ := h
      subst he hst
      simp only [execSimple]
      exact simpleOk_expansion s
    | .mk (.ok cs) .absent redirs assigns, s, e, st, h => by
      cases assigns with
      | ok acs => simp [Simple.shellError] at h
      | error =>
        simp only [Simple.shellError, Option.some.injEq, Prod.mk.injEq] at h
        obtain ⟨he, hst⟩ := h
        subst he hst
        exp_case s
    | .mk (.ok cs) (.function body) redirs assigns, s, e, st, h => by
      cases redirs with
      | error x =>
        cases x with
        | true =>
          simp only [Simple.shellError, Option.some.injEq, Prod.mk.injEq] at h
          obtain ⟨he, hst⟩ := h
          subst he hst
          exp_case s
        | false =>
          simp only [Simple.shellError, Option.some.injEq, Prod.mk.injEq] at h
          obtain ⟨he, hst⟩ := h
          subst he hst
          simp only [execSimple, execTarget, handleRedirError, Bool.false_eq_true, if_false]
          exact simpleOk_redirection s
      | none =>
        cases assigns with
        | ok acs => simp [Simple.shellError] at h
        | error =>
          simp only [Simple.shellError, Option.some.injEq, Prod.mk.injEq] at h
          obtain ⟨he, hst⟩ := h
          subst he hst
          exp_case s
      | ok rcs =>
        cases assigns with
        | ok acs => simp [Simple.shellError] at h
        | error =>
          simp only [Simple.shellError, Option.some.injEq, Prod.mk.injEq] at h
          obtain ⟨he, hst⟩ := h
          subst he hst
          exp_case s
    | .mk (.ok cs) (.external n) redirs assigns, s, e, st, h => by
      cases redirs with
      | error x =>
        cases x with
        | true =>
          simp only [Simple.shellError, Option.some.injEq, Prod.mk.injEq] at h
          obtain ⟨he, hst⟩ := h
          subst he hst
          exp_case s
        | false =>
          simp only [Simple.shellError, Option.some.injEq, Prod.mk.injEq] at h
          obtain ⟨he, hst⟩ := h
          subst he hst
          simp only [execSimple, execTarget, handleRedirError, Bool.false_eq_true, if_false]
          exact simpleOk_redirection s
      | none =>
        cases assigns with
        | ok acs => simp [Simple.shellError] at h
        | error =>
          simp only [Simple.shellError, Option.some.injEq, Prod.mk.injEq] at h
          obtain ⟨he, hst⟩ := h
          subst he hst
          exp_case s
      | ok rcs =>
        cases assigns with
        | ok acs => simp [Simple.shellError] at h
        | error =>
          simp only [Simple.shellError, Option.some.injEq, Prod.mk.injEq] at h
          obtain ⟨he, hst⟩ := h
          subst he hst
          exp_case s
    | .mk (.ok cs) (.builtin ty body) redirs assigns, s, e, st, h => by
      -- the body of the built-in is reached only when redirections and assignments succeeded
      have reach : ∀ (acs : Option Nat), body.shellError (decide (ty = .special)) = some (e, st) →
          SimpleOk s e st
            (match (({ (execBody fuel (s.push (.builtin (ty == .special))) body).1.pop with
                      status := (execBody fuel (s.push (.builtin (ty == .special))) body).2.1 } : St),
                    (execBody fuel (s.push (.builtin (ty == .special))) body).2.2).2 with
             | .continue_ =>
               (({ (execBody fuel (s.push (.builtin (ty == .special))) body).1.pop with
                    status := (execBody fuel (s.push (.builtin (ty == .special))) body).2.1 } : St),
                ({ (execBody fuel (s.push (.builtin (ty == .special))) body).1.pop with
                    status := (execBody fuel (s.push (.builtin (ty == .special))) body).2.1 } : St).applyErrexit)
             | r =>
               (({ (execBody fuel (s.push (.builtin (ty == .special))) body).1.pop with
                    status := (execBody fuel (s.push (.builtin (ty == .special))) body).2.1 } : St), r)) := by
        intro _ hb
        have ih := body_meets fuel body (s.push (.builtin (ty == .special))) (decide (ty = .special)) s.stack e st rfl hb
        generalize execBody fuel (s.push (.builtin (ty == .special))) body = x at ih ⊢
        obtain ⟨x1, n, r⟩ := x
        obtain ⟨hm, hstack, herr⟩ := ih
        simp only at hm hstack herr ⊢
        rw [errexitApplicable_push_builtin] at hm
        have hpop : x1.pop.stack = s.stack := by simp only [St.pop]; rw [hstack]; rfl
        have hpe : x1.pop.errexit = s.errexit := herr
        cases hc : consequence false s.errexitApplicable e <;> simp only [hc] at hm
        · obtain ⟨h1, h2⟩ := hm
          have := finish_of_stops (({ x1.pop with status := n } : St), r) h1
          simp only at this
          rw [this]
          refine ⟨?_, hpop, hpe⟩
          unfold MeetsDoc
          simp only [hc]
          refine ⟨h1, ?_⟩
          rw [← h2]
          exact applyResult_status_congr _ _ _ rfl
        · obtain ⟨h1, h2⟩ := hm
          subst h1 h2
          have hee : ({ x1.pop with status := n } : St).errexitApplicable = false := by
            have := errexitApplicable_congr (a := ({ x1.pop with status := n } : St)) (b := s) hpop hpe
            rw [this]
            exact consequence_continues hc
          simp only [applyErrexit_of_not_applicable _ hee]
          refine ⟨?_, hpop, hpe⟩
          unfold MeetsDoc
          simp only [hc]
          exact ⟨trivial, trivial⟩
      cases redirs with
      | error x =>
        cases x with
        | true =>
          simp only [Simple.shellError, Option.some.injEq, Prod.mk.injEq] at h
          obtain ⟨he, hst⟩ := h
          subst he hst
          exp_case s
        | false =>
          simp only [Simple.shellError, Option.some.injEq, Prod.mk.injEq] at h
          obtain ⟨he, hst⟩ := h
          subst hst
          simp only [execSimple, execTarget, handleRedirError, Bool.false_eq_true, if_false]
          by_cases hty : ty = .special
          · subst hty
            simp only [if_true] at he
            subst he
            have : BuiltinType.special.redirInterrupts = true := by decide
            simp only [this, if_true]
            refine ⟨?_, rfl, rfl⟩
            unfold MeetsDoc
            rw [consequence_special]
            simp [stopsShell, St.applyResult, Divert.exitStatus]
          · simp only [hty, if_false] at he
            subst he
            have : ty.redirInterrupts = false := by
              cases hr : ty.redirInterrupts
              · rfl
              · exact absurd ((redirInterrupts_iff ty).1 hr) hty
            simp only [this, Bool.false_eq_true, if_false]
            exact simpleOk_redirection s
      | none =>
        cases assigns with
        | ok acs =>
          simp only [Simple.shellError] at h
          simp only [execSimple, execTarget]
          exact reach acs h
        | error =>
          simp only [Simple.shellError, Option.some.injEq, Prod.mk.injEq] at h
          obtain ⟨he, hst⟩ := h
          subst he hst
          exp_case s
      | ok rcs =>
        cases assigns with
        | ok acs =>
          simp only [Simple.shellError] at h
          simp only [execSimple, execTarget]
          exact reach acs h
        | error =>
          simp only [Simple.shellError, Option.some.injEq, Prod.mk.injEq] at h
          obtain ⟨he, hst⟩ := h
          subst he hst
          exp_case s
end

end YashModel.Errexit
