/-
  C10, extension round — helper lemmas for Errexit/ScTheorems.lean (the fine-grained simple-command model).
-/
import YashModel.Errexit.Spec
namespace YashModel.Errexit
open YashModel.Exec
open YashModel.Generated.ErrexitTables

theorem errexitApplicable_congr {a b : St} (h1 : a.stack = b.stack) (h2 : a.errexit = b.errexit) :
    a.errexitApplicable = b.errexitApplicable := by
  simp [St.errexitApplicable, h1, h2]

theorem errexitApplicable_push_builtin (s : St) (b : Bool) :
    (s.push (.builtin b)).errexitApplicable = s.errexitApplicable := by
  simp [St.errexitApplicable, St.push]

theorem errexitApplicable_push_dot (s : St) :
    (s.push .dotScript).errexitApplicable = s.errexitApplicable := by
  simp [St.errexitApplicable, St.push]

theorem applyErrexit_of_not_applicable (s : St) (h : s.errexitApplicable = false) : s.applyErrexit = .continue_ := by
  simp [St.applyErrexit, h]

theorem applyErrexit_of_applicable (s : St) (h : s.errexitApplicable = true) (hs : s.status ≠ 0) :
    s.applyErrexit = .break_ (.exit none) := by
  simp [St.applyErrexit, h, hs]

theorem handleExpansionError_stops (s : St) :
    stopsShell (handleExpansionError s) = true ∧ (s.applyResult (handleExpansionError s)).status = ERROR := by
  unfold handleExpansionError
  split <;> simp [stopsShell, St.applyResult, Divert.exitStatus]

theorem redirInterrupts_iff (ty : BuiltinType) : ty.redirInterrupts = true ↔ ty = .special := by
  cases ty <;> decide

/-- what `simple_meets_doc` needs of a run of a command classified as error `e` with status `st`:
    the documentation's promise, and the frame stack and the option are what they were -/
def SimpleOk (s : St) (e : ShellError) (st : Nat) (out : St × Res) : Prop :=
  MeetsDoc s.errexitApplicable e st out ∧ out.1.stack = s.stack ∧ out.1.errexit = s.errexit

/-- the same for the body of a built-in (state, `result.exit_status()`, `result.divert()`) -/
def BodyOk (s : St) (e : ShellError) (st : Nat) (x : St × Nat × Res) : Prop :=
  (match consequence false s.errexitApplicable e with
   | .exits => stopsShell x.2.2 = true ∧ (({ x.1 with status := x.2.1 } : St).applyResult x.2.2).status = st
   | .continues => x.2.2 = .continue_ ∧ x.2.1 = st
   | .abortsCommand => False) ∧ x.1.stack = s.stack ∧ x.1.errexit = s.errexit

theorem consequence_special (ee : Bool) : consequence false ee .specialBuiltin = .exits := by
  cases ee <;> rfl
theorem consequence_syntax (ee : Bool) : consequence false ee .syntax = .exits := by
  cases ee <;> rfl
theorem consequence_expansion (ee : Bool) : consequence false ee .assignOrExpansion = .exits := by
  cases ee <;> rfl
theorem consequence_redirection (ee : Bool) :
    consequence false ee .redirection = if ee then .exits else .continues := by
  cases ee <;> rfl

theorem currentBuiltin_cons_builtin (b : Bool) (tl : List Frame) : currentBuiltin (.builtin b :: tl) = some b := rfl

theorem reportDivert_special (tl : List Frame) : reportDivert (.builtin true :: tl) = .break_ (.interrupt none) := by
  simp [reportDivert, currentBuiltin]

theorem reportDivert_dot_special (tl : List Frame) :
    reportDivert (.dotScript :: .builtin true :: tl) = .break_ (.interrupt none) := by
  simp [reportDivert, currentBuiltin]

theorem reportDivert_regular (tl : List Frame) : reportDivert (.builtin false :: tl) = .continue_ := by
  simp [reportDivert, currentBuiltin]

/-- an expansion error (of the words, of an assignment, of a redirection operand) -/
theorem simpleOk_expansion (s : St) : SimpleOk s .assignOrExpansion ERROR (s, handleExpansionError s) := by
  refine ⟨?_, rfl, rfl⟩
  unfold MeetsDoc
  rw [consequence_expansion]
  exact handleExpansionError_stops s

/-- a redirection error of a command that is not a special built-in, seen from `execSimple`:
    status `ERROR`, then the errexit check -/
theorem simpleOk_redirection (s : St) :
    SimpleOk s .redirection ERROR ({ s with status := ERROR }, ({ s with status := ERROR } : St).applyErrexit) := by
  refine ⟨?_, rfl, rfl⟩
  unfold MeetsDoc
  rw [consequence_redirection]
  cases h : s.errexitApplicable
  · have h' : ({ s with status := ERROR } : St).errexitApplicable = false := h
    simp [applyErrexit_of_not_applicable _ h']
  · have h' : ({ s with status := ERROR } : St).errexitApplicable = true := h
    have : ({ s with status := ERROR } : St).applyErrexit = .break_ (.exit none) :=
      applyErrexit_of_applicable _ h' (by simp [ERROR])
    simp [this, stopsShell, St.applyResult, Divert.exitStatus]

end YashModel.Errexit
