/-
  C10, wave 3 — lemmas about the nested-context model (Errexit/Nested.lean): a result that stops the shell passes
  through every enclosing construct unchanged.  Lemma file; the property theorems are in NestedTheorems.lean.
-/
import YashModel.Errexit.Nested
import YashModel.Errexit.ScMeets
namespace YashModel.Errexit
open YashModel.Exec
open YashModel.Generated.ErrexitTables

/-- one construct around a hole; the hole is the FIRST command the construct executes -/
inductive Layer where
  | group (rest : List NCmd) (redirs : Redirs)           -- `{ □; rest; } redirs` (the redirections succeed)
  | call (rest : List NCmd)                              -- `f` where `f() { □; rest; }`
  | ifCond (restCond body : List NCmd) (els : Option (List NCmd))   -- `if □; restCond; then body; [else els;] fi`
  | loopCond (until_ : Bool) (restCond body : List NCmd) -- `while □; restCond; do body; done`
  | neg                                                  -- `! □`
  | single                                               -- an and-or list of one pipeline
  | andFirst (r : Bool × NCmd) (rest : List (Bool × NCmd))   -- `□ && …` / `□ || …`

def Layer.plug : Layer → NCmd → NCmd
  | .group rest redirs, n => .group (n :: rest) redirs
  | .call rest, n => .call (n :: rest)
  | .ifCond rc b e, n => .ifc (n :: rc) b e
  | .loopCond u rc b, n => .loop u (n :: rc) b
  | .neg, n => .neg n
  | .single, n => .andor n []
  | .andFirst r rest, n => .andor n (r :: rest)

/-- the frames the construct has pushed when the hole runs (innermost first) -/
def Layer.frames : Layer → List Frame
  | .group _ _ | .call _ | .single => []
  | .ifCond _ _ _ | .neg | .andFirst _ _ => [.condition]
  | .loopCond _ _ _ => [.condition, .loop]

/-- fuel the construct consumes before the hole runs -/
def Layer.cost : Layer → Nat
  | .loopCond _ _ _ => 2
  | _ => 1

/-- the redirections of a group layer are performed without error -/
def Layer.ok : Layer → Prop
  | .group _ (.error _) => False
  | _ => True

/-- layers from the outside in -/
def plugAll : List Layer → NCmd → NCmd
  | [], n => n
  | l :: ls, n => l.plug (plugAll ls n)

/-- the frames above the caller's when the innermost hole runs (innermost first) -/
def framesAll : List Layer → List Frame
  | [] => []
  | l :: ls => framesAll ls ++ l.frames

def costAll : List Layer → Nat
  | [] => 0
  | l :: ls => l.cost + costAll ls

def withStack (s : St) (st : List Frame) : St := { s with stack := st }

theorem stops_cases {r : Res} (h : stopsShell r = true) : (∃ e, r = .break_ (.interrupt e)) ∨ (∃ e, r = .break_ (.exit e)) := by
  cases r with
  | break_ d => cases d <;> simp [stopsShell] at h ⊢
  | _ => simp [stopsShell] at h

theorem loopStep_of_stops {r : Res} (h : stopsShell r = true) : loopStep r = .out r := by
  rcases stops_cases h with ⟨e, rfl⟩ | ⟨e, rfl⟩ <;> rfl

/-- a result that stops the shell passes through one construct unchanged: the construct does nothing but
    pop the frames it pushed -/
theorem stops_through_layer (l : Layer) (hl : l.ok) (fuel : Nat) (s : St) (n : NCmd)
    (hstop : stopsShell (execN fuel (withStack s (l.frames ++ s.stack)) n).2 = true)
    (hstack : (execN fuel (withStack s (l.frames ++ s.stack)) n).1.stack = l.frames ++ s.stack) :
    execN (fuel + l.cost) s (l.plug n) =
      (withStack (execN fuel (withStack s (l.frames ++ s.stack)) n).1 s.stack,
       (execN fuel (withStack s (l.frames ++ s.stack)) n).2) := by
  generalize hx : execN fuel (withStack s (l.frames ++ s.stack)) n = x at hstop hstack
  obtain ⟨x1, x2⟩ := x
  simp only at hstop hstack
  have hs0 : withStack s s.stack = s := rfl
  cases l with
  | group rest redirs =>
    simp only [Layer.frames, List.nil_append, hs0] at hx hstack
    have hw : withStack x1 s.stack = x1 := by simp [withStack, ← hstack]
    rw [hw]
    rcases stops_cases hstop with ⟨e, rfl⟩ | ⟨e, rfl⟩ <;>
      cases redirs <;> simp [Layer.ok] at hl <;>
      simp [Layer.plug, Layer.cost, execN, execSeq, hx]
  | call rest =>
    simp only [Layer.frames, List.nil_append, hs0] at hx hstack
    have hw : withStack x1 s.stack = x1 := by simp [withStack, ← hstack]
    rw [hw]
    rcases stops_cases hstop with ⟨e, rfl⟩ | ⟨e, rfl⟩ <;>
      simp [Layer.plug, Layer.cost, execN, execSeq, hx]
  | single =>
    simp only [Layer.frames, List.nil_append, hs0] at hx hstack
    have hw : withStack x1 s.stack = x1 := by simp [withStack, ← hstack]
    rw [hw]
    simp [Layer.plug, Layer.cost, execN, hx]
  | ifCond rc b e =>
    simp only [Layer.frames, List.singleton_append] at hx hstack
    have hp : s.push .condition = withStack s (.condition :: s.stack) := rfl
    have hw : x1.pop = withStack x1 s.stack := by simp [St.pop, withStack, hstack]
    rcases stops_cases hstop with ⟨e, rfl⟩ | ⟨e, rfl⟩ <;>
      simp [Layer.plug, Layer.cost, execN, execSeq, hp, hx, hw]
  | neg =>
    simp only [Layer.frames, List.singleton_append] at hx hstack
    have hp : s.push .condition = withStack s (.condition :: s.stack) := rfl
    have hw : x1.pop = withStack x1 s.stack := by simp [St.pop, withStack, hstack]
    rcases stops_cases hstop with ⟨e, rfl⟩ | ⟨e, rfl⟩ <;>
      simp [Layer.plug, Layer.cost, execN, hp, hx, hw]
  | andFirst r rest =>
    simp only [Layer.frames, List.singleton_append] at hx hstack
    have hp : s.push .condition = withStack s (.condition :: s.stack) := rfl
    have hw : x1.pop = withStack x1 s.stack := by simp [St.pop, withStack, hstack]
    rcases stops_cases hstop with ⟨e, rfl⟩ | ⟨e, rfl⟩ <;>
      simp [Layer.plug, Layer.cost, execN, hp, hx, hw]
  | loopCond u rc b =>
    simp only [Layer.frames, List.cons_append, List.nil_append] at hx hstack
    have hp : (s.push .loop).push .condition = withStack s (.condition :: .loop :: s.stack) := rfl
    have hw : x1.pop.pop = withStack x1 s.stack := by simp [St.pop, withStack, hstack]
    rcases stops_cases hstop with ⟨e, rfl⟩ | ⟨e, rfl⟩ <;>
      simp [Layer.plug, Layer.cost, execN, execLoopN, execSeq, hp, hx, hw, loopStep]


theorem withStack_withStack (s : St) (a b : List Frame) : withStack (withStack s a) b = withStack s b := rfl
theorem withStack_stack (s : St) (a : List Frame) : (withStack s a).stack = a := rfl

/-- …and through any number of nested constructs -/
theorem stops_through_context : ∀ (p : List Layer), (∀ l ∈ p, l.ok) → ∀ (fuel : Nat) (s : St) (n : NCmd),
    stopsShell (execN fuel (withStack s (framesAll p ++ s.stack)) n).2 = true →
    (execN fuel (withStack s (framesAll p ++ s.stack)) n).1.stack = framesAll p ++ s.stack →
    execN (fuel + costAll p) s (plugAll p n) =
      (withStack (execN fuel (withStack s (framesAll p ++ s.stack)) n).1 s.stack,
       (execN fuel (withStack s (framesAll p ++ s.stack)) n).2)
  | [], _, fuel, s, n, _, hstack => by
    simp only [framesAll, List.nil_append] at hstack ⊢
    have hs0 : withStack s s.stack = s := rfl
    rw [hs0] at hstack ⊢
    simp only [costAll, plugAll, Nat.add_zero]
    have : withStack (execN fuel s n).1 s.stack = (execN fuel s n).1 := by simp [withStack, ← hstack]
    rw [this]
  | l :: ls, hok, fuel, s, n, hstop, hstack => by
    have hl : l.ok := hok l (by simp)
    have hls : ∀ l' ∈ ls, l'.ok := fun l' h => hok l' (by simp [h])
    have hfr : withStack (withStack s (l.frames ++ s.stack)) (framesAll ls ++ (withStack s (l.frames ++ s.stack)).stack)
        = withStack s (framesAll (l :: ls) ++ s.stack) := by
      simp [withStack, framesAll, List.append_assoc]
    have ih := stops_through_context ls hls fuel (withStack s (l.frames ++ s.stack)) n
    rw [hfr] at ih
    have ih := ih hstop (by rw [hstack]; simp [withStack, framesAll, List.append_assoc])
    have hcost : fuel + costAll (l :: ls) = (fuel + costAll ls) + l.cost := by simp only [costAll]; omega
    rw [hcost]
    show execN (fuel + costAll ls + l.cost) s (l.plug (plugAll ls n)) = _
    have := stops_through_layer l hl (fuel + costAll ls) s (plugAll ls n) (by rw [ih]; exact hstop)
      (by rw [ih]; rfl)
    rw [this, ih]
    rfl

theorem contains_condition_framesAll (p : List Layer) :
    (framesAll p).contains .condition = p.any (fun l => l.frames.contains .condition) := by
  induction p with
  | nil => rfl
  | cons l ls ih =>
    simp only [framesAll, List.any_cons]
    rw [← ih, Bool.or_comm]
    simp [List.contains_eq_mem, List.mem_append]

/-- the construct evaluates its hole in a context where errexit is ignored (it pushes `Frame::Condition`):
    the condition of `if`/`while`/`until`, a negated pipeline, every pipeline of an and-or list but the last -/
def Layer.exempt : Layer → Bool
  | .ifCond _ _ _ | .loopCond _ _ _ | .neg | .andFirst _ _ => true
  | .group _ _ | .call _ | .single => false

/-- the seven one-level shapes of Errexit/Model.lean as nested commands -/
def Stmt.toN : Stmt → NCmd
  | .plain c => .andor (.simple c) []
  | .ifc c a b => .ifc [.simple c] [.simple (probeSimple a)] (some [.simple (probeSimple b)])
  | .neg c => .neg (.simple c)
  | .andor c isAnd m => .andor (.simple c) [(isAnd, .simple (probeSimple m))]
  | .sub c m => .sub [.simple c, .simple (probeSimple m)]
  | .grp r m => .group [.simple (probeSimple m)] r

theorem execSeq_single (f : St → NCmd → St × Res) (s : St) (n : NCmd) : execSeq f s [n] = f s n := by
  simp only [execSeq]
  generalize f s n = y
  obtain ⟨y1, y2⟩ := y
  cases y2 <;> rfl

/-- `Frame` by the name of its variant in yash-env/src/stack.rs (payloads dropped; a `Builtin` frame pushed by
    `execute_builtin` is special or not by the built-in's type) -/
def frameOfName : String → Option Frame
  | "Loop" => some .loop | "Subshell" => some .subshell | "Condition" => some .condition
  | "DotScript" => some .dotScript | "Trap" => some .trap | "InitFile" => some .initFile
  | _ => none

/-- the frames the non-test code of a file of yash-semantics/src/command pushes (generated table) -/
def pushesIn (file : String) : List String :=
  (framePushes.filter (fun r => r.1 == file)).map (fun r => r.2.2)

end YashModel.Errexit
