/- Driver for C10: the same executor model as C02 (`Exec/Driver.lean`); the harness plants errors. -/
import YashModel.Common.Proto
import YashModel.Exec.Driver
def main : IO Unit := YashModel.Proto.mainLoop YashModel.Exec.runLine
