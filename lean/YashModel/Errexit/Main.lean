/- Driver for C10: the executor model shared with C02 (`Exec/Driver.lean`) for program cases, and the
   fine-grained simple-command model (`Errexit/ScDriver.lean`) for cases that start with `sc`, the nested-context model
   (`Errexit/NcDriver.lean`) for cases that start with `nc`. -/
import YashModel.Common.Proto
import YashModel.Exec.Driver
import YashModel.Errexit.ScDriver
import YashModel.Errexit.NcDriver
def runLineC10 (line : String) : String :=
  if line.startsWith "sc " then YashModel.Errexit.runSc line
  else if line.startsWith "nc " then YashModel.Errexit.runNc line
  else if line.startsWith "rd " then YashModel.Errexit.runRd line
  else if line.startsWith "rp " then YashModel.Errexit.runRp line else YashModel.Exec.runLine line
def main : IO Unit := YashModel.Proto.mainLoop runLineC10
