/- Driver for C10: the executor model shared with C02 (`Exec/Driver.lean`) for program cases, and the
   fine-grained simple-command model (`Errexit/ScDriver.lean`) for cases that start with `sc`. -/
import YashModel.Common.Proto
import YashModel.Exec.Driver
import YashModel.Errexit.ScDriver
def runLineC10 (line : String) : String :=
  if line.startsWith "sc " then YashModel.Errexit.runSc line else YashModel.Exec.runLine line
def main : IO Unit := YashModel.Proto.mainLoop runLineC10
