/-
  C10 — property theorems (and non-vacuity examples) ONLY.  The model is `YashModel.Exec` (shared with
  C02); helper lemmas are in `Exec/Balance.lean`, `Exec/Escape.lean` and `Errexit/Lemmas.lean`.

  Property text (abridged): a non-interactive shell stops early exactly in the documented cases:
  under errexit when a simple command, multi-command pipeline or subshell fails outside the exempt
  contexts (conditions of if/while/until, every pipeline of an and-or list but the last, a negated
  pipeline — including inside functions and groups called from such contexts); and on shell errors
  (syntax errors, errors of special built-ins, assignment and expansion errors).  Without errexit,
  redirection errors of ordinary commands, failing commands and command-not-found only set `$?`;
  in every aborting case the exit status is that of the failing command or the documented error
  status, commands after the abort point never run, and the EXIT trap runs exactly once.
-/
import YashModel.Errexit.Lemmas
namespace YashModel.Exec

/-! ### ★ errexit_iff -/

/-- errexit fires exactly when the status is non-zero, the option is on and no `Condition` frame is
    anywhere on the stack -/
theorem errexit_iff (s : St) :
    s.applyErrexit = .break_ (.exit none) ↔
      (s.status ≠ 0 ∧ s.errexit = true ∧ s.stack.contains .condition = false) := by
  unfold St.applyErrexit St.errexitApplicable
  constructor
  · intro h
    split at h
    · rename_i hh; simpa using hh
    · cases h
  · rintro ⟨h1, h2, h3⟩
    rw [if_pos]
    refine ⟨h1, ?_⟩
    have : ¬ Frame.condition ∈ s.stack := by simpa using h3
    simp [h2, this]

theorem errexit_otherwise_continues (s : St) :
    s.applyErrexit = .break_ (.exit none) ∨ s.applyErrexit = .continue_ := by
  unfold St.applyErrexit; split <;> simp

/-- a simple command that completes normally is followed by exactly the errexit check -/
theorem simple_command_errexit (fuel : Nat) (s : St) (n : Nat) :
    execCmd (fuel+1) s (.st n) = ({ s with status := n }, { s with status := n }.applyErrexit) ∧
    execCmd (fuel+1) s .unknown = ({ s with status := 127 }, { s with status := 127 }.applyErrexit) := by
  simp [execCmd, finishSimple]

/-- a subshell is subject to errexit with the status its child left (after `apply_result`) -/
theorem subshell_errexit (fuel : Nat) (s : St) (body : List Item)
    (hf : (execList fuel (s.push .subshell) body).2 ≠ .outOfFuel) :
    (execCmd (fuel+1) s (.subshell body)).2 = (execCmd (fuel+1) s (.subshell body)).1.applyErrexit ∧
    (execCmd (fuel+1) s (.subshell body)).1.status =
      ((execList fuel (s.push .subshell) body).1.applyResult (execList fuel (s.push .subshell) body).2).status := by
  simp only [execCmd]
  generalize execList fuel (s.push .subshell) body = x at *
  obtain ⟨c1, r⟩ := x
  cases r <;> simp_all

/-- the members of a pipeline run on copies: the parent's option is what it was -/
theorem members_errexit : ∀ (fuel : Nat) (s : St) (cs : List Cmd) (f : Nat),
    (execPipeMembers fuel s cs f).1.errexit = s.errexit := by
  intro fuel
  induction fuel with
  | zero => intro s cs f; simp [execPipeMembers]
  | succ n ih =>
    intro s cs f
    cases cs with
    | nil => simp [execPipeMembers]
    | cons c rest =>
      simp only [execPipeMembers]
      generalize execCmd n (s.push .subshell) c = x
      obtain ⟨c1, r⟩ := x
      cases r <;> simp [ih]

/-- a multi-command pipeline is subject to errexit with the pipeline's status — and the check is the
    parent shell's own, with or without job control (under `set -m` the members run inside one more
    subshell, `enterJc`, whose status comes back before the check) -/
theorem pipeline_errexit (fuel : Nat) (s : St) (c d : Cmd) (rest : List Cmd)
    (hr : (execPipeMembers fuel s.enterJc (c :: d :: rest) 0).2 = .continue_) :
    (execCommands (fuel+1) s (c :: d :: rest)).2 = (execCommands (fuel+1) s (c :: d :: rest)).1.applyErrexit ∧
    (execCommands (fuel+1) s (c :: d :: rest)).1.status =
      (execPipeMembers fuel s.enterJc (c :: d :: rest) 0).1.status ∧
    (execCommands (fuel+1) s (c :: d :: rest)).1.errexit = s.errexit := by
  simp only [execCommands]
  have hm := members_errexit fuel s.enterJc (c :: d :: rest) 0
  generalize execPipeMembers fuel s.enterJc (c :: d :: rest) 0 = x at *
  obtain ⟨s1, r⟩ := x
  simp only at hr hm
  subst hr
  have h1 : (s.leaveJc s1).status = s1.status := by unfold St.leaveJc; cases s.controlsJobs <;> rfl
  have h2 : (s.leaveJc s1).errexit = s1.errexit := by unfold St.leaveJc; cases s.controlsJobs <;> rfl
  have h3 : s.enterJc.errexit = s.errexit := by unfold St.enterJc; cases s.controlsJobs <;> rfl
  exact ⟨rfl, h1, by rw [h2, hm, h3]⟩

/-- job control changes nothing the pipeline's members can see of the loop/condition context -/
theorem job_control_wrapper_invisible (s : St) :
    loops s.enterJc.stack = 0 ∨ s.enterJc = s :=  by
  unfold St.enterJc
  split
  · left; simp [St.push, loops]
  · right; rfl

/-! ### ★ condition_contexts: errexit is irrelevant wherever a `Condition` frame is on the stack -/

/-- the exempt contexts push `Condition`: in each of them the errexit check cannot fire -/
theorem condition_exempts (s : St) : (s.push .condition).errexitApplicable = false := by
  simp [St.errexitApplicable, St.push]

/-- and the exemption extends to everything run from there — functions, groups, loops, subshells —
    because frames below the top are never removed while a command runs (`stack_balanced`) and the
    check looks at the whole stack: a run under a `Condition` frame is the same whether errexit is on
    or off (the two runs differ at most in the option flag itself). -/
theorem errexit_irrelevant_in_condition (fuel : Nat) (s : St) (c : Cmd) (b : Bool)
    (hc : s.stack.contains .condition = true) :
    SameButErrexit (execCmd fuel s c).1 (execCmd fuel { s with errexit := b } c).1 ∧
    (execCmd fuel s c).2 = (execCmd fuel { s with errexit := b } c).2 :=
  (irr fuel).cmd s { s with errexit := b } c ⟨b, rfl⟩ hc

theorem errexit_irrelevant_in_condition_list (fuel : Nat) (s : St) (l : List Item) (b : Bool)
    (hc : s.stack.contains .condition = true) :
    SameButErrexit (execList fuel s l).1 (execList fuel { s with errexit := b } l).1 ∧
    (execList fuel s l).2 = (execList fuel { s with errexit := b } l).2 :=
  (irr fuel).list s { s with errexit := b } l ⟨b, rfl⟩ hc

/-! ### ★ abort_stops: nothing runs after the abort point -/

theorem list_stops_at_break (fuel : Nat) (s : St) (it : Item) (rest : List Item) (d : Divert)
    (h : (execItem fuel s it).2 = .break_ d) :
    execList (fuel+1) s (it :: rest) = execItem fuel s it := by
  simp only [execList]
  generalize execItem fuel s it = x at *
  obtain ⟨s1, r⟩ := x
  simp only at h
  subst h
  rfl

/-- with no trap action due, the poll after a command changes nothing -/
theorem pollWith_none (run : St → List Item → St × Res) (s : St) (r : Res) (h : s.trapDue = none) :
    pollWith run s r = (s, r) := by
  unfold pollWith
  cases r <;> simp [h]

/-- while a trap action runs no other one starts -/
theorem trapDue_in_trap (s : St) (h : s.stack.contains .trap = true) : s.trapDue = none := by
  unfold St.trapDue; rw [h]; simp

theorem script_stops_at_break (fuel : Nat) (s : St) (line : List Item) (rest : List Line) (d : Divert)
    (hq : s.trapDue = none)
    (h : (execList fuel s line).2 = .break_ d) :
    runScript (fuel+1) s (.cmds line :: rest) =
      ((execList fuel s line).1.applyResult (.break_ d), .break_ d) := by
  simp only [runScript, pollWith_none _ s _ hq]
  generalize execList fuel s line = x at *
  obtain ⟨s1, r⟩ := x
  simp only at h
  subst h
  rfl

/-- a syntax error stops the script with status 2 whatever follows; earlier lines have run -/
theorem syntax_error_stops (fuel : Nat) (s : St) (rest : List Line) :
    runScript (fuel+1) s (.syntaxError :: rest) = ({ s with status := 2 }, .break_ (.interrupt (some 2))) := by
  simp [runScript, St.applyResult, Divert.exitStatus]

/-! ### ★ the documented error statuses -/

theorem error_status_table (fuel : Nat) (s : St) :
    -- expansion and assignment errors: status 2 carried by Exit (errexit applicable) or Interrupt
    (execCmd (fuel+1) s .expErr).2 =
      (if s.errexitApplicable then .break_ (.exit (some 2)) else .break_ (.interrupt (some 2))) ∧
    (execCmd (fuel+1) s .assignErr).2 = (execCmd (fuel+1) s .expErr).2 ∧
    -- redirection error on a special built-in: status 2 and the shell is interrupted
    execCmd (fuel+1) s (.redirErr .special) = ({ s with status := 2 }, .break_ (.interrupt none)) ∧
    -- usage error of a special built-in: interrupted; through `command`: only `$?`
    (∀ st, execCmd (fuel+1) s (.specialErr false st) = ({ s with status := st }, .break_ (.interrupt none))) ∧
    (∀ st, execCmd (fuel+1) s (.specialErr true st) =
      ({ s with status := st }, { s with status := st }.applyErrexit)) := by
  simp [execCmd, St.expansionError, finishSimple]

/-- the status the shell exits with after an abort is the one carried by the divert, else `$?` -/
theorem abort_status (s : St) (d : Divert) :
    (s.applyResult (.break_ d)).status = (match d.exitStatus with | some e => e | none => s.status) := by
  cases h : d.exitStatus <;> simp [St.applyResult, h]

/-! ### ★ no_errexit_continues -/

/-- without errexit, a failing command, command-not-found and a redirection error of anything but a
    special built-in only set `$?` -/
theorem no_errexit_continues (fuel : Nat) (s : St) (he : s.errexit = false) :
    (∀ n, execCmd (fuel+1) s (.st n) = ({ s with status := n }, .continue_)) ∧
    execCmd (fuel+1) s .unknown = ({ s with status := 127 }, .continue_) ∧
    (∀ k, k ≠ .special → execCmd (fuel+1) s (.redirErr k) = ({ s with status := 2 }, .continue_)) := by
  have h : ∀ n, ({ s with status := n } : St).applyErrexit = .continue_ := by
    intro n; simp [St.applyErrexit, St.errexitApplicable, he]
  refine ⟨?_, ?_, ?_⟩
  · intro n; simp [execCmd, finishSimple, h]
  · simp [execCmd, finishSimple, h]
  · intro k hk; cases k <;> simp_all [execCmd]

/-! ### signal traps at command boundaries: an abort is never downgraded -/

theorem divert_le_rank (a b : Divert) : (a.le b = true → a.rank ≤ b.rank) ∧ (a.le b = false → b.rank ≤ a.rank) := by
  unfold Divert.le
  constructor
  · intro h
    by_cases h1 : a.rank < b.rank
    · omega
    · by_cases h2 : b.rank < a.rank
      · simp [h1, h2] at h
      · omega
  · intro h
    by_cases h1 : a.rank < b.rank
    · simp [h1] at h
    · omega

/-- When a command ends in a divert and the action of a signal caught meanwhile ends in one too, the
    more severe one is what the shell follows: the result is one of the two and at least as severe as
    both. -/
theorem trap_divert_merge (p : Nat) (s2 : St) (m d : Divert) :
    (finishPoll p s2 (.break_ m) (.break_ d)).2 = .break_ (m.max d) ∧
    (m.max d = m ∨ m.max d = d) ∧ m.rank ≤ (m.max d).rank ∧ d.rank ≤ (m.max d).rank := by
  refine ⟨by simp [finishPoll], ?_, ?_, ?_⟩
  · unfold Divert.max; split <;> simp
  · unfold Divert.max
    split
    · rename_i h; exact (divert_le_rank m d).1 h
    · exact Nat.le_refl _
  · unfold Divert.max
    split
    · exact Nat.le_refl _
    · rename_i h; exact (divert_le_rank m d).2 (by simpa using h)

/-- In particular the abort of errexit (`Exit`) or of a shell error (`Interrupt`) survives a trap
    action that says `return`: the function is not resumed. -/
theorem abort_survives_trap_return (p : Nat) (s2 : St) (e x : Option Nat) :
    (finishPoll p s2 (.break_ (.exit e)) (.break_ (.return_ x))).2 = .break_ (.exit e) ∧
    (finishPoll p s2 (.break_ (.interrupt e)) (.break_ (.return_ x))).2 = .break_ (.interrupt e) := by
  constructor <;> simp [finishPoll, Divert.max, Divert.le, Divert.rank]

/-- a trap action is polled after every command whatever the command's result was (a diverting
    command does not skip it), except when fuel ran out or nothing is due -/
theorem poll_runs_after_divert (run : St → List Item → St × Res) (s1 : St) (d : Divert) (body : List Item)
    (hd : s1.trapDue = some body) :
    pollWith run s1 (.break_ d) =
      finishPoll s1.status (run ({ s1 with pending := false }.push .trap) body).1.pop (.break_ d)
        (run ({ s1 with pending := false }.push .trap) body).2 := by
  simp [pollWith, hd]

/-! ### ★ exit_trap_once -/

/-- an error that interrupts the EXIT action with a status of its own (expansion, assignment or syntax
    error: 2) leaves exactly that status — not the one `$?` had before the error -/
theorem exit_trap_error_status (fuel : Nat) (s : St) (body : List Item) (e : Nat)
    (ht : s.exitTrap = some body)
    (hr : (execList fuel (s.push .trap) body).2 = .break_ (.interrupt (some e))) :
    (runExitTrap fuel s).1.status = e ∧ (runExitTrap fuel s).2 = .break_ (.interrupt (some e)) := by
  unfold runExitTrap
  simp only [ht]
  generalize execList fuel (s.push .trap) body = x at *
  obtain ⟨s1, r⟩ := x
  simp only at hr
  subst hr
  simp [St.applyResult, Divert.exitStatus]

/-- the EXIT action `probe m` run by `run_exit_trap`: one probe, `$?` restored -/
theorem runExitTrap_probe (fuel : Nat) (s1 : St) (m : Nat)
    (ht : s1.exitTrap = some [.mk (.mk false [.probe m]) []]) :
    (runExitTrap (fuel+5) s1).1.trace = (m, s1.status) :: s1.trace ∧
    (runExitTrap (fuel+5) s1).1.status = s1.status ∧
    (runExitTrap (fuel+5) s1).2 ≠ .outOfFuel := by
  have key : execList (fuel+5) (s1.push .trap) [.mk (.mk false [.probe m]) []] =
      ({ s1.push .trap with trace := (m, s1.status) :: s1.trace },
       ({ s1.push .trap with trace := (m, s1.status) :: s1.trace } : St).applyErrexit) := by
    have hq : ({ s1.push .trap with trace := (m, s1.status) :: s1.trace } : St).trapDue = none :=
      trapDue_in_trap _ (by simp [St.push])
    simp only [execList, execItem, execPipeline, execCommands, execCmd, finishSimple, Bool.not_false, if_true]
    rcases errexit_otherwise_continues ({ s1.push .trap with trace := (m, s1.status) :: s1.trace }) with h | h
    · simp only [St.push] at h hq ⊢; rw [h]; simp only [pollWith_none _ _ _ hq]
    · simp only [St.push] at h hq ⊢; rw [h]; simp only [pollWith_none _ _ _ hq]
  unfold runExitTrap
  rw [ht]
  simp only [key]
  rcases errexit_otherwise_continues ({ s1.push .trap with trace := (m, s1.status) :: s1.trace }) with h | h
  · rw [h]; simp [St.applyResult, Divert.exitStatus, St.pop, St.push]
  · rw [h]; simp [St.applyResult, St.pop, St.push]

/-- On every terminating path of the shell other than `Abort`, the EXIT action runs exactly once,
    after the script: for an action `probe m` the trace grows by exactly that one probe, `$?` is what
    the script left, and with no trap set nothing is added. -/
theorem exit_trap_once (fuel : Nat) (s : St) (script : List Line) (m : Nat)
    (hr : (runScript (fuel+5) s script).2 ≠ .outOfFuel)
    (ha : ∀ e, (runScript (fuel+5) s script).2 ≠ .break_ (.abort e)) :
    ((runScript (fuel+5) s script).1.exitTrap = some [.mk (.mk false [.probe m]) []] →
      (runShell (fuel+5) s script).1.trace =
        (m, (runScript (fuel+5) s script).1.status) :: (runScript (fuel+5) s script).1.trace ∧
      (runShell (fuel+5) s script).1.status = (runScript (fuel+5) s script).1.status) ∧
    ((runScript (fuel+5) s script).1.exitTrap = none →
      (runShell (fuel+5) s script).1 = (runScript (fuel+5) s script).1) := by
  unfold runShell
  generalize runScript (fuel+5) s script = x at *
  obtain ⟨s1, r⟩ := x
  simp only at hr ha
  constructor
  · intro ht
    simp only at ht
    obtain ⟨t1, t2, t3⟩ := runExitTrap_probe fuel s1 m ht
    cases r with
    | outOfFuel => exact absurd rfl hr
    | continue_ =>
      simp only
      cases hr2 : (runExitTrap (fuel+5) s1).2 with
      | outOfFuel => exact absurd hr2 t3
      | continue_ => exact ⟨t1, t2⟩
      | break_ d => exact ⟨t1, t2⟩
    | break_ d =>
      cases d with
      | abort e => exact absurd rfl (ha e)
      | _ =>
        simp only
        cases hr2 : (runExitTrap (fuel+5) s1).2 with
        | outOfFuel => exact absurd hr2 t3
        | continue_ => exact ⟨t1, t2⟩
        | break_ d => exact ⟨t1, t2⟩
  · intro ht
    simp only at ht
    cases r with
    | outOfFuel => exact absurd rfl hr
    | continue_ => simp [runExitTrap, ht]
    | break_ d =>
      cases d with
      | abort e => exact absurd rfl (ha e)
      | _ => simp [runExitTrap, ht]

/-- `applyResult` and the restoring of `$?` never touch what was printed -/
theorem applyResult_trace (s : St) (r : Res) : (s.applyResult r).trace = s.trace := by
  unfold St.applyResult
  cases r with
  | break_ d => simp only; split <;> rfl
  | _ => rfl

/-- the general form of `exit_trap_once`: for ANY action (failing commands, errors and `exit` included),
    on every terminating path other than `Abort` what the shell prints after the script is exactly what
    ONE execution of the action prints, started in the state the script left, under a `Trap` frame -/
theorem exit_trap_runs_action_once (fuel : Nat) (s : St) (script : List Line) (body : List Item)
    (hr : (runScript fuel s script).2 ≠ .outOfFuel)
    (ha : ∀ e, (runScript fuel s script).2 ≠ .break_ (.abort e))
    (ht : (runScript fuel s script).1.exitTrap = some body)
    (hb : (execList fuel ((runScript fuel s script).1.push .trap) body).2 ≠ .outOfFuel) :
    (runShell fuel s script).1.trace =
      (execList fuel ((runScript fuel s script).1.push .trap) body).1.trace := by
  unfold runShell
  generalize runScript fuel s script = x at *
  obtain ⟨s1, r⟩ := x
  simp only at hr ha ht hb
  have key : (runExitTrap fuel s1).1.trace = (execList fuel (s1.push .trap) body).1.trace ∧
      (runExitTrap fuel s1).2 ≠ .outOfFuel := by
    unfold runExitTrap
    rw [ht]
    simp only
    generalize execList fuel (s1.push .trap) body = y at *
    obtain ⟨s2, t⟩ := y
    simp only at hb
    cases t with
    | outOfFuel => exact absurd rfl hb
    | continue_ => simp [applyResult_trace, St.pop]
    | break_ d =>
      cases d with
      | interrupt x => cases x <;> simp [applyResult_trace, St.pop]
      | _ => simp [applyResult_trace, St.pop]
  obtain ⟨k1, k2⟩ := key
  cases r with
  | outOfFuel => exact absurd rfl hr
  | continue_ =>
    simp only
    cases hr2 : (runExitTrap fuel s1).2 with
    | outOfFuel => exact absurd hr2 k2
    | continue_ => exact k1
    | break_ d => exact k1
  | break_ d =>
    cases d with
    | abort e => exact absurd rfl (ha e)
    | _ =>
      simp only
      cases hr2 : (runExitTrap fuel s1).2 with
      | outOfFuel => exact absurd hr2 k2
      | continue_ => exact k1
      | break_ d => exact k1

/-- `Abort` skips the EXIT trap -/
theorem abort_skips_exit_trap (fuel : Nat) (s : St) (script : List Line) (e : Option Nat)
    (h : (runScript fuel s script).2 = .break_ (.abort e)) :
    runShell fuel s script = runScript fuel s script := by
  unfold runShell
  generalize runScript fuel s script = x at *
  obtain ⟨s1, r⟩ := x
  simp only at h
  subst h
  rfl

/-! ### non-vacuity -/

/-- `set -e; trap 'probe 99' EXIT` then `if st 3; then :; fi`, `st 5`, `probe 1`: the condition does not
    abort, `st 5` does, `probe 1` never runs, the trap runs once, exit status 5 -/
example :
    let script : List Line :=
      [.cmds [.mk (.mk false [.setE true]) [], .mk (.mk false [.trapExit [.mk (.mk false [.probe 99]) []]]) []],
       .cmds [.mk (.mk false [.ifc [.mk (.mk false [.st 3]) []] [.mk (.mk false [.call .colon 0]) []] [] none]) []],
       .cmds [.mk (.mk false [.st 5]) []],
       .cmds [.mk (.mk false [.probe 1]) []]]
    (runShell 50 {} script).1.trace = [(99, 5)] ∧ (runShell 50 {} script).1.status = 5 ∧
    (runScript 50 {} script).2 = .break_ (.exit none) := by
  decide

/-- a state whose stack contains a condition frame below a loop and a built-in frame -/
example : ({ stack := [.builtin false, .loop, .condition], errexit := true, status := 1 } : St).applyErrexit
    = .continue_ := by decide

/-- hypotheses of `subshell_errexit`, `pipeline_errexit` (with job control: the wrapper subshell),
    `errexit_irrelevant_in_condition`, `script_stops_at_break`, `exit_trap_error_status` and
    `exit_trap_runs_action_once` hold on non-trivial inputs -/
example : (execList 10 (({ errexit := true } : St).push .subshell) [.mk (.mk false [.probe 1, .st 3]) []]).2 ≠ .outOfFuel := by
  decide
example : (execPipeMembers 10 ({ monitor := true, errexit := true } : St).enterJc [.st 0, .st 2] 0).2 = .continue_ ∧
    ({ monitor := true, errexit := true } : St).enterJc.stack = [.subshell] := by decide
example : ({ stack := [.builtin false, .condition], errexit := true } : St).stack.contains .condition = true := by decide
example : ({ errexit := true } : St).trapDue = none ∧
    (execList 10 ({ errexit := true } : St) [.mk (.mk false [.st 5]) [], .mk (.mk false [.probe 1]) []]).2
      = .break_ (.exit none) := by decide
example : (execList 10 (({ exitTrap := some [.mk (.mk false [.probe 99]) [], .mk (.mk false [.expErr]) []] } : St).push .trap)
      [.mk (.mk false [.probe 99]) [], .mk (.mk false [.expErr]) []]).2 = .break_ (.interrupt (some 2)) := by decide
example :
    let script : List Line := [.cmds [.mk (.mk false [.trapExit [.mk (.mk false [.probe 99]) [], .mk (.mk false [.st 4]) []]]) []],
                               .cmds [.mk (.mk false [.exit (some 3)]) []], .cmds [.mk (.mk false [.probe 1]) []]]
    (runScript 30 {} script).2 = .break_ (.exit (some 3)) ∧
    (runScript 30 {} script).1.exitTrap.isSome = true ∧
    (runShell 30 {} script).1.trace = [(99, 3)] ∧ (runShell 30 {} script).1.status = 3 := by decide

/- `abort_skips_exit_trap`: no program of this model's language produces `Divert::Abort` (only the `exec`
   built-in does); the reachable form of the statement is `YashModel.Errexit.shell_tail` with its example
   (`exec no_such_command` → `Abort`, the EXIT action does not run). -/

end YashModel.Exec
