/-
  C10, wave 3 — structured simple commands at ANY depth of the constructs that decide whether errexit applies
  and where a shell error ends.

  `Errexit/Model.lean` runs one structured simple command (`Simple`: words / redirections / assignments / target,
  `execSimple`) in seven FIXED one-level shapes (`Stmt`).  Here the shapes are a recursive syntax `NCmd` whose
  leaves are structured simple commands (`simple`) or commands of the shared coarse model (`ctl`: `break`,
  `continue`, `return`, `exit`, `set -e`, probes … run by `Exec.execCmd`), and whose nodes transcribe

    * `impl Command for syntax::List`                 yash-semantics/src/command.rs                  → `execSeq`
    * `impl Command for AndOrList` + `execute_conditional_pipeline`      …/command/and_or.rs        → `.andor`, `execAndOrN`
    * `impl Command for syntax::Pipeline` (negation)  …/command/pipeline.rs                          → `.neg`
    * `impl Command for syntax::FullCompoundCommand`  …/command/compound_command.rs                  → `.group` (with redirections)
    * `evaluate_condition`, `if::execute`             …/compound_command{.rs,/if.rs}                 → `.ifc`
    * `Loop::iterate` / `Loop::execute` / `execute_common`   …/compound_command/while_loop.rs        → `.loop`, `execLoopN`
    * `subshell::execute` + `subshell_main`           …/compound_command/subshell.rs                 → `.sub`
    * `execute_function_body`                         …/simple_command/function.rs                   → `.call`

  A function call pushes no frame (so `break` inside a function called from a loop leaves the loop, and the
  `Condition` frame of a caller's `if` exempts the function's body from errexit): `.call` only catches `Return`,
  and — being a simple command — ends with `apply_errexit`.
  Import-free apart from the models it composes; executable.
-/
import YashModel.Errexit.Model
namespace YashModel.Errexit
open YashModel.Exec
open YashModel.Generated.ErrexitTables

inductive NCmd where
  | simple (c : Simple)
  | ctl (c : Cmd)
  | group (body : List NCmd) (redirs : Redirs)
  | sub (body : List NCmd)
  | ifc (cond body : List NCmd) (els : Option (List NCmd))
  | loop (until_ : Bool) (cond body : List NCmd)
  | neg (c : NCmd)
  | andor (first : NCmd) (rest : List (Bool × NCmd))
  | call (body : List NCmd)

/-- `impl Command for syntax::List`: the items in turn, `?` on each result -/
def execSeq {α : Type} (f : St → α → St × Res) : St → List α → St × Res
  | s, [] => (s, .continue_)
  | s, x :: rest =>
    let y := f s x
    match y.2 with
    | .continue_ => execSeq f y.1 rest
    | r => (y.1, r)

/-- the conditional pipelines of an and-or list (`execute_conditional_pipeline`); the state still has the
    `Condition` frame on entry, which is dropped before the last pipeline -/
def execAndOrN (f : St → NCmd → St × Res) : St → List (Bool × NCmd) → St × Res
  | s, [] => (s.pop, .continue_)
  | s, [(andThen, p)] =>
    let s := s.pop
    if (s.status = 0) = andThen then f s p else (s, .continue_)
  | s, (andThen, p) :: rest =>
    if (s.status = 0) = andThen then
      let y := f s p
      match y.2 with
      | .continue_ => execAndOrN f y.1 rest
      | r => (y.1.pop, r)
    else execAndOrN f s rest

mutual
  def execN : Nat → St → NCmd → St × Res
    | 0, s, _ => (s, .outOfFuel)
    | fuel+1, s, c =>
      match c with
      | .simple c => execSimple fuel s c
      | .ctl c => execCmd fuel s c
      | .group body redirs =>
        -- `FullCompoundCommand::execute`: `error.handle(&mut env).await?; env.apply_errexit()`
        (match redirs with
         | .error e =>
           let h := handleRedirError s e
           (match h.2 with
            | .continue_ => (h.1, h.1.applyErrexit)
            | r => (h.1, r))
         | _ => execSeq (execN fuel) s body)
      | .sub body =>
        -- the child runs on a copy with a `Subshell` frame; `subshell_main`: `apply_result`; only status and
        -- output come back; then `apply_errexit`
        let y := execSeq (execN fuel) (s.push .subshell) body
        (match y.2 with
         | .outOfFuel => (s, .outOfFuel)
         | r =>
           let c2 := y.1.applyResult r
           let s1 := { s with status := c2.status, trace := c2.trace }
           (s1, s1.applyErrexit))
      | .ifc cond body els =>
        -- `evaluate_condition(env, condition).await?`
        let y := execSeq (execN fuel) (s.push .condition) cond
        let s1 := y.1.pop
        (match y.2 with
         | .continue_ =>
           if s1.status = 0 then execSeq (execN fuel) s1 body
           else match els with
             | some e => execSeq (execN fuel) s1 e
             | none => ({ s1 with status := SUCCESS }, .continue_)
         | r => (s1, r))
      | .loop until_ cond body =>
        -- `execute_common`: `l.execute().await?; env.exit_status = l.exit_status`
        let y := execLoopN fuel (s.push .loop) until_ cond body 0
        let s1 := y.1.pop
        (match y.2.1 with
         | .continue_ => ({ s1 with status := y.2.2 }, .continue_)
         | r => (s1, r))
      | .neg c =>
        let y := execN fuel (s.push .condition) c
        let s1 := y.1.pop
        (match y.2 with
         | .continue_ => ({ s1 with status := if s1.status = 0 then 1 else 0 }, .continue_)
         | r => (s1, r))
      | .andor first rest =>
        (match rest with
         | [] => execN fuel s first
         | _ =>
           let y := execN fuel (s.push .condition) first
           match y.2 with
           | .continue_ => execAndOrN (execN fuel) y.1 rest
           | r => (y.1.pop, r))
      | .call body =>
        -- `execute_function_body`: only `Return` is caught; then the tail of `SimpleCommand::execute`
        -- (a function call is a simple command): `apply_errexit`
        let y := execSeq (execN fuel) s body
        (match y.2 with
         | .break_ (.return_ e) =>
           let s1 : St := match e with | some e => { y.1 with status := e } | none => y.1
           (s1, s1.applyErrexit)
         | .continue_ => (y.1, y.1.applyErrexit)
         | r => (y.1, r))

  /-- `Loop::execute` + `Loop::iterate`; the last argument is the loop's own `exit_status` register, returned
      with the result -/
  def execLoopN : Nat → St → Bool → List NCmd → List NCmd → Nat → St × (Res × Nat)
    | 0, s, _, _, _, e => (s, (.outOfFuel, e))
    | fuel+1, s, until_, cond, body, e =>
      let y := execSeq (execN fuel) (s.push .condition) cond
      let s1 := y.1.pop
      match loopStep y.2 with
      | .stop => (s1, (.continue_, s1.status))
      | .out r => (s1, (r, e))
      | .next =>
        match y.2 with
        | .break_ (.continue_ 0) => execLoopN fuel s1 until_ cond body e
        | _ =>
          if (s1.status = 0) = !until_ then
            let z := execSeq (execN fuel) s1 body
            match loopStep z.2 with
            | .stop => (z.1, (.continue_, z.1.status))
            | .out r => (z.1, (r, e))
            | .next =>
              match z.2 with
              | .break_ (.continue_ 0) => execLoopN fuel z.1 until_ cond body e
              | _ => execLoopN fuel z.1 until_ cond body z.1.status
          else (s1, (.continue_, e))
end

/-- one command line of the `nc` family -/
inductive NLine where
  | cmds (l : List NCmd)
  | syntaxError

/-- `read_eval_loop_impl(env, lexer, false)` over such lines (see `readEvalLoop`) -/
def readEvalLoopN (fuel : Nat) (s : St) (executed : Bool) : List NLine → St × Res
  | [] => (if !executed then { s with status := SUCCESS } else s, .continue_)
  | line :: rest =>
    let x : St × Res := match line with
      | .cmds l => execSeq (execN fuel) s l
      | .syntaxError => (s, handleParserError true false)
    match x.2 with
    | .continue_ => readEvalLoopN fuel x.1 true rest
    | r => (x.1, r)

/-- the tail of `run_as_shell_process` with the EXIT action `probe 99` (or none) -/
def runShellN (fuel : Nat) (s : St) (trap : Bool) (script : List NLine) : ScOutcome :=
  let x := readEvalLoopN fuel s true script
  let s1 := x.1.applyResult x.2
  let action : Option (List Stmt) := if trap then some [.plain (probeSimple 99)] else none
  let s2 := if runsExitTrap x.2 then (runExitTrapSc fuel s1 action).1 else s1
  { loopResult := x.2, pre := s1.status, final := s2 }

end YashModel.Errexit
