/-
  C10, wave 3 — structured simple commands at ANY depth of the constructs that decide whether errexit applies
  and where a shell error ends.

  `Errexit/Model.lean` runs one structured simple command (`Simple`: words / redirections / assignments / target,
  `execSimple`) in seven FIXED one-level shapes (`Stmt`).  Here the shapes are a recursive syntax `NCmd` whose
  leaves are structured simple commands (`simple`) or commands of the shared coarse model (`ctl`: `break`,
  `continue`, `return`, `exit`, `set -e`, probes … run by `Exec.execCmd`), and whose nodes transcribe

    * `impl Command for syntax::List`                 yash-semantics/src/command.rs                  → `execSeq`
    * `impl Command for AndOrList` + `execute_conditional_pipeline`      …/command/and_or.rs        → `.andor`, `execAndOrN`
    * `impl Command for syntax::Pipeline` (negation)  …/command/pipeline.rs                          → `.neg`
    * `impl Command for syntax::FullCompoundCommand`  …/command/compound_command.rs                  → `.group` (with redirections)
    * `evaluate_condition`, `if::execute`             …/compound_command{.rs,/if.rs}                 → `.ifc`
    * `Loop::iterate` / `Loop::execute` / `execute_common`   …/compound_command/while_loop.rs        → `.loop`, `execLoopN`
    * `subshell::execute` + `subshell_main`           …/compound_command/subshell.rs                 → `.sub`
    * `execute_function_body`                         …/simple_command/function.rs                   → `.call`
    * `execute_multi_command_pipeline` / `execute_job_controlled_pipeline`   …/command/pipeline.rs  → `.pipe`, `execPipeN`
    * `for_loop::execute`                             …/compound_command/for_loop.rs                 → `.forLoop`, `execForN`
    * `case::execute`                                 …/compound_command/case.rs                     → `.caseC`, `execCaseN`
    * `execute_async` (item.rs) followed by `wait`                                                   → `.async`
    * `run_trap` / `run_exit_trap` with an action that is such a script                              → `runExitTrapN`

  A function call pushes no frame (so `break` inside a function called from a loop leaves the loop, and the
  `Condition` frame of a caller's `if` exempts the function's body from errexit): `.call` only catches `Return`,
  and — being a simple command — ends with `apply_errexit`.
  Import-free apart from the models it composes; executable.
-/
import YashModel.Errexit.Model
namespace YashModel.Errexit
open YashModel.Exec
open YashModel.Generated.ErrexitTables

inductive NCmd where
  | simple (c : Simple)
  | ctl (c : Cmd)
  | group (body : List NCmd) (redirs : Redirs)
  | sub (body : List NCmd)
  | ifc (cond body : List NCmd) (els : Option (List NCmd))
  | loop (until_ : Bool) (cond body : List NCmd)
  | neg (c : NCmd)
  | andor (first : NCmd) (rest : List (Bool × NCmd))
  | call (body : List NCmd)
  -- second half of wave 3
  | pipe (cmds : List NCmd)                 -- `c1 | c2 | …` (the generator gives two or more commands)
  | forLoop (wordsErr ro : Bool) (values : Nat) (body : List NCmd)
      -- `for v in w1 … wn`: the word list does not expand / the loop variable is read-only
  | caseC (subjectErr : Bool) (items : List (Bool × Bool × List NCmd × CaseCont))
      -- the subject does not expand; per item: (a pattern matches, evaluating the patterns fails before any
      -- match, body, continuation)
  | async (body : List NCmd)                -- `{ body; } & wait`
  -- third pass of wave 3
  | forPos (body : List NCmd)               -- `for v do …`: one iteration per positional parameter
  | polled (c : NCmd)
      -- the boundary of `impl Command for syntax::Command`: the command, then `run_traps_for_caught_signals`
      -- (the harness wraps every simple / compound command of a case that sets a signal trap)

/-- `impl Command for syntax::List`: the items in turn, `?` on each result -/
def execSeq {α : Type} (f : St → α → St × Res) : St → List α → St × Res
  | s, [] => (s, .continue_)
  | s, x :: rest =>
    let y := f s x
    match y.2 with
    | .continue_ => execSeq f y.1 rest
    | r => (y.1, r)

/-- the conditional pipelines of an and-or list (`execute_conditional_pipeline`); the state still has the
    `Condition` frame on entry, which is dropped before the last pipeline -/
def execAndOrN (f : St → NCmd → St × Res) : St → List (Bool × NCmd) → St × Res
  | s, [] => (s.pop, .continue_)
  | s, [(andThen, p)] =>
    let s := s.pop
    if (s.status = 0) = andThen then f s p else (s, .continue_)
  | s, (andThen, p) :: rest =>
    if (s.status = 0) = andThen then
      let y := f s p
      match y.2 with
      | .continue_ => execAndOrN f y.1 rest
      | r => (y.1.pop, r)
    else execAndOrN f s rest

mutual
  def execN : Nat → St → NCmd → St × Res
    | 0, s, _ => (s, .outOfFuel)
    | fuel+1, s, c =>
      match c with
      | .simple c => execSimple fuel s c
      | .ctl c => execCmd fuel s c
      | .group body redirs =>
        -- `FullCompoundCommand::execute`: `error.handle(&mut env).await?; env.apply_errexit()`
        (match redirs with
         | .error e =>
           let h := handleRedirError s e
           (match h.2 with
            | .continue_ => (h.1, h.1.applyErrexit)
            | r => (h.1, r))
         | _ => execSeq (execN fuel) s body)
      | .sub body =>
        -- the child runs on a copy with a `Subshell` frame; `subshell_main`: `apply_result`; only status and
        -- output come back; then `apply_errexit`
        let y := execSeq (execN fuel) (s.push .subshell) body
        (match y.2 with
         | .outOfFuel => (s, .outOfFuel)
         | r =>
           let c2 := y.1.applyResult r
           let s1 := { s with status := c2.status, trace := c2.trace, pending := c2.pending }
           (s1, s1.applyErrexit))
      | .ifc cond body els =>
        -- `evaluate_condition(env, condition).await?`
        let y := execSeq (execN fuel) (s.push .condition) cond
        let s1 := y.1.pop
        (match y.2 with
         | .continue_ =>
           if s1.status = 0 then execSeq (execN fuel) s1 body
           else match els with
             | some e => execSeq (execN fuel) s1 e
             | none => ({ s1 with status := SUCCESS }, .continue_)
         | r => (s1, r))
      | .loop until_ cond body =>
        -- `execute_common`: `l.execute().await?; env.exit_status = l.exit_status`
        let y := execLoopN fuel (s.push .loop) until_ cond body 0
        let s1 := y.1.pop
        (match y.2.1 with
         | .continue_ => ({ s1 with status := y.2.2 }, .continue_)
         | r => (s1, r))
      | .neg c =>
        let y := execN fuel (s.push .condition) c
        let s1 := y.1.pop
        (match y.2 with
         | .continue_ => ({ s1 with status := if s1.status = 0 then 1 else 0 }, .continue_)
         | r => (s1, r))
      | .andor first rest =>
        (match rest with
         | [] => execN fuel s first
         | _ =>
           let y := execN fuel (s.push .condition) first
           match y.2 with
           | .continue_ => execAndOrN (execN fuel) y.1 rest
           | r => (y.1.pop, r))
      | .pipe cmds =>
        -- `execute_multi_command_pipeline`: every command in its own subshell; under job control the whole
        -- pipeline runs in one more subshell; `apply_errexit` is the parent's either way
        let y := execPipeN fuel s.enterJc cmds 0
        (match y.2 with
         | .continue_ => (s.leaveJc y.1, (s.leaveJc y.1).applyErrexit)
         | r => (s.leaveJc y.1, r))
      | .forLoop wordsErr ro values body =>
        -- `expand_words` fails: `error.handle(env)`; the `Loop` frame is pushed after the expansion
        if wordsErr then (s, handleExpansionError s)
        else
          let s0 := s.push .loop
          if values = 0 ∧ !body.isEmpty then ({ s0 with status := SUCCESS }.pop, .continue_)
          else if values = 0 then (s, .continue_)
          -- the first assignment to a read-only loop variable: `Handle for expansion::Error`
          else if ro then (s, handleExpansionError s)
          else
            let y := execForN fuel s0 values body
            (y.1.pop, y.2)
      | .caseC subjectErr items =>
        if subjectErr then (s, handleExpansionError s)
        else
          let y := execCaseN fuel s items false false
          (match y.2.1 with
           | .continue_ => (if y.2.2 then y.1 else { y.1 with status := SUCCESS }, .continue_)
           | r => (y.1, r))
      | .async body =>
        -- `execute_async`: the list runs in a subshell and the shell goes on at once with status 0; `wait`
        -- without operands then returns 0 when the child is gone. Only the output comes back.
        let y := execSeq (execN fuel) (s.push .subshell) body
        (match y.2 with
         | .outOfFuel => (s, .outOfFuel)
         | r =>
           let c2 := y.1.applyResult r
           let s1 := { s with status := SUCCESS, trace := c2.trace, pending := c2.pending }
           (s1, s1.applyErrexit))
      | .forPos body =>
        let s0 := s.push .loop
        if s.params = 0 ∧ !body.isEmpty then ({ s0 with status := SUCCESS }.pop, .continue_)
        else
          let y := execForN fuel s0 s.params body
          (y.1.pop, y.2)
      | .polled c =>
        let x := execN fuel s c
        pollWith (execList fuel) x.1 x.2
      | .call body =>
        -- `execute_function_body`: only `Return` is caught; then the tail of `SimpleCommand::execute`
        -- (a function call is a simple command): `apply_errexit`
        -- (the positional parameters of the call are not modelled here — a call has no arguments in this syntax and
        -- the generator keeps `for v do` / `set --` out of function bodies; C02's `Exec.call` models them)
        let y := execSeq (execN fuel) s body
        (match y.2 with
         | .break_ (.return_ e) =>
           let s1 : St := match e with | some e => { y.1 with status := e } | none => y.1
           (s1, s1.applyErrexit)
         | .continue_ => (y.1, y.1.applyErrexit)
         | r => (y.1, r))

  /-- `Loop::execute` + `Loop::iterate`; the last argument is the loop's own `exit_status` register, returned
      with the result -/
  def execLoopN : Nat → St → Bool → List NCmd → List NCmd → Nat → St × (Res × Nat)
    | 0, s, _, _, _, e => (s, (.outOfFuel, e))
    | fuel+1, s, until_, cond, body, e =>
      let y := execSeq (execN fuel) (s.push .condition) cond
      let s1 := y.1.pop
      match loopStep y.2 with
      | .stop => (s1, (.continue_, s1.status))
      | .out r => (s1, (r, e))
      | .next =>
        match y.2 with
        | .break_ (.continue_ 0) => execLoopN fuel s1 until_ cond body e
        | _ =>
          if (s1.status = 0) = !until_ then
            let z := execSeq (execN fuel) s1 body
            match loopStep z.2 with
            | .stop => (z.1, (.continue_, z.1.status))
            | .out r => (z.1, (r, e))
            | .next =>
              match z.2 with
              | .break_ (.continue_ 0) => execLoopN fuel z.1 until_ cond body e
              | _ => execLoopN fuel z.1 until_ cond body z.1.status
          else (s1, (.continue_, e))

  /-- runs each member of a pipeline on a copy of the parent state with a `Subshell` frame; `final`
      accumulates the pipeline's status (`pipefail`) -/
  def execPipeN : Nat → St → List NCmd → Nat → St × Res
    | 0, s, _, _ => (s, .outOfFuel)
    | _+1, s, [], final => ({ s with status := final }, .continue_)
    | fuel+1, s, c :: rest, final =>
      let y := execN fuel (s.push .subshell) c
      match y.2 with
      | .outOfFuel => (s, .outOfFuel)
      | r =>
        let c2 := y.1.applyResult r
        let final' := if c2.status ≠ 0 ∨ !s.pipefail then c2.status else final
        execPipeN fuel { s with trace := c2.trace, pending := c2.pending } rest final'

  /-- the iteration of `for_loop::execute` (the variable itself is not modelled) -/
  def execForN : Nat → St → Nat → List NCmd → St × Res
    | 0, s, _, _ => (s, .outOfFuel)
    | _+1, s, 0, _ => (s, .continue_)
    | fuel+1, s, n+1, body =>
      let y := execSeq (execN fuel) s body
      match loopStep y.2 with
      | .stop => (y.1, .continue_)
      | .out r => (y.1, r)
      | .next => execForN fuel y.1 n body

  /-- `case::execute`; flags: falling through, exit status updated -/
  def execCaseN : Nat → St → List (Bool × Bool × List NCmd × CaseCont) → Bool → Bool → St × Res × Bool
    | 0, s, _, _, u => (s, .outOfFuel, u)
    | _+1, s, [], _, u => (s, .continue_, u)
    | fuel+1, s, (m, e, body, k) :: rest, falling, u =>
      -- the patterns of an item are expanded only when the item is not entered by falling through
      if !falling && e then (s, handleExpansionError s, u)
      else if !falling && !m then execCaseN fuel s rest false u
      else
        let y := execSeq (execN fuel) s body
        match y.2 with
        | .continue_ =>
          let u1 := !body.isEmpty
          match k with
          | .break_ => (y.1, .continue_, u1)
          | .fallThrough => execCaseN fuel y.1 rest true u1
          | .continue_ => execCaseN fuel y.1 rest false u1
        | r => (y.1, r, u)
end

/-- one command line of the `nc` family -/
inductive NLine where
  | cmds (l : List NCmd)
  | syntaxError

/-- `read_eval_loop_impl(env, lexer, false)` over such lines (see `readEvalLoop`) -/
def readEvalLoopN (fuel : Nat) (s : St) (executed : Bool) : List NLine → St × Res
  | [] => (if !executed then { s with status := SUCCESS } else s, .continue_)
  | line :: rest =>
    let x : St × Res := match line with
      | .cmds l => execSeq (execN fuel) s l
      | .syntaxError => (s, handleParserError true false)
    -- since 4afb140 a line without a command does not count as executed (see `readEvalLoop`)
    let executed' := match line with
      | .cmds l => executed || !l.isEmpty
      | .syntaxError => true
    match x.2 with
    | .continue_ => readEvalLoopN fuel x.1 executed' rest
    | r => (x.1, r)

/-- `run_trap` for the EXIT condition + `run_exit_trap`'s `apply_result`; the action is a script of its own, read
    by `read_eval_loop` under a `Trap` frame (it may have several lines, and lines that do not parse) -/
def runExitTrapN (fuel : Nat) (s : St) (action : Option (List NLine)) : St × Res :=
  match action with
  | none => (s, .continue_)
  | some lines =>
    let prev := s.status
    let x := readEvalLoopN fuel (s.push .trap) false lines
    let s1 := x.1.pop
    let s2 : St := match x.2 with
      | .break_ (.interrupt (some e)) => { s1 with status := e }
      | .break_ (.interrupt none) => s1
      | _ => { s1 with status := prev }
    (s2.applyResult x.2, x.2)

/-- the tail of `run_as_shell_process`: read-eval loop, `apply_result`, EXIT trap -/
def runShellN (fuel : Nat) (s : St) (action : Option (List NLine)) (script : List NLine) : ScOutcome :=
  let x := readEvalLoopN fuel s true script
  let s1 := x.1.applyResult x.2
  let s2 := if runsExitTrap x.2 then (runExitTrapN fuel s1 action).1 else s1
  { loopResult := x.2, pre := s1.status, final := s2 }

end YashModel.Errexit
