/-
  C10, wave 3 (second half) — a hole at ANY position: `HoleRun` describes how execution reaches a command inside
  nested constructs after other commands have completed; `stop_at_hole`: if that command ends in Interrupt/Exit
  the whole construct ends there.  Definitions + lemma file.
-/
import YashModel.Errexit.NestedBalance
namespace YashModel.Errexit
open YashModel.Exec
open YashModel.Generated.ErrexitTables

/-- the commands `pre` run from `s` to normal completion, leaving `s1` -/
def Completes (fuel : Nat) (s : St) (pre : List NCmd) (s1 : St) : Prop :=
  execSeq (execN fuel) s pre = (s1, .continue_)

theorem completes_stack {fuel : Nat} {s s1 : St} {pre : List NCmd} (h : Completes fuel s pre s1) :
    s1.stack = s.stack := by
  have := execSeq_stack (execN fuel) (balN fuel).n pre s
  rw [h] at this
  exact this

/-- a command list whose commands before position k complete and whose k-th command stops the shell -/
theorem execSeq_hole (f : St → NCmd → St × Res) : ∀ (pre : List NCmd) (s s1 : St) (m : NCmd) (rest : List NCmd),
    execSeq f s pre = (s1, .continue_) → stopsShell (f s1 m).2 = true →
    execSeq f s (pre ++ m :: rest) = f s1 m
  | [], s, s1, m, rest, h, hstop => by
    simp only [execSeq, Prod.mk.injEq] at h
    obtain ⟨rfl, _⟩ := h
    simp only [List.nil_append, execSeq]
    rcases stops_cases hstop with ⟨e, he⟩ | ⟨e, he⟩ <;> (apply Prod.ext <;> simp [he])
  | x :: pre, s, s1, m, rest, h, hstop => by
    simp only [execSeq] at h
    simp only [List.cons_append, execSeq]
    cases hx : (f s x).2 with
    | continue_ =>
      rw [hx] at h
      simp only [] at h ⊢
      exact execSeq_hole f pre _ s1 m rest h hstop
    | break_ d => rw [hx] at h; simp at h
    | outOfFuel => rw [hx] at h; simp at h

/-- `HoleRun fw s whole g s' n`: running `whole` from `s` with fuel `fw` reaches the command `n` (the hole) in
    state `s'` with fuel `g`, every command executed before it having completed normally: the hole may sit at ANY
    position of the command lists on the way, in a condition or in the branch / body that the condition selected -/
inductive HoleRun : Nat → St → NCmd → Nat → St → NCmd → Prop
  | here (f : Nat) (s : St) (n : NCmd) : HoleRun f s n f s n
  | group {f g : Nat} {s s1 s' : St} {pre rest : List NCmd} {m n : NCmd} {r : Redirs} :
      (∀ e, r ≠ .error e) → Completes f s pre s1 → HoleRun f s1 m g s' n →
      HoleRun (f+1) s (.group (pre ++ m :: rest) r) g s' n
  | call {f g : Nat} {s s1 s' : St} {pre rest : List NCmd} {m n : NCmd} :
      Completes f s pre s1 → HoleRun f s1 m g s' n → HoleRun (f+1) s (.call (pre ++ m :: rest)) g s' n
  | ifCond {f g : Nat} {s s1 s' : St} {pre rest b : List NCmd} {e : Option (List NCmd)} {m n : NCmd} :
      Completes f (s.push .condition) pre s1 → HoleRun f s1 m g s' n →
      HoleRun (f+1) s (.ifc (pre ++ m :: rest) b e) g s' n
  | ifThen {f g : Nat} {s s1 s2 s' : St} {c pre rest : List NCmd} {e : Option (List NCmd)} {m n : NCmd} :
      Completes f (s.push .condition) c s1 → s1.pop.status = 0 → Completes f s1.pop pre s2 → HoleRun f s2 m g s' n →
      HoleRun (f+1) s (.ifc c (pre ++ m :: rest) e) g s' n
  | ifElse {f g : Nat} {s s1 s2 s' : St} {c b pre rest : List NCmd} {m n : NCmd} :
      Completes f (s.push .condition) c s1 → s1.pop.status ≠ 0 → Completes f s1.pop pre s2 → HoleRun f s2 m g s' n →
      HoleRun (f+1) s (.ifc c b (some (pre ++ m :: rest))) g s' n
  | loopCond {f g : Nat} {s s1 s' : St} {u : Bool} {pre rest b : List NCmd} {m n : NCmd} :
      Completes f ((s.push .loop).push .condition) pre s1 → HoleRun f s1 m g s' n →
      HoleRun (f+2) s (.loop u (pre ++ m :: rest) b) g s' n
  | neg {f g : Nat} {s s' : St} {m n : NCmd} :
      HoleRun f (s.push .condition) m g s' n → HoleRun (f+1) s (.neg m) g s' n
  | single {f g : Nat} {s s' : St} {m n : NCmd} :
      HoleRun f s m g s' n → HoleRun (f+1) s (.andor m []) g s' n
  | andFirst {f g : Nat} {s s' : St} {m n : NCmd} {r : Bool × NCmd} {rest : List (Bool × NCmd)} :
      HoleRun f (s.push .condition) m g s' n → HoleRun (f+1) s (.andor m (r :: rest)) g s' n
  | forBody {f g : Nat} {s s1 s' : St} {k : Nat} {pre rest : List NCmd} {m n : NCmd} :
      Completes f (s.push .loop) pre s1 → HoleRun f s1 m g s' n →
      HoleRun (f+2) s (.forLoop false false (k+1) (pre ++ m :: rest)) g s' n
  | caseFirst {f g : Nat} {s s1 s' : St} {k : CaseCont} {pre rest : List NCmd} {m n : NCmd}
      {items : List (Bool × Bool × List NCmd × CaseCont)} :
      Completes f s pre s1 → HoleRun f s1 m g s' n →
      HoleRun (f+2) s (.caseC false ((true, false, pre ++ m :: rest, k) :: items)) g s' n

theorem withStack_idem (a : St) (x y : List Frame) : withStack (withStack a x) y = withStack a y := rfl

theorem pop_withStack (a : St) (f : Frame) (st : List Frame) : (withStack a (f :: st)).pop = withStack a st := rfl

/-- a command that ends in `Interrupt`/`Exit`, reached at any position: the whole construct ends there, with the
    frames popped and nothing else run -/
theorem stop_at_hole {fw g : Nat} {s s' : St} {whole n : NCmd} (h : HoleRun fw s whole g s' n)
    (hstop : stopsShell (execN g s' n).2 = true) :
    execN fw s whole = (withStack (execN g s' n).1 s.stack, (execN g s' n).2) := by
  induction h with
  | here f s n =>
    have : withStack (execN f s n).1 s.stack = (execN f s n).1 := by
      simp [withStack, ← (balN f).n s n]
    rw [this]
  | @group f g s s1 s' pre rest m n r hr hc _ ih =>
    have ih := ih hstop
    have hs1 := completes_stack hc
    have hseq := execSeq_hole (execN f) pre s s1 m rest hc (by rw [ih]; exact hstop)
    rw [ih, hs1] at hseq
    cases r with
    | error e => exact absurd rfl (hr e)
    | none => simp only [execN, hseq]
    | ok c => simp only [execN, hseq]
  | @call f g s s1 s' pre rest m n hc _ ih =>
    have ih := ih hstop
    have hs1 := completes_stack hc
    have hseq := execSeq_hole (execN f) pre s s1 m rest hc (by rw [ih]; exact hstop)
    rw [ih, hs1] at hseq
    simp only [execN, hseq]
    rcases stops_cases hstop with ⟨e, he⟩ | ⟨e, he⟩ <;> rw [he]
  | @ifCond f g s s1 s' pre rest b e m n hc _ ih =>
    have ih := ih hstop
    have hs1 : s1.stack = .condition :: s.stack := completes_stack hc
    have hseq := execSeq_hole (execN f) pre _ s1 m rest hc (by rw [ih]; exact hstop)
    rw [ih, hs1] at hseq
    simp only [execN, hseq, pop_withStack]
    rcases stops_cases hstop with ⟨e, he⟩ | ⟨e, he⟩ <;> rw [he]
  | @ifThen f g s s1 s2 s' c pre rest e m n hc hst hp _ ih =>
    have ih := ih hstop
    have hs2 : s2.stack = s1.pop.stack := completes_stack hp
    have hs1 : s1.stack = .condition :: s.stack := completes_stack hc
    have hseq := execSeq_hole (execN f) pre _ s2 m rest hp (by rw [ih]; exact hstop)
    rw [ih, hs2] at hseq
    have hpop : s1.pop.stack = s.stack := by simp [St.pop, hs1]
    have hc' : execSeq (execN f) (s.push .condition) c = (s1, .continue_) := hc
    simp only [execN, hc', hst, if_true, hseq, hpop]
  | @ifElse f g s s1 s2 s' c b pre rest m n hc hst hp _ ih =>
    have ih := ih hstop
    have hs2 : s2.stack = s1.pop.stack := completes_stack hp
    have hs1 : s1.stack = .condition :: s.stack := completes_stack hc
    have hseq := execSeq_hole (execN f) pre _ s2 m rest hp (by rw [ih]; exact hstop)
    rw [ih, hs2] at hseq
    have hpop : s1.pop.stack = s.stack := by simp [St.pop, hs1]
    have hc' : execSeq (execN f) (s.push .condition) c = (s1, .continue_) := hc
    simp only [execN, hc', hst, if_false, hseq, hpop]
  | @loopCond f g s s1 s' u pre rest b m n hc _ ih =>
    have ih := ih hstop
    have hs1 : s1.stack = .condition :: .loop :: s.stack := completes_stack hc
    have hseq := execSeq_hole (execN f) pre _ s1 m rest hc (by rw [ih]; exact hstop)
    rw [ih, hs1] at hseq
    simp only [execN, execLoopN, hseq, pop_withStack, loopStep_of_stops hstop]
    rcases stops_cases hstop with ⟨e, he⟩ | ⟨e, he⟩ <;> rw [he]
  | @neg f g s s' m n _ ih =>
    have ih := ih hstop
    simp only [execN, ih]
    have : (s.push .condition).stack = .condition :: s.stack := rfl
    rw [this, pop_withStack]
    rcases stops_cases hstop with ⟨e, he⟩ | ⟨e, he⟩ <;> rw [he]
  | @single f g s s' m n _ ih =>
    have ih := ih hstop
    simp only [execN, ih]
  | @andFirst f g s s' m n r rest _ ih =>
    have ih := ih hstop
    simp only [execN, ih]
    have : (s.push .condition).stack = .condition :: s.stack := rfl
    rw [this, pop_withStack]
    rcases stops_cases hstop with ⟨e, he⟩ | ⟨e, he⟩ <;> rw [he]
  | @forBody f g s s1 s' k pre rest m n hc _ ih =>
    have ih := ih hstop
    have hs1 : s1.stack = .loop :: s.stack := completes_stack hc
    have hseq := execSeq_hole (execN f) pre _ s1 m rest hc (by rw [ih]; exact hstop)
    rw [ih, hs1] at hseq
    simp [execN, execForN, hseq, pop_withStack, loopStep_of_stops hstop]
  | @caseFirst f g s s1 s' k pre rest m n items hc _ ih =>
    have ih := ih hstop
    have hs1 := completes_stack hc
    have hseq := execSeq_hole (execN f) pre s s1 m rest hc (by rw [ih]; exact hstop)
    rw [ih, hs1] at hseq
    simp only [execN, execCaseN, hseq]
    rcases stops_cases hstop with ⟨e, he⟩ | ⟨e, he⟩ <;> simp [he]

theorem completes_of {fuel : Nat} {s : St} {pre : List NCmd}
    (h : (execSeq (execN fuel) s pre).2 = .continue_) : Completes fuel s pre (execSeq (execN fuel) s pre).1 :=
  Prod.ext rfl h

theorem execPipeN_cons (fuel : Nat) (s : St) (c : NCmd) (rest : List NCmd) (final : Nat)
    (h : (execN fuel (s.push .subshell) c).2 ≠ .outOfFuel) :
    execPipeN (fuel + 1) s (c :: rest) final =
      execPipeN fuel { s with trace := ((execN fuel (s.push .subshell) c).1.applyResult (execN fuel (s.push .subshell) c).2).trace, pending := ((execN fuel (s.push .subshell) c).1.applyResult (execN fuel (s.push .subshell) c).2).pending } rest
        (if ((execN fuel (s.push .subshell) c).1.applyResult (execN fuel (s.push .subshell) c).2).status ≠ 0 ∨ !s.pipefail
         then ((execN fuel (s.push .subshell) c).1.applyResult (execN fuel (s.push .subshell) c).2).status else final) := by
  simp only [execPipeN]

end YashModel.Errexit
