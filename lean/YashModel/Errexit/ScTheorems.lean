/-
  C10, extension round — property theorems (and non-vacuity examples) about the fine-grained model of a
  simple command and of the top of the shell (Errexit/Model.lean), its Spec (Errexit/Spec.lean: the table of
  docs/src/termination.md) and the tables re-extracted from /repo (Generated/ErrexitTables.lean).
  Helper lemmas: Errexit/ScLemmas.lean, Errexit/ScMeets.lean.
-/
import YashModel.Errexit.ScMeets
namespace YashModel.Errexit
open YashModel.Exec
open YashModel.Generated.ErrexitTables

/-! ### ★ every shell error of a simple command has the documented consequence -/

/-- For EVERY simple command (any words / redirections / assignments / target, built-ins of every type with
    any body, `command`, `eval` and `.` nested to any depth), every state and frame stack: if its first failing
    part classifies it as shell error `e` with status `st` (docs/src/termination.md, evaluation order of
    docs/src/language/commands/simple.md), then the transcribed `SimpleCommand::execute` does what the
    documentation promises for a non-interactive shell — the result is an `Interrupt`/`Exit` and `$?` becomes
    `st`, or (plain redirection error without errexit) execution continues with `$? = st` — and the frame
    stack and the errexit option are what they were. -/
theorem simple_command_meets_termination_doc (fuel : Nat) (s : St) (c : Simple) (e : ShellError) (st : Nat)
    (h : c.shellError = some (e, st)) :
    MeetsDoc s.errexitApplicable e st (execSimple fuel s c) ∧
    (execSimple fuel s c).1.stack = s.stack ∧ (execSimple fuel s c).1.errexit = s.errexit :=
  simple_meets fuel c s e st h

/-- unfolded for the three classes that end a non-interactive shell whatever errexit says -/
theorem shell_error_stops_the_shell (fuel : Nat) (s : St) (c : Simple) (e : ShellError) (st : Nat)
    (h : c.shellError = some (e, st)) (he : e ≠ .redirection) :
    stopsShell (execSimple fuel s c).2 = true ∧
    ((execSimple fuel s c).1.applyResult (execSimple fuel s c).2).status = st := by
  have := (simple_meets fuel c s e st h).1
  unfold MeetsDoc at this
  cases e
  · rw [consequence_syntax] at this; exact this
  · rw [consequence_special] at this; exact this
  · rw [consequence_expansion] at this; exact this
  · exact absurd rfl he

/-- a redirection error of a command that is not a special built-in: the shell goes on with `$? = 2` exactly
    when errexit is not in force here, and exits with 2 when it is -/
theorem redirection_error_consequence (fuel : Nat) (s : St) (c : Simple) (st : Nat)
    (h : c.shellError = some (.redirection, st)) :
    (s.errexitApplicable = false → (execSimple fuel s c).2 = .continue_ ∧ (execSimple fuel s c).1.status = st) ∧
    (s.errexitApplicable = true → stopsShell (execSimple fuel s c).2 = true ∧
      ((execSimple fuel s c).1.applyResult (execSimple fuel s c).2).status = st) := by
  have := (simple_meets fuel c s .redirection st h).1
  unfold MeetsDoc at this
  rw [consequence_redirection] at this
  constructor <;> intro hee <;> simp only [hee] at this <;> exact this

/-! ### ★ errors of special built-ins: the innermost `Builtin` frame decides, whatever lies above it -/

/-- `Stack::current_builtin` finds the innermost `Builtin` frame through any frames that are not built-ins
    (`DotScript`, `Trap`, `Subshell`, `Loop`, `Condition`, `InitFile`) -/
theorem current_builtin_is_innermost (pre tl : List Frame) (b : Bool)
    (hpre : ∀ f ∈ pre, ∀ x, f ≠ .builtin x) :
    currentBuiltin (pre ++ .builtin b :: tl) = some b := by
  induction pre with
  | nil => rfl
  | cons f rest ih =>
    have hf := hpre f (by simp)
    have ih' := ih (fun g hg => hpre g (by simp [hg]))
    cases f with
    | builtin x => exact absurd rfl (hf x)
    | _ => simpa [currentBuiltin] using ih'

theorem current_builtin_none_iff (st : List Frame) :
    currentBuiltin st = none ↔ ∀ f ∈ st, ∀ x, f ≠ .builtin x := by
  induction st with
  | nil => simp [currentBuiltin]
  | cons f rest ih =>
    cases f <;> simp [currentBuiltin, ih]

/-- so an error reported by a special built-in interrupts the shell under any such frames (this is where the
    `.` built-in reports a missing file: under its own `DotScript` frame), and one reported by a built-in that
    runs through `command` never does -/
theorem report_divert_by_innermost_builtin (pre tl : List Frame) (hpre : ∀ f ∈ pre, ∀ x, f ≠ .builtin x) :
    reportDivert (pre ++ .builtin true :: tl) = .break_ (.interrupt none) ∧
    reportDivert (pre ++ .builtin false :: tl) = .continue_ := by
  simp [reportDivert, current_builtin_is_innermost pre tl _ hpre]

/-- A special built-in that fails in its own way — an error report with a non-zero status, or `.` not
    finding its file — ends in `Interrupt(None)` with that status, whatever the state, the context and the
    (successful) redirections and assignments are: there is no special built-in error that does not abort. -/
theorem special_builtin_error_aborts (fuel : Nat) (s : St) (cs acs : Option Nat) (r : Redirs) (st : Nat)
    (hr : ∀ x, r ≠ .error x) :
    execSimple fuel s (.mk (.ok cs) (.builtin .special (.report st)) r (.ok acs)) =
      ({ s with status := st }, .break_ (.interrupt none)) ∧
    execSimple fuel s (.mk (.ok cs) (.builtin .special .dotMissing) r (.ok acs)) =
      ({ s with status := FAILURE }, .break_ (.interrupt none)) := by
  cases r with
  | error x => exact absurd rfl (hr x)
  | none => constructor <;> simp [execSimple, execTarget, execBody, reportDivert, currentBuiltin, St.push, St.pop]
  | ok n => constructor <;> simp [execSimple, execTarget, execBody, reportDivert, currentBuiltin, St.push, St.pop]

/-- the same errors through `command`: only `$?` is set, then the errexit check -/
theorem command_wrapped_special_error_continues (fuel : Nat) (s : St) (cs acs : Option Nat) (st : Nat) :
    execSimple fuel s (.mk (.ok cs) (.builtin .mandatory (.command (.report st))) .none (.ok acs)) =
      ({ s with status := st }, ({ s with status := st } : St).applyErrexit) ∧
    execSimple fuel s (.mk (.ok cs) (.builtin .mandatory (.command .dotMissing)) .none (.ok acs)) =
      ({ s with status := FAILURE }, ({ s with status := FAILURE } : St).applyErrexit) := by
  constructor <;> simp [execSimple, execTarget, execBody, reportDivert, currentBuiltin, St.push, St.pop]

/-- …but a special built-in run by `eval` under `command` is a special built-in again (its own frame is the
    innermost one), and `command` inside `eval` is not -/
theorem eval_and_command_nesting (fuel : Nat) (s : St) (st : Nat) :
    execSimple fuel s (.mk (.ok none) (.builtin .mandatory (.command (.eval
        (.mk (.ok none) (.builtin .special (.report st)) .none (.ok none))))) .none (.ok none)) =
      ({ s with status := st }, .break_ (.interrupt none)) ∧
    execSimple fuel s (.mk (.ok none) (.builtin .special (.eval
        (.mk (.ok none) (.builtin .mandatory (.command (.report st))) .none (.ok none)))) .none (.ok none)) =
      ({ s with status := st }, ({ s with status := st } : St).applyErrexit) := by
  constructor
  · simp [execSimple, execTarget, execBody, reportDivert, currentBuiltin, St.push, St.pop]
  · simp only [execSimple, execTarget, execBody, reportDivert, currentBuiltin, St.push, St.pop,
      St.applyErrexit, St.errexitApplicable]
    by_cases h1 : st = 0 <;> by_cases h2 : s.errexit = true <;> by_cases h3 : Frame.condition ∈ s.stack <;>
      simp [h1, h2, h3]

/-! ### ★ which part of the command is looked at first -/

/-- an operand of a redirection that does not expand is an expansion error like a word that does not expand —
    for a built-in of any type, a function and an external utility (the repaired defect of this round) -/
theorem redirection_operand_expansion_error (fuel : Nat) (s : St) (cs : Option Nat) (a : Assigns)
    (t : Target) (ht : t ≠ .absent) :
    execSimple fuel s (.mk (.ok cs) t (.error true) a) = execSimple fuel s (.mk .error t (.error true) a) := by
  have hb := handleExpansionError_cases s
  cases t with
  | absent => exact absurd rfl ht
  | builtin ty body => rcases hb with hb | hb <;> simp [execSimple, execTarget, handleRedirError, hb]
  | function body => rcases hb with hb | hb <;> simp [execSimple, execTarget, handleRedirError, hb]
  | external n => rcases hb with hb | hb <;> simp [execSimple, execTarget, handleRedirError, hb]

/-- a command without a name performs its redirections in a subshell: whatever fails there (a file that cannot
    be opened, an operand that does not expand) is reported, `$?` becomes `ERROR` unless an assignment's
    command substitution says otherwise, the assignments are still performed, and only errexit can end the
    shell (docs/src/language/commands/simple.md, step 2) -/
theorem absent_target_redirection_error_does_not_abort (fuel : Nat) (s : St) (cs acs : Option Nat) (x : Bool) :
    execSimple fuel s (.mk (.ok cs) .absent (.error x) (.ok acs)) =
      ({ s with status := acs.getD ERROR }, ({ s with status := acs.getD ERROR } : St).applyErrexit) ∧
    execSimple fuel s (.mk (.ok cs) .absent (.error x) .error) = (s, handleExpansionError s) := by
  have hb := handleExpansionError_cases s
  have hb' := handleExpansionError_cases (s.push .subshell)
  constructor
  · cases x
    · simp [execSimple, execTarget, handleRedirError, St.applyResult]
    · rcases hb' with hb' | hb' <;>
        simp [execSimple, execTarget, handleRedirError, St.applyResult, hb', Divert.exitStatus]
  · rcases hb with hb | hb <;> simp [execSimple, execTarget, hb]

/-- redirections before assignments, assignments before the utility: with both a failing redirection and a
    failing assignment a regular built-in / function / external utility only sees the redirection error -/
theorem redirection_error_before_assignment_error (fuel : Nat) (s : St) (cs : Option Nat) (a : Assigns) (n : Nat)
    (body : Cmd) :
    execSimple fuel s (.mk (.ok cs) (.function body) (.error false) a) =
      ({ s with status := ERROR }, ({ s with status := ERROR } : St).applyErrexit) ∧
    execSimple fuel s (.mk (.ok cs) (.external n) (.error false) a) =
      ({ s with status := ERROR }, ({ s with status := ERROR } : St).applyErrexit) := by
  constructor <;> simp [execSimple, execTarget, handleRedirError]

/-! ### ★ the primitive error commands of the shared `Exec` model are instances of this model -/

/-- `expErr`, `assignErr`, `redirErr k`, `specialErr wrapped st`, `st n`, `unknown` of `Exec.Model` (whose
    outcomes were typed in per category) are what the transcribed `SimpleCommand::execute` computes -/
theorem exec_primitives_are_instances (fuel f : Nat) (s : St) :
    (∀ t r a, execCmd (fuel+1) s .expErr = execSimple f s (.mk .error t r a)) ∧
    (∀ cs ty b, execCmd (fuel+1) s .assignErr = execSimple f s (.mk (.ok cs) (.builtin ty b) .none .error)) ∧
    (∀ cs, execCmd (fuel+1) s .assignErr = execSimple f s (.mk (.ok cs) .absent .none .error)) ∧
    (∀ cs b a, execCmd (fuel+1) s (.redirErr .special) =
      execSimple f s (.mk (.ok cs) (.builtin .special b) (.error false) a)) ∧
    (∀ cs b a, execCmd (fuel+1) s (.redirErr .regular) =
      execSimple f s (.mk (.ok cs) (.builtin .mandatory b) (.error false) a)) ∧
    (∀ cs b a, execCmd (fuel+1) s (.redirErr .function) =
      execSimple f s (.mk (.ok cs) (.function b) (.error false) a)) ∧
    (∀ cs n a, execCmd (fuel+1) s (.redirErr .external) =
      execSimple f s (.mk (.ok cs) (.external n) (.error false) a)) ∧
    (∀ cs, execCmd (fuel+1) s (.redirErr .absent) =
      execSimple f s (.mk (.ok cs) .absent (.error false) (.ok none))) ∧
    (∀ cs st, execCmd (fuel+1) s (.specialErr false st) =
      execSimple f s (.mk (.ok cs) (.builtin .special (.report st)) .none (.ok none))) ∧
    (∀ cs st, execCmd (fuel+1) s (.specialErr true st) =
      execSimple f s (.mk (.ok cs) (.builtin .mandatory (.command (.report st))) .none (.ok none))) ∧
    (∀ cs n, execCmd (fuel+1) s (.st n) =
      execSimple f s (.mk (.ok cs) (.builtin .mandatory (.result n none)) .none (.ok none))) ∧
    (∀ cs, execCmd (fuel+1) s .unknown = execSimple f s (.mk (.ok cs) (.external NOT_FOUND) .none (.ok none))) := by
  have hb := handleExpansionError_cases s
  have he : s.expansionError = handleExpansionError s := rfl
  have hsp : BuiltinType.special.redirInterrupts = true := by decide
  have hma : BuiltinType.mandatory.redirInterrupts = false := by decide
  refine ⟨?_, ?_, ?_, ?_, ?_, ?_, ?_, ?_, ?_, ?_, ?_, ?_⟩
  · intro t r a; simp [execCmd, execSimple, he]
  · intro cs ty b; rcases hb with hb | hb <;> simp [execCmd, execSimple, execTarget, he, hb]
  · intro cs; rcases hb with hb | hb <;> simp [execCmd, execSimple, execTarget, he, hb]
  · intro cs b a; simp [execCmd, execSimple, execTarget, handleRedirError, hsp, ERROR]
  · intro cs b a; simp [execCmd, execSimple, execTarget, handleRedirError, hma, ERROR]
  · intro cs b a; simp [execCmd, execSimple, execTarget, handleRedirError, ERROR]
  · intro cs n a; simp [execCmd, execSimple, execTarget, handleRedirError, ERROR]
  · intro cs; simp [execCmd, execSimple, execTarget, handleRedirError, St.applyResult, ERROR]
  · intro cs st
    simp [execCmd, finishSimple, execSimple, execTarget, execBody, reportDivert, currentBuiltin, St.push, St.pop]
  · intro cs st
    simp [execCmd, finishSimple, execSimple, execTarget, execBody, reportDivert, currentBuiltin, St.push, St.pop]
  · intro cs n
    simp [execCmd, finishSimple, execSimple, execTarget, execBody, optDivert, St.push, St.pop]
  · intro cs; simp [execCmd, finishSimple, execSimple, execTarget, NOT_FOUND]

/-! ### ★ the read-eval loop: a non-interactive shell stops where an interactive one resumes -/

/-- `read_eval_loop_impl`, non-interactive: a line whose result is any `Break` ends the loop at once with that
    result; the lines after it are not even looked at -/
theorem noninteractive_stops_at_break (fuel : Nat) (s : St) (ex : Bool) (l : List Stmt) (rest : List ScLine)
    (d : Divert) (h : (execStmts fuel s l).2 = .break_ d) :
    readEvalLoop false fuel s ex (.cmds l :: rest) = ((execStmts fuel s l).1, .break_ d) := by
  simp only [readEvalLoop]
  generalize execStmts fuel s l = x at h
  obtain ⟨a, r⟩ := x
  simp only at h
  subst h
  simp

/-- …and a line that does not parse ends it with `Interrupt(ERROR)`, interactive: ignored, `$? = ERROR` -/
theorem syntax_error_line (fuel : Nat) (s : St) (ex : Bool) (rest : List ScLine) :
    readEvalLoop false fuel s ex (.syntaxError :: rest) = (s, .break_ (.interrupt (some ERROR))) ∧
    readEvalLoop true fuel s ex (.syntaxError :: rest) = readEvalLoop true fuel { s with status := ERROR } true rest := by
  constructor <;> simp [readEvalLoop, handleParserError]

/-- interactive: an `Interrupt` (a shell error without errexit) only aborts the current line — `$?` takes the
    status the divert carries, if any, and the loop goes on with the next line; an `Exit` (errexit, the `exit`
    built-in) ends the loop as in a non-interactive shell -/
theorem interactive_resumes_after_interrupt (fuel : Nat) (s : St) (ex : Bool) (l : List Stmt) (rest : List ScLine)
    (e : Option Nat) :
    ((execStmts fuel s l).2 = .break_ (.interrupt e) →
      readEvalLoop true fuel s ex (.cmds l :: rest) =
        readEvalLoop true fuel
          (match e with | some e => { (execStmts fuel s l).1 with status := e } | none => (execStmts fuel s l).1)
          (ex || !l.isEmpty) rest) ∧
    ((execStmts fuel s l).2 = .break_ (.exit e) →
      readEvalLoop true fuel s ex (.cmds l :: rest) = ((execStmts fuel s l).1, .break_ (.exit e))) := by
  constructor
  · intro h
    simp only [readEvalLoop]
    generalize execStmts fuel s l = x at h
    obtain ⟨a, r⟩ := x
    simp only at h
    subst h
    cases e <;> rfl
  · intro h
    simp only [readEvalLoop]
    generalize execStmts fuel s l = x at h
    obtain ⟨a, r⟩ := x
    simp only at h
    subst h
    rfl

/-- on a script none of whose lines is interrupted the two loops are the same function -/
theorem loops_agree_without_interrupt (fuel : Nat) : ∀ (script : List ScLine) (s : St) (ex : Bool),
    (∀ l ∈ script, l ≠ .syntaxError) →
    (∀ (t : St) (l : List Stmt), ScLine.cmds l ∈ script → ∀ e, (execStmts fuel t l).2 ≠ .break_ (.interrupt e)) →
    readEvalLoop true fuel s ex script = readEvalLoop false fuel s ex script
  | [], s, ex, _, _ => rfl
  | .syntaxError :: rest, s, ex, h1, _ => absurd rfl (h1 _ (by simp))
  | .cmds l :: rest, s, ex, h1, h2 => by
    have ih := loops_agree_without_interrupt fuel rest
    have hl := h2 s l (by simp)
    simp only [readEvalLoop]
    generalize execStmts fuel s l = x at hl
    obtain ⟨a, r⟩ := x
    simp only at hl
    cases r with
    | continue_ =>
      simp only [if_true]
      exact ih a _ (fun l hl' => h1 l (by simp [hl'])) (fun t l hl' => h2 t l (by simp [hl']))
    | outOfFuel => simp
    | break_ d =>
      cases d with
      | interrupt e => exact absurd rfl (hl e)
      | _ => simp

/-! ### ★ the EXIT trap and the tail of `run_as_shell_process` -/

/-- the generated `match result` of `run_as_shell_process`: `run_exit_trap` is skipped after `Abort` and after
    nothing else -/
theorem exit_trap_skipped_only_after_abort (r : Res) (hf : r ≠ .outOfFuel) :
    runsExitTrap r = false ↔ ∃ e, r = .break_ (.abort e) := by
  cases r with
  | outOfFuel => exact absurd rfl hf
  | continue_ => simp [runsExitTrap]; decide
  | break_ d =>
    cases d <;> simp [runsExitTrap, divertName] <;> decide

/-- what the shell leaves: after `Abort` the state `apply_result` produced; otherwise that of ONE run of the
    EXIT action (`run_trap` under a `Trap` frame, started from that state) -/
theorem shell_tail (i : Bool) (fuel : Nat) (s : St) (ex : Bool) (action : Option (List Stmt)) (script : List ScLine) :
    let x := readEvalLoop i fuel s ex script
    let s1 := x.1.applyResult x.2
    (runShellSc i fuel s ex action script).pre = s1.status ∧
    ((∃ e, x.2 = .break_ (.abort e)) → (runShellSc i fuel s ex action script).final = s1) ∧
    (x.2 ≠ .outOfFuel → (∀ e, x.2 ≠ .break_ (.abort e)) →
      (runShellSc i fuel s ex action script).final = (runExitTrapSc fuel s1 action).1) := by
  refine ⟨rfl, ?_, ?_⟩
  · rintro ⟨e, he⟩
    have hA : lookupB exitTrapRunsAfter "Abort" = false := by decide
    simp [runShellSc, he, runsExitTrap, divertName, hA]
  · intro hf ha
    have : runsExitTrap (readEvalLoop i fuel s ex script).2 = true := by
      cases h : runsExitTrap (readEvalLoop i fuel s ex script).2
      · obtain ⟨e, he⟩ := (exit_trap_skipped_only_after_abort _ hf).1 h
        exact absurd he (ha e)
      · rfl
    simp [runShellSc, this]

/-! ### ★ the constants and tables of the code (re-extracted on every run) are the ones the models use -/

/-- `Divert.rank` of the shared model is the position in the declaration of `enum Divert` (its derived `Ord`),
    and `Divert.exitStatus` is the generated `Divert::exit_status` table -/
theorem divert_tables (d : Divert) :
    divertVariants[d.rank]? = some (divertName d) ∧
    (lookupB divertCarries (divertName d) = false → d.exitStatus = none) ∧
    (lookupB divertCarries (divertName d) = true →
      ∃ e, d.exitStatus = e ∧ (d = .return_ e ∨ d = .interrupt e ∨ d = .exit e ∨ d = .abort e)) := by
  cases d <;> refine ⟨by simp [Divert.rank, divertName, divertVariants], ?_, ?_⟩ <;>
    simp [divertName, divertCarries, lookupB, Divert.exitStatus]

/-- only a special built-in turns a redirection error into an interrupt (the generated `match` of
    `execute_builtin`) -/
theorem redir_interrupts_iff_special (ty : BuiltinType) : ty.redirInterrupts = true ↔ ty = .special :=
  redirInterrupts_iff ty

/-- the statuses typed into the shared `Exec` model are the `ExitStatus` constants of the code -/
theorem error_statuses_are_the_constants (fuel : Nat) (s : St) :
    (s.applyResult s.expansionError).status = ERROR ∧
    (execCmd (fuel+1) s .unknown).1.status = NOT_FOUND ∧
    (execCmd (fuel+1) s (.redirErr .regular)).1.status = ERROR ∧
    (runScript (fuel+1) s [.syntaxError]).1.status = ERROR ∧
    (execCmd (fuel+1) { s with funcs := [] } (.call .xtPath 0)).1.status = NOEXEC ∧
    (breakBuiltin [] 1 true).1 = FAILURE ∧ SUCCESS = 0 := by
  refine ⟨?_, ?_, ?_, ?_, ?_, ?_, rfl⟩
  · unfold St.expansionError; split <;> simp [St.applyResult, Divert.exitStatus, ERROR]
  · simp [execCmd, finishSimple, NOT_FOUND]
  · simp [execCmd, ERROR]
  · simp [runScript, St.applyResult, Divert.exitStatus, ERROR]
  · simp [execCmd, classify, finishSimple, NOEXEC]
  · simp [breakBuiltin, loopCount, loopCountAux, FAILURE]

/-- the utilities the generators use as special built-ins are `Special` in the code's table, `command` is not,
    and the frame kinds of the model are the variants of `enum Frame` -/
theorem renderer_builtins_have_the_modelled_type :
    (∀ n ∈ [":", "set", "shift", "eval", ".", "source", "return", "exit", "break", "continue", "readonly",
            "export", "unset", "times", "trap", "exec"],
      builtins.lookup n = some "Special") ∧
    builtins.lookup "command" = some "Mandatory" ∧
    (∀ n ∈ ["alias", "getopts", "cd"], builtins.lookup n = some "Mandatory") ∧
    frameVariants = ["Loop", "Subshell", "Condition", "Builtin", "DotScript", "Trap", "InitFile"] ∧
    builtinTypes = [BuiltinType.special.name, BuiltinType.mandatory.name, BuiltinType.elective.name,
                    BuiltinType.extension.name, BuiltinType.substitutive.name] ∧
    parserErrorStatus = [("Syntax", "_", "ERROR"), ("Io", "DotScript", "ERROR"), ("Io", "_", "READ_ERROR")] := by
  decide

/-! ### wave 3: the interactive shell; parser errors by place -/

/-- The interactive shell (docs/src/termination.md, right-hand column; `read_eval_loop_impl` with
    `is_interactive = true`, driven in-process with the `Interactive` option on): an expansion error in the words
    of the first command of a line aborts the line — the rest of it is skipped, `$? = 2`, reading resumes — unless
    errexit applies, then the shell exits with 2; an error of a special built-in aborts the line with the
    built-in's status and reading resumes WHETHER OR NOT errexit is set (the documentation says "exit if errexit":
    the code returns `Interrupt(None)` without an errexit check — outside C10, which is about non-interactive
    shells; recorded here as what the code does). -/
theorem interactive_shell_error_consequences (fuel : Nat) (s : St) (ex : Bool) (t : Target) (r : Redirs)
    (a : Assigns) (more : List Stmt) (rest : List ScLine) (cs acs : Option Nat) (st : Nat) :
    (s.errexitApplicable = false →
      readEvalLoop true fuel s ex (.cmds (.plain (.mk .error t r a) :: more) :: rest) =
        readEvalLoop true fuel { s with status := ERROR } true rest) ∧
    (s.errexitApplicable = true →
      readEvalLoop true fuel s ex (.cmds (.plain (.mk .error t r a) :: more) :: rest) =
        (s, .break_ (.exit (some ERROR)))) ∧
    readEvalLoop true fuel s ex
        (.cmds (.plain (.mk (.ok cs) (.builtin .special (.report st)) .none (.ok acs)) :: more) :: rest) =
      readEvalLoop true fuel { s with status := st } true rest := by
  refine ⟨fun h => ?_, fun h => ?_, ?_⟩
  · have hx : execStmts fuel s (.plain (.mk .error t r a) :: more) = (s, .break_ (.interrupt (some ERROR))) := by
      simp [execStmts, execStmt, execSimple, handleExpansionError, h]
    have := (interactive_resumes_after_interrupt fuel s ex _ rest (some ERROR)).1 (by rw [hx])
    rw [this, hx]
    simp
  · have hx : execStmts fuel s (.plain (.mk .error t r a) :: more) = (s, .break_ (.exit (some ERROR))) := by
      simp [execStmts, execStmt, execSimple, handleExpansionError, h]
    have := (interactive_resumes_after_interrupt fuel s ex _ rest (some ERROR)).2 (by rw [hx])
    rw [this, hx]
  · have hb := (special_builtin_error_aborts fuel s cs acs .none st (by intro x; exact Redirs.noConfusion)).1
    have hx : execStmts fuel s (.plain (.mk (.ok cs) (.builtin .special (.report st)) .none (.ok acs)) :: more) =
        ({ s with status := st }, .break_ (.interrupt none)) := by
      simp only [execStmts, execStmt, hb]
    have := (interactive_resumes_after_interrupt fuel s ex _ rest none).1 (by rw [hx])
    rw [this, hx]
    simp

/-- Where a text that does not parse / cannot be read is met, and what that does to a non-interactive shell
    (`Handle for parser::Error`, status column generated from handle.rs): in the main input, in `eval`, in a
    `.` script — `Interrupt(Some(ERROR))`, the shell ends with 2 (for a trap action: `syntax_error_inside_exit_action`);
    a read error of a `.` script is `ERROR` too; a read error of the main input is `READ_ERROR` = 128. -/
theorem syntax_and_read_errors_by_place (fuel : Nat) (s : St) (ex : Bool) (rest : List ScLine) :
    readEvalLoop false fuel s ex (.syntaxError :: rest) = (s, .break_ (.interrupt (some ERROR))) ∧
    (execBody fuel s .evalSyn).2.2 = .break_ (.interrupt (some ERROR)) ∧
    (execBody fuel s .dotSyn).2.2 = .break_ (.interrupt (some ERROR)) ∧
    (execBody fuel s .dotIoErr).2.2 = .break_ (.interrupt (some ERROR)) ∧
    handleParserError false false = .break_ (.interrupt (some READ_ERROR)) ∧
    parserErrorStatus = [("Syntax", "_", "ERROR"), ("Io", "DotScript", "ERROR"), ("Io", "_", "READ_ERROR")] ∧
    ERROR = 2 ∧ READ_ERROR = 128 := by
  refine ⟨by simp [readEvalLoop, handleParserError], by simp [execBody, handleParserError],
    by simp [execBody, handleParserError], by simp [execBody, handleParserError], by simp [handleParserError],
    by decide, rfl, rfl⟩

/-! ### coverage pass: empty inputs, reports without a built-in frame -/

/-- An input that holds no command (`eval ''`, `. empty_file`, and the main script itself): `read_eval_loop_impl`
    returns at once with `executed = false` and sets `$?` to 0 — whatever it was, so errexit cannot fire on it; after
    at least one command the status is left alone.  An error report made while NO built-in is running (empty stack,
    or only non-built-in frames) never interrupts the shell. -/
theorem empty_input_and_frameless_report (fuel : Nat) (s : St) (cs acs : Option Nat) (stack : List Frame)
    (h : ∀ f ∈ stack, ∀ b, f ≠ .builtin b) :
    execSimple fuel s (.mk (.ok cs) (.builtin .special .evalEmpty) .none (.ok acs)) =
      ({ s with status := 0 }, .continue_) ∧
    readEvalLoop false fuel s false [] = ({ s with status := 0 }, .continue_) ∧
    readEvalLoop false fuel s true [] = (s, .continue_) ∧
    reportDivert [] = .continue_ ∧ reportDivert stack = .continue_ := by
  refine ⟨?_, by simp [readEvalLoop, SUCCESS], by simp [readEvalLoop], rfl, ?_⟩
  · simp [execSimple, execTarget, execBody, St.applyErrexit, SUCCESS, St.pop, St.push]
  · have : currentBuiltin stack = none := (current_builtin_none_iff stack).2 h
    simp [reportDivert, this]

/-! ### non-vacuity -/

/-- `. ./missing <ok` directly: aborts with 1; under `command`: continues; the classification says so -/
example :
    (Simple.mk (.ok none) (.builtin .special .dotMissing) (.ok none) (.ok none)).shellError
      = some (.specialBuiltin, 1) ∧
    (Simple.mk (.ok none) (.builtin .mandatory (.command .dotMissing)) .none (.ok none)).shellError = none ∧
    (execSimple 5 { errexit := false } (.mk (.ok none) (.builtin .special .dotMissing) (.ok none) (.ok none))).2
      = .break_ (.interrupt none) := by
  decide

/-- `eval 'st 0 <${u?}'` under errexit inside a condition: classified as an expansion error, stops with 2 -/
example :
    let c : Simple := .mk (.ok none) (.builtin .special (.eval
      (.mk (.ok none) (.builtin .mandatory (.result 0 none)) (.error true) (.ok none)))) .none (.ok none)
    c.shellError = some (.assignOrExpansion, 2) ∧
    (execSimple 5 { errexit := true, stack := [.condition] } c).2 = .break_ (.interrupt (some 2)) ∧
    (execSimple 5 { errexit := true } c).2 = .break_ (.exit (some 2)) := by
  decide

/-- a frame stack with a trap and a dot-script frame above a special built-in's frame -/
example : currentBuiltin [.dotScript, .trap, .subshell, .builtin true, .builtin false] = some true := by decide

/-- a script on which the interactive and the non-interactive loop differ (`set -o nosuch; probe 1` / `probe 2`)
    and one on which `loops_agree_without_interrupt` applies -/
example :
    let bad : Stmt := .plain (.mk (.ok none) (.builtin .special (.report 2)) .none (.ok none))
    let p (m : Nat) : Stmt := .plain (probeSimple m)
    (runShellSc false 5 {} true none [.cmds [bad, p 1], .cmds [p 2]]).final.trace = [] ∧
    (runShellSc true 5 {} true none [.cmds [bad, p 1], .cmds [p 2]]).final.trace = [(2, 2)] ∧
    (runShellSc true 5 {} true none [.cmds [p 1], .cmds [p 2]]).final.trace =
      (runShellSc false 5 {} true none [.cmds [p 1], .cmds [p 2]]).final.trace := by
  decide

/-- `exec no_such_command` with an EXIT action set: the loop returns `Abort`, the action does not run and the
    exit status is 127 (hypothesis of `shell_tail`'s second clause; the reachable form of
    `Exec.abort_skips_exit_trap`) -/
example :
    let ex : Stmt := .plain (.mk (.ok none) (.builtin .special (.result 127 (some (.abort none)))) .none (.ok none))
    let o := runShellSc false 5 {} true (some [.plain (probeSimple 99)]) [.cmds [ex], .cmds [.plain (probeSimple 1)]]
    o.loopResult = .break_ (.abort none) ∧ o.final.trace = [] ∧ o.final.status = 127 := by
  decide

/-- an error inside the EXIT action itself: the action's status-2 error is the exit status -/
example :
    let bad : Stmt := .plain (.mk .error (.builtin .mandatory (.probe 5)) .none (.ok none))
    let o := runShellSc false 5 {} true (some [.plain (probeSimple 99), bad]) [.cmds [.plain (probeSimple 1)]]
    o.final.trace = [(99, 0), (1, 0)] ∧ o.pre = 0 ∧ o.final.status = 2 := by
  decide

end YashModel.Errexit
