/-
  Driver for the `sc` case family of C10 (one structured simple command in context; see Errexit/Model.lean).

  Case line:  sc <seed> (<interactive 0|1> <errexit 0|1> <EXIT action: - | (<stmt>…)>) <line>…
    line   := (L <stmt>…) | (synerr)
    stmt   := (plain S) | (if S a b) | (neg S) | (and S m) | (or S m) | (sub S m) | (grp <redirs> m)
    S      := (s <words> <target> <redirs> <assigns>)
    words  := ok | (cs n) | err
    target := absent | (ext n) | (fn st n) | (fn ret n) | (bi <sp|ma|el|ex|su> <body>)
    body   := (res n) | (resd n <abort|exit>) | (rep n) | (probe m) | (cmd <body>) | (eval S) | evalsyn
              | dotmissing | (dot S) | dotsyn | dotioerr
    redirs := none | ok | (cs n) | err | xerr
    assigns:= none | ok | (cs n) | err
  The seed only drives the harness's surface rendering.

  Output: `trace=<m:$?,…> div=<result of the read-eval loop> pre=<$? before the EXIT trap> status=<n>` and, in the
  Spec column, for a non-interactive case whose first statement is `(plain S)` with a classified shell error:
  `ok` / `FAIL:termination.md:…` — the documentation's table evaluated on the model's run of that command.
-/
import YashModel.Errexit.Spec
import YashModel.Exec.Sexp
namespace YashModel.Errexit
open YashModel.Exec

def item (c : Cmd) : Item := .mk (.mk false [c]) []

def toWords : Sx → Option Words
  | .atom "ok" => some (.ok none)
  | .atom "err" => some .error
  | .list [.atom "cs", n] => n.nat?.map fun n => .ok (some n)
  | _ => none

def toRedirs : Sx → Option Redirs
  | .atom "none" => some .none
  | .atom "ok" => some (.ok none)
  | .atom "err" => some (.error false)
  | .atom "xerr" => some (.error true)
  | .list [.atom "cs", n] => n.nat?.map fun n => .ok (some n)
  | _ => none

def toAssigns : Sx → Option Assigns
  | .atom "none" => some (.ok none)
  | .atom "ok" => some (.ok none)
  | .atom "err" => some .error
  | .list [.atom "cs", n] => n.nat?.map fun n => .ok (some n)
  | _ => none

def toType : Sx → Option BuiltinType
  | .atom "sp" => some .special
  | .atom "ma" => some .mandatory
  | .atom "el" => some .elective
  | .atom "ex" => some .extension
  | .atom "su" => some .substitutive
  | _ => none

mutual
  partial def toBody : Sx → Option Body
    | .list [.atom "res", n] => n.nat?.map fun n => .result n none
    | .list [.atom "resd", n, .atom "abort"] => n.nat?.map fun n => .result n (some (.abort none))
    | .list [.atom "resd", n, .atom "exit"] => n.nat?.map fun n => .result n (some (.exit none))
    | .list [.atom "rep", n] => n.nat?.map .report
    | .list [.atom "probe", m] => m.nat?.map .probe
    | .list [.atom "cmd", b] => (toBody b).map .command
    | .list [.atom "eval", c] => (toSimple c).map .eval
    | .atom "evalsyn" => some .evalSyn
    | .atom "dotmissing" => some .dotMissing
    | .list [.atom "dot", c] => (toSimple c).map .dot
    | .atom "dotsyn" => some .dotSyn
    | .atom "dotioerr" => some .dotIoErr
    | .atom "evalempty" => some .evalEmpty
    | .list [.atom "execfail", i] => i.nat?.map fun i => .execFail (i != 0)
    | _ => none

  partial def toTarget : Sx → Option Target
    | .atom "absent" => some .absent
    | .list [.atom "ext", n] => n.nat?.map .external
    | .list [.atom "fn", .atom "st", n] =>
      n.nat?.map fun n => .function (.group [item (.probe 7), item (.st n)])
    | .list [.atom "fn", .atom "ret", n] =>
      n.nat?.map fun n => .function (.group [item (.probe 7), item (.ret (some n)), item (.probe 8)])
    | .list [.atom "bi", ty, b] => do
      let ty ← toType ty
      let b ← toBody b
      pure (.builtin ty b)
    | _ => none

  partial def toSimple : Sx → Option Simple
    | .list [.atom "s", w, t, r, a] => do
      let w ← toWords w
      let t ← toTarget t
      let r ← toRedirs r
      let a ← toAssigns a
      pure (.mk w t r a)
    | _ => none
end

def toStmt : Sx → Option Stmt
  | .list [.atom "plain", c] => (toSimple c).map .plain
  | .list [.atom "if", c, a, b] => do
    let c ← toSimple c
    let a ← a.nat?
    let b ← b.nat?
    pure (.ifc c a b)
  | .list [.atom "neg", c] => (toSimple c).map .neg
  | .list [.atom "and", c, m] => do
    let c ← toSimple c
    let m ← m.nat?
    pure (.andor c true m)
  | .list [.atom "or", c, m] => do
    let c ← toSimple c
    let m ← m.nat?
    pure (.andor c false m)
  | .list [.atom "sub", c, m] => do
    let c ← toSimple c
    let m ← m.nat?
    pure (.sub c m)
  | .list [.atom "grp", r, m] => do
    let r ← toRedirs r
    let m ← m.nat?
    pure (.grp r m)
  | _ => none

def toLine : Sx → Option ScLine
  | .list [.atom "synerr"] => some .syntaxError
  | .list (.atom "L" :: stmts) => (stmts.mapM toStmt).map .cmds
  | _ => none

def showOpt : Option Nat → String
  | some n => toString n
  | none => "-"

def showRes : Res → String
  | .continue_ => "cont"
  | .outOfFuel => "FUEL"
  | .break_ (.continue_ n) => s!"Continue:{n}"
  | .break_ (.break_ n) => s!"Break:{n}"
  | .break_ (.return_ e) => s!"Return:{showOpt e}"
  | .break_ (.interrupt e) => s!"Interrupt:{showOpt e}"
  | .break_ (.exit e) => s!"Exit:{showOpt e}"
  | .break_ (.abort e) => s!"Abort:{showOpt e}"

def showSc (o : ScOutcome) : String :=
  s!"trace={showTrace o.final.trace} div={showRes o.loopResult} pre={o.pre} status={o.final.status}"

def showError : ShellError → String
  | .syntax => "syntax" | .specialBuiltin => "special-builtin" | .assignOrExpansion => "assign-or-expansion"
  | .redirection => "redirection"

/-- the documentation's table evaluated on the model's run of the first command of the script -/
def specVerdict (interactive : Bool) (s0 : St) (script : List ScLine) : String :=
  if interactive then "-" else
  match script with
  | .cmds (.plain c :: _) :: _ =>
    match c.shellError with
    | none => "-"
    | some (e, st) =>
      if decide (MeetsDoc s0.errexitApplicable e st (execSimple 1000 s0 c)) then "ok"
      else s!"FAIL:termination.md:{showError e}:status-{st}"
  | _ => "-"

def parseArgs : List Sx → Option (Bool × Bool × Option (List Stmt) × List ScLine)
  | .list [i, e, t] :: lines => do
    let i ← i.nat?
    let e ← e.nat?
    let t ← match t with
      | .atom "-" => some none
      | .list stmts => (stmts.mapM toStmt).map some
      | _ => none
    let ls ← lines.mapM toLine
    pure (i != 0, e != 0, t, ls)
  | _ => none

partial def parseAll (toks : List String) (acc : List Sx) : Option (List Sx) :=
  match toks with
  | [] => some acc.reverse
  | _ => match parseSx toks with
    | some (x, rest) => parseAll rest (x :: acc)
    | none => none

def runSc (line : String) : String :=
  match tokenize line with
  | "sc" :: _seed :: toks =>
    match parseAll toks [] with
    | none => "bad-case\t-"
    | some sxs =>
      match parseArgs sxs with
      | none => "bad-case\t-"
      | some (i, e, t, ls) =>
        -- the prologue (function definitions, `set -e`, `trap … EXIT`) has run: `executed` is true
        let s0 : St := { errexit := e }
        let o := runShellSc i 1000 s0 true t ls
        showSc o ++ "\t" ++ specVerdict i s0 ls
  | _ => "bad-case\t-"

def toFrame : String → Option Frame
  | "loop" => some .loop | "sub" => some .subshell | "cond" => some .condition | "bs" => some (.builtin true)
  | "bn" => some (.builtin false) | "dot" => some .dotScript | "trap" => some .trap | "init" => some .initFile
  | _ => none

/-- `rp <status> <frame, top first>…`: `yash_builtin::common::report::report` called on an Env with that frame stack
    (also the empty one: no built-in is running).  Spec column: the innermost `Builtin` frame decides, found by a
    plain search (`current_builtin_is_innermost` is the theorem) -/
def runRp (line : String) : String :=
  match tokenize line with
  | "rp" :: st :: frames =>
    match st.toNat?, frames.mapM toFrame with
    | some st, some stack =>
      let show_ (r : Res) := s!"status={st} div={showRes r}"
      let spec : Res := match stack.find? (fun f => match f with | .builtin _ => true | _ => false) with
        | some (.builtin true) => .break_ (.interrupt none)
        | _ => .continue_
      show_ (reportDivert stack) ++ "\t=" ++ show_ spec
    | _, _ => "bad-case\t-"
  | _ => "bad-case\t-"

/-- `rd <seed> (<interactive> <errexit> <EXIT action probe 99: 0|1>)`: the main input cannot be read -/
def runRd (line : String) : String :=
  match tokenize line with
  | "rd" :: _seed :: toks =>
    match parseAll toks [] with
    | some [.list [_i, e, t]] =>
      match e.nat?, t.nat? with
      | some e, some t =>
        let s0 : St := { errexit := e != 0 }
        let o := readErrorShell 1000 s0 (if t != 0 then some [.plain (probeSimple 99)] else none)
        showSc o ++ "\t=" ++ showSc o
      | _, _ => "bad-case\t-"
    | _ => "bad-case\t-"
  | _ => "bad-case\t-"

end YashModel.Errexit
