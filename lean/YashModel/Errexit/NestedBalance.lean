/-
  C10, wave 3 — the frame stack is balanced: `execSimple` (for every command, without any hypothesis) and `execN`
  (every construct, every path, every fuel) leave the stack they found.  Lemma file.
-/
import YashModel.Errexit.NestedLemmas
import YashModel.Exec.Balance
namespace YashModel.Errexit
open YashModel.Exec
open YashModel.Generated.ErrexitTables

theorem handleRedirError_stack (s : St) (e : Bool) : (handleRedirError s e).1.stack = s.stack := by
  unfold handleRedirError; split <;> rfl

theorem redirArm_stack (s : St) (e : Bool) (alt : Res) :
    (match (handleRedirError s e).2 with
     | .continue_ => ((handleRedirError s e).1, alt)
     | r => ((handleRedirError s e).1, r)).1.stack = s.stack := by
  split <;> exact handleRedirError_stack s e

mutual
  theorem execBody_stack (fuel : Nat) : ∀ (b : Body) (s : St), (execBody fuel s b).1.stack = s.stack
    | .result _ _, _ => rfl
    | .report _, _ => rfl
    | .probe _, _ => rfl
    | .evalSyn, _ => rfl
    | .dotMissing, _ => rfl
    | .dotSyn, _ => rfl
    | .dotIoErr, _ => rfl
    | .execFail _, _ => rfl
    | .evalEmpty, _ => rfl
    | .command inner, s => by
      simp only [execBody]
      have := execBody_stack fuel inner (s.push (.builtin false))
      simp only [St.push] at this
      simp [St.pop, this, St.push]
    | .eval inner, s => by
      simp only [execBody]
      exact execSimple_stack fuel inner s
    | .dot inner, s => by
      simp only [execBody]
      have := execSimple_stack fuel inner (s.push .dotScript)
      simp only [St.push] at this
      split <;> simp [St.pop, this, St.push]

  theorem execSimple_stack (fuel : Nat) : ∀ (c : Simple) (s : St), (execSimple fuel s c).1.stack = s.stack
    | .mk .error _ _ _, s => by simp only [execSimple]
    | .mk (.ok cs) .absent redirs assigns, s => by
      simp only [execSimple, execTarget]
      cases assigns <;> simp only [] <;> split <;> rfl
    | .mk (.ok cs) (.external st) redirs assigns, s => by
      simp only [execSimple, execTarget]
      cases redirs with
      | error e =>
        simp only []
        have := handleRedirError_stack s e
        split <;> exact this
      | _ => cases assigns <;> simp only [] <;> split <;> rfl
    | .mk (.ok cs) (.function body) redirs assigns, s => by
      simp only [execSimple, execTarget]
      cases redirs with
      | error e =>
        simp only []
        have := handleRedirError_stack s e
        split <;> exact this
      | _ =>
        cases assigns with
        | error => simp only []; split <;> rfl
        | ok a =>
          simp only []
          have hb := (bal fuel).cmd { s with params := 0 } body
          generalize execCmd fuel { s with params := 0 } body = x at hb
          obtain ⟨x1, x2⟩ := x
          simp only at hb
          cases x2 with
          | break_ d => cases d <;> simp only [] <;> (try split) <;> (try split) <;> simp_all
          | _ => simp only []; first | exact hb | (split <;> simp_all)
    | .mk (.ok cs) (.builtin ty body) redirs assigns, s => by
      simp only [execSimple, execTarget]
      cases redirs with
      | error e =>
        simp only []
        have := handleRedirError_stack s e
        split <;> split <;> simp_all
      | _ =>
        cases assigns with
        | error => simp only []; split <;> rfl
        | ok a =>
          simp only []
          have hb := execBody_stack fuel body (s.push (.builtin (ty == .special)))
          simp only [St.push] at hb
          split <;> simp [St.pop, hb, St.push]
end

theorem execSeq_stack {α : Type} (f : St → α → St × Res) (hf : ∀ s x, (f s x).1.stack = s.stack) :
    ∀ (l : List α) (s : St), (execSeq f s l).1.stack = s.stack
  | [], _ => rfl
  | x :: rest, s => by
    simp only [execSeq]
    split
    · rw [execSeq_stack f hf rest, hf]
    · exact hf s x

theorem execAndOrN_stack (f : St → NCmd → St × Res) (hf : ∀ s x, (f s x).1.stack = s.stack) :
    ∀ (rest : List (Bool × NCmd)) (s : St), (execAndOrN f s rest).1.stack = s.stack.tail
  | [], _ => rfl
  | [(k, p)], s => by
    simp only [execAndOrN]
    split
    · rw [hf]; rfl
    · rfl
  | (k, p) :: q :: rest, s => by
    simp only [execAndOrN]
    split
    · split
      · rw [execAndOrN_stack f hf (q :: rest), hf]
      · simp [St.pop, hf]
    · exact execAndOrN_stack f hf (q :: rest) s

structure BalN (fuel : Nat) : Prop where
  n : ∀ s c, (execN fuel s c).1.stack = s.stack
  loop : ∀ s u c b e, (execLoopN fuel s u c b e).1.stack = s.stack
  pipe : ∀ s cs f, (execPipeN fuel s cs f).1.stack = s.stack
  for_ : ∀ s n b, (execForN fuel s n b).1.stack = s.stack
  case_ : ∀ s items f u, (execCaseN fuel s items f u).1.stack = s.stack

theorem balN_loop (fuel : Nat) (ih : BalN fuel) : ∀ s u c b e, (execLoopN (fuel+1) s u c b e).1.stack = s.stack := by
  intro s u c b e
  have hseq := execSeq_stack (execN fuel) ih.n
  simp only [execLoopN]
  have hc : (execSeq (execN fuel) (s.push .condition) c).1.pop.stack = s.stack := by
    simp [St.pop, hseq, St.push]
  split
  · exact hc
  · exact hc
  · split
    · rw [ih.loop]; exact hc
    · split
      · have hb : (execSeq (execN fuel) (execSeq (execN fuel) (s.push .condition) c).1.pop b).1.stack = s.stack := by
          rw [hseq]; exact hc
        split
        · exact hb
        · exact hb
        · split
          · rw [ih.loop]; exact hb
          · rw [ih.loop]; exact hb
      · exact hc

theorem balN_pipe (fuel : Nat) (ih : BalN fuel) : ∀ s cs f, (execPipeN (fuel+1) s cs f).1.stack = s.stack := by
  intro s cs f
  cases cs with
  | nil => rfl
  | cons c rest =>
    simp only [execPipeN]
    split
    · rfl
    · rw [ih.pipe]

theorem balN_for (fuel : Nat) (ih : BalN fuel) : ∀ s n b, (execForN (fuel+1) s n b).1.stack = s.stack := by
  intro s n b
  have hseq := execSeq_stack (execN fuel) ih.n
  cases n with
  | zero => rfl
  | succ n =>
    simp only [execForN]
    split
    · exact hseq _ _
    · exact hseq _ _
    · rw [ih.for_]; exact hseq _ _

theorem balN_case (fuel : Nat) (ih : BalN fuel) :
    ∀ s items f u, (execCaseN (fuel+1) s items f u).1.stack = s.stack := by
  intro s items f u
  have hseq := execSeq_stack (execN fuel) ih.n
  cases items with
  | nil => rfl
  | cons it rest =>
    obtain ⟨m, e, body, k⟩ := it
    simp only [execCaseN]
    split
    · rfl
    · split
      · exact ih.case_ _ _ _ _
      · split
        · split
          · exact hseq _ _
          · rw [ih.case_]; exact hseq _ _
          · rw [ih.case_]; exact hseq _ _
        · exact hseq _ _

theorem leaveJc_stack' (s s1 : St) (h : s1.stack = s.enterJc.stack) : (s.leaveJc s1).stack = s.stack :=
  leaveJc_stack s s1 h

theorem balN_n (fuel : Nat) (ih : BalN fuel) : ∀ s c, (execN (fuel+1) s c).1.stack = s.stack := by
  intro s c
  have hseq := execSeq_stack (execN fuel) ih.n
  cases c with
  | simple c => exact execSimple_stack fuel c s
  | ctl c => exact (bal fuel).cmd s c
  | group body redirs =>
    simp only [execN]
    cases redirs with
    | error e => simp only []; have := handleRedirError_stack s e; split <;> exact this
    | _ => exact hseq _ _
  | sub body =>
    simp only [execN]
    split <;> rfl
  | ifc cond body els =>
    simp only [execN]
    have hc : (execSeq (execN fuel) (s.push .condition) cond).1.pop.stack = s.stack := by
      simp [St.pop, hseq, St.push]
    split
    · split
      · rw [hseq]; exact hc
      · split
        · rw [hseq]; exact hc
        · exact hc
    · exact hc
  | loop u cond body =>
    simp only [execN]
    have hl : (execLoopN fuel (s.push .loop) u cond body 0).1.pop.stack = s.stack := by
      simp [St.pop, ih.loop, St.push]
    split <;> exact hl
  | neg c =>
    simp only [execN]
    have hc : (execN fuel (s.push .condition) c).1.pop.stack = s.stack := by
      simp [St.pop, ih.n, St.push]
    split <;> exact hc
  | andor first rest =>
    simp only [execN]
    split
    · exact ih.n s first
    · split
      · rw [execAndOrN_stack (execN fuel) ih.n, ih.n]; rfl
      · simp [St.pop, ih.n, St.push]
  | call body =>
    simp only [execN]
    split
    · split <;> exact hseq _ _
    · exact hseq _ _
    · exact hseq _ _
  | pipe cmds =>
    simp only [execN]
    have h := leaveJc_stack s (execPipeN fuel s.enterJc cmds 0).1 (ih.pipe _ _ _)
    split <;> exact h
  | forLoop w ro values body =>
    simp only [execN]
    split
    · rfl
    · split
      · rfl
      · split
        · rfl
        · split
          · rfl
          · simp [St.pop, ih.for_, St.push]
  | caseC se items =>
    simp only [execN]
    split
    · rfl
    · split
      · split <;> simp [ih.case_]
      · exact ih.case_ _ _ _ _
  | async body =>
    simp only [execN]
    split <;> rfl
  | forPos body =>
    simp only [execN]
    split
    · rfl
    · simp [St.pop, ih.for_, St.push]
  | polled c =>
    simp only [execN]
    rw [pollWith_stack (execList fuel) (bal fuel).list]
    exact ih.n s c

theorem balN : ∀ fuel, BalN fuel
  | 0 => ⟨fun _ _ => rfl, fun _ _ _ _ _ => rfl, fun _ _ _ => rfl, fun _ _ _ => rfl, fun _ _ _ _ => rfl⟩
  | fuel+1 => ⟨balN_n fuel (balN fuel), balN_loop fuel (balN fuel), balN_pipe fuel (balN fuel),
      balN_for fuel (balN fuel), balN_case fuel (balN fuel)⟩

end YashModel.Errexit
