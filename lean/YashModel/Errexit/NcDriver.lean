/-
  Driver for the `nc` case family of C10 (structured simple commands at any depth; see Errexit/Nested.lean).

  Case line:  nc <seed> (<errexit 0|1> <EXIT action `probe 99` 0|1>) <line>…
    line := (L <ncmd>…) | (synerr)
    ncmd := S                                    -- a structured simple command, grammar of Errexit/ScDriver.lean
          | (ctl C)                              -- a command of the shared model, grammar of Exec/Sexp.lean:
                                                 --   (probe m) (st n) (brk n) (cont n) (ret [n]) (exit [n]) (sete b) (tick c k)
          | (grp <redirs> <ncmd>…)               -- `{ …; } redirection`
          | (sub <ncmd>…)                        -- `( … )`
          | (if (<ncmd>…) (<ncmd>…) -|(<ncmd>…)) -- `if …; then …; [else …;] fi`
          | (loop <until 0|1> (<ncmd>…) (<ncmd>…))
          | (neg <ncmd>)                         -- `! …`
          | (ao <ncmd> (<isAnd 0|1> <ncmd>)…)    -- and-or list
          | (call <ncmd>…)                       -- a function whose body is `{ …; }`
          | (pipe <ncmd>…)                       -- `c1 | c2 | …`
          | (for <words fail 0|1> <read-only variable 0|1> <n> <ncmd>…)
          | (case <subject fails 0|1> (<matches 0|1> <pattern fails 0|1> <b|f|c> <ncmd>…)…)
          | (async <ncmd>…)                      -- `{ …; } & wait`
          | (forpos <ncmd>…)                     -- `for v do …; done`
          | (p <ncmd>)                           -- the command, then the traps of caught signals (command boundary)
  The EXIT action is `0` (none), `1` (`probe 99`) or `(A <line>…)` (a script of its own).
  The seed only drives the harness's surface rendering.

  Output: the observation of the `sc` family, and in the Spec column, when the FIRST command the script executes
  (found by descending through groups, calls, conditions, negations and first pipelines — not through subshells)
  is a structured simple command for which `shell_error_stops_at_any_depth`, `redirection_error_at_any_depth` or
  `errexit_fires_at_any_depth` predicts the end of the shell: `ok` / `FAIL:…` — that prediction (the read-eval loop
  returns Interrupt/Exit, `$?` is the error's status, no probe ran) evaluated on the model's run.
-/
import YashModel.Errexit.Nested
import YashModel.Errexit.ScDriver
namespace YashModel.Errexit
open YashModel.Exec

mutual
  partial def toNCmd : Sx → Option NCmd
    | .list [.atom "ctl", c] => (toCmd c).map .ctl
    | .list (.atom "grp" :: r :: body) => do
      let r ← toRedirs r
      let b ← toNCmds body
      pure (.group b r)
    | .list (.atom "sub" :: body) => (toNCmds body).map .sub
    | .list [.atom "if", .list c, .list b, e] => do
      let c ← toNCmds c
      let b ← toNCmds b
      let e ← match e with
        | .atom "-" => some none
        | .list e => (toNCmds e).map some
        | _ => none
      pure (.ifc c b e)
    | .list [.atom "loop", u, .list c, .list b] => do
      let u ← u.nat?
      let c ← toNCmds c
      let b ← toNCmds b
      pure (.loop (u != 0) c b)
    | .list [.atom "neg", c] => (toNCmd c).map .neg
    | .list (.atom "ao" :: first :: rest) => do
      let f ← toNCmd first
      let r ← toAoRest rest
      pure (.andor f r)
    | .list (.atom "call" :: body) => (toNCmds body).map .call
    | .list (.atom "pipe" :: body) => (toNCmds body).map .pipe
    | .list (.atom "for" :: w :: ro :: n :: body) => do
      let w ← w.nat?
      let ro ← ro.nat?
      let n ← n.nat?
      let b ← toNCmds body
      pure (.forLoop (w != 0) (ro != 0) n b)
    | .list (.atom "case" :: se :: items) => do
      let se ← se.nat?
      let items ← toCaseItems items
      pure (.caseC (se != 0) items)
    | .list (.atom "async" :: body) => (toNCmds body).map .async
    | .list (.atom "forpos" :: body) => (toNCmds body).map .forPos
    | .list [.atom "p", c] => (toNCmd c).map .polled
    | x => (toSimple x).map .simple

  partial def toNCmds : List Sx → Option (List NCmd)
    | [] => some []
    | x :: rest => do
      let a ← toNCmd x
      let b ← toNCmds rest
      pure (a :: b)

  partial def toCaseItems : List Sx → Option (List (Bool × Bool × List NCmd × CaseCont))
    | [] => some []
    | .list (m :: e :: .atom k :: body) :: rest => do
      let m ← m.nat?
      let e ← e.nat?
      let k ← match k with
        | "b" => some CaseCont.break_ | "f" => some .fallThrough | "c" => some .continue_ | _ => none
      let b ← toNCmds body
      let r ← toCaseItems rest
      pure ((m != 0, e != 0, b, k) :: r)
    | _ => none

  partial def toAoRest : List Sx → Option (List (Bool × NCmd))
    | [] => some []
    | .list [k, c] :: rest => do
      let k ← k.nat?
      let c ← toNCmd c
      let r ← toAoRest rest
      pure ((k != 0, c) :: r)
    | _ => none
end

def toNLine : Sx → Option NLine
  | .list [.atom "synerr"] => some .syntaxError
  | .list (.atom "L" :: cmds) => (toNCmds cmds).map .cmds
  | _ => none

/-- the first command the construct executes, when that is a structured simple command reached without
    entering a subshell and without a failing redirection of a group on the way; with the flag "some
    construct on the way is an exempt context" (`Layer.exempt`) -/
partial def firstLeaf : NCmd → Bool → Option (Simple × Bool)
  | .simple c, ex => some (c, ex)
  | .polled n, ex => firstLeaf n ex
  | .group (n :: _) r, ex => (match r with | .error _ => none | _ => firstLeaf n ex)
  | .call (n :: _), ex => firstLeaf n ex
  | .ifc (n :: _) _ _, _ => firstLeaf n true
  | .loop _ (n :: _) _, _ => firstLeaf n true
  | .neg n, _ => firstLeaf n true
  | .andor n [], ex => firstLeaf n ex
  | .andor n (_ :: _), _ => firstLeaf n true
  | .forLoop false false (_ + 1) (n :: _), ex => firstLeaf n ex
  | .caseC false ((true, false, n :: _, _) :: _), ex => firstLeaf n ex
  | _, _ => none

/-- what the theorems of NestedTheorems.lean predict for the first command: the status the shell ends with -/
def predictedEnd (errexit : Bool) (c : Simple) (exempt : Bool) : Option (String × Nat) :=
  match c.shellError with
  | some (.redirection, st) => if errexit && !exempt then some ("redirection", st) else none
  | some (e, st) => some (showError e, st)
  | none =>
    match c with
    | .mk (.ok none) (.external st) .none (.ok none) =>
      if errexit && !exempt && st != 0 then some ("errexit", st) else none
    | _ => none

def specVerdictN (errexit : Bool) (script : List NLine) (o : ScOutcome) (probes : List (Nat × Nat)) : String :=
  match script with
  | .cmds (n :: _) :: _ =>
    match firstLeaf n false with
    | none => "-"
    | some (c, ex) =>
      match predictedEnd errexit c ex with
      | none => "-"
      | some (what, st) =>
        if !stopsShell o.loopResult then s!"FAIL:any-depth:{what}:not-stopped"
        else if o.pre != st then s!"FAIL:any-depth:{what}:status-{st}"
        else if !probes.isEmpty then s!"FAIL:any-depth:{what}:ran-after"
        else "ok"
  | _ => "-"

def parseArgsN : List Sx → Option (Bool × Option (List NLine) × List NLine)
  | .list [e, t] :: lines => do
    let e ← e.nat?
    let t ← match t with
      | .atom "0" => some none
      | .atom "1" => some (some [NLine.cmds [.simple (probeSimple 99)]])
      | .list (.atom "A" :: ls) => (ls.mapM toNLine).map some
      | _ => none
    let ls ← lines.mapM toNLine
    pure (e != 0, t, ls)
  | _ => none

def runNc (line : String) : String :=
  match tokenize line with
  | "nc" :: _seed :: toks =>
    match parseAll toks [] with
    | none => "bad-case\t-"
    | some sxs =>
      match parseArgsN sxs with
      | none => "bad-case\t-"
      | some (e, t, ls) =>
        let s0 : St := { errexit := e }
        let o := runShellN 1000 s0 t ls
        -- what the script itself traced, before the EXIT action
        let probes := (readEvalLoopN 1000 s0 true ls).1.trace
        showSc o ++ "\t" ++ specVerdictN e ls o probes
  | _ => "bad-case\t-"

end YashModel.Errexit
