/-
  C10, extension round — Spec: what docs/src/termination.md ("Shell errors"), docs/src/language/commands/
  simple.md (steps 2–4 of "Semantics") and docs/src/builtins (`command`, `trap`) say about ONE simple
  command, as a table — no execution, no stack, no divert.

    * Command syntax errors                — exit if non-interactive; if interactive, ignore the current
                                             command and resume reading input.
    * Errors in special built-ins          — exit if non-interactive or errexit; otherwise abort the current
      (incl. their redirection errors;       command and resume.
      not when run via `command`)
    * Assignment and expansion errors      — the same.
    * Redirection errors (other commands)  — exit if errexit is set; otherwise continue with the next command.
    * a simple command without a name      — redirections are processed in a subshell: "errors are reported
                                             but do not abort the command" (simple.md, step 2).

  `Simple.shellError` only *classifies* a command by the first of its parts that fails, in the documented
  order (words, then redirections, then assignments, then the utility); `consequence` is the table.
-/
import YashModel.Errexit.Model
namespace YashModel.Errexit
open YashModel.Exec
open YashModel.Generated.ErrexitTables

/-- the classes of shell errors of docs/src/termination.md -/
inductive ShellError where
  | syntax | specialBuiltin | assignOrExpansion | redirection
  deriving DecidableEq, Repr

inductive Consequence where
  | exits            -- the shell exits
  | abortsCommand    -- aborts the current command (line) and resumes reading input
  | continues        -- continues with the next command
  deriving DecidableEq, Repr

/-- docs/src/termination.md, "Shell errors"; `errexit` = the option is set and not ignored at this place
    (docs/src/language/commands/exit_status.md, "Exiting on errors") -/
def consequence (interactive errexit : Bool) : ShellError → Consequence
  | .syntax => if interactive then .abortsCommand else .exits
  | .specialBuiltin => if !interactive || errexit then .exits else .abortsCommand
  | .assignOrExpansion => if !interactive || errexit then .exits else .abortsCommand
  | .redirection => if errexit then .exits else .continues

mutual
  /-- the error of a built-in's body, given whether the utility acts as a special built-in here
      (`command` makes it an ordinary one); with the exit status the documentation gives it -/
  def Body.shellError (special : Bool) : Body → Option (ShellError × Nat)
    | .result _ _ => none
    | .report st => if special ∧ st ≠ 0 then some (.specialBuiltin, st) else none
    | .probe _ => none
    | .command inner => inner.shellError false
    | .eval inner => inner.shellError
    | .evalSyn => some (.syntax, ERROR)
    | .dotMissing => if special then some (.specialBuiltin, FAILURE) else none
    | .dot inner => inner.shellError
    | .dotSyn => some (.syntax, ERROR)
    -- "Unrecoverable errors reading input … does not apply to scripts read by the `source` built-in":
    -- the documentation makes no promise
    | .dotIoErr => none
    -- `exec` that cannot find the utility: the shell is *aborted* (no EXIT trap) or, interactive, goes on —
    -- not one of the shell errors of termination.md
    | .execFail _ => none
    | .evalEmpty => none

  /-- the first part of the command that fails, in the order words → redirections → assignments → utility -/
  def Simple.shellError : Simple → Option (ShellError × Nat)
    | .mk words target redirs assigns =>
      match words with
      | .error => some (.assignOrExpansion, ERROR)
      | .ok _ =>
        match target with
        | .absent =>
          -- no name: redirection errors "are reported but do not abort the command"
          (match assigns with
           | .error => some (.assignOrExpansion, ERROR)
           | .ok _ => none)
        | .builtin ty body =>
          (match redirs with
           | .error true => some (.assignOrExpansion, ERROR)
           | .error false => some (if ty = .special then .specialBuiltin else .redirection, ERROR)
           | _ =>
             match assigns with
             | .error => some (.assignOrExpansion, ERROR)
             | .ok _ => body.shellError (ty = .special))
        | _ =>
          (match redirs with
           | .error true => some (.assignOrExpansion, ERROR)
           | .error false => some (.redirection, ERROR)
           | _ =>
             match assigns with
             | .error => some (.assignOrExpansion, ERROR)
             | .ok _ => none)
end

/-- the result stops the shell (a non-interactive one): an `Interrupt` or an `Exit` -/
def stopsShell : Res → Bool
  | .break_ (.interrupt _) | .break_ (.exit _) => true
  | _ => false

/-- what the documentation promises for a (non-interactive) run `out` of a command classified as `e` with
    status `st`, started where errexit is (`ee = true`) or is not in force -/
def MeetsDoc (ee : Bool) (e : ShellError) (st : Nat) (out : St × Res) : Prop :=
  match consequence false ee e with
  | .exits => stopsShell out.2 = true ∧ (out.1.applyResult out.2).status = st
  | .continues => out.2 = .continue_ ∧ out.1.status = st
  | .abortsCommand => False

instance (ee : Bool) (e : ShellError) (st : Nat) (out : St × Res) : Decidable (MeetsDoc ee e st out) := by
  unfold MeetsDoc; cases consequence false ee e <;> simp only <;> infer_instance

end YashModel.Errexit
