/-
  C10, extension round — the fine-grained Impl model of ONE simple command and of the top of the shell.

  The shared `Exec` model (C02/C10) has the shell errors as *primitive commands* (`expErr`, `assignErr`,
  `redirErr k`, `specialErr wrapped st`): their outcome (status + divert) was typed in per category.  Here the
  code that *produces* those outcomes is transcribed:

    * `SimpleCommand::execute`          yash-semantics/src/command/simple_command.rs      → `execSimple`
    * `execute_builtin`                 …/simple_command/builtin.rs                       → `execBuiltin`
    * `execute_function` (+`_body`)     …/simple_command/function.rs                      → `execFunction`
    * `execute_external_utility`        …/simple_command/external.rs                      → `execExternal`
    * `execute_absent_target`           …/simple_command/absent.rs                        → `execAbsent`
    * `Handle for redir::Error` / `expansion::Error` / `parser::Error`   yash-semantics/src/handle.rs
    * `Stack::current_builtin`          yash-env/src/stack.rs                             → `currentBuiltin`
    * `prepare_report_message_and_divert` / `report`   yash-builtin/src/common/report.rs → `reportDivert`
    * `invoke_target` (Builtin arm) of the `command` built-in   yash-builtin/src/command/invoke.rs
    * `eval::main`                      yash-builtin/src/eval.rs                          → `Body.eval`
    * `read_eval_loop_impl` (both values of `is_interactive`)   yash-semantics/src/runner.rs → `readEvalLoop`
    * `run_trap` / `run_exit_trap`      yash-semantics/src/trap{.rs,/exit.rs}             → `runExitTrapSc`
    * the tail of `run_as_shell_process`   yash-cli/src/lib.rs                           → `runShellSc`

  A simple command is described by what each of its parts does when it is evaluated (the words expand or
  fail, the redirections are performed or fail, the assignments succeed or fail, the target is a built-in of
  some `Type` with some body, a function, an external utility, or absent): the ORDER in which the parts are
  evaluated and which error wins is what this model is about.  Constants and the small tables of the code
  come from `Generated/ErrexitTables.lean` (re-extracted from /repo on every run).

  State, frames, diverts, `apply_errexit`, `apply_result` and the executor of function bodies are the ones of
  `YashModel.Exec.Model`.  Import-free apart from those; executable.
-/
import YashModel.Exec.Model
import YashModel.Generated.ErrexitTables
namespace YashModel.Errexit
open YashModel.Exec
open YashModel.Generated.ErrexitTables

/-- `yash_env::builtin::Type` -/
inductive BuiltinType where
  | special | mandatory | elective | extension | substitutive
  deriving DecidableEq, Repr

def BuiltinType.name : BuiltinType → String
  | .special => "Special" | .mandatory => "Mandatory" | .elective => "Elective"
  | .extension => "Extension" | .substitutive => "Substitutive"

def lookupB (t : List (String × Bool)) (k : String) : Bool :=
  match t with
  | [] => false
  | (n, b) :: rest => if n = k then b else lookupB rest k

/-- the `match builtin.r#type` after a failed `perform_redirs` in `execute_builtin` (generated table) -/
def BuiltinType.redirInterrupts (t : BuiltinType) : Bool := lookupB redirErrorInterrupts t.name

/-- result of `expand_words`: the fields (the first one, if any, names the target — `Target.absent` stands
    for "no field") with the exit status of the last command substitution, or an expansion error -/
inductive Words where
  | ok (cmdsubst : Option Nat)
  | error
  deriving DecidableEq, Repr

/-- result of `perform_redirs`: nothing to do, `Ok(last command substitution)`, or `Err(redir::Error)`;
    `expansion` says that the error is `ErrorCause::Expansion` (the operand did not expand) — the code
    handles every cause alike, the flag is only looked at by the Spec -/
inductive Redirs where
  | none
  | ok (cmdsubst : Option Nat)
  | error (expansion : Bool)
  deriving DecidableEq, Repr

/-- result of `assign::perform_assignments`: `Ok(last command substitution)` (also for no assignment) or an
    `expansion::Error` (read-only variable, or the value did not expand) -/
inductive Assigns where
  | ok (cmdsubst : Option Nat)
  | error
  deriving DecidableEq, Repr

mutual
  /-- what the body of a built-in does -/
  inductive Body where
    | result (status : Nat) (divert : Option Divert)   -- `Result::with_exit_status_and_divert`
    | report (status : Nat)                            -- `report(env, …, status)`: the divert comes from the stack
    | probe (marker : Nat)                             -- the harness's `probe`: trace, `$?` preserved
    | command (inner : Body)                           -- `command <built-in> …`: `invoke_target`, Builtin arm
    | eval (inner : Simple)                            -- `eval '<one simple command>'`
    | evalSyn                                          -- `eval '<text that does not parse>'`
    | dotMissing                                       -- `. file`: the file cannot be found or opened
    | dot (inner : Simple)                             -- `. file`: the file holds one simple command
    | dotSyn                                           -- `. file`: the file does not parse
    | dotIoErr                                         -- `. file`: the file opens but cannot be read (a directory)
    | evalEmpty                                        -- `eval ''` / `. file`: the input holds no command (it may hold
                                                       -- blank and comment lines)
    | execFail (interactiveOption : Bool)              -- `exec no_such_command`; the value of the `Interactive`
                                                       -- option travels in the node (`St` has no such field)
  /-- `yash_semantics::command::search::Target`, or no field at all -/
  inductive Target where
    | builtin (ty : BuiltinType) (body : Body)
    | function (body : Cmd)
    | external (status : Nat)        -- what running it (or not finding it) leaves in `$?`
    | absent
  inductive Simple where
    | mk (words : Words) (target : Target) (redirs : Redirs) (assigns : Assigns)
end

/-- `Stack::current_builtin`: the innermost `Builtin` frame (the stack's top is the head) -/
def currentBuiltin : List Frame → Option Bool
  | [] => none
  | .builtin special :: _ => some special
  | _ :: rest => currentBuiltin rest

/-- `prepare_report_message_and_divert`: a special built-in's error interrupts the shell -/
def reportDivert (stack : List Frame) : Res :=
  let isSpecial := match currentBuiltin stack with
    | some b => b
    | none => false
  if isSpecial then .break_ (.interrupt none) else .continue_

/-- `Handle for expansion::Error` (cause other than `Interrupted`) -/
def handleExpansionError (s : St) : Res :=
  if s.errexitApplicable then .break_ (.exit (some ERROR)) else .break_ (.interrupt (some ERROR))

/-- `Handle for redir::Error`: an operand that did not expand (`ErrorCause::Expansion`) is an expansion
    error like any other; every other cause sets the status to `ERROR` and continues -/
def handleRedirError (s : St) (expansion : Bool) : St × Res :=
  if expansion then (s, handleExpansionError s) else ({ s with status := ERROR }, .continue_)

/-- `Handle for parser::Error`: by cause (`syntaxErr = false` is an I/O error) and source -/
def handleParserError (syntaxErr dotScript : Bool) : Res :=
  .break_ (.interrupt (some (if syntaxErr || dotScript then ERROR else READ_ERROR)))

/-- `Result::divert()` of a built-in's result -/
def optDivert : Option Divert → Res
  | some d => .break_ d
  | none => .continue_

mutual
  /-- the body of a built-in, run with its `Builtin` frame already pushed:
      returns the state, `result.exit_status()` and `result.divert()` -/
  def execBody (fuel : Nat) (s : St) : Body → St × Nat × Res
    | .result st d => (s, st, optDivert d)
    | .report st => (s, st, reportDivert s.stack)
    | .probe m => ({ s with trace := (m, s.status) :: s.trace }, s.status, .continue_)
    | .command inner =>
      -- "Any built-in is considered non-special in the command built-in."
      let x := execBody fuel (s.push (.builtin false)) inner
      (x.1.pop, x.2)
    | .eval inner =>
      -- `run_read_eval_loop` on the string, then `Result::with_exit_status_and_divert(env.exit_status, divert)`
      let x := execSimple fuel s inner
      (x.1, x.1.status, x.2)
    | .evalSyn => (s, s.status, handleParserError true false)
    | .dotMissing =>
      -- `source::Command::execute`: the `DotScript` frame is pushed before the file is looked for;
      -- `report_find_and_open_file_failure` → `report_failure`
      (s, FAILURE, reportDivert (s.push .dotScript).stack)
    | .dot inner =>
      let x := execSimple fuel (s.push .dotScript) inner
      let s1 := x.1.pop
      -- `consume_return`
      match x.2 with
      | .break_ (.return_ e) => (s1, e.getD s1.status, .continue_)
      | r => (s1, s1.status, r)
    | .dotSyn => (s, s.status, handleParserError true true)
    | .dotIoErr => (s, s.status, handleParserError false true)
    | .evalEmpty =>
      -- `read_eval_loop_impl`: only lines without a command, then `Ok(None)` with `executed = false`:
      -- `env.exit_status = SUCCESS` (= `readEvalLoop … false [.cmds [], …]`, theorem `blank_script_leaves_zero`)
      ({ s with status := SUCCESS }, SUCCESS, .continue_)
    | .execFail i =>
      -- `exec::main`: `if !env.is_interactive() { result.set_divert(Break(Abort(None))) }`, then the search fails:
      -- `NOT_FOUND`; `Env::is_interactive` = the option is on and no `Subshell` frame is on the stack
      (s, NOT_FOUND, if i && !s.stack.contains .subshell then .continue_ else .break_ (.abort none))

  /-- the four `execute_*` functions; `wordsStatus` is the exit status `expand_words` returned -/
  def execTarget (fuel : Nat) (s : St) (wordsStatus : Nat) (redirs : Redirs) (assigns : Assigns) : Target → St × Res
    | .builtin ty body =>
      -- `execute_builtin`
      match redirs with
      | .error e =>
        -- `e.handle(env).await?; return match builtin.r#type { … }`
        let h := handleRedirError s e
        (match h.2 with
         | .continue_ => (h.1, if ty.redirInterrupts then .break_ (.interrupt none) else .continue_)
         | r => (h.1, r))
      | _ =>
        match assigns with
        | .error => (s, handleExpansionError s)
        | .ok _ =>
          let x := execBody fuel (s.push (.builtin (ty == .special))) body
          ({ x.1.pop with status := x.2.1 }, x.2.2)
    | .function body =>
      -- `execute_function`
      match redirs with
      | .error e => handleRedirError s e
      | _ =>
        match assigns with
        | .error => (s, handleExpansionError s)
        | .ok _ =>
          -- `execute_function_body`: only `Return` is caught
          let x := execCmd fuel { s with params := 0 } body
          let s1 := { x.1 with params := s.params }
          match x.2 with
          | .break_ (.return_ e) => ((match e with | some e => { s1 with status := e } | none => s1), .continue_)
          | r => (s1, r)
    | .external status =>
      -- `execute_external_utility`
      match redirs with
      | .error e => handleRedirError s e
      | _ =>
        match assigns with
        | .error => (s, handleExpansionError s)
        | .ok _ => ({ s with status := status }, .continue_)
    | .absent =>
      -- `execute_absent_target`: the redirections are performed in a subshell, whose exit status comes
      -- back; a failure there does not stop the assignments
      let redirStatus := match redirs with
        | .none => wordsStatus
        | .ok cs => cs.getD wordsStatus
        | .error e =>
          -- in the subshell: `let result = error.handle(env).await; env.apply_result(result); return`
          let h := handleRedirError (s.push .subshell) e
          (h.1.applyResult h.2).status
      match assigns with
      | .error => (s, handleExpansionError s)
      | .ok cs => ({ s with status := cs.getD redirStatus }, .continue_)

  /-- `impl Command for syntax::SimpleCommand` -/
  def execSimple (fuel : Nat) (s : St) : Simple → St × Res
    | .mk words target redirs assigns =>
      match words with
      | .error => (s, handleExpansionError s)
      | .ok cs =>
        let x := execTarget fuel s (cs.getD SUCCESS) redirs assigns target
        match x.2 with
        | .continue_ => (x.1, x.1.applyErrexit)
        | r => (x.1, r)
end

/-- the simple command `probe m` -/
def probeSimple (m : Nat) : Simple := .mk (.ok none) (.builtin .mandatory (.probe m)) .none (.ok none)

/-- a simple command in one of the contexts that decide whether errexit applies / where an exit ends -/
inductive Stmt where
  | plain (c : Simple)
  | ifc (c : Simple) (thenM elseM : Nat)        -- `if C; then probe a; else probe b; fi`
  | neg (c : Simple)                            -- `! C`
  | andor (c : Simple) (isAnd : Bool) (m : Nat) -- `C && probe m` / `C || probe m`
  | sub (c : Simple) (m : Nat)                  -- `( C; probe m )`
  | grp (redirs : Redirs) (m : Nat)             -- `{ probe m; } <redirection>`: a compound command

/-- the paths of `and_or.rs`, `pipeline.rs` (negation), `compound_command/{if,subshell}.rs` through these
    fixed shapes (the recursive version is `execN` of Errexit/Nested.lean; `fixed_shapes_are_instances` relates the two) -/
def execStmt (fuel : Nat) (s : St) : Stmt → St × Res
  | .plain c => execSimple fuel s c
  | .ifc c a b =>
    let x := execSimple fuel (s.push .condition) c
    let s1 := x.1.pop
    match x.2 with
    | .continue_ => execSimple fuel s1 (probeSimple (if s1.status = 0 then a else b))
    | r => (s1, r)
  | .neg c =>
    let x := execSimple fuel (s.push .condition) c
    let s1 := x.1.pop
    match x.2 with
    | .continue_ => ({ s1 with status := if s1.status = 0 then 1 else 0 }, .continue_)
    | r => (s1, r)
  | .andor c isAnd m =>
    let x := execSimple fuel (s.push .condition) c
    let s1 := x.1.pop
    match x.2 with
    | .continue_ => if (s1.status = 0) = isAnd then execSimple fuel s1 (probeSimple m) else (s1, .continue_)
    | r => (s1, r)
  | .sub c m =>
    -- the child runs on a copy with a `Subshell` frame; status and output come back, then `apply_errexit`
    let x := execSimple fuel (s.push .subshell) c
    let y := match x.2 with
      | .continue_ => execSimple fuel x.1 (probeSimple m)
      | r => (x.1, r)
    let c2 := y.1.applyResult y.2
    let s1 := { s with status := c2.status, trace := c2.trace, pending := c2.pending }
    (s1, s1.applyErrexit)
  | .grp redirs m =>
    -- `impl Command for syntax::FullCompoundCommand`: `error.handle(&mut env).await?; env.apply_errexit()`
    match redirs with
    | .error e =>
      let h := handleRedirError s e
      (match h.2 with
       | .continue_ => (h.1, h.1.applyErrexit)
       | r => (h.1, r))
    | _ => execSimple fuel s (probeSimple m)

/-- `impl Command for syntax::List` on a list of such statements -/
def execStmts (fuel : Nat) (s : St) : List Stmt → St × Res
  | [] => (s, .continue_)
  | st :: rest =>
    let x := execStmt fuel s st
    match x.2 with
    | .continue_ => execStmts fuel x.1 rest
    | r => (x.1, r)

/-- one command line as the parser hands it to `read_eval_loop_impl` -/
inductive ScLine where
  | cmds (l : List Stmt)
  | syntaxError

/-- `read_eval_loop_impl(env, lexer, is_interactive)`; `executed` is its local flag -/
def readEvalLoop (interactive : Bool) (fuel : Nat) (s : St) (executed : Bool) : List ScLine → St × Res
  | [] => (if !executed then { s with status := SUCCESS } else s, .continue_)
  | line :: rest =>
    -- (result, error_recoverable)
    let x : St × Res := match line with
      | .cmds l => execStmts fuel s l
      | .syntaxError => (s, handleParserError true false)
    let y : St × Res :=
      if interactive then
        match x.2 with
        | .break_ (.interrupt e) => ((match e with | some e => { x.1 with status := e } | none => x.1), .continue_)
        | r => (x.1, r)
      else x
    -- since 4afb140: `executed |= !command.0.is_empty()` for a command line, `executed = true` for a parser error — a
    -- line that holds no command (blank, comment) does not count as an executed command
    let executed' := match line with
      | .cmds l => executed || !l.isEmpty
      | .syntaxError => true
    match y.2 with
    | .continue_ => readEvalLoop interactive fuel y.1 executed' rest
    | r => (y.1, r)

/-- `run_trap` for the EXIT condition + `run_exit_trap`'s `apply_result`; the action is one command line -/
def runExitTrapSc (fuel : Nat) (s : St) (action : Option (List Stmt)) : St × Res :=
  match action with
  | none => (s, .continue_)
  | some body =>
    let prev := s.status
    let x := readEvalLoop false fuel (s.push .trap) false [.cmds body]
    let s1 := x.1.pop
    let s2 : St := match x.2 with
      | .break_ (.interrupt (some e)) => { s1 with status := e }
      | .break_ (.interrupt none) => s1
      | _ => { s1 with status := prev }
    (s2.applyResult x.2, x.2)

/-- the name of the `Divert` variant (as in the generated tables) -/
def divertName : Divert → String
  | .continue_ _ => "Continue" | .break_ _ => "Break" | .return_ _ => "Return"
  | .interrupt _ => "Interrupt" | .exit _ => "Exit" | .abort _ => "Abort"

/-- the `match result` at the end of `run_as_shell_process` (generated table) -/
def runsExitTrap : Res → Bool
  | .continue_ => lookupB exitTrapRunsAfter "Normal"
  | .break_ d => lookupB exitTrapRunsAfter (divertName d)
  | .outOfFuel => false

/-- what the family observes of a run: the result of the read-eval loop, `$?` after `apply_result`, and the
    final state -/
structure ScOutcome where
  loopResult : Res
  pre : Nat
  final : St

/-- the tail of `run_as_shell_process`: read-eval loop, `apply_result`, EXIT trap -/
def runShellSc (interactive : Bool) (fuel : Nat) (s : St) (executed : Bool) (action : Option (List Stmt))
    (script : List ScLine) : ScOutcome :=
  let x := readEvalLoop interactive fuel s executed script
  let s1 := x.1.applyResult x.2
  let s2 := if runsExitTrap x.2 then (runExitTrapSc fuel s1 action).1 else s1
  { loopResult := x.2, pre := s1.status, final := s2 }

/-- the shell whose MAIN input cannot be read (`yash <directory>`): the first `command_line()` of
    `read_eval_loop_impl` returns an `Io` error, `Handle for parser::Error` gives `READ_ERROR`; the error is not
    recoverable, so the interactive loop ends too; then the tail of `run_as_shell_process` -/
def readErrorShell (fuel : Nat) (s : St) (action : Option (List Stmt)) : ScOutcome :=
  let r := handleParserError false false
  let s1 := s.applyResult r
  let s2 := if runsExitTrap r then (runExitTrapSc fuel s1 action).1 else s1
  { loopResult := r, pre := s1.status, final := s2 }

end YashModel.Errexit
