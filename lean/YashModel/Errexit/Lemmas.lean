/-
  C10 helper: under a `Condition` frame anywhere on the stack, the errexit option is never consulted —
  two runs that differ only in that option agree on everything else (relational induction on fuel).
-/
import YashModel.Exec.Escape
namespace YashModel.Exec

/-- `b` is `a` except possibly for the errexit option -/
def SameButErrexit (a b : St) : Prop := ∃ e, b = { a with errexit := e }

/-- a `Condition` frame is on the stack -/
def Cond (s : St) : Prop := s.stack.contains .condition = true

theorem sbe_refl (s : St) : SameButErrexit s s := ⟨s.errexit, rfl⟩

theorem cond_push (s : St) (f : Frame) (h : Cond s) : Cond (s.push f) := by
  unfold Cond at *; simp [St.push] at *; exact Or.inr h

theorem cond_push_condition (s : St) : Cond (s.push .condition) := by
  unfold Cond; simp [St.push]

theorem cond_of_stack {s t : St} (h : t.stack = s.stack) (hc : Cond s) : Cond t := by
  unfold Cond at *; rw [h]; exact hc

theorem sbe_stack {a b : St} (h : SameButErrexit a b) : b.stack = a.stack := by
  obtain ⟨e, rfl⟩ := h; rfl

theorem applyErrexit_cond (s : St) (h : Cond s) : s.applyErrexit = .continue_ := by
  unfold Cond at h
  unfold St.applyErrexit St.errexitApplicable
  rw [h]; simp

theorem expansionError_cond (s : St) (h : Cond s) : s.expansionError = .break_ (.interrupt (some 2)) := by
  unfold Cond at h
  unfold St.expansionError St.errexitApplicable
  rw [h]; simp

/-- pairs of results: related states, equal diverts -/
def Rel (x y : St × Res) : Prop := SameButErrexit x.1 y.1 ∧ x.2 = y.2

theorem rel_mk {a b : St} {r : Res} (h : SameButErrexit a b) : Rel (a, r) (b, r) := ⟨h, rfl⟩

theorem rel_finishSimple {a b : St} (h : SameButErrexit a b) (hc : Cond a) (r : Res) :
    Rel (finishSimple a r) (finishSimple b r) := by
  have hb : Cond b := cond_of_stack (sbe_stack h) hc
  unfold finishSimple
  cases r with
  | continue_ => simp only; rw [applyErrexit_cond a hc, applyErrexit_cond b hb]; exact rel_mk h
  | break_ d => exact rel_mk h
  | outOfFuel => exact rel_mk h

/-- a second run is the first one with another option value -/
theorem rel_rewrite {x y : St × Res} (h : Rel x y) : ∃ e, y = ({ x.1 with errexit := e }, x.2) := by
  obtain ⟨⟨e, he⟩, hr⟩ := h
  exact ⟨e, Prod.ext he hr.symm⟩

structure Irr (fuel : Nat) : Prop where
  cmd : ∀ s s' c, SameButErrexit s s' → Cond s → Rel (execCmd fuel s c) (execCmd fuel s' c)
  elifs : ∀ s s' e els, SameButErrexit s s' → Cond s → Rel (execElifs fuel s e els) (execElifs fuel s' e els)
  while_ : ∀ s s' u c b e, SameButErrexit s s' → Cond s →
    SameButErrexit (execWhile fuel s u c b e).1 (execWhile fuel s' u c b e).1 ∧
    (execWhile fuel s u c b e).2 = (execWhile fuel s' u c b e).2
  for_ : ∀ s s' n b, SameButErrexit s s' → Cond s → Rel (execFor fuel s n b) (execFor fuel s' n b)
  case_ : ∀ s s' items f u, SameButErrexit s s' → Cond s →
    SameButErrexit (execCase fuel s items f u).1 (execCase fuel s' items f u).1 ∧
    (execCase fuel s items f u).2 = (execCase fuel s' items f u).2
  list : ∀ s s' l, SameButErrexit s s' → Cond s → Rel (execList fuel s l) (execList fuel s' l)
  item : ∀ s s' i, SameButErrexit s s' → Cond s → Rel (execItem fuel s i) (execItem fuel s' i)
  aor : ∀ s s' r st, SameButErrexit s s' → s.stack = .condition :: st → st.contains .condition = true →
    Rel (execAndOrRest fuel s r) (execAndOrRest fuel s' r)
  pipe : ∀ s s' p, SameButErrexit s s' → Cond s → Rel (execPipeline fuel s p) (execPipeline fuel s' p)
  cmds : ∀ s s' cs, SameButErrexit s s' → Cond s → Rel (execCommands fuel s cs) (execCommands fuel s' cs)
  members : ∀ s s' cs f, SameButErrexit s s' → Cond s →
    Rel (execPipeMembers fuel s cs f) (execPipeMembers fuel s' cs f)

theorem sbe_pop {a b : St} (h : SameButErrexit a b) : SameButErrexit a.pop b.pop := by
  obtain ⟨e, rfl⟩ := h; exact ⟨e, rfl⟩

theorem sbe_push {a b : St} (h : SameButErrexit a b) (f : Frame) : SameButErrexit (a.push f) (b.push f) := by
  obtain ⟨e, rfl⟩ := h; exact ⟨e, rfl⟩

theorem irr_zero : Irr 0 := by
  refine ⟨?_, ?_, ?_, ?_, ?_, ?_, ?_, ?_, ?_, ?_, ?_⟩
  · intro s s' c h _; simp only [execCmd]; exact ⟨h, rfl⟩
  · intro s s' e els h _; simp only [execElifs]; exact ⟨h, rfl⟩
  · intro s s' u c b e h _; simp only [execWhile]; exact ⟨h, trivial⟩
  · intro s s' n b h _; simp only [execFor]; exact ⟨h, rfl⟩
  · intro s s' items f u h _; simp only [execCase]; exact ⟨h, trivial⟩
  · intro s s' l h _; simp only [execList]; exact ⟨h, rfl⟩
  · intro s s' i h _; simp only [execItem]; exact ⟨h, rfl⟩
  · intro s s' r st h _ _; simp only [execAndOrRest]; exact ⟨sbe_pop h, rfl⟩
  · intro s s' p h _; simp only [execPipeline]; exact ⟨h, rfl⟩
  · intro s s' cs h _; simp only [execCommands]; exact ⟨h, rfl⟩
  · intro s s' cs f h _; simp only [execPipeMembers]; exact ⟨h, rfl⟩

end YashModel.Exec
