/-
  C10 helper: under a `Condition` frame anywhere on the stack, the errexit option is never consulted —
  two runs that differ only in that option agree on everything else (relational induction on fuel).
-/
import YashModel.Exec.Escape
namespace YashModel.Exec

/-- `b` is `a` except possibly for the errexit option -/
def SameButErrexit (a b : St) : Prop := ∃ e, b = { a with errexit := e }

/-- a `Condition` frame is on the stack -/
def Cond (s : St) : Prop := s.stack.contains .condition = true

theorem sbe_refl (s : St) : SameButErrexit s s := ⟨s.errexit, rfl⟩

theorem cond_push (s : St) (f : Frame) (h : Cond s) : Cond (s.push f) := by
  unfold Cond at *; simp [St.push] at *; exact Or.inr h

theorem cond_push_condition (s : St) : Cond (s.push .condition) := by
  unfold Cond; simp [St.push]

theorem cond_of_stack {s t : St} (h : t.stack = s.stack) (hc : Cond s) : Cond t := by
  unfold Cond at *; rw [h]; exact hc

theorem sbe_stack {a b : St} (h : SameButErrexit a b) : b.stack = a.stack := by
  obtain ⟨e, rfl⟩ := h; rfl

theorem applyErrexit_cond (s : St) (h : Cond s) : s.applyErrexit = .continue_ := by
  unfold Cond at h
  unfold St.applyErrexit St.errexitApplicable
  rw [h]; simp

theorem expansionError_cond (s : St) (h : Cond s) : s.expansionError = .break_ (.interrupt (some 2)) := by
  unfold Cond at h
  unfold St.expansionError St.errexitApplicable
  rw [h]; simp

/-- pairs of results: related states, equal diverts -/
def Rel (x y : St × Res) : Prop := SameButErrexit x.1 y.1 ∧ x.2 = y.2

theorem rel_mk {a b : St} {r : Res} (h : SameButErrexit a b) : Rel (a, r) (b, r) := ⟨h, rfl⟩

theorem rel_finishSimple {a b : St} (h : SameButErrexit a b) (hc : Cond a) (r : Res) :
    Rel (finishSimple a r) (finishSimple b r) := by
  have hb : Cond b := cond_of_stack (sbe_stack h) hc
  unfold finishSimple
  cases r with
  | continue_ => simp only; rw [applyErrexit_cond a hc, applyErrexit_cond b hb]; exact rel_mk h
  | break_ d => exact rel_mk h
  | outOfFuel => exact rel_mk h

/-- a second run is the first one with another option value -/
theorem rel_rewrite {x y : St × Res} (h : Rel x y) : ∃ e, y = ({ x.1 with errexit := e }, x.2) := by
  obtain ⟨⟨e, he⟩, hr⟩ := h
  exact ⟨e, Prod.ext he hr.symm⟩

structure Irr (fuel : Nat) : Prop where
  cmd : ∀ s s' c, SameButErrexit s s' → Cond s → Rel (execCmd fuel s c) (execCmd fuel s' c)
  elifs : ∀ s s' e els, SameButErrexit s s' → Cond s → Rel (execElifs fuel s e els) (execElifs fuel s' e els)
  while_ : ∀ s s' u c b e, SameButErrexit s s' → Cond s →
    SameButErrexit (execWhile fuel s u c b e).1 (execWhile fuel s' u c b e).1 ∧
    (execWhile fuel s u c b e).2 = (execWhile fuel s' u c b e).2
  for_ : ∀ s s' n b, SameButErrexit s s' → Cond s → Rel (execFor fuel s n b) (execFor fuel s' n b)
  case_ : ∀ s s' items f u, SameButErrexit s s' → Cond s →
    SameButErrexit (execCase fuel s items f u).1 (execCase fuel s' items f u).1 ∧
    (execCase fuel s items f u).2 = (execCase fuel s' items f u).2
  list : ∀ s s' l, SameButErrexit s s' → Cond s → Rel (execList fuel s l) (execList fuel s' l)
  item : ∀ s s' i, SameButErrexit s s' → Cond s → Rel (execItem fuel s i) (execItem fuel s' i)
  aor : ∀ s s' r st, SameButErrexit s s' → s.stack = .condition :: st → st.contains .condition = true →
    Rel (execAndOrRest fuel s r) (execAndOrRest fuel s' r)
  pipe : ∀ s s' p, SameButErrexit s s' → Cond s → Rel (execPipeline fuel s p) (execPipeline fuel s' p)
  cmds : ∀ s s' cs, SameButErrexit s s' → Cond s → Rel (execCommands fuel s cs) (execCommands fuel s' cs)
  members : ∀ s s' cs f, SameButErrexit s s' → Cond s →
    Rel (execPipeMembers fuel s cs f) (execPipeMembers fuel s' cs f)

theorem sbe_pop {a b : St} (h : SameButErrexit a b) : SameButErrexit a.pop b.pop := by
  obtain ⟨e, rfl⟩ := h; exact ⟨e, rfl⟩

theorem sbe_push {a b : St} (h : SameButErrexit a b) (f : Frame) : SameButErrexit (a.push f) (b.push f) := by
  obtain ⟨e, rfl⟩ := h; exact ⟨e, rfl⟩

theorem irr_zero : Irr 0 := by
  refine ⟨?_, ?_, ?_, ?_, ?_, ?_, ?_, ?_, ?_, ?_, ?_⟩
  · intro s s' c h _; simp only [execCmd]; exact ⟨h, rfl⟩
  · intro s s' e els h _; simp only [execElifs]; exact ⟨h, rfl⟩
  · intro s s' u c b e h _; simp only [execWhile]; exact ⟨h, trivial⟩
  · intro s s' n b h _; simp only [execFor]; exact ⟨h, rfl⟩
  · intro s s' items f u h _; simp only [execCase]; exact ⟨h, trivial⟩
  · intro s s' l h _; simp only [execList]; exact ⟨h, rfl⟩
  · intro s s' i h _; simp only [execItem]; exact ⟨h, rfl⟩
  · intro s s' r st h _ _; simp only [execAndOrRest]; exact ⟨sbe_pop h, rfl⟩
  · intro s s' p h _; simp only [execPipeline]; exact ⟨h, rfl⟩
  · intro s s' cs h _; simp only [execCommands]; exact ⟨h, rfl⟩
  · intro s s' cs f h _; simp only [execPipeMembers]; exact ⟨h, rfl⟩


theorem irr_list (fuel : Nat) (ih : Irr fuel) :
    ∀ s s' l, SameButErrexit s s' → Cond s → Rel (execList (fuel+1) s l) (execList (fuel+1) s' l) := by
  intro s s' l h hc
  cases l with
  | nil => simp only [execList]; exact rel_mk h
  | cons it rest =>
    simp only [execList]
    have h1 := ih.item s s' it h hc
    have b1 := (bal fuel).item s it
    obtain ⟨e1, he1⟩ := rel_rewrite h1
    rw [he1]
    generalize execItem fuel s it = x at *
    obtain ⟨s1, r⟩ := x
    cases r with
    | continue_ => exact ih.list s1 _ rest ⟨e1, rfl⟩ (cond_of_stack b1 hc)
    | break_ d => exact rel_mk ⟨e1, rfl⟩
    | outOfFuel => exact rel_mk ⟨e1, rfl⟩

theorem irr_item (fuel : Nat) (ih : Irr fuel) :
    ∀ s s' i, SameButErrexit s s' → Cond s → Rel (execItem (fuel+1) s i) (execItem (fuel+1) s' i) := by
  intro s s' i h hc
  obtain ⟨first, rest⟩ := i
  cases rest with
  | nil => simp only [execItem]; exact ih.pipe s s' first h hc
  | cons a t =>
    simp only [execItem]
    have h1 := ih.pipe (s.push .condition) (s'.push .condition) first (sbe_push h _) (cond_push_condition s)
    have b1 := (bal fuel).pipe (s.push .condition) first
    obtain ⟨e1, he1⟩ := rel_rewrite h1
    rw [he1]
    generalize execPipeline fuel (s.push .condition) first = x at *
    obtain ⟨s1, r⟩ := x
    simp only [push_stack] at b1
    cases r with
    | continue_ => exact ih.aor s1 _ (a :: t) s.stack ⟨e1, rfl⟩ b1 hc
    | break_ d => exact rel_mk (sbe_pop ⟨e1, rfl⟩)
    | outOfFuel => exact rel_mk (sbe_pop ⟨e1, rfl⟩)

theorem irr_aor (fuel : Nat) (ih : Irr fuel) :
    ∀ s s' r st, SameButErrexit s s' → s.stack = .condition :: st → st.contains .condition = true →
      Rel (execAndOrRest (fuel+1) s r) (execAndOrRest (fuel+1) s' r) := by
  intro s s' r st h hst hcst
  have hc : Cond s := by unfold Cond; rw [hst]; simp
  have hpop : Cond s.pop := by unfold Cond; rw [pop_stack, hst]; exact hcst
  obtain ⟨e0, rfl⟩ := h
  match r with
  | [] => simp only [execAndOrRest]; exact rel_mk ⟨e0, rfl⟩
  | [(a, p)] =>
    simp only [execAndOrRest]
    show Rel (if (s.pop.status = 0) = (a = true) then execPipeline fuel s.pop p else (s.pop, Res.continue_))
      (if (s.pop.status = 0) = (a = true) then execPipeline fuel ({ s with errexit := e0 }).pop p
        else (({ s with errexit := e0 }).pop, Res.continue_))
    split
    · exact ih.pipe s.pop _ p ⟨e0, rfl⟩ hpop
    · exact rel_mk ⟨e0, rfl⟩
  | (a, p) :: b :: t =>
    simp only [execAndOrRest]
    show Rel (if (s.status = 0) = (a = true) then _ else _) (if (s.status = 0) = (a = true) then _ else _)
    split
    · have h1 := ih.pipe s { s with errexit := e0 } p ⟨e0, rfl⟩ hc
      have b1 := (bal fuel).pipe s p
      obtain ⟨e1, he1⟩ := rel_rewrite h1
      rw [he1]
      generalize execPipeline fuel s p = x at *
      obtain ⟨s1, r⟩ := x
      simp only at b1
      cases r with
      | continue_ => exact ih.aor s1 _ (b :: t) st ⟨e1, rfl⟩ (b1.trans hst) hcst
      | break_ d => exact rel_mk (sbe_pop ⟨e1, rfl⟩)
      | outOfFuel => exact rel_mk (sbe_pop ⟨e1, rfl⟩)
    · exact ih.aor s _ (b :: t) st ⟨e0, rfl⟩ hst hcst


theorem irr_pipe (fuel : Nat) (ih : Irr fuel) :
    ∀ s s' p, SameButErrexit s s' → Cond s → Rel (execPipeline (fuel+1) s p) (execPipeline (fuel+1) s' p) := by
  intro s s' p h hc
  obtain ⟨neg, cmds⟩ := p
  simp only [execPipeline]
  split
  · exact ih.cmds s s' cmds h hc
  · have h1 := ih.cmds (s.push .condition) (s'.push .condition) cmds (sbe_push h _) (cond_push_condition s)
    obtain ⟨e1, he1⟩ := rel_rewrite h1
    rw [he1]
    generalize execCommands fuel (s.push .condition) cmds = x at *
    obtain ⟨s1, r⟩ := x
    cases r with
    | continue_ => exact rel_mk ⟨e1, rfl⟩
    | break_ d => exact rel_mk ⟨e1, rfl⟩
    | outOfFuel => exact rel_mk ⟨e1, rfl⟩

theorem sbe_applyResult {a b : St} (h : SameButErrexit a b) (r : Res) :
    SameButErrexit (a.applyResult r) (b.applyResult r) := by
  obtain ⟨e, rfl⟩ := h
  unfold St.applyResult
  split
  · split <;> exact ⟨e, rfl⟩
  · exact ⟨e, rfl⟩

theorem irr_members (fuel : Nat) (ih : Irr fuel) :
    ∀ s s' cs f, SameButErrexit s s' → Cond s →
      Rel (execPipeMembers (fuel+1) s cs f) (execPipeMembers (fuel+1) s' cs f) := by
  intro s s' cs f h hc
  cases cs with
  | nil => simp only [execPipeMembers]; obtain ⟨e, rfl⟩ := h; exact rel_mk ⟨e, rfl⟩
  | cons c rest =>
    simp only [execPipeMembers]
    have h1 := ih.cmd (s.push .subshell) (s'.push .subshell) c (sbe_push h _) (cond_push s _ hc)
    obtain ⟨e1, he1⟩ := rel_rewrite h1
    rw [he1]
    generalize execCmd fuel (s.push .subshell) c = x at *
    obtain ⟨c1, r⟩ := x
    obtain ⟨e0, rfl⟩ := h
    cases r with
    | outOfFuel => exact rel_mk ⟨e0, rfl⟩
    | continue_ =>
      simp only [St.applyResult]
      exact ih.members _ _ rest _ ⟨e0, rfl⟩ (cond_of_stack rfl hc)
    | break_ d =>
      simp only
      have hst : ({ c1 with errexit := e1 } : St).applyResult (.break_ d) =
          { c1.applyResult (.break_ d) with errexit := e1 } := by
        unfold St.applyResult; split <;> [split <;> rfl; rfl]
      rw [hst]
      exact ih.members _ _ rest _ ⟨e0, rfl⟩ (cond_of_stack rfl hc)

end YashModel.Exec
