/-
  C10 helper: under a `Condition` frame anywhere on the stack, the errexit option is never consulted —
  two runs that differ only in that option agree on everything else (relational induction on fuel).
-/
import YashModel.Exec.Escape
namespace YashModel.Exec

/-- `b` is `a` except possibly for the errexit option -/
def SameButErrexit (a b : St) : Prop := ∃ e, b = { a with errexit := e }

/-- a `Condition` frame is on the stack -/
def Cond (s : St) : Prop := s.stack.contains .condition = true

theorem sbe_refl (s : St) : SameButErrexit s s := ⟨s.errexit, rfl⟩

theorem cond_push (s : St) (f : Frame) (h : Cond s) : Cond (s.push f) := by
  unfold Cond at *; simp [St.push] at *; exact Or.inr h

theorem cond_push_condition (s : St) : Cond (s.push .condition) := by
  unfold Cond; simp [St.push]

theorem cond_of_stack {s t : St} (h : t.stack = s.stack) (hc : Cond s) : Cond t := by
  unfold Cond at *; rw [h]; exact hc

theorem sbe_stack {a b : St} (h : SameButErrexit a b) : b.stack = a.stack := by
  obtain ⟨e, rfl⟩ := h; rfl

theorem applyErrexit_cond (s : St) (h : Cond s) : s.applyErrexit = .continue_ := by
  unfold Cond at h
  unfold St.applyErrexit St.errexitApplicable
  rw [h]; simp

theorem expansionError_cond (s : St) (h : Cond s) : s.expansionError = .break_ (.interrupt (some 2)) := by
  unfold Cond at h
  unfold St.expansionError St.errexitApplicable
  rw [h]; simp

/-- pairs of results: related states, equal diverts -/
def Rel (x y : St × Res) : Prop := SameButErrexit x.1 y.1 ∧ x.2 = y.2

theorem rel_mk {a b : St} {r : Res} (h : SameButErrexit a b) : Rel (a, r) (b, r) := ⟨h, rfl⟩

theorem rel_finishSimple {a b : St} (h : SameButErrexit a b) (hc : Cond a) (r : Res) :
    Rel (finishSimple a r) (finishSimple b r) := by
  have hb : Cond b := cond_of_stack (sbe_stack h) hc
  unfold finishSimple
  cases r with
  | continue_ => simp only; rw [applyErrexit_cond a hc, applyErrexit_cond b hb]; exact rel_mk h
  | break_ d => exact rel_mk h
  | outOfFuel => exact rel_mk h

/-- a second run is the first one with another option value -/
theorem rel_rewrite {x y : St × Res} (h : Rel x y) : ∃ e, y = ({ x.1 with errexit := e }, x.2) := by
  obtain ⟨⟨e, he⟩, hr⟩ := h
  exact ⟨e, Prod.ext he hr.symm⟩

structure Irr (fuel : Nat) : Prop where
  cmd : ∀ s s' c, SameButErrexit s s' → Cond s → Rel (execCmd fuel s c) (execCmd fuel s' c)
  elifs : ∀ s s' e els, SameButErrexit s s' → Cond s → Rel (execElifs fuel s e els) (execElifs fuel s' e els)
  while_ : ∀ s s' u c b e, SameButErrexit s s' → Cond s →
    SameButErrexit (execWhile fuel s u c b e).1 (execWhile fuel s' u c b e).1 ∧
    (execWhile fuel s u c b e).2 = (execWhile fuel s' u c b e).2
  for_ : ∀ s s' n b, SameButErrexit s s' → Cond s → Rel (execFor fuel s n b) (execFor fuel s' n b)
  case_ : ∀ s s' items f u, SameButErrexit s s' → Cond s →
    SameButErrexit (execCase fuel s items f u).1 (execCase fuel s' items f u).1 ∧
    (execCase fuel s items f u).2 = (execCase fuel s' items f u).2
  list : ∀ s s' l, SameButErrexit s s' → Cond s → Rel (execList fuel s l) (execList fuel s' l)
  item : ∀ s s' i, SameButErrexit s s' → Cond s → Rel (execItem fuel s i) (execItem fuel s' i)
  aor : ∀ s s' r st, SameButErrexit s s' → s.stack = .condition :: st → st.contains .condition = true →
    Rel (execAndOrRest fuel s r) (execAndOrRest fuel s' r)
  pipe : ∀ s s' p, SameButErrexit s s' → Cond s → Rel (execPipeline fuel s p) (execPipeline fuel s' p)
  cmds : ∀ s s' cs, SameButErrexit s s' → Cond s → Rel (execCommands fuel s cs) (execCommands fuel s' cs)
  members : ∀ s s' cs f, SameButErrexit s s' → Cond s →
    Rel (execPipeMembers fuel s cs f) (execPipeMembers fuel s' cs f)

theorem sbe_pop {a b : St} (h : SameButErrexit a b) : SameButErrexit a.pop b.pop := by
  obtain ⟨e, rfl⟩ := h; exact ⟨e, rfl⟩

theorem sbe_push {a b : St} (h : SameButErrexit a b) (f : Frame) : SameButErrexit (a.push f) (b.push f) := by
  obtain ⟨e, rfl⟩ := h; exact ⟨e, rfl⟩

theorem irr_zero : Irr 0 := by
  refine ⟨?_, ?_, ?_, ?_, ?_, ?_, ?_, ?_, ?_, ?_, ?_⟩
  · intro s s' c h _; simp only [execCmd]; exact ⟨h, rfl⟩
  · intro s s' e els h _; simp only [execElifs]; exact ⟨h, rfl⟩
  · intro s s' u c b e h _; simp only [execWhile]; exact ⟨h, trivial⟩
  · intro s s' n b h _; simp only [execFor]; exact ⟨h, rfl⟩
  · intro s s' items f u h _; simp only [execCase]; exact ⟨h, trivial⟩
  · intro s s' l h _; simp only [execList]; exact ⟨h, rfl⟩
  · intro s s' i h _; simp only [execItem]; exact ⟨h, rfl⟩
  · intro s s' r st h _ _; simp only [execAndOrRest]; exact ⟨sbe_pop h, rfl⟩
  · intro s s' p h _; simp only [execPipeline]; exact ⟨h, rfl⟩
  · intro s s' cs h _; simp only [execCommands]; exact ⟨h, rfl⟩
  · intro s s' cs f h _; simp only [execPipeMembers]; exact ⟨h, rfl⟩


theorem irr_list (fuel : Nat) (ih : Irr fuel) :
    ∀ s s' l, SameButErrexit s s' → Cond s → Rel (execList (fuel+1) s l) (execList (fuel+1) s' l) := by
  intro s s' l h hc
  cases l with
  | nil => simp only [execList]; exact rel_mk h
  | cons it rest =>
    simp only [execList]
    have h1 := ih.item s s' it h hc
    have b1 := (bal fuel).item s it
    obtain ⟨e1, he1⟩ := rel_rewrite h1
    rw [he1]
    generalize execItem fuel s it = x at *
    obtain ⟨s1, r⟩ := x
    cases r with
    | continue_ => exact ih.list s1 _ rest ⟨e1, rfl⟩ (cond_of_stack b1 hc)
    | break_ d => exact rel_mk ⟨e1, rfl⟩
    | outOfFuel => exact rel_mk ⟨e1, rfl⟩

theorem irr_item (fuel : Nat) (ih : Irr fuel) :
    ∀ s s' i, SameButErrexit s s' → Cond s → Rel (execItem (fuel+1) s i) (execItem (fuel+1) s' i) := by
  intro s s' i h hc
  obtain ⟨first, rest⟩ := i
  cases rest with
  | nil => simp only [execItem]; exact ih.pipe s s' first h hc
  | cons a t =>
    simp only [execItem]
    have h1 := ih.pipe (s.push .condition) (s'.push .condition) first (sbe_push h _) (cond_push_condition s)
    have b1 := (bal fuel).pipe (s.push .condition) first
    obtain ⟨e1, he1⟩ := rel_rewrite h1
    rw [he1]
    generalize execPipeline fuel (s.push .condition) first = x at *
    obtain ⟨s1, r⟩ := x
    simp only [push_stack] at b1
    cases r with
    | continue_ => exact ih.aor s1 _ (a :: t) s.stack ⟨e1, rfl⟩ b1 hc
    | break_ d => exact rel_mk (sbe_pop ⟨e1, rfl⟩)
    | outOfFuel => exact rel_mk (sbe_pop ⟨e1, rfl⟩)

theorem irr_aor (fuel : Nat) (ih : Irr fuel) :
    ∀ s s' r st, SameButErrexit s s' → s.stack = .condition :: st → st.contains .condition = true →
      Rel (execAndOrRest (fuel+1) s r) (execAndOrRest (fuel+1) s' r) := by
  intro s s' r st h hst hcst
  have hc : Cond s := by unfold Cond; rw [hst]; simp
  have hpop : Cond s.pop := by unfold Cond; rw [pop_stack, hst]; exact hcst
  obtain ⟨e0, rfl⟩ := h
  match r with
  | [] => simp only [execAndOrRest]; exact rel_mk ⟨e0, rfl⟩
  | [(a, p)] =>
    simp only [execAndOrRest]
    show Rel (if (s.pop.status = 0) = (a = true) then execPipeline fuel s.pop p else (s.pop, Res.continue_))
      (if (s.pop.status = 0) = (a = true) then execPipeline fuel ({ s with errexit := e0 }).pop p
        else (({ s with errexit := e0 }).pop, Res.continue_))
    split
    · exact ih.pipe s.pop _ p ⟨e0, rfl⟩ hpop
    · exact rel_mk ⟨e0, rfl⟩
  | (a, p) :: b :: t =>
    simp only [execAndOrRest]
    show Rel (if (s.status = 0) = (a = true) then _ else _) (if (s.status = 0) = (a = true) then _ else _)
    split
    · have h1 := ih.pipe s { s with errexit := e0 } p ⟨e0, rfl⟩ hc
      have b1 := (bal fuel).pipe s p
      obtain ⟨e1, he1⟩ := rel_rewrite h1
      rw [he1]
      generalize execPipeline fuel s p = x at *
      obtain ⟨s1, r⟩ := x
      simp only at b1
      cases r with
      | continue_ => exact ih.aor s1 _ (b :: t) st ⟨e1, rfl⟩ (b1.trans hst) hcst
      | break_ d => exact rel_mk (sbe_pop ⟨e1, rfl⟩)
      | outOfFuel => exact rel_mk (sbe_pop ⟨e1, rfl⟩)
    · exact ih.aor s _ (b :: t) st ⟨e0, rfl⟩ hst hcst


theorem irr_pipe (fuel : Nat) (ih : Irr fuel) :
    ∀ s s' p, SameButErrexit s s' → Cond s → Rel (execPipeline (fuel+1) s p) (execPipeline (fuel+1) s' p) := by
  intro s s' p h hc
  obtain ⟨neg, cmds⟩ := p
  simp only [execPipeline]
  split
  · exact ih.cmds s s' cmds h hc
  · have h1 := ih.cmds (s.push .condition) (s'.push .condition) cmds (sbe_push h _) (cond_push_condition s)
    obtain ⟨e1, he1⟩ := rel_rewrite h1
    rw [he1]
    generalize execCommands fuel (s.push .condition) cmds = x at *
    obtain ⟨s1, r⟩ := x
    cases r with
    | continue_ => exact rel_mk ⟨e1, rfl⟩
    | break_ d => exact rel_mk ⟨e1, rfl⟩
    | outOfFuel => exact rel_mk ⟨e1, rfl⟩

theorem sbe_applyResult {a b : St} (h : SameButErrexit a b) (r : Res) :
    SameButErrexit (a.applyResult r) (b.applyResult r) := by
  obtain ⟨e, rfl⟩ := h
  unfold St.applyResult
  split
  · split <;> exact ⟨e, rfl⟩
  · exact ⟨e, rfl⟩

theorem applyResult_errexit (c : St) (e : Bool) (r : Res) :
    ({ c with errexit := e } : St).applyResult r = { c.applyResult r with errexit := e } := by
  unfold St.applyResult
  split
  · split <;> rfl
  · rfl

/-- splits a pair of related results into components -/
theorem rel_cases {x y : St × Res} (h : Rel x y) :
    ∃ s1 r e, x = (s1, r) ∧ y = ({ s1 with errexit := e }, r) := by
  obtain ⟨s1, r⟩ := x
  obtain ⟨s1', r'⟩ := y
  obtain ⟨⟨e, he⟩, hr⟩ := h
  simp only at he hr
  subst he hr
  exact ⟨s1, r, e, rfl, rfl⟩

theorem irr_members (fuel : Nat) (ih : Irr fuel) :
    ∀ s s' cs f, SameButErrexit s s' → Cond s →
      Rel (execPipeMembers (fuel+1) s cs f) (execPipeMembers (fuel+1) s' cs f) := by
  intro s s' cs f h hc
  cases cs with
  | nil => simp only [execPipeMembers]; obtain ⟨e, rfl⟩ := h; exact rel_mk ⟨e, rfl⟩
  | cons c rest =>
    simp only [execPipeMembers]
    obtain ⟨c1, r, e1, hx, hy⟩ :=
      rel_cases (ih.cmd (s.push .subshell) (s'.push .subshell) c (sbe_push h _) (cond_push s _ hc))
    rw [hx, hy]
    obtain ⟨e0, rfl⟩ := h
    cases r with
    | outOfFuel => exact rel_mk ⟨e0, rfl⟩
    | continue_ =>
      simp only [St.applyResult]
      exact ih.members _ _ rest _ ⟨e0, rfl⟩ (cond_of_stack rfl hc)
    | break_ d =>
      simp only [applyResult_errexit]
      exact ih.members _ _ rest _ ⟨e0, rfl⟩ (cond_of_stack rfl hc)


theorem finishPoll_sbe {a b : St} (h : SameButErrexit a b) (p : Nat) (r t : Res) :
    Rel (finishPoll p a r t) (finishPoll p b r t) := by
  obtain ⟨e, rfl⟩ := h
  unfold finishPoll
  cases t with
  | continue_ => cases r <;> exact rel_mk ⟨e, rfl⟩
  | outOfFuel => cases r <;> exact rel_mk ⟨e, rfl⟩
  | break_ d =>
    cases d with
    | interrupt x => cases x <;> cases r <;> exact rel_mk ⟨e, rfl⟩
    | continue_ n => cases r <;> exact rel_mk ⟨e, rfl⟩
    | break_ n => cases r <;> exact rel_mk ⟨e, rfl⟩
    | return_ x => cases r <;> exact rel_mk ⟨e, rfl⟩
    | exit x => cases r <;> exact rel_mk ⟨e, rfl⟩
    | abort x => cases r <;> exact rel_mk ⟨e, rfl⟩

/-- the poll after a command does not depend on the option either: the action runs under the same
    `Condition` frame -/
theorem rel_pollWith (run : St → List Item → St × Res)
    (hrun : ∀ s s' l, SameButErrexit s s' → Cond s → Rel (run s l) (run s' l))
    (s1 : St) (e : Bool) (r : Res) (hc : Cond s1) :
    Rel (pollWith run s1 r) (pollWith run { s1 with errexit := e } r) := by
  unfold pollWith
  have hd : ({ s1 with errexit := e } : St).trapDue = s1.trapDue := rfl
  rw [hd]
  cases r with
  | outOfFuel => exact rel_mk ⟨e, rfl⟩
  | continue_ =>
    simp only
    cases s1.trapDue with
    | none => exact rel_mk ⟨e, rfl⟩
    | some body =>
      simp only
      have h1 := hrun ({ s1 with pending := false }.push .trap)
        (({ s1 with pending := false, errexit := e } : St).push .trap) body ⟨e, rfl⟩
        (cond_push _ _ (cond_of_stack rfl hc))
      obtain ⟨s2, t, e2, hx, hy⟩ := rel_cases h1
      rw [hx]
      have hy' : run (({ s1 with errexit := e, pending := false } : St).push .trap) body =
          ({ s2 with errexit := e2 }, t) := hy
      rw [hy']
      exact finishPoll_sbe ⟨e2, rfl⟩ _ _ _
  | break_ d =>
    simp only
    cases s1.trapDue with
    | none => exact rel_mk ⟨e, rfl⟩
    | some body =>
      simp only
      have h1 := hrun ({ s1 with pending := false }.push .trap)
        (({ s1 with pending := false, errexit := e } : St).push .trap) body ⟨e, rfl⟩
        (cond_push _ _ (cond_of_stack rfl hc))
      obtain ⟨s2, t, e2, hx, hy⟩ := rel_cases h1
      rw [hx]
      have hy' : run (({ s1 with errexit := e, pending := false } : St).push .trap) body =
          ({ s2 with errexit := e2 }, t) := hy
      rw [hy']
      exact finishPoll_sbe ⟨e2, rfl⟩ _ _ _

theorem irr_cmds (fuel : Nat) (ih : Irr fuel) :
    ∀ s s' cs, SameButErrexit s s' → Cond s → Rel (execCommands (fuel+1) s cs) (execCommands (fuel+1) s' cs) := by
  intro s s' cs h hc
  match cs with
  | [] => simp only [execCommands]; obtain ⟨e, rfl⟩ := h; exact rel_mk ⟨e, rfl⟩
  | [c] =>
    simp only [execCommands]
    have b1 := (bal fuel).cmd s c
    obtain ⟨s1, r, e1, hx, hy⟩ := rel_cases (ih.cmd s s' c h hc)
    rw [hx] at b1
    rw [hx, hy]
    exact rel_pollWith _ (fun a b l hab hca => ih.list a b l hab hca) s1 e1 r (cond_of_stack b1 hc)
  | c :: d :: t =>
    simp only [execCommands]
    obtain ⟨e0, rfl⟩ := h
    have hjc : ({ s with errexit := e0 } : St).controlsJobs = s.controlsJobs := rfl
    have henter : ({ s with errexit := e0 } : St).enterJc = { s.enterJc with errexit := e0 } := by
      unfold St.enterJc; rw [hjc]; split <;> rfl
    have hcj : Cond s.enterJc := by
      unfold St.enterJc; split
      · exact cond_push s _ hc
      · exact hc
    have b1 := (bal fuel).members s.enterJc (c :: d :: t) 0
    obtain ⟨s1, r, e1, hx, hy⟩ := rel_cases (ih.members s.enterJc _ (c :: d :: t) 0 ⟨e0, henter⟩ hcj)
    rw [hx] at b1
    rw [hx, hy]
    simp only at b1
    have hl : ∀ x : St, ({ s with errexit := e0 } : St).leaveJc x = s.leaveJc x := by
      intro x; unfold St.leaveJc; rw [hjc]
    have hle : s.leaveJc { s1 with errexit := e1 } = { s.leaveJc s1 with errexit := e1 } := by
      unfold St.leaveJc; split <;> rfl
    simp only [hl, hle]
    have hc1 : Cond (s.leaveJc s1) := cond_of_stack (leaveJc_stack s s1 b1) hc
    cases r with
    | continue_ =>
      have e2 := applyErrexit_cond ({ s.leaveJc s1 with errexit := e1 }) (cond_of_stack rfl hc1)
      have e3 := applyErrexit_cond (s.leaveJc s1) hc1
      simp only [e2, e3]
      exact rel_mk ⟨e1, rfl⟩
    | break_ d => exact rel_mk ⟨e1, rfl⟩
    | outOfFuel => exact rel_mk ⟨e1, rfl⟩

theorem irr_elifs (fuel : Nat) (ih : Irr fuel) :
    ∀ s s' e els, SameButErrexit s s' → Cond s →
      Rel (execElifs (fuel+1) s e els) (execElifs (fuel+1) s' e els) := by
  intro s s' e els h hc
  cases e with
  | nil =>
    simp only [execElifs]
    cases els with
    | none => obtain ⟨e0, rfl⟩ := h; exact rel_mk ⟨e0, rfl⟩
    | some l => exact ih.list s s' l h hc
  | cons cb rest =>
    obtain ⟨cond, body⟩ := cb
    simp only [execElifs]
    have b1 := (bal fuel).list (s.push .condition) cond
    obtain ⟨s1, r, e1, hx, hy⟩ :=
      rel_cases (ih.list (s.push .condition) (s'.push .condition) cond (sbe_push h _) (cond_push_condition s))
    rw [hx] at b1
    rw [hx, hy]
    simp only [push_stack] at b1
    have hc1 : Cond s1.pop := cond_of_stack (by simp [b1]) hc
    cases r with
    | continue_ =>
      simp only
      show Rel (if s1.pop.status = 0 then _ else _) (if s1.pop.status = 0 then _ else _)
      split
      · exact ih.list s1.pop _ body ⟨e1, rfl⟩ hc1
      · exact ih.elifs s1.pop _ rest els ⟨e1, rfl⟩ hc1
    | break_ d => exact rel_mk ⟨e1, rfl⟩
    | outOfFuel => exact rel_mk ⟨e1, rfl⟩

theorem irr_for (fuel : Nat) (ih : Irr fuel) :
    ∀ s s' n b, SameButErrexit s s' → Cond s → Rel (execFor (fuel+1) s n b) (execFor (fuel+1) s' n b) := by
  intro s s' n b h hc
  cases n with
  | zero => simp only [execFor]; exact rel_mk h
  | succ n =>
    simp only [execFor]
    have b1 := (bal fuel).list s b
    obtain ⟨s1, r, e1, hx, hy⟩ := rel_cases (ih.list s s' b h hc)
    rw [hx] at b1
    rw [hx, hy]
    have hc1 : Cond s1 := cond_of_stack b1 hc
    cases hl : loopStep r with
    | stop => exact rel_mk ⟨e1, rfl⟩
    | out r' => exact rel_mk ⟨e1, rfl⟩
    | next => exact ih.for_ s1 _ n b ⟨e1, rfl⟩ hc1

theorem irr_case (fuel : Nat) (ih : Irr fuel) :
    ∀ s s' items f u, SameButErrexit s s' → Cond s →
      SameButErrexit (execCase (fuel+1) s items f u).1 (execCase (fuel+1) s' items f u).1 ∧
      (execCase (fuel+1) s items f u).2 = (execCase (fuel+1) s' items f u).2 := by
  intro s s' items f u h hc
  cases items with
  | nil => simp only [execCase]; exact ⟨h, trivial⟩
  | cons it rest =>
    obtain ⟨m, e, body, k⟩ := it
    simp only [execCase]
    split
    · rw [expansionError_cond s hc, expansionError_cond s' (cond_of_stack (sbe_stack h) hc)]
      exact ⟨h, rfl⟩
    split
    · exact ih.case_ s s' rest false u h hc
    · have b1 := (bal fuel).list s body
      obtain ⟨s1, r, e1, hx, hy⟩ := rel_cases (ih.list s s' body h hc)
      rw [hx] at b1
      rw [hx, hy]
      have hc1 : Cond s1 := cond_of_stack b1 hc
      cases r with
      | continue_ =>
        cases k with
        | break_ => exact ⟨⟨e1, rfl⟩, rfl⟩
        | fallThrough => exact ih.case_ s1 _ rest true _ ⟨e1, rfl⟩ hc1
        | continue_ => exact ih.case_ s1 _ rest false _ ⟨e1, rfl⟩ hc1
      | break_ d => exact ⟨⟨e1, rfl⟩, rfl⟩
      | outOfFuel => exact ⟨⟨e1, rfl⟩, rfl⟩

theorem irr_while (fuel : Nat) (ih : Irr fuel) :
    ∀ s s' u c b e, SameButErrexit s s' → Cond s →
      SameButErrexit (execWhile (fuel+1) s u c b e).1 (execWhile (fuel+1) s' u c b e).1 ∧
      (execWhile (fuel+1) s u c b e).2 = (execWhile (fuel+1) s' u c b e).2 := by
  intro s s' u c b e h hc
  simp only [execWhile]
  have b1 := (bal fuel).list (s.push .condition) c
  obtain ⟨s1, r, e1, hx, hy⟩ :=
    rel_cases (ih.list (s.push .condition) (s'.push .condition) c (sbe_push h _) (cond_push_condition s))
  rw [hx] at b1
  rw [hx, hy]
  simp only [push_stack] at b1
  have hc1 : Cond s1.pop := cond_of_stack (by simp [b1]) hc
  cases r with
  | outOfFuel => simp only [loopStep]; first | exact ⟨⟨e1, rfl⟩, rfl⟩ | exact ⟨⟨e1, rfl⟩, trivial⟩
  | break_ d =>
    cases d with
    | continue_ n =>
      cases n with
      | zero => simp only [loopStep]; exact ih.while_ s1.pop _ u c b e ⟨e1, rfl⟩ hc1
      | succ n => simp only [loopStep]; first | exact ⟨⟨e1, rfl⟩, rfl⟩ | exact ⟨⟨e1, rfl⟩, trivial⟩
    | break_ n =>
      cases n with
      | zero => simp only [loopStep]; first | exact ⟨⟨e1, rfl⟩, rfl⟩ | exact ⟨⟨e1, rfl⟩, trivial⟩
      | succ n => simp only [loopStep]; first | exact ⟨⟨e1, rfl⟩, rfl⟩ | exact ⟨⟨e1, rfl⟩, trivial⟩
    | return_ x => simp only [loopStep]; first | exact ⟨⟨e1, rfl⟩, rfl⟩ | exact ⟨⟨e1, rfl⟩, trivial⟩
    | interrupt x => simp only [loopStep]; first | exact ⟨⟨e1, rfl⟩, rfl⟩ | exact ⟨⟨e1, rfl⟩, trivial⟩
    | exit x => simp only [loopStep]; first | exact ⟨⟨e1, rfl⟩, rfl⟩ | exact ⟨⟨e1, rfl⟩, trivial⟩
    | abort x => simp only [loopStep]; first | exact ⟨⟨e1, rfl⟩, rfl⟩ | exact ⟨⟨e1, rfl⟩, trivial⟩
  | continue_ =>
    simp only [loopStep]
    by_cases hcnd : (s1.pop.status = 0) = ((!u) = true)
    · have hcnd' : (({ s1 with errexit := e1 } : St).pop.status = 0) = ((!u) = true) := hcnd
      rw [if_pos hcnd, if_pos hcnd']
      have b2 := (bal fuel).list s1.pop b
      obtain ⟨s2, r2, e2, hx2, hy2⟩ := rel_cases (ih.list s1.pop _ b ⟨e1, rfl⟩ hc1)
      rw [hx2] at b2
      have hy2' : execList fuel ({ s1 with errexit := e1 } : St).pop b = ({ s2 with errexit := e2 }, r2) := hy2
      rw [hx2, hy2']
      have hc2 : Cond s2 := cond_of_stack b2 hc1
      cases r2 with
      | outOfFuel => simp only [loopStep]; first | exact ⟨⟨e2, rfl⟩, rfl⟩ | exact ⟨⟨e2, rfl⟩, trivial⟩
      | continue_ => simp only [loopStep]; exact ih.while_ s2 _ u c b _ ⟨e2, rfl⟩ hc2
      | break_ d =>
        cases d with
        | continue_ n =>
          cases n with
          | zero => simp only [loopStep]; exact ih.while_ s2 _ u c b e ⟨e2, rfl⟩ hc2
          | succ n => simp only [loopStep]; first | exact ⟨⟨e2, rfl⟩, rfl⟩ | exact ⟨⟨e2, rfl⟩, trivial⟩
        | break_ n =>
          cases n with
          | zero => simp only [loopStep]; first | exact ⟨⟨e2, rfl⟩, rfl⟩ | exact ⟨⟨e2, rfl⟩, trivial⟩
          | succ n => simp only [loopStep]; first | exact ⟨⟨e2, rfl⟩, rfl⟩ | exact ⟨⟨e2, rfl⟩, trivial⟩
        | return_ x => simp only [loopStep]; first | exact ⟨⟨e2, rfl⟩, rfl⟩ | exact ⟨⟨e2, rfl⟩, trivial⟩
        | interrupt x => simp only [loopStep]; first | exact ⟨⟨e2, rfl⟩, rfl⟩ | exact ⟨⟨e2, rfl⟩, trivial⟩
        | exit x => simp only [loopStep]; first | exact ⟨⟨e2, rfl⟩, rfl⟩ | exact ⟨⟨e2, rfl⟩, trivial⟩
        | abort x => simp only [loopStep]; first | exact ⟨⟨e2, rfl⟩, rfl⟩ | exact ⟨⟨e2, rfl⟩, trivial⟩
    · have hcnd' : ¬ (({ s1 with errexit := e1 } : St).pop.status = 0) = ((!u) = true) := hcnd
      rw [if_neg hcnd, if_neg hcnd']
      exact ⟨⟨e1, rfl⟩, rfl⟩


theorem classify_errexit (s : St) (e : Bool) (n : Name) :
    classify { s with errexit := e } n = classify s n := by
  cases n <;> rfl

theorem rel_finishSimple' (a : St) (e : Bool) (hc : Cond a) (r : Res) :
    Rel (finishSimple a r) (finishSimple { a with errexit := e } r) :=
  rel_finishSimple ⟨e, rfl⟩ hc r

theorem applyErrexit_stack (s : St) (h : s.stack.contains .condition = true) : s.applyErrexit = .continue_ :=
  applyErrexit_cond s h

theorem irr_cmd (fuel : Nat) (ih : Irr fuel) :
    ∀ s s' c, SameButErrexit s s' → Cond s → Rel (execCmd (fuel+1) s c) (execCmd (fuel+1) s' c) := by
  intro s s' c h hc
  obtain ⟨e0, rfl⟩ := h
  have hc0 : s.stack.contains .condition = true := hc
  have hc' : Cond ({ s with errexit := e0 } : St) := cond_of_stack rfl hc
  cases c with
  | probe m => simp only [execCmd]; exact rel_finishSimple' _ e0 (by exact cond_of_stack rfl hc) _
  | st n => simp only [execCmd]; exact rel_finishSimple' _ e0 (by exact cond_of_stack rfl hc) _
  | brk n => simp only [execCmd]; exact rel_finishSimple' _ e0 (by exact cond_of_stack rfl hc) _
  | cont n => simp only [execCmd]; exact rel_finishSimple' _ e0 (by exact cond_of_stack rfl hc) _
  | ret n => simp only [execCmd]; exact rel_finishSimple' _ e0 (by exact cond_of_stack rfl hc) _
  | exit n => simp only [execCmd]; exact rel_finishSimple' _ e0 (by exact cond_of_stack rfl hc) _
  | setE on => simp only [execCmd]; exact rel_finishSimple' _ on (by exact cond_of_stack rfl hc) _
  | setM on => simp only [execCmd]; exact rel_finishSimple' _ e0 (by exact cond_of_stack rfl hc) _
  | setP on => simp only [execCmd]; exact rel_finishSimple' _ e0 (by exact cond_of_stack rfl hc) _
  | unknown => simp only [execCmd]; exact rel_finishSimple' _ e0 (by exact cond_of_stack rfl hc) _
  | absent w r a => simp only [execCmd]; exact rel_finishSimple' _ e0 (by exact cond_of_stack rfl hc) _
  | tick c k =>
    simp only [execCmd]
    split <;> exact rel_finishSimple' _ e0 (by exact cond_of_stack rfl hc) _
  | fundef name body =>
    simp only [execCmd]
    cases s.roFuncs.contains name <;> simp only [Bool.false_eq_true, ite_true, ite_false] <;>
      exact rel_finishSimple' _ e0 (by exact cond_of_stack rfl hc) _
  | setParams n => simp only [execCmd]; exact rel_finishSimple' _ e0 (by exact cond_of_stack rfl hc) _
  | freeze name =>
    simp only [execCmd]
    cases lookupFn s.funcs name <;> exact rel_finishSimple' _ e0 (by exact cond_of_stack rfl hc) _
  | forRo values =>
    simp only [execCmd]
    split
    · exact rel_mk ⟨e0, rfl⟩
    · rw [expansionError_cond s hc, expansionError_cond _ hc']
      exact rel_mk ⟨e0, rfl⟩
  | forPos body =>
    simp only [execCmd]
    split
    · exact rel_mk ⟨e0, rfl⟩
    · obtain ⟨s1, r, e1, hx, hy⟩ := rel_cases
        (ih.for_ (s.push .loop) (({ s with errexit := e0 } : St).push .loop) s.params body ⟨e0, rfl⟩ (cond_push s _ hc))
      rw [hx, hy]
      exact rel_mk ⟨e1, rfl⟩
  | expErr =>
    simp only [execCmd]
    rw [expansionError_cond s hc, expansionError_cond _ hc']
    exact rel_mk ⟨e0, rfl⟩
  | assignErr =>
    simp only [execCmd]
    rw [expansionError_cond s hc, expansionError_cond _ hc']
    exact rel_mk ⟨e0, rfl⟩
  | redirErr k =>
    simp only [execCmd]
    cases k <;> simp only [applyErrexit_stack, hc0] <;> exact rel_mk ⟨e0, rfl⟩
  | specialErr w st => simp only [execCmd]; exact rel_finishSimple' _ e0 (by exact cond_of_stack rfl hc) _
  | trapExit body => simp only [execCmd]; exact rel_finishSimple' _ e0 (by exact cond_of_stack rfl hc) _
  | trapSig body => simp only [execCmd]; exact rel_finishSimple' _ e0 (by exact cond_of_stack rfl hc) _
  | raise n => simp only [execCmd]; exact rel_finishSimple' _ e0 (by exact cond_of_stack rfl hc) _
  | raiseErr =>
    simp only [execCmd]
    rw [expansionError_cond { s with pending := true } (cond_of_stack rfl hc),
      expansionError_cond ({ s with errexit := e0, pending := true } : St) (cond_of_stack rfl hc)]
    exact rel_mk ⟨e0, rfl⟩
  | group body => simp only [execCmd]; exact ih.list s _ body ⟨e0, rfl⟩ hc
  | call name nargs =>
    simp only [execCmd, classify_errexit]
    cases hcl : classify s name with
    | specialColon => exact rel_finishSimple' _ e0 (by exact cond_of_stack rfl hc) _
    | regularTrue => exact rel_finishSimple' _ e0 (by exact cond_of_stack rfl hc) _
    | notFound => exact rel_finishSimple' _ e0 (by exact cond_of_stack rfl hc) _
    | status n => exact rel_finishSimple' _ e0 (by exact cond_of_stack rfl hc) _
    | function body =>
      simp only
      have b1 := (bal fuel).cmd { s with params := nargs } body
      obtain ⟨s1, r, e1, hx, hy⟩ := rel_cases
        (ih.cmd { s with params := nargs } { s with errexit := e0, params := nargs } body ⟨e0, rfl⟩ (cond_of_stack rfl hc))
      rw [hx] at b1
      rw [hx, hy]
      have hc1 : Cond s1 := cond_of_stack b1 (cond_of_stack (t := { s with params := nargs }) rfl hc)
      cases r with
      | continue_ => exact rel_finishSimple' _ e1 (by exact cond_of_stack rfl hc1) _
      | outOfFuel => exact rel_finishSimple' _ e1 (by exact cond_of_stack rfl hc1) _
      | break_ d =>
        cases d with
        | return_ x =>
          cases x with
          | none => exact rel_finishSimple' _ e1 (by exact cond_of_stack rfl hc1) _
          | some v => exact rel_finishSimple' _ e1 (by exact cond_of_stack rfl hc1) _
        | continue_ n => exact rel_finishSimple' _ e1 (by exact cond_of_stack rfl hc1) _
        | break_ n => exact rel_finishSimple' _ e1 (by exact cond_of_stack rfl hc1) _
        | interrupt x => exact rel_finishSimple' _ e1 (by exact cond_of_stack rfl hc1) _
        | exit x => exact rel_finishSimple' _ e1 (by exact cond_of_stack rfl hc1) _
        | abort x => exact rel_finishSimple' _ e1 (by exact cond_of_stack rfl hc1) _
  | subshell body =>
    simp only [execCmd]
    obtain ⟨c1, r, e1, hx, hy⟩ := rel_cases
      (ih.list (s.push .subshell) (({ s with errexit := e0 } : St).push .subshell) body ⟨e0, rfl⟩ (cond_push s _ hc))
    rw [hx, hy]
    cases r with
    | outOfFuel => exact rel_mk ⟨e0, rfl⟩
    | continue_ =>
      simp only [St.applyResult, applyErrexit_stack, hc0]
      exact rel_mk ⟨e0, rfl⟩
    | break_ d =>
      simp only [applyResult_errexit, applyErrexit_stack, hc0]
      exact rel_mk ⟨e0, rfl⟩
  | asyncWait body =>
    simp only [execCmd]
    obtain ⟨c1, r, e1, hx, hy⟩ := rel_cases
      (ih.list (s.push .subshell) (({ s with errexit := e0 } : St).push .subshell) body ⟨e0, rfl⟩ (cond_push s _ hc))
    rw [hx, hy]
    cases r with
    | outOfFuel => exact rel_mk ⟨e0, rfl⟩
    | continue_ =>
      simp only [St.applyResult, applyErrexit_stack, hc0]
      exact rel_mk ⟨e0, rfl⟩
    | break_ d =>
      simp only [applyResult_errexit, applyErrexit_stack, hc0]
      exact rel_mk ⟨e0, rfl⟩
  | ifc cond body elifs els =>
    simp only [execCmd]
    have b1 := (bal fuel).list (s.push .condition) cond
    obtain ⟨s1, r, e1, hx, hy⟩ := rel_cases
      (ih.list (s.push .condition) (({ s with errexit := e0 } : St).push .condition) cond ⟨e0, rfl⟩
        (cond_push_condition s))
    rw [hx] at b1
    rw [hx, hy]
    simp only [push_stack] at b1
    have hc1 : Cond s1.pop := cond_of_stack (by simp [b1]) hc
    cases r with
    | continue_ =>
      simp only
      by_cases hz : s1.pop.status = 0
      · have hz' : ({ s1 with errexit := e1 } : St).pop.status = 0 := hz
        rw [if_pos hz, if_pos hz']
        exact ih.list s1.pop _ body ⟨e1, rfl⟩ hc1
      · have hz' : ¬ ({ s1 with errexit := e1 } : St).pop.status = 0 := hz
        rw [if_neg hz, if_neg hz']
        exact ih.elifs s1.pop _ elifs els ⟨e1, rfl⟩ hc1
    | break_ d => exact rel_mk ⟨e1, rfl⟩
    | outOfFuel => exact rel_mk ⟨e1, rfl⟩
  | whileLoop u cond body =>
    simp only [execCmd]
    have hw := ih.while_ (s.push .loop) (({ s with errexit := e0 } : St).push .loop) u cond body 0 ⟨e0, rfl⟩
      (cond_push s _ hc)
    generalize execWhile fuel (s.push .loop) u cond body 0 = x at hw
    generalize execWhile fuel (({ s with errexit := e0 } : St).push .loop) u cond body 0 = y at hw
    obtain ⟨s1, r, e⟩ := x
    obtain ⟨s1', r', e'⟩ := y
    obtain ⟨⟨e1, he⟩, hr⟩ := hw
    simp only at he hr
    obtain ⟨rfl, rfl⟩ := Prod.mk.inj hr
    subst he
    cases r <;> exact rel_mk ⟨e1, rfl⟩
  | forLoop values body =>
    simp only [execCmd]
    split
    · exact rel_mk ⟨e0, rfl⟩
    · obtain ⟨s1, r, e1, hx, hy⟩ := rel_cases
        (ih.for_ (s.push .loop) (({ s with errexit := e0 } : St).push .loop) values body ⟨e0, rfl⟩ (cond_push s _ hc))
      rw [hx, hy]
      exact rel_mk ⟨e1, rfl⟩
  | caseC items =>
    simp only [execCmd]
    have hw := ih.case_ s { s with errexit := e0 } items false false ⟨e0, rfl⟩ hc
    generalize execCase fuel s items false false = x at hw
    generalize execCase fuel ({ s with errexit := e0 } : St) items false false = y at hw
    obtain ⟨s1, r, u⟩ := x
    obtain ⟨s1', r', u'⟩ := y
    obtain ⟨⟨e1, he⟩, hr⟩ := hw
    simp only at he hr
    obtain ⟨rfl, rfl⟩ := Prod.mk.inj hr
    subst he
    cases r with
    | continue_ => simp only; split <;> exact rel_mk ⟨e1, rfl⟩
    | break_ d => exact rel_mk ⟨e1, rfl⟩
    | outOfFuel => exact rel_mk ⟨e1, rfl⟩

theorem irr : ∀ fuel, Irr fuel := by
  intro fuel
  induction fuel with
  | zero => exact irr_zero
  | succ fuel ih =>
    exact ⟨irr_cmd fuel ih, irr_elifs fuel ih, irr_while fuel ih, irr_for fuel ih, irr_case fuel ih,
      irr_list fuel ih, irr_item fuel ih, irr_aor fuel ih, irr_pipe fuel ih, irr_cmds fuel ih,
      irr_members fuel ih⟩

end YashModel.Exec
