/-
  C05 — the order of the code: Rust compares `String`s bytewise on their UTF-8 encoding
  (`a.value.cmp(&b.value)`).  This file proves that this is the order `pathLe` of the model:
  comparing lists of characters by code point is comparing their UTF-8 encodings
  (`String.utf8EncodeChar`, Lean's own encoder) byte by byte.
-/
import YashModel.Glob.SpecExec
namespace YashModel.Glob

/-- the UTF-8 bytes of a list of characters (this is `List.utf8Encode l` as a list) -/
def utf8Bytes (l : List Char) : List UInt8 := l.flatMap String.utf8EncodeChar

theorem utf8Bytes_eq (l : List Char) : (List.utf8Encode l) = (utf8Bytes l).toByteArray := rfl

theorem lexd (a b : UInt8) (r s : List UInt8) (h : a.toNat < b.toNat) : a :: r < b :: s :=
  List.cons_lt_cons_iff.mpr (Or.inl (UInt8.lt_iff_toNat_lt.mpr h))

theorem lexe (a b : UInt8) (r s : List UInt8) (h : a.toNat = b.toNat) (h' : r < s) : a :: r < b :: s :=
  List.cons_lt_cons_iff.mpr (Or.inr ⟨UInt8.toNat_inj.mp h, h'⟩)

theorem lex1 (a b : UInt8) (r s : List UInt8) (h : a.toNat < b.toNat ∨ (a.toNat = b.toNat ∧ r < s)) :
    a :: r < b :: s := by
  rcases h with h | ⟨h, h'⟩
  · exact lexd a b r s h
  · exact lexe a b r s h h'

theorem enc_ne_nil (c : Char) : String.utf8EncodeChar c ≠ [] := by
  unfold String.utf8EncodeChar
  simp only []
  split
  · simp
  · split
    · simp
    · split <;> simp

/-- a smaller code point has a bytewise smaller encoding, decided inside the two encodings
    (no encoding is a prefix of another), so that whatever follows does not matter -/
theorem enc_lt (x y : Char) (h : x.toNat < y.toNat) (r s : List UInt8) :
    String.utf8EncodeChar x ++ r < String.utf8EncodeChar y ++ s := by
  have bx : x.toNat < 1114112 := by
    have := x.valid
    simp only [UInt32.isValidChar, Nat.isValidChar, Char.toNat_val] at this
    omega
  have hb : y.toNat < 1114112 := by
    have := y.valid
    simp only [UInt32.isValidChar, Nat.isValidChar, Char.toNat_val] at this
    omega
  unfold String.utf8EncodeChar
  simp only [Char.toNat_val]
  by_cases hx1 : x.toNat ≤ 127 <;> by_cases hy1 : y.toNat ≤ 127 <;>
  by_cases hx2 : x.toNat ≤ 2047 <;> by_cases hy2 : y.toNat ≤ 2047 <;>
  by_cases hx3 : x.toNat ≤ 65535 <;> by_cases hy3 : y.toNat ≤ 65535 <;>
  simp only [hx1, hy1, hx2, hy2, hx3, hy3, if_true, if_false, List.cons_append, List.nil_append] <;>
  first
  | (exfalso; omega)
  | (apply lexd; simp only [UInt8.toNat_ofNat']; omega)
  | (apply lex1; simp only [UInt8.toNat_ofNat']
     by_cases e1 : x.toNat / 64 % 32 = y.toNat / 64 % 32
     · right; refine ⟨by omega, ?_⟩; apply lexd; simp only [UInt8.toNat_ofNat']; omega
     · left; omega)
  | (apply lex1; simp only [UInt8.toNat_ofNat']
     by_cases e1 : x.toNat / 4096 % 16 = y.toNat / 4096 % 16
     · right; refine ⟨by omega, ?_⟩; apply lex1; simp only [UInt8.toNat_ofNat']
       by_cases e2 : x.toNat / 64 % 64 = y.toNat / 64 % 64
       · right; refine ⟨by omega, ?_⟩; apply lexd; simp only [UInt8.toNat_ofNat']; omega
       · left; omega
     · left; omega)
  | (apply lex1; simp only [UInt8.toNat_ofNat']
     by_cases e0 : x.toNat / 262144 % 8 = y.toNat / 262144 % 8
     · right; refine ⟨by omega, ?_⟩; apply lex1; simp only [UInt8.toNat_ofNat']
       by_cases e1 : x.toNat / 4096 % 64 = y.toNat / 4096 % 64
       · right; refine ⟨by omega, ?_⟩; apply lex1; simp only [UInt8.toNat_ofNat']
         by_cases e2 : x.toNat / 64 % 64 = y.toNat / 64 % 64
         · right; refine ⟨by omega, ?_⟩; apply lexd; simp only [UInt8.toNat_ofNat']; omega
         · left; omega
       · left; omega
     · left; omega)

theorem utf8Bytes_cons (x : Char) (xs : List Char) :
    utf8Bytes (x :: xs) = String.utf8EncodeChar x ++ utf8Bytes xs := by
  simp [utf8Bytes]

/-- the encoding is strictly monotone from the code-point order to the byte order -/
theorem utf8Bytes_lt (a : Path) : ∀ b : Path, a < b → utf8Bytes a < utf8Bytes b := by
  induction a with
  | nil =>
    intro b h
    cases b with
    | nil => exact absurd h (List.not_lt_nil _)
    | cons y ys =>
      rw [utf8Bytes_cons]
      cases he : String.utf8EncodeChar y with
      | nil => exact absurd he (enc_ne_nil y)
      | cons u t => exact List.nil_lt_cons _ _
  | cons x xs ih =>
    intro b h
    cases b with
    | nil => exact absurd h (List.not_lt_nil _)
    | cons y ys =>
      rw [utf8Bytes_cons, utf8Bytes_cons]
      rcases List.cons_lt_cons_iff.mp h with h1 | ⟨e, h2⟩
      · exact enc_lt x y ((char_lt_iff x y).mp h1) _ _
      · subst e
        exact List.append_left_lt (ih ys h2)

theorem path_trichotomy (a b : Path) : a < b ∨ a = b ∨ b < a := by
  by_cases e : a = b
  · exact Or.inr (Or.inl e)
  · have ht := pathLe_total a b
    rw [Bool.or_eq_true] at ht
    rcases ht with ht | ht
    · exact Or.inl ((pathLt_iff a b).mpr ⟨ht, e⟩)
    · exact Or.inr (Or.inr ((pathLt_iff b a).mpr ⟨ht, fun h => e h.symm⟩))

theorem utf8Bytes_lt_iff (a b : Path) : a < b ↔ utf8Bytes a < utf8Bytes b := by
  constructor
  · exact utf8Bytes_lt a b
  · intro h
    rcases path_trichotomy a b with h' | h' | h'
    · exact h'
    · subst h'; exact absurd h (List.lt_irrefl _)
    · exact absurd h (List.lt_asymm (utf8Bytes_lt b a h'))

end YashModel.Glob
