/-
  C05 — the consistency hypothesis `WF` of the two oracles, *proved* for the oracles derived from an
  inode table (`fsOfWorld`), for arbitrary prefixes as the search builds them (empty components, `.`,
  `..`, absolute paths included):
  * existence is prefix-closed in EVERY world whose working directory exists (links, unsearchable
    directories and all) — a look-up cannot pass through anything but a directory;
  * a listing is duplicate-free and contains exactly the existing valid names in every `goodWorld`
    (decidable: unique keys, plain names, no symbolic links, every directory searchable by its owner).
-/
import YashModel.Glob.WorldLemmas
namespace YashModel.Glob
open YashModel.Generated

/-! ### cutting a path at a slash -/

theorem splitSeg_slash (a b : Path) : ∀ cur, splitSeg cur (a ++ '/' :: b) = splitSeg cur a ++ splitSeg [] b := by
  induction a with
  | nil => intro cur; simp [splitSeg]
  | cons c cs ih =>
    intro cur
    by_cases hc : c = '/'
    · subst hc; simp [splitSeg, ih]
    · have : (c == '/') = false := by simpa using hc
      simp [splitSeg, this, ih]

theorem splitSeg_head_len : ∀ (r cur : List Char), ∃ s rest, splitSeg cur r = s :: rest ∧ cur.length ≤ s.length := by
  intro r
  induction r with
  | nil => intro cur; exact ⟨cur.reverse, [], rfl, by simp⟩
  | cons c cs ih =>
    intro cur
    by_cases hc : c = '/'
    · subst hc; exact ⟨cur.reverse, splitSeg [] cs, by simp [splitSeg], by simp⟩
    · have : (c == '/') = false := by simpa using hc
      obtain ⟨s, rest, e, hl⟩ := ih (c :: cur)
      exact ⟨s, rest, by simp [splitSeg, this, e], by simp at hl; omega⟩

theorem get_some_iff (w : World) (abs : Path) (key : List Name) :
    w.get abs = some key ↔
      w.isDir [] = true ∧ w.walk [] (splitSeg [] abs) = some key ∧ (needsDir abs = true → w.isDir key = true) := by
  unfold World.get
  by_cases hr : w.isDir [] = true
  · simp only [hr, if_true, true_and]
    cases hw : w.walk [] (splitSeg [] abs) with
    | none => simp
    | some k =>
      simp only [Option.some.injEq]
      by_cases hn : needsDir abs = true
      · by_cases hd : w.isDir k = true
        · simp only [hn, hd, Bool.not_true, Bool.and_false, Bool.false_eq_true, if_false, Option.some.injEq]
          constructor
          · intro e; subst e; exact ⟨rfl, fun _ => hd⟩
          · intro e; exact e.1
        · have hd' : w.isDir k = false := by simpa using hd
          simp only [hn, hd', Bool.not_false, Bool.and_self, if_true]
          constructor
          · intro e; cases e
          · rintro ⟨e, h⟩; subst e; have := h trivial; rw [hd'] at this; cases this
      · have hn' : needsDir abs = false := by simpa using hn
        simp only [hn', Bool.false_and, Bool.false_eq_true, if_false, Option.some.injEq]
        constructor
        · intro e; exact ⟨e, fun h => by cases h⟩
        · intro e; exact e.1
  · simp [hr]

/-! ### a look-up only passes through directories -/

/-- a path segment that `Path::components` drops -/
def trivSeg (s : Name) : Prop := s = [] ∨ s = dot

theorem searchable_isDir (w : World) (k : List Name) (h : w.searchable k = true) : w.isDir k = true := by
  unfold World.searchable at h
  unfold World.isDir
  cases hk : w.kindAt k with
  | none => rw [hk] at h; cases h
  | some kd =>
    cases kd with
    | dir m => rfl
    | file => rw [hk] at h; cases h
    | link t => rw [hk] at h; cases h

theorem step_dir_or_triv (w : World) (k : List Name) (seg : Name) (k' : List Name)
    (h : w.step k seg = some k') : w.isDir k = true ∨ (k' = k ∧ trivSeg seg) := by
  unfold World.step at h
  by_cases h1 : (seg == [] || seg == dot) = true
  · rw [if_pos h1] at h
    right
    simp only [Bool.or_eq_true, beq_iff_eq] at h1
    exact ⟨by cases h; rfl, h1⟩
  · rw [if_neg h1] at h
    by_cases h2 : (seg == dotdot) = true
    · rw [if_pos h2] at h
      by_cases hd : w.isDir k = true
      · exact Or.inl hd
      · rw [if_neg hd] at h; cases h
    · rw [if_neg h2] at h
      by_cases h3 : (w.searchable k && (w.kindAt (k ++ [seg])).isSome) = true
      · simp only [Bool.and_eq_true] at h3
        exact Or.inl (searchable_isDir w k h3.1)
      · rw [if_neg h3] at h; cases h

theorem walk_dir_or_triv (w : World) : ∀ (segs : List Name) (k key : List Name),
    w.walk k segs = some key → w.isDir k = true ∨ (key = k ∧ ∀ s, s ∈ segs → trivSeg s) := by
  intro segs
  induction segs with
  | nil =>
    intro k key h
    simp only [World.walk, Option.some.injEq] at h
    exact Or.inr ⟨h.symm, fun s hs => by cases hs⟩
  | cons seg rest ih =>
    intro k key h
    simp only [World.walk] at h
    cases hs : w.step k seg with
    | none => rw [hs] at h; cases h
    | some k2 =>
      rw [hs] at h
      rcases step_dir_or_triv w k seg k2 hs with hd | ⟨e, ht⟩
      · exact Or.inl hd
      · subst e
        rcases ih k2 key h with hd | ⟨e, hall⟩
        · exact Or.inl hd
        · refine Or.inr ⟨e, fun s hs' => ?_⟩
          rcases List.mem_cons.mp hs' with e' | e'
          · subst e'; exact ht
          · exact hall s e'

/-- if everything after a slash is dropped by `Path::components`, the path ends in `/` or `/.` -/
theorem needsDir_triv : ∀ (n : Nat) (q : Path), q.length ≤ n → ∀ X : Path,
    (∀ s, s ∈ splitSeg [] q → trivSeg s) → needsDir (X ++ '/' :: q) = true := by
  intro n
  induction n with
  | zero =>
    intro q hq X _
    have : q = [] := List.eq_nil_of_length_eq_zero (Nat.le_zero.mp hq)
    subst this
    exact needsDir_slash X
  | succ n ih =>
    intro q hq X h
    cases q with
    | nil => exact needsDir_slash X
    | cons c cs =>
      by_cases hc : c = '/'
      · subst hc
        have h' : ∀ s, s ∈ splitSeg [] cs → trivSeg s := by
          intro s hs
          apply h
          simp [splitSeg, hs]
        have := ih cs (by simp at hq; omega) (X ++ ['/']) h'
        simpa using this
      · have hc' : (c == '/') = false := by simpa using hc
        cases cs with
        | nil =>
          have := h [c] (by simp [splitSeg, hc'])
          rcases this with e | e
          · cases e
          · simp only [dot, List.cons.injEq, and_true] at e
            subst e
            simp [needsDir]
        | cons d ds =>
          by_cases hd : d = '/'
          · subst hd
            have h1 := h [c] (by simp [splitSeg, hc'])
            have h' : ∀ s, s ∈ splitSeg [] ds → trivSeg s := by
              intro s hs
              apply h
              simp [splitSeg, hc', hs]
            rcases h1 with e | e
            · cases e
            · simp only [dot, List.cons.injEq, and_true] at e
              subst e
              have := ih ds (by simp at hq; omega) (X ++ ['/', '.']) h'
              simpa using this
          · have hd' : (d == '/') = false := by simpa using hd
            obtain ⟨s, rest, e, hl⟩ := splitSeg_head_len ds [d, c]
            have hmem : s ∈ splitSeg [] (c :: d :: ds) := by
              simp [splitSeg, hc', hd', e]
            rcases h s hmem with e' | e'
            · subst e'; simp at hl
            · subst e'; simp [dot] at hl

theorem absPath_slash (c : Char) (cs q : Path) :
    absPath ((c :: cs) ++ '/' :: q) = absPath (c :: cs) ++ '/' :: q := by
  unfold absPath
  by_cases hc : c = '/'
  · subst hc; simp
  · have : ((c :: cs) ++ '/' :: q).head? = some c := rfl
    simp [hc]

theorem isDir_not_link (w : World) (k : List Name) (h : w.isDir k = true) :
    ∀ t, w.kindAt k ≠ some (NodeKind.link t) := by
  intro t e
  unfold World.isDir at h
  rw [e] at h
  cases h

/-- `fstatat` succeeds on a path whose look-up ends at a node that is not a symbolic link -/
theorem exist_of_get (w : World) (p : Path) (hn : p.contains '\x00' = false) (key : List Name)
    (hg : w.get (absPath p) = some key) (hl : ∀ t, w.kindAt key ≠ some (NodeKind.link t)) :
    (fsOfWorld w).exist p = true := by
  simp only [fsOfWorld, hn, Bool.not_false, Bool.true_and]
  rw [show GlobTables.symloopMax = 7 + 1 from rfl, follow_succ, hg]
  show (match w.kindAt key with
    | some (NodeKind.link target) => w.follow 7 (retarget (absPath p) target)
    | _ => true) = true
  cases hk : w.kindAt key with
  | none => rfl
  | some kd =>
    cases kd with
    | link t => exact absurd hk (hl t)
    | file => rfl
    | dir m => rfl

theorem get_of_exist (w : World) (p : Path) (h : (fsOfWorld w).exist p = true) :
    p.contains '\x00' = false ∧ ∃ key, w.get (absPath p) = some key := by
  simp only [fsOfWorld, Bool.and_eq_true, Bool.not_eq_true'] at h
  refine ⟨h.1, ?_⟩
  have h2 := h.2
  rw [show GlobTables.symloopMax = 7 + 1 from rfl, follow_succ] at h2
  cases hg : w.get (absPath p) with
  | none => rw [hg] at h2; cases h2
  | some key => exact ⟨key, rfl⟩

/-- ★ **Existence is prefix-closed in every world** (symbolic links, directories without search
    permission and all): if `p/q` exists then `p` exists — a look-up passes through directories only,
    and a trailing `/` or `/.` demands one.  The only hypothesis: the working directory exists. -/
theorem world_prefixClosed (w : World) (hcwd : (fsOfWorld w).exist [] = true) (p q : Path)
    (h : (fsOfWorld w).exist (p ++ '/' :: q) = true) : (fsOfWorld w).exist p = true := by
  cases p with
  | nil => exact hcwd
  | cons c cs =>
    obtain ⟨hnul, key, hg⟩ := get_of_exist w _ h
    rw [absPath_slash] at hg
    obtain ⟨hroot, hw, hnd⟩ := (get_some_iff w _ key).mp hg
    rw [splitSeg_slash, walk_append] at hw
    cases hw1 : w.walk [] (splitSeg [] (absPath (c :: cs))) with
    | none => rw [hw1] at hw; cases hw
    | some k1 =>
      rw [hw1] at hw
      have hd : w.isDir k1 = true := by
        rcases walk_dir_or_triv w _ k1 key hw with hd | ⟨e, hall⟩
        · exact hd
        · subst e
          exact hnd (needsDir_triv q.length q (Nat.le_refl _) _ hall)
      have hnul' : (c :: cs).contains '\x00' = false := by
        simp only [List.contains_eq_mem, decide_eq_false_iff_not] at hnul ⊢
        intro hm
        exact hnul (List.mem_append_left _ hm)
      exact exist_of_get w (c :: cs) hnul' k1
        ((get_some_iff w _ k1).mpr ⟨hroot, hw1, fun _ => hd⟩) (isDir_not_link w k1 hd)

/-! ### listings in a good world -/

theorem nodupKeys_nodup (l : List (List Name)) (h : nodupKeys l = true) : l.Nodup := by
  induction l with
  | nil => exact List.nodup_nil
  | cons k ks ih =>
    simp only [nodupKeys, Bool.and_eq_true, Bool.not_eq_true', List.contains_eq_mem,
      decide_eq_false_iff_not] at h
    exact List.nodup_cons.mpr ⟨h.1, ih h.2⟩

theorem kindAt_mem (w : World) (k : List Name) (kd : NodeKind) (h : w.kindAt k = some kd) :
    (k, kd) ∈ w.entries := by
  unfold World.kindAt at h
  cases hf : w.entries.find? (fun x => x.1 == k) with
  | none => rw [hf] at h; cases h
  | some x =>
    rw [hf] at h
    simp only [Option.map_some, Option.some.injEq] at h
    have hm := List.mem_of_find?_eq_some hf
    have hk := List.find?_some hf
    simp only [beq_iff_eq] at hk
    cases x with
    | mk a b => simp only at hk h; subst hk h; exact hm

theorem kindAt_isSome_of_mem (w : World) (x : List Name × NodeKind) (h : x ∈ w.entries) :
    (w.kindAt x.1).isSome = true := by
  unfold World.kindAt
  cases hf : w.entries.find? (fun y => y.1 == x.1) with
  | none =>
    have := List.find?_eq_none.mp hf x h
    simp at this
  | some y => rfl

theorem dropLast_getLast? {α : Type} (l : List α) (m : α) (h : l.getLast? = some m) : l.dropLast ++ [m] = l := by
  have hne : l ≠ [] := by intro e; subst e; simp at h
  have h1 := List.dropLast_concat_getLast hne
  rw [List.getLast?_eq_some_getLast hne] at h
  simp only [Option.some.injEq] at h
  rw [h] at h1
  exact h1

theorem mem_children (w : World) (key : List Name) (n : Name) :
    n ∈ w.children key ↔ (w.kindAt (key ++ [n])).isSome = true := by
  unfold World.children
  simp only [List.mem_filterMap]
  constructor
  · rintro ⟨x, hx, hf⟩
    cases hl : x.1.getLast? with
    | none => rw [hl] at hf; cases hf
    | some m =>
      rw [hl] at hf
      simp only at hf
      by_cases hd : x.1.dropLast == key
      · rw [if_pos hd] at hf
        simp only [Option.some.injEq] at hf
        subst hf
        have hk : x.1 = key ++ [m] := by
          have h1 := dropLast_getLast? _ m hl
          simp only [beq_iff_eq] at hd
          rw [hd] at h1
          exact h1.symm
        rw [← hk]
        exact kindAt_isSome_of_mem w x hx
      · rw [if_neg hd] at hf; cases hf
  · intro h
    cases hk : w.kindAt (key ++ [n]) with
    | none => rw [hk] at h; cases h
    | some kd =>
      refine ⟨(key ++ [n], kd), kindAt_mem w _ kd hk, ?_⟩
      simp

theorem children_nodup (w : World) (hn : (w.entries.map (·.1)).Nodup) (key : List Name) :
    (w.children key).Nodup := by
  unfold World.children
  have hp : w.entries.Pairwise (fun x y => x.1 ≠ y.1) := by
    have := List.pairwise_map.mp hn
    exact this
  refine List.Pairwise.filterMap _ ?_ hp
  intro x y hxy a ha b hb e
  subst e
  apply hxy
  have key_of : ∀ z : List Name × NodeKind,
      (match z.1.getLast? with
        | some n => if z.1.dropLast == key then some n else none
        | none => none) = some a → z.1 = key ++ [a] := by
    intro z hz
    cases hl : z.1.getLast? with
    | none => rw [hl] at hz; cases hz
    | some m =>
      rw [hl] at hz
      simp only at hz
      by_cases hd : z.1.dropLast == key
      · rw [if_pos hd] at hz
        simp only [Option.some.injEq] at hz
        subst hz
        have h1 := dropLast_getLast? _ m hl
        simp only [beq_iff_eq] at hd
        rw [hd] at h1
        exact h1.symm
      · rw [if_neg hd] at hz; cases hz
  rw [key_of x ha, key_of y hb]

structure Good (w : World) : Prop where
  nodup : (w.entries.map (·.1)).Nodup
  plain : ∀ x, x ∈ w.entries → ∀ n, n ∈ x.1 → plainName n = true
  nolink : ∀ k t, w.kindAt k ≠ some (NodeKind.link t)
  search : ∀ k, w.isDir k = true → w.searchable k = true
  cwd : (fsOfWorld w).exist [] = true

theorem good_of_goodWorld (w : World) (h : goodWorld w = true) : Good w := by
  simp only [goodWorld, Bool.and_eq_true, List.all_eq_true] at h
  obtain ⟨⟨h1, h2⟩, h3⟩ := h
  refine ⟨nodupKeys_nodup _ h1, fun x hx n hn => (h2 x hx).1 n hn, fun k t e => ?_, fun k hd => ?_, h3⟩
  · have := (h2 _ (kindAt_mem w k _ e)).2
    simp at this
  · unfold World.isDir at hd
    unfold World.searchable
    cases hk : w.kindAt k with
    | none => rw [hk] at hd; cases hd
    | some kd =>
      cases kd with
      | dir m =>
        have := (h2 _ (kindAt_mem w k _ hk)).2
        simpa using this
      | file => rw [hk] at hd; cases hd
      | link t => rw [hk] at hd; cases hd

theorem splitSeg_single (n : Name) (hn : '/' ∉ n) : splitSeg [] n = [n] := by
  have := splitSeg_append n hn [] []
  simp only [List.append_nil] at this
  rw [this]
  simp [splitSeg]

theorem step_triv (w : World) (k : List Name) (t0 : Name) (h : trivSeg t0) : w.step k t0 = some k := by
  unfold World.step
  rcases h with e | e <;> subst e <;> simp

/-- look-ups below a directory that has been reached through `X/` -/
theorem get_child (w : World) (X : Path) (t0 n : Name) (key : List Name) (ht : trivSeg t0)
    (hts : '/' ∉ t0) (hns : '/' ∉ n) (hg : w.get (X ++ '/' :: t0) = some key) (k' : List Name) :
    w.get (X ++ '/' :: n) = some k' ↔
      (w.step key n = some k' ∧ (needsDir (X ++ '/' :: n) = true → w.isDir k' = true)) := by
  obtain ⟨hroot, hw, _⟩ := (get_some_iff w _ key).mp hg
  rw [splitSeg_slash, splitSeg_single t0 hts, walk_append] at hw
  rw [get_some_iff, splitSeg_slash, splitSeg_single n hns, walk_append]
  cases hw1 : w.walk [] (splitSeg [] X) with
  | none => rw [hw1] at hw; cases hw
  | some k1 =>
    rw [hw1] at hw
    simp only [World.walk, step_triv w k1 t0 ht, Option.some.injEq] at hw
    subst hw
    simp only [World.walk, hroot, true_and]
    cases hs : w.step k1 n with
    | none => simp
    | some k2 => simp

/-- the shape of the paths the search asks about: the directory of a prefix is `X/` or `X/.`, and a
    name below the prefix is `X/name` -/
theorem prefix_shape (pre : Path) (h : PrefixOK pre) :
    ∃ X t0, absPath (dirPath pre) = X ++ '/' :: t0 ∧ trivSeg t0 ∧ '/' ∉ t0 ∧
      ∀ n : Name, n ≠ [] → '/' ∉ n → absPath (pre ++ n) = X ++ '/' :: n := by
  rcases h with e | ⟨q, e⟩
  · subst e
    refine ⟨['/', 't'], dot, by decide, Or.inr rfl, by decide, fun n hne hs => ?_⟩
    have hh : n.head? ≠ some '/' := by
      cases n with
      | nil => exact absurd rfl hne
      | cons c cs =>
        have : c ≠ '/' := fun e => hs (e ▸ List.mem_cons_self)
        simpa using this
    rw [List.nil_append, absPath_rel n hh]; rfl
  · subst e
    have hne : (q ++ ['/']).isEmpty = false := by cases q <;> rfl
    have hd : dirPath (q ++ ['/']) = q ++ ['/'] := by simp [dirPath, hne]
    rw [hd]
    by_cases hq : (q ++ ['/']).head? = some '/'
    · refine ⟨q, [], ?_, Or.inl rfl, by simp, fun n _ _ => ?_⟩
      · simp [absPath, hq]
      · have : (q ++ ['/'] ++ n).head? = some '/' := by
          cases q with
          | nil => rfl
          | cons c cs => simpa using hq
        unfold absPath
        rw [if_pos (by rw [this]; rfl)]
        simp
    · refine ⟨['/', 't', '/'] ++ q, [], ?_, Or.inl rfl, by simp, fun n _ _ => ?_⟩
      · rw [absPath_rel _ hq]; simp
      · have : (q ++ ['/'] ++ n).head? ≠ some '/' := by
          cases q with
          | nil => exact absurd rfl hq
          | cons c cs => simpa using hq
        rw [absPath_rel _ this]; simp

theorem needsDir_dotdot (X : Path) : needsDir (X ++ '/' :: dotdot) = false := by
  simp [needsDir, dotdot]

theorem needsDir_dot (X : Path) : needsDir (X ++ '/' :: dot) = true := by
  simp [needsDir, dot]

/-- ★ **The two oracles derived from a good world are consistent**: `WF (fsOfWorld w)` — for every
    prefix the search can build, a listing is duplicate-free and holds exactly the valid names that exist
    below the prefix, and existence is prefix-closed.  No per-case check is involved. -/
theorem wf_of_good (w : World) (g : Good w) : WF (fsOfWorld w) := by
  constructor
  · intro pre ns hpre hl
    obtain ⟨X, t0, hX, ht, hts, hchild⟩ := prefix_shape pre hpre
    -- what a successful listing says
    have hl' := hl
    simp only [fsOfWorld] at hl'
    by_cases hc : ((dirPath pre).contains '\x00' || !w.fdFree) = true
    · rw [if_pos hc] at hl'; cases hl'
    rw [if_neg hc] at hl'
    cases hg : w.get (absPath (dirPath pre)) with
    | none => rw [hg] at hl'; cases hl'
    | some key =>
      rw [hg] at hl'
      simp only at hl'
      have hd : w.isDir key = true := by
        by_cases hd : w.isDir key = true
        · exact hd
        · rw [if_neg hd] at hl'; cases hl'
      rw [if_pos hd, Option.some.injEq] at hl'
      subst hl'
      rw [hX] at hg
      have hprenul : pre.contains '\x00' = false := by
        simp only [Bool.or_eq_true, not_or, Bool.not_eq_true] at hc
        have h1 := hc.1
        rcases hpre with e | ⟨q, e⟩
        · subst e; rfl
        · subst e
          have hne : (q ++ ['/']).isEmpty = false := by cases q <;> rfl
          simpa [dirPath, hne] using h1
      have hplain_child : ∀ n, n ∈ w.children key → plainName n = true := by
        intro n hn
        have := (mem_children w key n).mp hn
        cases hk : w.kindAt (key ++ [n]) with
        | none => rw [hk] at this; cases this
        | some kd => exact g.plain _ (kindAt_mem w _ kd hk) n (by simp)
      have hexist : ∀ n k', n ≠ [] → '/' ∉ n → n.contains '\x00' = false →
          w.step key n = some k' → needsDir (X ++ '/' :: n) = false →
          (fsOfWorld w).exist (pre ++ n) = true := by
        intro n k' hne hs hnul hstep hnd
        apply exist_of_get w (pre ++ n) ?_ k' ?_ (g.nolink k')
        · simp only [List.contains_eq_mem, List.mem_append, decide_eq_false_iff_not] at hprenul hnul ⊢
          rintro (h | h)
          · exact hprenul h
          · exact hnul h
        · rw [hchild n hne hs]
          exact (get_child w X t0 n key ht hts hs hg k').mpr ⟨hstep, fun h => by rw [hnd] at h; cases h⟩
      refine ⟨?_, fun n => ⟨fun hn => ?_, fun hn => ?_⟩⟩
      · -- no duplicates
        have hc' := children_nodup w g.nodup key
        have h1 : dot ∉ w.children key := fun h => by
          have := hplain_child _ h; revert this; decide
        have h2 : dotdot ∉ w.children key := fun h => by
          have := hplain_child _ h; revert this; decide
        refine List.nodup_cons.mpr ⟨?_, List.nodup_cons.mpr ⟨h2, hc'⟩⟩
        intro h
        rcases List.mem_cons.mp h with e | e
        · exact absurd e (by decide)
        · exact h1 e
      · -- every listed name is valid and exists
        rcases List.mem_cons.mp hn with e | hn
        · subst e
          refine ⟨by decide, ?_⟩
          apply exist_of_get w (pre ++ dot) ?_ key ?_ (isDir_not_link w key hd)
          · simp only [List.contains_eq_mem, List.mem_append, decide_eq_false_iff_not] at hprenul ⊢
            rintro (h | h)
            · exact hprenul h
            · revert h; decide
          · rw [hchild dot (by decide) (by decide)]
            exact (get_child w X t0 dot key ht hts (by decide) hg key).mpr
              ⟨step_triv w key dot (Or.inr rfl), fun _ => hd⟩
        · rcases List.mem_cons.mp hn with e | hn
          · subst e
            refine ⟨by decide, ?_⟩
            apply hexist dotdot key.dropLast (by decide) (by decide) (by decide) ?_ (needsDir_dotdot X)
            unfold World.step
            simp [hd, dotdot, dot]
          · have hp := hplain_child n hn
            have hp' := hp
            simp only [plainName, Bool.and_eq_true, Bool.not_eq_true'] at hp'
            refine ⟨hp'.1.1.1, ?_⟩
            have hne : n ≠ [] := by
              have := hp'.1.1.1
              simp only [validName, Bool.and_eq_true, Bool.not_eq_true', List.isEmpty_eq_false_iff] at this
              exact this.1
            apply hexist n (key ++ [n]) hne (plainName_noslash n hp) hp'.1.1.2 ?_ (needsDir_plain X n hp)
            rw [step_plain w key n hp, g.search key hd, (mem_children w key n).mp hn]
            rfl
      · -- every valid existing name is listed
        obtain ⟨hv, he⟩ := hn
        have hs := validName_noslash n hv
        have hne : n ≠ [] := by
          simp only [validName, Bool.and_eq_true, Bool.not_eq_true', List.isEmpty_eq_false_iff] at hv
          exact hv.1
        obtain ⟨_, k', hg'⟩ := get_of_exist w _ he
        rw [hchild n hne hs] at hg'
        have hstep := ((get_child w X t0 n key ht hts hs hg k').mp hg').1
        unfold World.step at hstep
        by_cases h1 : (n == [] || n == dot) = true
        · simp only [Bool.or_eq_true, beq_iff_eq] at h1
          rcases h1 with e | e
          · exact absurd e hne
          · subst e; exact List.mem_cons_self
        · rw [if_neg h1] at hstep
          by_cases h2 : (n == dotdot) = true
          · simp only [beq_iff_eq] at h2
            subst h2
            exact List.mem_cons_of_mem _ List.mem_cons_self
          · rw [if_neg h2] at hstep
            by_cases h3 : (w.searchable key && (w.kindAt (key ++ [n])).isSome) = true
            · simp only [Bool.and_eq_true] at h3
              exact List.mem_cons_of_mem _ (List.mem_cons_of_mem _ ((mem_children w key n).mpr h3.2))
            · rw [if_neg h3] at hstep; cases hstep
  · exact fun p q => world_prefixClosed w g.cwd p q

end YashModel.Glob
