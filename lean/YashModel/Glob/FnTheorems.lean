/-
  C05 ∘ C04 — property theorems (and non-vacuity examples) ONLY, second module: pathname expansion with
  the matcher it really uses.  `fnMatcher` is the C04 model of yash-fnmatch under the `Config` of
  `to_pattern` (flags re-extracted from glob.rs: `Generated/GlobTables.lean`); the driver computes both
  of its columns with it.  Helper lemmas: `FnLemmas.lean`; C04: `Fnmatch/{Theorems,AnchorLemmas}.lean`.

  What this removes from "outside the model": the matcher is no longer a parameter filled in per case by
  the code under test; `PeriodRule` and `LiteralFaithful` are theorems, not per-case checks; what a
  pattern component matches is C04's declarative POSIX Spec (`posixMatch`) plus the leading-period rule.
-/
import YashModel.Glob.Theorems
import YashModel.Glob.FnLemmas
import YashModel.Glob.WorldWF
namespace YashModel.Glob
open YashModel.Generated

/-! ### the matcher -/

/-- ★ the leading-period rule is a theorem about the composed model (was: assumed, checked per case) -/
theorem fnMatcher_periodRule : PeriodRule fnMatcher := periodRule_fnMatcher

/-- ★ a component of quoted characters is the literal string (was: assumed, checked per case) -/
theorem fnMatcher_literalFaithful : LiteralFaithful fnMatcher := literalFaithful_fnMatcher

/-- ★ **What a component matches**, from the pattern characters up: it compiles, the whole name matches
    it in POSIX pattern-matching notation (C04 Spec: grammar `specParse` + denotation `globMatch`), and a
    name with a leading period is matched only if the pattern begins with an explicit period character
    (XCU 2.13.3; quoted or not — not by `*`, `?` or a bracket expression). -/
theorem fnMatcher_isMatch_posix (pcs : List PatternChar) (n : Name) :
    fnMatcher.isMatch pcs n =
      ((fnCompile pcs).isSome && (Fnmatch.posixMatch (pcs.map convPc) n
        && (n.head? != some '.' || Fnmatch.explicitDot (Fnmatch.specParse (pcs.map convPc))))) :=
  fnIsMatch_eq pcs n

/-- ★ **How a component is classified**: unparsable iff it does not compile (never for a component
    inside POSIX's defined notation); a literal `s` iff its syntax tree consists of the ordinary
    characters `s` only; a pattern otherwise. -/
theorem fnMatcher_kind_spec (pcs : List PatternChar) :
    (fnMatcher.kind pcs = Kind.invalid ↔ fnCompile pcs = none) ∧
    (Fnmatch.astDefined (astOf pcs) = true → fnMatcher.kind pcs ≠ Kind.invalid) ∧
    (∀ s, fnMatcher.kind pcs = Kind.literal s ↔
      ((fnCompile pcs).isSome = true ∧ Fnmatch.toLiteral (astOf pcs) = some s)) ∧
    (fnMatcher.kind pcs = Kind.pattern ↔
      ((fnCompile pcs).isSome = true ∧ Fnmatch.toLiteral (astOf pcs) = none)) := by
  show (fnKind pcs = _ ↔ _) ∧ (_ → fnKind pcs ≠ _) ∧ (∀ s, fnKind pcs = _ ↔ _) ∧ (fnKind pcs = _ ↔ _)
  have hd := fnCompile_defined pcs
  rcases fnKind_cases pcs with ⟨h0, hk⟩ | ⟨p, s, hp, hl, hk⟩ | ⟨p, hp, hl, hk⟩
  · refine ⟨by simp [h0, hk], fun h => ?_, fun s => ?_, ?_⟩
    · have := hd h; rw [h0] at this; cases this
    · simp [hk, h0]
    · simp [hk, h0]
  · refine ⟨by simp [hp, hk], fun _ => by simp [hk], fun s' => ?_, by simp [hk, hl]⟩
    simp only [hk, Kind.literal.injEq, hp, Option.isSome_some, true_and, hl, Option.some.injEq]
  · refine ⟨by simp [hp, hk], fun _ => by simp [hk], fun s' => by simp [hk, hl], by simp [hk, hp, hl]⟩

/-! ### a quoted pattern character is literal whatever precedes it -/

/-- ★ **A quoted (or backslash-escaped, or hard-expansion) character in a component stands for itself,
    whatever precedes it** — unquoted `*`, `?`, runs of them, other characters: if the component is
    `pre ++ [quoted c] ++ post` and `pre` has no unquoted `[`, every matched name is `a ++ [c] ++ b` with
    `a` matched by `pre` and `b` by `post`.  (A parser that lets an unquoted `*` absorb a following
    *quoted* `*` — "skip the rest of the run of asterisks" by character value — matches names without
    that `c`.) -/
theorem quoted_char_literal_after_wildcards (pre post : List PatternChar) (c : Char)
    (hpre : ∀ pc, pc ∈ pre → pc ≠ PatternChar.normal '[') (n : Name)
    (h : fnMatcher.isMatch (pre ++ PatternChar.literal c :: post) n = true) :
    ∃ a b, n = a ++ c :: b ∧ Fnmatch.posixMatch (pre.map convPc) a = true
      ∧ Fnmatch.posixMatch (post.map convPc) b = true := by
  have h' : fnIsMatch (pre ++ PatternChar.literal c :: post) n = true := h
  rw [fnIsMatch_eq] at h'
  simp only [Bool.and_eq_true, Fnmatch.specPeriodMatch] at h'
  have hg := h'.2.1
  have hpre' : ∀ pc, pc ∈ pre.map convPc → pc ≠ Fnmatch.PatternChar.normal '[' := by
    intro pc hpc
    obtain ⟨q, hq, rfl⟩ := List.mem_map.mp hpc
    intro e
    apply hpre q hq
    cases q with
    | normal x => simp only [convPc, Fnmatch.PatternChar.normal.injEq] at e; rw [e]
    | literal x => simp [convPc] at e
  rw [astOf_eq, List.map_append, List.map_cons, parseAtoms_append_simple _ _ hpre'] at hg
  have hlit : Fnmatch.parseAtoms (convPc (PatternChar.literal c) :: post.map convPc)
      = Fnmatch.Atom.char c :: Fnmatch.parseAtoms (post.map convPc) := by
    rw [parseAtoms_cons_simple _ _ (by simp [convPc])]
    simp [headAtom, convPc, Fnmatch.PatternChar.charValue]
  rw [hlit] at hg
  obtain ⟨k, hk1, hk2⟩ := globAtoms_append_simple _ _ n hg
  cases hdrop : n.drop k with
  | nil => rw [hdrop] at hk2; simp [Fnmatch.globAtoms] at hk2
  | cons x b =>
    rw [hdrop] at hk2
    simp only [Fnmatch.globAtoms, Bool.and_eq_true, beq_iff_eq] at hk2
    refine ⟨n.take k, b, ?_, ?_, ?_⟩
    · rw [← hk2.1, ← hdrop, List.take_append_drop]
    · unfold Fnmatch.posixMatch Fnmatch.globMatch
      rw [← (Fnmatch.parser_is_grammar _).2]
      have := parseAtoms_append_simple (pre.map convPc) [] hpre'
      simp only [List.append_nil, Fnmatch.parseAtoms] at this
      rw [this]; exact hk1
    · unfold Fnmatch.posixMatch Fnmatch.globMatch
      rw [← (Fnmatch.parser_is_grammar _).2]; exact hk2.2

/-- the seeded mistake in one line: `*"*"` (also `*\*`, `*'*'`) only matches names that end in `*` -/
theorem star_then_quoted_star (n : Name)
    (h : fnMatcher.isMatch [PatternChar.normal '*', PatternChar.literal '*'] n = true) :
    n.getLast? = some '*' := by
  obtain ⟨a, b, e, _, hb⟩ := quoted_char_literal_after_wildcards [PatternChar.normal '*'] [] '*'
    (by intro pc hpc; simp at hpc; subst hpc; decide) n h
  have hb' : b = [] := by
    cases b with
    | nil => rfl
    | cons x t => simp [Fnmatch.posixMatch, Fnmatch.globMatch, Fnmatch.specParse, Fnmatch.globAtoms] at hb
  subst hb' e
  simp

-- non-vacuity: `*"*"` is a pattern, matches `a*` and `*`, not `a` or `ab`; `"*"*` matches `*a`, not `a*`
example : fnMatcher.kind [PatternChar.normal '*', PatternChar.literal '*'] = Kind.pattern
    ∧ fnMatcher.isMatch [PatternChar.normal '*', PatternChar.literal '*'] ['a', '*'] = true
    ∧ fnMatcher.isMatch [PatternChar.normal '*', PatternChar.literal '*'] ['*'] = true
    ∧ fnMatcher.isMatch [PatternChar.normal '*', PatternChar.literal '*'] ['a'] = false
    ∧ fnMatcher.isMatch [PatternChar.normal '*', PatternChar.literal '*'] ['a', 'b'] = false
    ∧ fnMatcher.isMatch [PatternChar.literal '*', PatternChar.normal '*'] ['*', 'a'] = true
    ∧ fnMatcher.isMatch [PatternChar.literal '*', PatternChar.normal '*'] ['a', '*'] = false := by
  simp only [fnMatcher, fnKind, fnIsMatch]
  rw [fnCompile_simple _ (by decide), fnCompile_simple _ (by decide)]
  decide

-- the leading-period rule and the classification on concrete components
example : fnMatcher.isMatch [PatternChar.normal '*'] ['.', 'h'] = false
    ∧ fnMatcher.isMatch [PatternChar.literal '.', PatternChar.normal '*'] ['.', 'h'] = true
    ∧ fnMatcher.isMatch [PatternChar.normal '.', PatternChar.normal '?'] ['.', 'h'] = true
    ∧ fnMatcher.isMatch [PatternChar.normal '?', PatternChar.normal 'h'] ['.', 'h'] = false
    ∧ fnMatcher.kind [PatternChar.literal '*'] = Kind.literal ['*']
    ∧ fnMatcher.kind [PatternChar.normal '\\', PatternChar.literal '*'] = Kind.literal ['\\', '*'] := by
  simp only [fnMatcher, fnKind, fnIsMatch]
  rw [fnCompile_simple _ (by decide), fnCompile_simple _ (by decide), fnCompile_simple _ (by decide),
    fnCompile_simple _ (by decide), fnCompile_simple _ (by decide), fnCompile_simple _ (by decide)]
  decide

-- … and on syntax trees with brackets: `[.]h` does not match `.h`; `[z-a]` does not compile
example :
    (match Fnmatch.Pattern.fromAst [.bracket ⟨false, [.atom (.char '.')]⟩, .char 'h'] globConfig with
     | .ok p => some (p.isMatch ['.', 'h'], p.isMatch ['x', 'h'])
     | .error _ => none) = some (false, false)
    ∧ (match Fnmatch.Pattern.fromAst [.bracket ⟨false, [.atom (.char '.'), .atom (.char 'x')]⟩, .char 'h'] globConfig with
     | .ok p => some (p.isMatch ['.', 'h'], p.isMatch ['x', 'h'])
     | .error _ => none) = some (false, true)
    ∧ (Fnmatch.Pattern.fromAst [.bracket ⟨false, [.range (.char 'z') (.char 'a')]⟩] globConfig).toOption.isNone := by
  decide

/-! ### the property with the real matcher -/

variable (fs : Fs) (field : List AttrChar)

/-- ★★ **The property with nothing assumed about the matcher.**  For every file system with consistent
    oracles, every field, both settings of `noglob`, pathname expansion with the C04 model of
    yash-fnmatch in the place of the real crate:
    1. with `noglob`, or when no pathname matches, returns the field itself, quotes removed;
    2. otherwise exactly the Spec's pathnames (none nonexistent, none omitted),
    3. as whole pathnames in strictly increasing byte order of their UTF-8 encodings,
    4. each existing and made of one name per component, with the clauses `posixNamesClauses`
       (POSIX pattern matching by C04's declarative Spec, leading period only by an explicit period). -/
theorem glob_property_posix (hwf : WF fs) (noglob : Bool) :
    ((noglob = true ∨ ∀ p, ¬ SpecMember fnMatcher fs field p) →
      glob fnMatcher fs noglob field = [removeQuotes field]) ∧
    (noglob = false → (∃ p, SpecMember fnMatcher fs field p) →
      (∀ p, p ∈ glob fnMatcher fs noglob field ↔ SpecMember fnMatcher fs field p) ∧
      (glob fnMatcher fs noglob field).Pairwise (fun a b => utf8Bytes a < utf8Bytes b) ∧
      (∀ p, p ∈ glob fnMatcher fs noglob field → fs.exist p = true ∧ ∃ names, p = joinPath names
        ∧ posixNamesClauses (splitComponents field).1 (splitComponents field).2 names)) := by
  have h := glob_property fnMatcher fs field hwf periodRule_fnMatcher noglob
  refine ⟨h.1, fun hng hne => ?_⟩
  obtain ⟨h1, h2, h3⟩ := h.2 hng hne
  refine ⟨h1, h2, fun p hp => ?_⟩
  obtain ⟨he, names, e, hc⟩ := h3 p hp
  exact ⟨he, names, e, namesClauses_posix _ _ names hc⟩

/-- ★ quoted text is never a wildcard — with the real matcher, no hypothesis about yash_fnmatch left:
    a field all of whose characters are quoted or come from a hard expansion (tilde results) expands to
    itself, quotes removed, on every file system -/
theorem quoted_is_literal_posix (hq : FullyQuoted field) (hs : SlashNotQuoting field) (noglob : Bool) :
    glob fnMatcher fs noglob field = [removeQuotes field] :=
  quoted_is_literal fnMatcher fs field literalFaithful_fnMatcher hq hs noglob

/-! ### what the driver computes -/

/-- ★ `glob` consults a matcher only about the field's component patterns and the names the file system
    lists: two matchers that agree there give the same expansion (this is what makes the driver's
    memoised table, and the comparison with the table of real answers, meaningful) -/
theorem glob_matcher_locality (m m' : Matcher) (noglob : Bool)
    (h : MatcherAgree m m' fs ((splitComponents field).1 :: (splitComponents field).2)) :
    glob m fs noglob field = glob m' fs noglob field :=
  glob_congr m m' fs noglob field h

/-- ★★ **What the driver prints, end to end.**  The driver computes with `mkMatcher (fnTab cands keys)`
    (the C04 model memoised on the component patterns `keys` of the case and a candidate set containing
    every dumped listing name) on `mkFs e l`.  Then: its model column *is* pathname expansion with
    `fnMatcher`; whenever `wfDump e l` holds (the only situation in which a Spec column is printed) the
    Spec column equals it, the dump satisfies `WF`, and every field's result meets `SpecResult` for
    `fnMatcher` — so `glob_property_posix` applies.  No hypothesis is left to trust, and no answer of
    the code under test enters either column. -/
theorem driver_fn_column (e : List Path) (l : List (Path × List Name)) (extra : List Name)
    (noglob : Bool) (mode : Mode) (fields : List (List AttrChar)) :
    let M := mkMatcher (fnTab (dedupNames (univOf l ++ extra)) (componentKeys fields))
    expandFields M (mkFs e l) noglob mode fields = expandFields fnMatcher (mkFs e l) noglob mode fields
    ∧ (wfDump e l = true →
        specFieldsU M (mkFs e l) (univOf l) noglob mode fields
            = expandFields fnMatcher (mkFs e l) noglob mode fields
        ∧ WF (mkFs e l)
        ∧ ∀ f, f ∈ fields → SpecResult fnMatcher (mkFs e l) noglob f (glob fnMatcher (mkFs e l) noglob f)) := by
  intro M
  have hcov : UnivCovers (mkFs e l) (dedupNames (univOf l ++ extra)) := by
    intro d ns hl n hn
    rw [mem_dedupNames]
    exact List.mem_append_left _ (univOf_covers e l d ns hl n hn)
  have hagree := fun f hf => fnTab_agree (dedupNames (univOf l ++ extra)) (mkFs e l) hcov fields f hf
  have h1 : expandFields M (mkFs e l) noglob mode fields = expandFields fnMatcher (mkFs e l) noglob mode fields :=
    expandFields_congr M fnMatcher (mkFs e l) noglob mode fields hagree
  refine ⟨h1, fun hwf => ?_⟩
  have hW := wfDump_sound e l hwf
  refine ⟨?_, hW, fun f _ => glob_meets_spec fnMatcher (mkFs e l) f hW noglob⟩
  rw [expandFields_eq_spec M (mkFs e l) hW (univOf l) (univOf_covers e l) noglob mode fields, h1]

/-! ### from the inode tree: no consistency hypothesis left -/

/-- ★ **Existence is prefix-closed in every world whose working directory exists** — symbolic links,
    dangling links, loops, directories without search permission included: a look-up passes through
    directories only, and a trailing `/` or `/.` demands one (second clause of `WF`, proved for the
    world model instead of decided per case). -/
theorem world_exist_prefix_closed (w : World) (hcwd : (fsOfWorld w).exist [] = true) (p q : Path)
    (h : (fsOfWorld w).exist (p ++ '/' :: q) = true) : (fsOfWorld w).exist p = true :=
  world_prefixClosed w hcwd p q h

/-- ★★ **`WF (fsOfWorld w)` for every good world** (`goodWorld`, decidable: unique keys, plain names, no
    symbolic link, every directory searchable by its owner, `/t` exists) — for *every* prefix the search
    can build (empty components, `.`, `..`, absolute paths), not only paths of plain names: a listing
    has no duplicates and holds exactly the valid names that exist below the prefix; existence is
    prefix-closed.  This was the open item "`WF (fsOfWorld w)` is not proved for any class of worlds". -/
theorem wf_fsOfWorld (w : World) (h : goodWorld w = true) : WF (fsOfWorld w) :=
  wf_of_good w (good_of_goodWorld w h)

/-- ★★ **The property from the inode table up, with nothing assumed**: in a good world, for every field
    and both settings of `noglob`, pathname expansion — transcribed `glob.rs`, C04 model of yash-fnmatch,
    world model of `FileSystem::get` / `fstatat` / `opendir` with mode bits — returns the quote-removed
    field when `noglob` is set or no pathname matches, and otherwise exactly the Spec's pathnames, as
    whole pathnames in strictly increasing UTF-8 byte order, each existing and made of one name per
    component with the POSIX clauses. -/
theorem world_glob_property (w : World) (h : goodWorld w = true) (field : List AttrChar) (noglob : Bool) :
    ((noglob = true ∨ ∀ p, ¬ SpecMember fnMatcher (fsOfWorld w) field p) →
      glob fnMatcher (fsOfWorld w) noglob field = [removeQuotes field]) ∧
    (noglob = false → (∃ p, SpecMember fnMatcher (fsOfWorld w) field p) →
      (∀ p, p ∈ glob fnMatcher (fsOfWorld w) noglob field ↔ SpecMember fnMatcher (fsOfWorld w) field p) ∧
      (glob fnMatcher (fsOfWorld w) noglob field).Pairwise (fun a b => utf8Bytes a < utf8Bytes b) ∧
      (∀ p, p ∈ glob fnMatcher (fsOfWorld w) noglob field → (fsOfWorld w).exist p = true ∧
        ∃ names, p = joinPath names
          ∧ posixNamesClauses (splitComponents field).1 (splitComponents field).2 names)) :=
  glob_property_posix (fsOfWorld w) field (wf_fsOfWorld w h) noglob

-- non-vacuity: the two-directory world is good with mode 0700 (owner-only search), not with 0070, and a
-- world with symbolic links is not good
example : goodWorld (w₀ 0o700) = true ∧ goodWorld (w₀ 0o755) = true ∧ goodWorld (w₀ 0o070) = false
    ∧ goodWorld wLinks = false := by decide

/-- an unquoted `*` alone: a pattern that matches exactly the names not starting with a period -/
theorem fnMatcher_star : fnMatcher.kind [PatternChar.normal '*'] = Kind.pattern ∧
    ∀ n, fnMatcher.isMatch [PatternChar.normal '*'] n = (n.head? != some '.') := by
  have hc := fnCompile_simple [PatternChar.normal '*'] (by decide)
  constructor
  · show fnKind _ = _
    unfold fnKind; rw [hc]; decide
  · intro n
    show fnIsMatch _ n = _
    have h1 : (fnCompile [PatternChar.normal '*']).isSome = true := by rw [hc]; decide
    have hast : astOf [PatternChar.normal '*'] = [Fnmatch.Atom.anyString] := by
      rw [astOf_eq]
      have := parseAtoms_append_simple ([PatternChar.normal '*'].map convPc) [] (by decide)
      simp only [List.append_nil, Fnmatch.parseAtoms] at this
      rw [this]; rfl
    have hg : Fnmatch.globMatch [Fnmatch.Atom.anyString] n = true := by
      simp only [Fnmatch.globMatch, Fnmatch.globAtoms, List.any_eq_true, List.mem_range]
      exact ⟨n.length, by omega, by simp⟩
    rw [fnIsMatch_eq, h1, hast]
    simp [Fnmatch.specPeriodMatch, hg, Fnmatch.explicitDot]

/-- ★ end-to-end example from the inode table: `/t/priv` (mode 0700) and `/t/pub`, each holding `a`;
    `*/a` expands to `priv/a pub/a` — with the real matcher model and the world model, the result being
    pinned down by `world_glob_property` (sorted, exact) and not by evaluation of the sort -/
theorem w₀_star_slash_a : glob fnMatcher (fsOfWorld (w₀ 0o700)) false starSlashA = [['p','r','i','v','/','a'], ['p','u','b','/','a']] := by
  have hwf := wf_fsOfWorld (w₀ 0o700) (by decide)
  have hagree : MatcherAgree fnMatcher m₀ (fsOfWorld (w₀ 0o700))
      ((splitComponents starSlashA).1 :: (splitComponents starSlashA).2) := by
    intro c hc
    have hc' : c = star ∨ c = [{ value := 'a', origin := Origin.literal, isQuoted := false, isQuoting := false }] := by
      have : (splitComponents starSlashA).1 :: (splitComponents starSlashA).2
          = [star, [{ value := 'a', origin := Origin.literal, isQuoted := false, isQuoting := false }]] := by decide
      rw [this] at hc
      simpa using hc
    rcases hc' with e | e
    · subst e
      have : toPattern star = [PatternChar.normal '*'] := by decide
      rw [this]
      refine ⟨fnMatcher_star.1.trans (by decide), fun _ d ns _ n _ => ?_⟩
      rw [fnMatcher_star.2 n]; rfl
    · subst e
      refine ⟨?_, fun hk => ?_⟩
      · show fnKind _ = _
        have : toPattern [{ value := 'a', origin := Origin.literal, isQuoted := false, isQuoting := false }]
            = [PatternChar.normal 'a'] := by decide
        rw [this]
        unfold fnKind
        rw [fnCompile_simple _ (by decide)]
        decide
      · exact absurd hk (by decide)
  rw [glob_congr fnMatcher m₀ _ false starSlashA hagree]
  apply strictSorted_ext _ _ (glob_sorted_nodup m₀ _ starSlashA hwf false) (by unfold StrictSorted; decide)
  intro p
  rw [glob_on_eq, show searchField m₀ (fsOfWorld (w₀ 0o700)) starSlashA
    = [['p','r','i','v','/','a'], ['p','u','b','/','a']] by decide]
  simp [mem_sortPaths]

-- non-vacuity of `world_glob_property` / `glob_property_posix`: in that good world `*/a` has members
example : ∃ p, SpecMember fnMatcher (fsOfWorld (w₀ 0o700)) starSlashA p := by
  refine ⟨['p','r','i','v','/','a'], ?_⟩
  have hm : ['p','r','i','v','/','a'] ∈ glob fnMatcher (fsOfWorld (w₀ 0o700)) false starSlashA := by
    rw [w₀_star_slash_a]; simp
  rcases glob_sound fnMatcher _ starSlashA (wf_fsOfWorld (w₀ 0o700) (by decide)) _ hm with h | ⟨h, _⟩
  · exact h
  · exact absurd h (by decide)

-- non-vacuity of the `astDefined` clause of `fnMatcher_kind_spec`: `*` is inside the defined notation
example : Fnmatch.astDefined (astOf [PatternChar.normal '*']) = true := by
  have hast : astOf [PatternChar.normal '*'] = [Fnmatch.Atom.anyString] := by
    rw [astOf_eq]
    have := parseAtoms_append_simple ([PatternChar.normal '*'].map convPc) [] (by decide)
    simp only [List.append_nil, Fnmatch.parseAtoms] at this
    rw [this]; rfl
  rw [hast]; decide

/-- more look-ups never hurt: what resolves within `n` hops resolves within `n + 1` (so the bound
    `GlobTables.symloopMax` only ever cuts chains off; with `world_follow_hop` and `world_follow_bound`
    this pins the hop count: a chain of `k` links to an existing file exists iff `k < symloopMax`) -/
theorem world_follow_mono (w : World) : ∀ (n : Nat) (abs : Path),
    w.follow n abs = true → w.follow (n + 1) abs = true := by
  intro n
  induction n with
  | zero => intro abs h; cases h
  | succ k ih =>
    intro abs h
    rw [follow_succ] at h ⊢
    cases hg : w.get abs with
    | none => rw [hg] at h; cases h
    | some key =>
      rw [hg] at h
      simp only at h ⊢
      cases hk : w.kindAt key with
      | none => rfl
      | some kd =>
        cases kd with
        | file => rfl
        | dir m => rfl
        | link t =>
          rw [hk] at h
          exact ih _ h

/-! ### the constants of the code -/

/-- ★ the constants re-extracted from /repo on every run (`tools/tables/glob.py` →
    `Generated/GlobTables.lean`) are the ones the model is written with: the `Config` of `to_pattern`
    (both anchors, `literal_period`, nothing else — in particular no case folding, which the C04 model
    does not have), the escape character of `toPatternChars`, the separator of `splitAux` and of
    `pushComponent`, the names `searchStep` skips, the directory `dirPath` uses for the empty prefix.
    (The look-up bound and the search-permission mask are used by `World.lean` directly.) -/
theorem glob_tables_tie :
    globConfig = { anchorBegin := true, anchorEnd := true, literalPeriod := true, shortest := false }
    ∧ GlobTables.patCaseInsensitive = false
    ∧ GlobTables.escapeChar = '\\'
    ∧ GlobTables.separator = '/' ∧ GlobTables.pushedSeparator = '/'
    ∧ GlobTables.skippedNames = [dot, dotdot]
    ∧ GlobTables.emptyPrefixDir = dirPath []
    ∧ GlobTables.symloopMax = 8
    ∧ (∀ mode, ownerSearch mode = (mode / 64 % 2 == 1)) := by
  refine ⟨rfl, rfl, by decide, by decide, by decide, by decide, by decide, rfl, ownerSearch_bit⟩

end YashModel.Glob
