/-
  C05 — the world model behind the two oracles: an inode table with mode bits, and the look-up rules of
  `yash-env/src/system/virtual/file_system.rs` (`FileSystem::get`) and `virtual.rs`
  (`resolve_relative_path`, `resolve_existing_file`, `fstatat`, `opendir`) for the owning user.
  Import-free and executable: the driver builds the world from the tree of the case line, derives
  `exist`/`list` from it and compares them with the dumped answers.

  The rules (every virtual process owns every inode, so only the owner bits count):
  * looking a name up in a directory needs the owner's *search* bit (0o100) of that directory —
    no other bit of any class, and nothing of the file that is found;
  * `..` needs a directory (and stays at the root); a trailing `/` or `/.` needs a directory;
    `.` and empty components of an absolute path are dropped;
  * `opendir` needs a directory and a free descriptor; it asks for no read permission;
  * `fstatat(follow)` follows a final symbolic link up to 8 times (`GlobTables.symloopMax`, re-extracted
    from `_POSIX_SYMLOOP_MAX`), relative to the link's directory.
-/
import YashModel.Glob.Model
import YashModel.Glob.Spec
import YashModel.Generated.GlobTables
namespace YashModel.Glob
open YashModel.Generated

inductive NodeKind where
  | file
  | link (target : Path)
  | dir (mode : Nat)
  deriving DecidableEq, Repr

/-- an inode table keyed by the list of names from the root (`[]` is the root directory) -/
structure World where
  entries : List (List Name × NodeKind)
  /-- is there a free file descriptor (otherwise `opendir` fails with EMFILE)? -/
  fdFree : Bool

def World.kindAt (w : World) (key : List Name) : Option NodeKind :=
  (w.entries.find? (fun x => x.1 == key)).map (·.2)

/-- the owner's search permission: the test `FileSystem::get` makes on a directory before it looks a
    name up in it, `permissions.contains(Mode::USER_EXEC)` — mask and kind of test re-extracted from
    /repo on every run (`GlobTables.searchMask` = 0o100, `searchNeedsAll` = `contains`); equal to
    `mode / 64 % 2 == 1` (`ownerSearch_bit`) -/
def ownerSearch (mode : Nat) : Bool :=
  if GlobTables.searchNeedsAll then mode &&& GlobTables.searchMask == GlobTables.searchMask
  else mode &&& GlobTables.searchMask != 0

def World.isDir (w : World) (key : List Name) : Bool :=
  match w.kindAt key with
  | some (NodeKind.dir _) => true
  | _ => false

/-- may a name be looked up in the directory at `key`? -/
def World.searchable (w : World) (key : List Name) : Bool :=
  match w.kindAt key with
  | some (NodeKind.dir mode) => ownerSearch mode
  | _ => false

/-- the raw segments of a path between slashes (`splitSeg cur p`, `cur` = current segment reversed) -/
def splitSeg : List Char → Path → List Name
  | cur, [] => [cur.reverse]
  | cur, c :: cs => if c == '/' then cur.reverse :: splitSeg [] cs else splitSeg (c :: cur) cs

/-- one step of `FileSystem::get` on the key of the current node -/
def World.step (w : World) (key : List Name) (seg : Name) : Option (List Name) :=
  if seg == [] || seg == dot then some key            -- dropped by `Path::components`
  else if seg == dotdot then
    if w.isDir key then some key.dropLast else none   -- `..` can only be looked up in a directory
  else if w.searchable key && (w.kindAt (key ++ [seg])).isSome then some (key ++ [seg])
  else none

def World.walk (w : World) : List Name → List Name → Option (List Name)
  | key, [] => some key
  | key, seg :: segs => match w.step key seg with
    | some k => w.walk k segs
    | none => none

/-- does the absolute path end in `/` or `/.`? -/
def needsDir (p : Path) : Bool :=
  match p.reverse with
  | '/' :: _ => true
  | '.' :: '/' :: _ => true
  | _ => false

/-- `FileSystem::get` of an absolute path: the key of the node found -/
def World.get (w : World) (abs : Path) : Option (List Name) :=
  if w.isDir [] then
    match w.walk [] (splitSeg [] abs) with
    | some key => if needsDir abs && !w.isDir key then none else some key
    | none => none
  else none

/-- `resolve_relative_path` with the working directory `/t` -/
def absPath (p : Path) : Path :=
  if p.head? == some '/' then p else ['/', 't', '/'] ++ p

/-- `new_path.pop(); new_path.push(target)` -/
def retarget (abs : Path) (target : Path) : Path :=
  if target.head? == some '/' then target
  else (abs.reverse.dropWhile (· != '/')).reverse ++ target

/-- `resolve_existing_file(.., follow_symlinks = true)` succeeded -/
def World.follow (w : World) : Nat → Path → Bool
  | 0, _ => false
  | fuel + 1, abs =>
    match w.get abs with
    | none => false
    | some key =>
      match w.kindAt key with
      | some (NodeKind.link target) => w.follow fuel (retarget abs target)
      | _ => true

/-- names of the entries of the directory at `key` -/
def World.children (w : World) (key : List Name) : List Name :=
  w.entries.filterMap fun x =>
    match x.1.getLast? with
    | some n => if x.1.dropLast == key then some n else none
    | none => none

/-- the two oracles of `Model.lean`, derived from the world -/
def fsOfWorld (w : World) : Fs where
  exist p := !p.contains '\x00' && w.follow GlobTables.symloopMax (absPath p)
  list d :=
    if d.contains '\x00' || !w.fdFree then none
    else match w.get (absPath d) with
      | some key => if w.isDir key then some (dot :: dotdot :: w.children key) else none
      | none => none

/-- a plain file name: non-empty, without slash or NUL, and not `.` or `..` -/
def plainName (n : Name) : Bool :=
  validName n && !n.contains '\x00' && n != dot && n != dotdot

def nodupKeys : List (List Name) → Bool
  | [] => true
  | k :: ks => !ks.contains k && nodupKeys ks

/-- The decidable class of worlds for which the two oracles are consistent (`wf_fsOfWorld`,
    WorldWF.lean): every key occurs once, every name on every key is plain, there is no symbolic link,
    every directory may be searched by its owner, and the working directory `/t` exists. -/
def goodWorld (w : World) : Bool :=
  nodupKeys (w.entries.map (·.1))
    && w.entries.all (fun x => x.1.all plainName && (match x.2 with
        | NodeKind.link _ => false
        | NodeKind.dir m => ownerSearch m
        | NodeKind.file => true))
    && (fsOfWorld w).exist []

end YashModel.Glob
