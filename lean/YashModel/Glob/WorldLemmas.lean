/-
  C05 — helper lemmas about the world model (`World.lean`): walking down a path of plain names
  succeeds iff every directory on the way is searchable by the owner and every name is there.
-/
import YashModel.Glob.World
import YashModel.Glob.DumpLemmas
namespace YashModel.Glob

/-- every directory from `key` down along `names` may be searched by its owner, and every name is
    present in the directory before it -/
def World.reachable (w : World) : List Name → List Name → Bool
  | _, [] => true
  | key, n :: ns => w.searchable key && (w.kindAt (key ++ [n])).isSome && w.reachable (key ++ [n]) ns

theorem step_plain (w : World) (key : List Name) (n : Name) (h : plainName n = true) :
    w.step key n = if w.searchable key && (w.kindAt (key ++ [n])).isSome then some (key ++ [n]) else none := by
  simp only [plainName, validName, Bool.and_eq_true, Bool.not_eq_true', bne_iff_ne, ne_eq,
    List.isEmpty_eq_false_iff] at h
  obtain ⟨⟨⟨⟨hne, _⟩, _⟩, hd⟩, hdd⟩ := h
  simp only [World.step]
  have h1 : (n == []) = false := by simpa using hne
  have h2 : (n == dot) = false := by simpa using hd
  have h3 : (n == dotdot) = false := by simpa using hdd
  simp [h1, h2, h3]

theorem walk_plain (w : World) (names : List Name) : ∀ (key : List Name),
    (∀ n, n ∈ names → plainName n = true) →
    w.walk key names = if w.reachable key names then some (key ++ names) else none := by
  induction names with
  | nil => intro key _; simp [World.walk, World.reachable]
  | cons n ns ih =>
    intro key h
    have hn := h n List.mem_cons_self
    have hns : ∀ x, x ∈ ns → plainName x = true := fun x hx => h x (List.mem_cons_of_mem _ hx)
    simp only [World.walk, step_plain w key n hn, World.reachable]
    by_cases hc : (w.searchable key && (w.kindAt (key ++ [n])).isSome) = true
    · simp only [hc, if_true, ih (key ++ [n]) hns, Bool.true_and]
      by_cases hr : w.reachable (key ++ [n]) ns = true
      · simp [hr]
      · simp [hr]
    · simp [hc]

theorem splitSeg_append (n : Name) (hn : '/' ∉ n) : ∀ (cur r : List Char),
    splitSeg cur (n ++ r) = splitSeg (n.reverse ++ cur) r := by
  induction n with
  | nil => intro cur r; rfl
  | cons c cs ih =>
    intro cur r
    have hc : (c == '/') = false := by
      have : c ≠ '/' := fun e => hn (e ▸ List.mem_cons_self)
      simpa using this
    have hcs : '/' ∉ cs := fun hm => hn (List.mem_cons_of_mem _ hm)
    simp only [List.cons_append, splitSeg, hc, Bool.false_eq_true, if_false, ih hcs]
    simp

theorem splitSeg_join (names : List Name) (hne : names ≠ []) (h : ∀ n, n ∈ names → '/' ∉ n) :
    splitSeg [] (joinPath names) = names := by
  induction names with
  | nil => exact absurd rfl hne
  | cons n ns ih =>
    cases ns with
    | nil =>
      have := splitSeg_append n (h n List.mem_cons_self) [] []
      simp only [List.append_nil] at this
      simp [joinPath, this, splitSeg]
    | cons n' t =>
      have hn := h n List.mem_cons_self
      have ht : ∀ x, x ∈ n' :: t → '/' ∉ x := fun x hx => h x (List.mem_cons_of_mem _ hx)
      rw [joinPath_cons n (n' :: t) (by simp), splitSeg_append n hn]
      simp only [List.append_nil, splitSeg, beq_self_eq_true, if_true, List.reverse_reverse]
      rw [ih (by simp) ht]

theorem plainName_noslash (n : Name) (h : plainName n = true) : '/' ∉ n := by
  simp only [plainName, Bool.and_eq_true] at h
  exact validName_noslash n h.1.1.1

theorem splitSeg_join_slash (names : List Name) (hne : names ≠ []) (h : ∀ n, n ∈ names → '/' ∉ n)
    (r : List Char) : splitSeg [] (joinPath names ++ '/' :: r) = names ++ splitSeg [] r := by
  induction names with
  | nil => exact absurd rfl hne
  | cons n ns ih =>
    cases ns with
    | nil =>
      simp only [joinPath, splitSeg_append n (h n List.mem_cons_self), List.append_nil, splitSeg,
        beq_self_eq_true, if_true, List.reverse_reverse, List.cons_append, List.nil_append]
    | cons n' t =>
      have hn := h n List.mem_cons_self
      have ht : ∀ x, x ∈ n' :: t → '/' ∉ x := fun x hx => h x (List.mem_cons_of_mem _ hx)
      rw [joinPath_cons n (n' :: t) (by simp), List.append_assoc, splitSeg_append n hn]
      simp only [List.append_nil, List.cons_append, splitSeg, beq_self_eq_true, if_true, List.reverse_reverse]
      rw [ih (by simp) ht]
      simp

theorem walk_nil_seg (w : World) (key : List Name) (segs : List Name) :
    w.walk key ([] :: segs) = w.walk key segs := by
  simp [World.walk, World.step]

theorem walk_append (w : World) (a : List Name) : ∀ (key : List Name) (b : List Name),
    w.walk key (a ++ b) = match w.walk key a with
      | some k => w.walk k b
      | none => none := by
  induction a with
  | nil => intro key b; rfl
  | cons x xs ih =>
    intro key b
    simp only [List.cons_append, World.walk]
    cases w.step key x with
    | none => rfl
    | some k => exact ih k b

theorem plain_t : plainName ['t'] = true := by decide

theorem joinPath_nul (names : List Name) (h : ∀ n, n ∈ names → plainName n = true) :
    (joinPath names).contains '\x00' = false := by
  induction names with
  | nil => rfl
  | cons n ns ih =>
    have hn := h n List.mem_cons_self
    have hn0 : n.contains '\x00' = false := by
      simp only [plainName, Bool.and_eq_true, Bool.not_eq_true'] at hn
      exact hn.1.1.2
    cases ns with
    | nil => simpa [joinPath] using hn0
    | cons n' t =>
      have := ih (fun x hx => h x (List.mem_cons_of_mem _ hx))
      rw [joinPath_cons n (n' :: t) (by simp)]
      simp only [List.contains_eq_mem, List.mem_append, List.mem_cons, decide_eq_false_iff_not] at *
      rintro (h1 | h1 | h1)
      · exact hn0 h1
      · exact absurd h1 (by decide)
      · exact this h1

theorem joinPath_head (names : List Name) (hne : names ≠ []) (h : ∀ n, n ∈ names → plainName n = true) :
    (joinPath names).head? ≠ some '/' := by
  cases names with
  | nil => exact absurd rfl hne
  | cons n ns =>
    have hn := h n List.mem_cons_self
    have hs := plainName_noslash n hn
    have hne' : n ≠ [] := by
      simp only [plainName, validName, Bool.and_eq_true, Bool.not_eq_true', List.isEmpty_eq_false_iff] at hn
      exact hn.1.1.1.1
    cases n with
    | nil => exact absurd rfl hne'
    | cons c cs =>
      have hc : c ≠ '/' := fun e => hs (e ▸ List.mem_cons_self)
      cases ns with
      | nil => simpa [joinPath] using hc
      | cons n' t => rw [joinPath_cons _ _ (by simp)]; simpa using hc

/-- a path that ends in a plain name after a slash asks for no directory -/
theorem needsDir_plain (x : Path) (n : Name) (h : plainName n = true) : needsDir (x ++ '/' :: n) = false := by
  have hs := plainName_noslash n h
  simp only [plainName, validName, Bool.and_eq_true, Bool.not_eq_true', bne_iff_ne, ne_eq,
    List.isEmpty_eq_false_iff] at h
  obtain ⟨⟨⟨⟨hne, _⟩, _⟩, hd⟩, _⟩ := h
  have hrev : (x ++ '/' :: n).reverse = n.reverse ++ '/' :: x.reverse := by simp
  unfold needsDir
  rw [hrev]
  cases hr : n.reverse with
  | nil => exact absurd (by simpa using hr) hne
  | cons c cs =>
    have hcm : c ∈ n := by
      have : c ∈ n.reverse := by rw [hr]; exact List.mem_cons_self
      simpa using this
    have hc : c ≠ '/' := fun e => hs (e ▸ hcm)
    cases cs with
    | nil =>
      have hn1 : n = [c] := by
        have := congrArg List.reverse hr
        simpa using this
      have hcd : c ≠ '.' := fun e => hd (by rw [hn1, e]; rfl)
      simp only [List.cons_append, List.nil_append]
      split
      · rename_i heq; cases heq; exact absurd rfl hc
      · rename_i heq; cases heq; exact absurd rfl hcd
      · rfl
    | cons d ds =>
      have hdm : d ∈ n := by
        have : d ∈ n.reverse := by rw [hr]; simp
        simpa using this
      have hdd : d ≠ '/' := fun e => hs (e ▸ hdm)
      simp only [List.cons_append]
      split
      · rename_i heq; cases heq; exact absurd rfl hc
      · rename_i heq; cases heq; exact absurd rfl hdd
      · rfl

theorem joinPath_last (names : List Name) (hne : names ≠ []) : ∀ (pre : List Char),
    ∃ y, (pre ++ ['/']) ++ joinPath names = y ++ '/' :: names.getLast hne := by
  induction names with
  | nil => exact absurd rfl hne
  | cons n ns ih =>
    intro pre
    cases ns with
    | nil => exact ⟨pre, by simp [joinPath]⟩
    | cons n' t =>
      obtain ⟨y, hy⟩ := ih (by simp) (pre ++ ['/'] ++ n)
      refine ⟨y, ?_⟩
      rw [joinPath_cons n (n' :: t) (by simp), List.getLast_cons (by simp), ← hy]
      simp

theorem splitSeg_abs (names : List Name) (r : List Char) :
    splitSeg [] (['/', 't', '/'] ++ (joinPath names ++ r))
      = [] :: ['t'] :: splitSeg [] (joinPath names ++ r) := by
  simp [splitSeg]

theorem allPlain_t (names : List Name) (h : ∀ n, n ∈ names → plainName n = true) :
    ∀ n, n ∈ (['t'] : Name) :: names → plainName n = true := by
  intro n hn
  rw [List.mem_cons] at hn
  rcases hn with e | hn
  · subst e; exact plain_t
  · exact h n hn

/-- `FileSystem::get` of `/t/n₁/…/nₖ` for plain names -/
theorem get_plain (w : World) (hroot : w.isDir [] = true) (names : List Name) (hne : names ≠ [])
    (h : ∀ n, n ∈ names → plainName n = true) :
    w.get (['/', 't', '/'] ++ joinPath names)
      = if w.reachable [] (['t'] :: names) then some (['t'] :: names) else none := by
  have hs : ∀ n, n ∈ names → '/' ∉ n := fun n hn => plainName_noslash n (h n hn)
  have hsplit := splitSeg_abs names []
  simp only [List.append_nil] at hsplit
  obtain ⟨y, hy⟩ := joinPath_last names hne ['/', 't']
  have hnd : needsDir (['/', 't', '/'] ++ joinPath names) = false := by
    have : (['/', 't', '/'] ++ joinPath names) = y ++ '/' :: names.getLast hne := by rw [← hy]; rfl
    rw [this]
    exact needsDir_plain y _ (h _ (List.getLast_mem hne))
  simp only [World.get, hroot, if_true, hsplit, splitSeg_join names hne hs, walk_nil_seg,
    walk_plain w _ [] (allPlain_t names h), hnd, Bool.false_and, Bool.false_eq_true, if_false,
    List.nil_append]
  by_cases hr : w.reachable [] (['t'] :: names) = true
  · simp [hr]
  · simp [hr]

theorem needsDir_slash (x : Path) : needsDir (x ++ ['/']) = true := by
  simp [needsDir]

/-- `FileSystem::get` of `/t/n₁/…/nₖ/` for plain names: the same, and the node must be a directory -/
theorem get_plain_slash (w : World) (hroot : w.isDir [] = true) (names : List Name) (hne : names ≠ [])
    (h : ∀ n, n ∈ names → plainName n = true) :
    w.get (['/', 't', '/'] ++ (joinPath names ++ ['/']))
      = if w.reachable [] (['t'] :: names) && w.isDir (['t'] :: names) then some (['t'] :: names) else none := by
  have hs : ∀ n, n ∈ names → '/' ∉ n := fun n hn => plainName_noslash n (h n hn)
  have hsplit := splitSeg_abs names ['/']
  have hnd : needsDir (['/', 't', '/'] ++ (joinPath names ++ ['/'])) = true := by
    rw [← List.append_assoc]; exact needsDir_slash _
  have hw : w.walk [] (['t'] :: names ++ [[]]) =
      if w.reachable [] (['t'] :: names) then some (['t'] :: names) else none := by
    have hcons : (['t'] : Name) :: names ++ [[]] = ((['t'] : Name) :: names) ++ [[]] := rfl
    rw [hcons, walk_append, walk_plain w _ [] (allPlain_t names h)]
    by_cases hr : w.reachable [] (['t'] :: names) = true
    · simp [hr, World.walk, World.step]
    · simp [hr]
  have hsp2 : splitSeg [] (joinPath names ++ ['/']) = names ++ [[]] := by
    rw [splitSeg_join_slash names hne hs []]; rfl
  simp only [World.get, hroot, if_true, hsplit, hsp2, walk_nil_seg, hnd, Bool.true_and]
  have hcons : (['t'] : Name) :: (names ++ [[]]) = (['t'] : Name) :: names ++ [[]] := rfl
  rw [hcons, hw]
  by_cases hr : w.reachable [] (['t'] :: names) = true
  · by_cases hd : w.isDir (['t'] :: names) = true
    · simp [hr, hd]
    · simp [hr, hd]
  · simp [hr]

theorem follow_succ (w : World) (fuel : Nat) (abs : Path) :
    w.follow (fuel + 1) abs =
      match w.get abs with
      | none => false
      | some key =>
        match w.kindAt key with
        | some (NodeKind.link target) => w.follow fuel (retarget abs target)
        | _ => true := rfl

theorem dropWhile_notslash (a : List Char) (h : '/' ∉ a) (r : List Char) :
    (a ++ '/' :: r).dropWhile (· != '/') = '/' :: r := by
  induction a with
  | nil => simp
  | cons c cs ih =>
    have hc : c ≠ '/' := fun e => h (e ▸ List.mem_cons_self)
    have hcs : '/' ∉ cs := fun hm => h (List.mem_cons_of_mem _ hm)
    simp [hc, ih hcs]

/-- a relative link target is resolved in the directory that holds the link -/
theorem retarget_relative (x : Path) (n : Name) (hn : '/' ∉ n) (tgt : Path) (ht : tgt.head? ≠ some '/') :
    retarget (x ++ '/' :: n) tgt = x ++ '/' :: tgt := by
  have hrev : (x ++ '/' :: n).reverse = n.reverse ++ '/' :: x.reverse := by simp
  have hn' : '/' ∉ n.reverse := by simpa using hn
  simp only [retarget]
  split
  · rename_i hh; exact absurd (by simpa using hh) ht
  · rw [hrev, dropWhile_notslash _ hn']
    simp

theorem joinPath_ne_nil (names : List Name) (hne : names ≠ []) (h : ∀ n, n ∈ names → plainName n = true) :
    joinPath names ≠ [] := by
  cases names with
  | nil => exact absurd rfl hne
  | cons n ns =>
    have hn := h n List.mem_cons_self
    have hne' : n ≠ [] := by
      simp only [plainName, validName, Bool.and_eq_true, Bool.not_eq_true', List.isEmpty_eq_false_iff] at hn
      exact hn.1.1.1.1
    cases ns with
    | nil => simpa [joinPath] using hne'
    | cons n' t => rw [joinPath_cons _ _ (by simp)]; simp

theorem absPath_rel (p : Path) (h : p.head? ≠ some '/') : absPath p = ['/', 't', '/'] ++ p := by
  simp only [absPath]
  split
  · rename_i hh; exact absurd (by simpa using hh) h
  · rfl

/-! ### the search bit -/

theorem testBit6 (mode : Nat) : Nat.testBit mode 6 = decide (mode / 64 % 2 = 1) := by
  rw [Nat.testBit_eq_decide_div_mod_eq]

/-- the generated permission test (`permissions.contains(Mode::USER_EXEC)`, mask 0o100) is "bit 6 of the
    mode is set" -/
theorem ownerSearch_bit (mode : Nat) : ownerSearch mode = (mode / 64 % 2 == 1) := by
  have key : mode &&& 64 = 64 ↔ mode / 64 % 2 = 1 := by
    constructor
    · intro h
      have h6 := congrArg (fun x => Nat.testBit x 6) h
      simp only [Nat.testBit_and] at h6
      rw [testBit6] at h6
      have : Nat.testBit 64 6 = true := by decide
      rw [this] at h6
      simpa using h6
    · intro h
      apply Nat.eq_of_testBit_eq
      intro i
      rw [Nat.testBit_and]
      by_cases hi : i = 6
      · subst hi
        rw [testBit6]
        simp [h]
      · have : Nat.testBit 64 i = false := by
          rw [show (64:Nat) = 2^6 from rfl, Nat.testBit_two_pow]
          simp; omega
        simp [this]
  show (if YashModel.Generated.GlobTables.searchNeedsAll then
      mode &&& YashModel.Generated.GlobTables.searchMask == YashModel.Generated.GlobTables.searchMask
    else mode &&& YashModel.Generated.GlobTables.searchMask != 0) = _
  simp only [YashModel.Generated.GlobTables.searchNeedsAll, YashModel.Generated.GlobTables.searchMask, if_true]
  by_cases hm : mode / 64 % 2 = 1
  · rw [key.mpr hm, hm]; rfl
  · have h2 : ¬ (mode &&& 64 = 64) := fun h => hm (key.mp h)
    rw [beq_false_of_ne h2, beq_false_of_ne hm]

end YashModel.Glob
