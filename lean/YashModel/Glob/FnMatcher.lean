/-
  C05 ∘ C04 — the matcher of pathname expansion is no longer a parameter: `fnMatcher` is the C04 model of
  yash-fnmatch (`Fnmatch.Pattern.parse`, `Pattern.isMatch`: parser, translation to regex text, regex
  subset, leftmost-first search, literal fast path, `literal_period`) under the `Config` that
  `to_pattern` of glob.rs builds.  The three flags are re-extracted from glob.rs on every run
  (`Generated/GlobTables.lean`).

  Import-free apart from the two models and the generated table: part of the driver, which computes
  both of its columns with this matcher.  The match table of real yash_fnmatch answers that the harness
  sends with every case is now only *compared* with it (`tabAgrees`).
-/
import YashModel.Glob.Model
import YashModel.Glob.Spec
import YashModel.Glob.Dump
import YashModel.Fnmatch.Model
import YashModel.Generated.GlobTables
namespace YashModel.Glob
open YashModel.Generated

/-- the same two constructors in the two areas -/
def convPc : PatternChar → Fnmatch.PatternChar
  | .normal c => .normal c
  | .literal c => .literal c

/-- the `Config` of `to_pattern`: `anchor_begin`, `anchor_end`, `literal_period` set, the rest default -/
def globConfig : Fnmatch.Config where
  anchorBegin := GlobTables.patAnchorBegin
  anchorEnd := GlobTables.patAnchorEnd
  literalPeriod := GlobTables.patLiteralPeriod
  shortest := GlobTables.patShortestMatch

/-- `Pattern::parse_with_config(chars, config).ok()` in `to_pattern` -/
def fnCompile (pcs : List PatternChar) : Option Fnmatch.Pattern :=
  match Fnmatch.Pattern.parse (pcs.map convPc) globConfig with
  | .ok p => some p
  | .error _ => none

/-- `Pattern::into_literal` seen as a classification -/
def kindOfPattern (p : Fnmatch.Pattern) : Kind :=
  match p.body with
  | .literal s => Kind.literal s
  | .regex _ _ => Kind.pattern

/-- `to_pattern(this).map(Pattern::into_literal)` -/
def fnKind (pcs : List PatternChar) : Kind :=
  match fnCompile pcs with
  | none => Kind.invalid
  | some p => kindOfPattern p

/-- `pattern.is_match(name)` of the compiled component -/
def fnIsMatch (pcs : List PatternChar) (n : Name) : Bool :=
  match fnCompile pcs with
  | none => false
  | some p => p.isMatch n

/-- ★ the matcher pathname expansion really uses: the C04 model of yash-fnmatch under `globConfig` -/
def fnMatcher : Matcher where
  kind := fnKind
  isMatch := fnIsMatch

/-- one line of a match table computed from the C04 model (the pattern is compiled once, then run on
    every candidate name) -/
def fnEntry (cands : List Name) (pcs : List PatternChar) : MEntry :=
  match fnCompile pcs with
  | none => { pcs := pcs, kind := Kind.invalid, names := [] }
  | some p => { pcs := pcs, kind := kindOfPattern p, names := cands.filter p.isMatch }

/-- the table for the component patterns `keys` over the candidate names `cands`; `mkMatcher` of it is
    `fnMatcher` memoised on `keys × cands` (`mkMatcher_fnTab_*`, FnLemmas.lean) -/
def fnTab (cands : List Name) (keys : List (List PatternChar)) : List MEntry :=
  keys.map (fnEntry cands)

/-- the component patterns of a list of fields -/
def componentKeys (fields : List (List AttrChar)) : List (List PatternChar) :=
  fields.flatMap fun f => ((splitComponents f).1 :: (splitComponents f).2).map toPattern

/-- does one line of the table of *real* yash_fnmatch answers say what the C04 model says — same
    classification, and the same verdict on every candidate name and on every name the real crate
    reports as matched? -/
def entryAgrees (cands : List Name) (e : MEntry) : Bool :=
  let f := fnEntry (cands ++ e.names) e.pcs
  f.kind == e.kind
    && (e.kind != Kind.pattern   -- `is_match` is only ever asked of a real pattern
        || (cands ++ e.names).all (fun n => f.names.contains n == e.names.contains n))

def tabAgrees (cands : List Name) (tab : List MEntry) : Bool := tab.all (entryAgrees cands)

end YashModel.Glob
