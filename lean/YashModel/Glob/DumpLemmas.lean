/-
  C05 — the decidable checks of the driver imply the hypotheses of the theorems:
  `wfDump e l = true → WF (mkFs e l)`, `UnivCovers (mkFs e l) (univOf l)`,
  `periodDump tab = true → PeriodRule (mkMatcher tab)`; and the unpacking of a Spec witness into the
  clauses of the property (`witness_clauses`).
-/
import YashModel.Glob.Utf8
import YashModel.Glob.Dump
namespace YashModel.Glob

theorem nodupB_nodup (l : List Path) (h : nodupB l = true) : l.Nodup := by
  induction l with
  | nil => exact List.nodup_nil
  | cons x xs ih =>
    simp only [nodupB, Bool.and_eq_true, Bool.not_eq_true', List.contains_eq_mem, decide_eq_false_iff_not] at h
    exact List.nodup_cons.mpr ⟨h.1, ih h.2⟩

theorem stripPre_append (pre n : Path) : stripPre pre (pre ++ n) = some n := by
  induction pre with
  | nil => rfl
  | cons a as ih => simp [stripPre, ih]

theorem mem_slashPrefixes (p : Path) : ∀ (acc q : Path), acc ++ p ∈ slashPrefixes acc (p ++ '/' :: q) := by
  induction p with
  | nil => intro acc q; simp [slashPrefixes]
  | cons c p ih =>
    intro acc q
    have := ih (acc ++ [c]) q
    simp only [List.append_assoc, List.singleton_append] at this
    simp only [List.cons_append, slashPrefixes]
    split
    · exact List.mem_cons_of_mem _ this
    · exact this

theorem preOfDir_dirPath (pre : Path) (h : PrefixOK pre) : preOfDir (dirPath pre) = some pre := by
  rcases h with e | ⟨q, e⟩
  · subst e; rfl
  · subst e
    have hne : (q ++ ['/']).isEmpty = false := by cases q <;> rfl
    have hd : q ++ ['/'] ≠ ['.'] := by
      intro h
      have := congrArg List.reverse h
      simp at this
    simp [preOfDir, dirPath, hne, hd]

theorem mkFs_list (e : List Path) (l : List (Path × List Name)) (d : Path) (ns : List Name)
    (h : (mkFs e l).list d = some ns) : ∃ x, x ∈ l ∧ x.1 = d ∧ x.2 = ns := by
  simp only [mkFs, Option.map_eq_some_iff] at h
  obtain ⟨x, hx, e⟩ := h
  exact ⟨x, List.mem_of_find?_eq_some hx, by simpa using List.find?_some hx, e⟩

/-- ★ the driver's decidable check implies the consistency hypothesis of the theorems -/
theorem wfDump_sound (e : List Path) (l : List (Path × List Name)) (h : wfDump e l = true) :
    WF (mkFs e l) := by
  simp only [wfDump, Bool.and_eq_true, List.all_eq_true] at h
  constructor
  · intro pre ns hpre hl
    obtain ⟨x, hx, hd, hn⟩ := mkFs_list e l _ ns hl
    have hx' := h.1 x hx
    rw [hd, preOfDir_dirPath pre hpre] at hx'
    simp only [Bool.and_eq_true, List.all_eq_true, hn] at hx'
    refine ⟨nodupB_nodup ns hx'.1.1, fun n => ⟨fun hm => ?_, fun hv => ?_⟩⟩
    · have := hx'.1.2 n hm
      simpa [mkFs] using this
    · have hc : (pre ++ n) ∈ e := by simpa [mkFs] using hv.2
      have := hx'.2 (pre ++ n) hc
      rw [stripPre_append] at this
      simpa [hv.1] using this
  · intro p q hq
    have hc : (p ++ '/' :: q) ∈ e := by simpa [mkFs] using hq
    have := h.2 _ hc _ (by simpa using mem_slashPrefixes p [] q)
    simpa [mkFs] using this

theorem mem_dedupNames (l : List Name) (x : Name) : x ∈ dedupNames l ↔ x ∈ l := by
  induction l with
  | nil => simp [dedupNames]
  | cons a t ih =>
    simp only [dedupNames]
    split
    · rename_i hc
      have : a ∈ dedupNames t := by simpa using hc
      rw [ih, List.mem_cons]
      constructor
      · exact Or.inr
      · rintro (e | h)
        · subst e; exact ih.mp this
        · exact h
    · simp [List.mem_cons, ih]

/-- ★ the driver's name set covers every listing of the dump -/
theorem univOf_covers (e : List Path) (l : List (Path × List Name)) : UnivCovers (mkFs e l) (univOf l) := by
  intro d ns hl n hn
  obtain ⟨x, hx, _, hxn⟩ := mkFs_list e l d ns hl
  rw [univOf, mem_dedupNames, List.mem_flatMap]
  exact ⟨x, hx, hxn ▸ hn⟩

/-- ★ the driver's check of the match table implies the leading-period hypothesis -/
theorem periodDump_sound (tab : List MEntry) (h : periodDump tab = true) : PeriodRule (mkMatcher tab) := by
  intro pcs n hm hdot
  simp only [mkMatcher, lookupM] at hm
  cases hf : tab.find? (fun e => e.pcs == pcs) with
  | none => simp [hf] at hm
  | some en =>
    simp only [hf] at hm
    have hmem : en ∈ tab := List.mem_of_find?_eq_some hf
    have hp : en.pcs = pcs := by simpa using List.find?_some hf
    simp only [periodDump, List.all_eq_true] at h
    have := h en hmem n (by simpa using hm)
    simp only [hdot, beq_self_eq_true, Bool.not_true, Bool.false_or, beq_iff_eq] at this
    rw [← hp]
    exact this

/-! ### a Spec witness, unpacked into the clauses of the property -/

/-- the pattern characters carry exactly the characters that survive quote removal -/
theorem toPatternChars_values (cs : List AttrChar) : ∀ nq,
    (toPatternChars nq cs).map PatternChar.charValue = removeQuotes cs := by
  induction cs with
  | nil => intro nq; simp [toPatternChars, removeQuotes]
  | cons c cs ih =>
    intro nq
    simp only [toPatternChars]
    by_cases hq : c.isQuoting = true
    · simp [hq, ih, removeQuotes] 
    · have hq' : c.isQuoting = false := by simpa using hq
      split
      · exact absurd ‹_› hq
      · split <;> simp [ih, removeQuotes, hq', PatternChar.charValue] <;> rfl

theorem toPattern_head (c : List AttrChar) :
    (toPattern c).head?.map PatternChar.charValue = (removeQuotes c).head? := by
  rw [← toPatternChars_values c false, List.head?_map]
  rfl

theorem compMatches_clauses (m : Matcher) (hp : PeriodRule m) (c : List AttrChar) (n : Name)
    (h : compMatches m c n = true) : nameClauses m c n := by
  simp only [compMatches, nameClauses] at *
  cases hk : m.kind (toPattern c) with
  | invalid => rw [hk] at h; simpa using h
  | literal s => rw [hk] at h; simpa using h
  | pattern =>
    rw [hk] at h
    simp only [Bool.and_eq_true, bne_iff_ne, ne_eq] at h
    obtain ⟨⟨⟨hv, h1⟩, h2⟩, h3⟩ := h
    have hv' := hv
    simp only [validName, Bool.and_eq_true, Bool.not_eq_true', List.isEmpty_eq_false_iff] at hv'
    exact ⟨hv'.1, validName_noslash n hv, h1, h2, h3, fun hd => (toPattern_head c) ▸ hp _ n h3 hd⟩

theorem witness_clauses (m : Matcher) (fs : Fs) (hp : PeriodRule m) (cs : List (List AttrChar)) :
    ∀ (c : List AttrChar) (pre : Path) (names : List Name),
      witness m fs pre c cs names = true → namesClauses m c cs names := by
  induction cs with
  | nil =>
    intro c pre names h
    match names, h with
    | [n], h =>
      simp only [witness, Bool.and_eq_true] at h
      exact compMatches_clauses m hp c n h.1.1
    | [], h => simp [witness] at h
    | _ :: _ :: _, h => simp [witness] at h
  | cons c' cs ih =>
    intro c pre names h
    match names, h with
    | n :: ns, h =>
      simp only [witness, Bool.and_eq_true] at h
      exact ⟨compMatches_clauses m hp c n h.1.1, ih c' _ ns h.2⟩
    | [], h => simp [witness] at h

end YashModel.Glob
