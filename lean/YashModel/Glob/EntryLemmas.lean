/-
  C05 wave 3 — lemmas for the entry-based Spec (`EntrySpec.lean`): `ewitness` is the listing-based
  witness of `Lemmas.lean`; no pathname is produced twice when listings are duplicate-free lists of valid
  names; Spec witnesses are entry witnesses when the listings cover what exists; the brute-force
  `specGlobE`; soundness of `lwfDump`; `ListingsOK` / `Covering` for the oracles of every tidy world.
-/
import YashModel.Glob.EntrySpec
import YashModel.Glob.DumpLemmas
import YashModel.Glob.WorldWF
namespace YashModel.Glob
open YashModel.Generated

/-! ### `ewitness` = `lwitness` -/

theorem estep_iff (m : Matcher) (fs : Fs) (pre : Path) (c : List AttrChar) (n : Name) :
    estep m fs pre c n = true ↔ stepOK m fs pre c n := by
  simp only [estep, stepOK]
  cases hk : m.kind (toPattern c) with
  | invalid => simp
  | literal s => simp
  | pattern =>
    cases hl : fs.list (dirPath pre) with
    | none => simp
    | some ns =>
      simp only [Bool.and_eq_true, bne_iff_ne, ne_eq, List.contains_eq_mem, decide_eq_true_eq,
        Option.some.injEq]
      constructor
      · rintro ⟨⟨⟨h1, h2⟩, h3⟩, h4⟩
        exact ⟨ns, rfl, h1, h2, h3, h4⟩
      · rintro ⟨ns', e, h1, h2, h3, h4⟩
        subst e
        exact ⟨⟨⟨h1, h2⟩, h3⟩, h4⟩

theorem ewitness_iff_lwitness (m : Matcher) (fs : Fs) (cs : List (List AttrChar)) :
    ∀ (c : List AttrChar) (pre : Path) (names : List Name),
      ewitness m fs pre c cs names = true ↔ lwitness m fs pre c cs names := by
  induction cs with
  | nil =>
    intro c pre names
    match names with
    | [] => simp [lwitness, ewitness]
    | _ :: _ :: _ => simp [lwitness, ewitness]
    | [n] =>
      simp only [lwitness, ewitness, Bool.and_eq_true, Bool.or_eq_true, estep_iff]
  | cons c' cs ih =>
    intro c pre names
    match names with
    | [] => simp [lwitness, ewitness]
    | n :: ns =>
      simp only [lwitness, ewitness, Bool.and_eq_true, estep_iff, ih c' _ ns]

/-- ★ (lemma) `searchField` returns exactly the entry-based members — no hypothesis at all -/
theorem mem_searchField_entry (m : Matcher) (fs : Fs) (field : List AttrChar) (p : Path) :
    p ∈ searchField m fs field ↔ EntryMember m fs field p := by
  unfold searchField EntryMember
  simp only []
  rw [mem_searchDir_l]
  simp only [List.nil_append]
  constructor
  · rintro ⟨names, hw, e⟩
    exact ⟨names, (ewitness_iff_lwitness m fs _ _ [] names).mpr hw, e⟩
  · rintro ⟨names, hw, e⟩
    exact ⟨names, (ewitness_iff_lwitness m fs _ _ [] names).mp hw, e⟩

/-! ### no pathname twice, from `ListingsOK` alone -/

theorem wf_listingsOK (fs : Fs) (h : WF fs) : ListingsOK fs := by
  intro pre ns hpre hl
  have := h.listing pre ns hpre hl
  exact ⟨this.1, fun n hn => ((this.2 n).mp hn).1⟩

theorem wf_covering (fs : Fs) (h : WF fs) : Covering fs :=
  ⟨fun pre ns hpre hl n hv he => ((h.listing pre ns hpre hl).2 n).mpr ⟨hv, he⟩, h.prefixClosed⟩

theorem searchStep_nodup_l (m : Matcher) (fs : Fs) (hL : ListingsOK fs) (c : List AttrChar)
    (next : Option (Path → List Path)) (pre : Path) (hpre : PrefixOK pre)
    (hk : ∀ k, next = some k → (∀ q, PrefixOK q → (k q).Nodup) ∧ (∀ q x, x ∈ k q → ∃ r, x = q ++ r)) :
    (searchStep m fs c next pre).Nodup := by
  have hpush : ∀ fe n, (pushComponent fs next pre fe n).Nodup := by
    intro fe n
    cases next with
    | none =>
      unfold pushComponent
      simp only []
      split <;> simp
    | some k => exact (hk k rfl).1 _ (prefixOK_push pre n)
  simp only [searchStep]
  cases hkind : m.kind (toPattern c) with
  | invalid => exact hpush _ _
  | literal s => exact hpush _ _
  | pattern =>
    cases hl : fs.list (dirPath pre) with
    | none => exact List.nodup_nil
    | some ns =>
      have hls := hL pre ns hpre hl
      simp only []
      unfold List.Nodup
      rw [List.pairwise_flatMap]
      refine ⟨fun n _ => hpush _ _, ?_⟩
      have hnd : (ns.filter (fun n => n != dot && n != dotdot && m.isMatch (toPattern c) n)).Nodup :=
        List.Pairwise.filter _ hls.1
      refine List.Pairwise.imp_of_mem ?_ hnd
      intro n₁ n₂ hn₁ hn₂ hne x hx y hy hxy
      have hv₁ := hls.2 n₁ (List.mem_filter.mp hn₁).1
      have hv₂ := hls.2 n₂ (List.mem_filter.mp hn₂).1
      subst hxy
      cases next with
      | none =>
        rw [mem_pushComponent_none] at hx hy
        exact hne (List.append_cancel_left (hx.2.symm.trans hy.2))
      | some k =>
        rw [pushComponent_some] at hx hy
        obtain ⟨r₁, e₁⟩ := (hk k rfl).2 _ _ hx
        obtain ⟨r₂, e₂⟩ := (hk k rfl).2 _ _ hy
        rw [path_assoc] at e₁ e₂
        have := List.append_cancel_left (e₁.symm.trans e₂)
        exact hne (append_slash_inj n₁ n₂ r₁ r₂ (validName_noslash n₁ hv₁) (validName_noslash n₂ hv₂) this)

theorem searchDir_nodup_l (m : Matcher) (fs : Fs) (hL : ListingsOK fs) (cs : List (List AttrChar)) :
    ∀ (c : List AttrChar) (pre : Path), PrefixOK pre → (searchDir m fs c cs pre).Nodup := by
  induction cs with
  | nil =>
    intro c pre hpre
    rw [searchDir]
    exact searchStep_nodup_l m fs hL c none pre hpre (by intro k h; cases h)
  | cons c' cs ih =>
    intro c pre hpre
    rw [searchDir]
    apply searchStep_nodup_l m fs hL c _ pre hpre
    intro k h
    cases h
    exact ⟨fun q hq => ih c' q hq, fun q x hx => searchDir_prefix m fs c' cs q x hx⟩

theorem searchField_nodup_l (m : Matcher) (fs : Fs) (hL : ListingsOK fs) (field : List AttrChar) :
    (searchField m fs field).Nodup :=
  searchDir_nodup_l m fs hL _ _ [] prefixOK_nil

/-! ### Spec witnesses are entry witnesses when listings cover what exists -/

theorem spec_stepOK_cov (m : Matcher) (fs : Fs) (hC : Covering fs) (pre : Path) (hpre : PrefixOK pre)
    (c : List AttrChar) (n : Name) (h1 : compMatches m c n = true)
    (h2 : (!isWild m c || (fs.list (dirPath pre)).isSome) = true)
    (h3 : fs.exist (pre ++ n) = true) : stepOK m fs pre c n := by
  simp only [stepOK, compMatches, isWild] at *
  cases hk : m.kind (toPattern c) with
  | invalid => rw [hk] at h1; simpa using h1
  | literal s => rw [hk] at h1; simpa using h1
  | pattern =>
    rw [hk] at h1 h2
    simp only [Bool.not_true, Bool.false_or] at h2
    cases hl : fs.list (dirPath pre) with
    | none => simp [hl] at h2
    | some ns =>
      simp only [Bool.and_eq_true, bne_iff_ne, ne_eq] at h1
      exact ⟨ns, rfl, hC.listed pre ns hpre hl n h1.1.1.1 h3, h1.1.1.2, h1.1.2, h1.2⟩

theorem witness_lwitness_cov (m : Matcher) (fs : Fs) (hC : Covering fs) (cs : List (List AttrChar)) :
    ∀ (c : List AttrChar) (pre : Path) (names : List Name), PrefixOK pre →
      witness m fs pre c cs names = true → lwitness m fs pre c cs names := by
  induction cs with
  | nil =>
    intro c pre names hpre
    match names with
    | [] => simp [witness]
    | _ :: _ :: _ => simp [witness]
    | [n] =>
      simp only [lwitness, witness, Bool.and_eq_true]
      rintro ⟨⟨a, b⟩, d⟩
      exact ⟨spec_stepOK_cov m fs hC pre hpre c n a b d, Or.inr d⟩
  | cons c' cs ih =>
    intro c pre names hpre
    match names with
    | [] => simp [witness]
    | n :: ns =>
      simp only [lwitness, witness, Bool.and_eq_true]
      rintro ⟨⟨a, b⟩, hw⟩
      refine ⟨spec_stepOK_cov m fs hC pre hpre c n a b ?_, ih c' _ ns (prefixOK_push pre n) hw⟩
      have := witness_exist m fs cs c' _ ns hw
      rw [path_assoc, ← List.append_assoc] at this
      exact hC.prefixClosed _ _ this

/-- every Spec member is found by the search, as soon as the listings cover what exists -/
theorem specMember_mem_searchField (m : Matcher) (fs : Fs) (hC : Covering fs) (field : List AttrChar)
    (p : Path) (h : SpecMember m fs field p) : p ∈ searchField m fs field := by
  obtain ⟨names, hw, e⟩ := h
  unfold searchField
  simp only []
  rw [mem_searchDir_l]
  exact ⟨names, witness_lwitness_cov m fs hC _ _ [] names prefixOK_nil hw, by simpa using e⟩

/-! ### the clauses of the property for an entry witness -/

theorem stepOK_clauses (m : Matcher) (fs : Fs) (hL : ListingsOK fs) (hp : PeriodRule m) (pre : Path)
    (hpre : PrefixOK pre) (c : List AttrChar) (n : Name) (h : stepOK m fs pre c n) :
    nameClauses m c n := by
  simp only [stepOK, nameClauses] at *
  cases hk : m.kind (toPattern c) with
  | invalid => rw [hk] at h; exact h
  | literal s => rw [hk] at h; exact h
  | pattern =>
    rw [hk] at h
    obtain ⟨ns, hl, hn, h1, h2, h3⟩ := h
    have hv := (hL pre ns hpre hl).2 n hn
    have hv' := hv
    simp only [validName, Bool.and_eq_true, Bool.not_eq_true', List.isEmpty_eq_false_iff] at hv'
    exact ⟨hv'.1, validName_noslash n hv, h1, h2, h3, fun hd => (toPattern_head c) ▸ hp _ n h3 hd⟩

theorem lwitness_clauses (m : Matcher) (fs : Fs) (hL : ListingsOK fs) (hp : PeriodRule m)
    (cs : List (List AttrChar)) : ∀ (c : List AttrChar) (pre : Path) (names : List Name), PrefixOK pre →
      lwitness m fs pre c cs names → namesClauses m c cs names := by
  induction cs with
  | nil =>
    intro c pre names hpre h
    match names, h with
    | [n], h => exact stepOK_clauses m fs hL hp pre hpre c n h.1
  | cons c' cs ih =>
    intro c pre names hpre h
    match names, h with
    | n :: ns, h => exact ⟨stepOK_clauses m fs hL hp pre hpre c n h.1, ih c' _ ns (prefixOK_push pre n) h.2⟩

/-! ### the brute-force `specGlobE` -/

theorem mem_foundE (m : Matcher) (fs : Fs) (univ : List Name) (hU : UnivCovers fs univ)
    (field : List AttrChar) (p : Path) :
    p ∈ ((tuples m univ ((splitComponents field).1 :: (splitComponents field).2)).filter
          (ewitness m fs [] (splitComponents field).1 (splitComponents field).2)).map joinPath
      ↔ EntryMember m fs field p := by
  simp only [List.mem_map, List.mem_filter]
  constructor
  · rintro ⟨names, ⟨_, hw⟩, e⟩
    exact ⟨names, hw, e.symm⟩
  · rintro ⟨names, hw, e⟩
    refine ⟨names, ⟨?_, hw⟩, e.symm⟩
    apply lwitness_mem_tuples m fs univ hU _ _ []
    exact (ewitness_iff_lwitness m fs _ _ [] names).mp hw

/-! ### the dump check -/

theorem lwfDump_sound (e : List Path) (l : List (Path × List Name)) (h : lwfDump l = true) :
    ListingsOK (mkFs e l) := by
  simp only [lwfDump, List.all_eq_true] at h
  intro pre ns hpre hl
  obtain ⟨x, hx, hd, hn⟩ := mkFs_list e l _ ns hl
  have hx' := h x hx
  rw [hd, preOfDir_dirPath pre hpre] at hx'
  simp only [Bool.and_eq_true, List.all_eq_true, hn] at hx'
  exact ⟨nodupB_nodup ns hx'.1, hx'.2⟩

theorem wfDump_lwfDump (e : List Path) (l : List (Path × List Name)) (h : wfDump e l = true) :
    lwfDump l = true := by
  simp only [wfDump, Bool.and_eq_true, List.all_eq_true] at h
  simp only [lwfDump, List.all_eq_true]
  intro x hx
  have := h.1 x hx
  cases hp : preOfDir x.1 with
  | none => rfl
  | some pre =>
    rw [hp] at this
    simp only [Bool.and_eq_true, List.all_eq_true] at this ⊢
    exact ⟨this.1.1, fun n hn => (this.1.2 n hn).1⟩

/-! ### every tidy world -/

structure Tidy (w : World) : Prop where
  nodup : (w.entries.map (·.1)).Nodup
  plain : ∀ x, x ∈ w.entries → ∀ n, n ∈ x.1 → plainName n = true

theorem tidy_of_tidyWorld (w : World) (h : tidyWorld w = true) : Tidy w := by
  simp only [tidyWorld, Bool.and_eq_true, List.all_eq_true] at h
  exact ⟨nodupKeys_nodup _ h.1, fun x hx n hn => h.2 x hx n hn⟩

theorem good_tidy (w : World) (h : goodWorld w = true) : tidyWorld w = true := by
  simp only [goodWorld, Bool.and_eq_true, List.all_eq_true] at h
  simp only [tidyWorld, Bool.and_eq_true, List.all_eq_true]
  exact ⟨h.1.1, fun x hx => (h.1.2 x hx).1⟩

/-- what a successful listing says, in the shape the look-up lemmas need -/
theorem list_some_shape (w : World) (pre : Path) (ns : List Name) (hpre : PrefixOK pre)
    (hl : (fsOfWorld w).list (dirPath pre) = some ns) :
    ∃ X t0 key, trivSeg t0 ∧ '/' ∉ t0 ∧ w.get (X ++ '/' :: t0) = some key ∧ w.isDir key = true
      ∧ ns = dot :: dotdot :: w.children key
      ∧ ∀ n : Name, n ≠ [] → '/' ∉ n → absPath (pre ++ n) = X ++ '/' :: n := by
  obtain ⟨X, t0, hX, ht, hts, hchild⟩ := prefix_shape pre hpre
  have hl' := hl
  simp only [fsOfWorld] at hl'
  by_cases hc : ((dirPath pre).contains '\x00' || !w.fdFree) = true
  · rw [if_pos hc] at hl'; cases hl'
  rw [if_neg hc] at hl'
  cases hg : w.get (absPath (dirPath pre)) with
  | none => rw [hg] at hl'; cases hl'
  | some key =>
    rw [hg] at hl'
    simp only at hl'
    have hd : w.isDir key = true := by
      by_cases hd : w.isDir key = true
      · exact hd
      · rw [if_neg hd] at hl'; cases hl'
    rw [if_pos hd, Option.some.injEq] at hl'
    rw [hX] at hg
    exact ⟨X, t0, key, ht, hts, hg, hd, hl'.symm, hchild⟩

/-- ★ listings of every tidy world are duplicate-free lists of valid names -/
theorem listingsOK_of_tidy (w : World) (g : Tidy w) : ListingsOK (fsOfWorld w) := by
  intro pre ns hpre hl
  obtain ⟨X, t0, key, _, _, _, _, hns, _⟩ := list_some_shape w pre ns hpre hl
  subst hns
  have hplain_child : ∀ n, n ∈ w.children key → plainName n = true := by
    intro n hn
    have := (mem_children w key n).mp hn
    cases hk : w.kindAt (key ++ [n]) with
    | none => rw [hk] at this; cases this
    | some kd => exact g.plain _ (kindAt_mem w _ kd hk) n (by simp)
  constructor
  · have hc' := children_nodup w g.nodup key
    have h1 : dot ∉ w.children key := fun h => by
      have := hplain_child _ h; revert this; decide
    have h2 : dotdot ∉ w.children key := fun h => by
      have := hplain_child _ h; revert this; decide
    refine List.nodup_cons.mpr ⟨?_, List.nodup_cons.mpr ⟨h2, hc'⟩⟩
    intro h
    rcases List.mem_cons.mp h with e | e
    · exact absurd e (by decide)
    · exact h1 e
  · intro n hn
    rcases List.mem_cons.mp hn with e | hn
    · subst e; decide
    · rcases List.mem_cons.mp hn with e | hn
      · subst e; decide
      · have hp := hplain_child n hn
        simp only [plainName, Bool.and_eq_true, Bool.not_eq_true'] at hp
        exact hp.1.1.1

/-- ★ in EVERY world (no hypothesis on keys, names, links or modes) whatever exists below a listable
    prefix is in the listing -/
theorem listed_of_exist (w : World) (pre : Path) (ns : List Name) (hpre : PrefixOK pre)
    (hl : (fsOfWorld w).list (dirPath pre) = some ns) (n : Name) (hv : validName n = true)
    (he : (fsOfWorld w).exist (pre ++ n) = true) : n ∈ ns := by
  obtain ⟨X, t0, key, ht, hts, hg, _, hns, hchild⟩ := list_some_shape w pre ns hpre hl
  subst hns
  have hs := validName_noslash n hv
  have hne : n ≠ [] := by
    simp only [validName, Bool.and_eq_true, Bool.not_eq_true', List.isEmpty_eq_false_iff] at hv
    exact hv.1
  obtain ⟨_, k', hg'⟩ := get_of_exist w _ he
  rw [hchild n hne hs] at hg'
  have hstep := ((get_child w X t0 n key ht hts hs hg k').mp hg').1
  unfold World.step at hstep
  by_cases h1 : (n == [] || n == dot) = true
  · simp only [Bool.or_eq_true, beq_iff_eq] at h1
    rcases h1 with e | e
    · exact absurd e hne
    · subst e; exact List.mem_cons_self
  · rw [if_neg h1] at hstep
    by_cases h2 : (n == dotdot) = true
    · simp only [beq_iff_eq] at h2
      subst h2
      exact List.mem_cons_of_mem _ List.mem_cons_self
    · rw [if_neg h2] at hstep
      by_cases h3 : (w.searchable key && (w.kindAt (key ++ [n])).isSome) = true
      · simp only [Bool.and_eq_true] at h3
        exact List.mem_cons_of_mem _ (List.mem_cons_of_mem _ ((mem_children w key n).mpr h3.2))
      · rw [if_neg h3] at hstep; cases hstep

theorem covering_of_world (w : World) (hcwd : (fsOfWorld w).exist [] = true) : Covering (fsOfWorld w) :=
  ⟨fun pre ns hpre hl n hv he => listed_of_exist w pre ns hpre hl n hv he,
   fun p q => world_prefixClosed w hcwd p q⟩

end YashModel.Glob
