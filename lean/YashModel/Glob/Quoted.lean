/-
  C05 — helper lemmas about components without wildcards: quoted text, literal components,
  the split at slashes, and the fact that such fields never consult the directory listing.
-/
import YashModel.Glob.Lemmas
namespace YashModel.Glob

/-- every character that survives quote removal is quoted or comes from a hard expansion -/
def FullyQuoted (cs : List AttrChar) : Prop :=
  ∀ a, a ∈ cs → a.isQuoting = false → (a.isQuoted = true ∨ a.origin = Origin.hardExpansion)

/-- a slash is never itself a quoting character (quoting characters are `\`, `'`, `"`, `$'`) -/
def SlashNotQuoting (cs : List AttrChar) : Prop :=
  ∀ a, a ∈ cs → a.value = '/' → a.isQuoting = false

/-- what C04 provides about `yash_fnmatch`: a pattern made of literal characters only is the
    literal string of those characters (checked on the real code by the harness on every case) -/
def LiteralFaithful (m : Matcher) : Prop :=
  ∀ pcs, (∀ pc, pc ∈ pcs → pc.isLiteral = true) → m.kind pcs = Kind.literal (pcs.map PatternChar.charValue)

theorem toPatternChars_quoted (cs : List AttrChar) (h : FullyQuoted cs) : ∀ nq,
    toPatternChars nq cs = (cs.filter (fun c => !c.isQuoting)).map (fun a => PatternChar.literal a.value) := by
  induction cs with
  | nil => intro nq; simp [toPatternChars]
  | cons c cs ih =>
    intro nq
    have hcs : FullyQuoted cs := fun a ha => h a (List.mem_cons_of_mem _ ha)
    by_cases hq : c.isQuoting = true
    · simp [toPatternChars, hq, ih hcs]
    · have hq' : c.isQuoting = false := by simpa using hq
      have := h c List.mem_cons_self hq'
      have hcond : (nq || c.isQuoted || c.origin == Origin.hardExpansion) = true := by
        rcases this with e | e
        · simp [e]
        · simp [e]
      simp [toPatternChars, hq', hcond, ih hcs]

theorem quoted_kind (m : Matcher) (hm : LiteralFaithful m) (c : List AttrChar) (h : FullyQuoted c) :
    m.kind (toPattern c) = Kind.literal (removeQuotes c) := by
  unfold toPattern
  rw [toPatternChars_quoted c h false, hm]
  · simp [removeQuotes, PatternChar.charValue, List.map_map, Function.comp_def]
  · intro pc hpc
    simp only [List.mem_map] at hpc
    obtain ⟨a, _, rfl⟩ := hpc
    rfl

/-! ### the split at slashes -/

theorem splitAux_mem : ∀ (cs cur : List AttrChar) (c : List AttrChar),
    c ∈ (splitAux cur cs).1 :: (splitAux cur cs).2 → ∀ a, a ∈ c → a ∈ cur ∨ a ∈ cs := by
  intro cs
  induction cs with
  | nil =>
    intro cur c hc a ha
    simp only [splitAux, List.mem_cons, List.not_mem_nil, or_false] at hc
    subst hc
    exact Or.inl (List.mem_reverse.mp ha)
  | cons x xs ih =>
    intro cur c hc a ha
    by_cases hx : (x.value == '/') = true
    · simp only [splitAux, hx, if_true, List.mem_cons] at hc
      rcases hc with hc | hc
      · subst hc
        exact Or.inl (List.mem_reverse.mp ha)
      · have := ih [] c (by simpa [List.mem_cons] using hc) a ha
        rcases this with e | e
        · simp at e
        · exact Or.inr (List.mem_cons_of_mem _ e)
    · simp only [splitAux, hx] at hc
      have := ih (x :: cur) c hc a ha
      rcases this with e | e
      · rw [List.mem_cons] at e
        rcases e with e | e
        · exact Or.inr (e ▸ List.mem_cons_self)
        · exact Or.inl e
      · exact Or.inr (List.mem_cons_of_mem _ e)

theorem removeQuotes_append (a b : List AttrChar) : removeQuotes (a ++ b) = removeQuotes a ++ removeQuotes b := by
  simp [removeQuotes]

theorem splitAux_join : ∀ (cs cur : List AttrChar), SlashNotQuoting cs →
    joinPath (((splitAux cur cs).1 :: (splitAux cur cs).2).map removeQuotes)
      = removeQuotes (cur.reverse ++ cs) := by
  intro cs
  induction cs with
  | nil => intro cur _; simp [splitAux, joinPath]
  | cons x xs ih =>
    intro cur hs
    have hxs : SlashNotQuoting xs := fun a ha => hs a (List.mem_cons_of_mem _ ha)
    by_cases hx : (x.value == '/') = true
    · have hv : x.value = '/' := by simpa using hx
      have hq := hs x List.mem_cons_self hv
      have := ih [] hxs
      simp only [List.map_cons, List.reverse_nil, List.nil_append] at this
      simp only [splitAux, hx, if_true, List.map_cons, joinPath, this, removeQuotes_append]
      simp [removeQuotes, hq, hv]
    · have := ih (x :: cur) hxs
      simp only [splitAux, hx, Bool.false_eq_true, if_false]
      rw [this]
      simp

/-! ### fields all of whose components are literal -/

/-- every component is classified as the literal string of its own quote-removed text -/
def AllLiteral (m : Matcher) (c : List AttrChar) (cs : List (List AttrChar)) : Prop :=
  ∀ x, x ∈ c :: cs → m.kind (toPattern x) = Kind.literal (removeQuotes x)

theorem searchDir_allLiteral (m : Matcher) (fs : Fs) (cs : List (List AttrChar)) :
    ∀ (c : List AttrChar) (pre : Path), AllLiteral m c cs →
      searchDir m fs c cs pre =
        if fs.exist (pre ++ joinPath ((c :: cs).map removeQuotes)) then
          [pre ++ joinPath ((c :: cs).map removeQuotes)] else [] := by
  induction cs with
  | nil =>
    intro c pre h
    have hk := h c List.mem_cons_self
    simp [searchDir, searchStep, hk, pushComponent, joinPath]
  | cons c' cs ih =>
    intro c pre h
    have hk := h c List.mem_cons_self
    have h' : AllLiteral m c' cs := fun x hx => h x (List.mem_cons_of_mem _ hx)
    rw [searchDir]
    simp only [searchStep, hk, pushComponent]
    rw [ih c' _ h']
    simp [joinPath, List.append_assoc]

/-- no component is a pattern -/
def NoWild (m : Matcher) (c : List AttrChar) (cs : List (List AttrChar)) : Prop :=
  ∀ x, x ∈ c :: cs → isWild m x = false

theorem searchDir_noWild_list (m : Matcher) (fs fs' : Fs) (he : ∀ p, fs.exist p = fs'.exist p)
    (cs : List (List AttrChar)) : ∀ (c : List AttrChar) (pre : Path), NoWild m c cs →
      searchDir m fs c cs pre = searchDir m fs' c cs pre := by
  induction cs with
  | nil =>
    intro c pre h
    have hk := h c List.mem_cons_self
    simp only [isWild] at hk
    simp only [searchDir, searchStep]
    cases hkind : m.kind (toPattern c) with
    | invalid => simp [pushComponent, he]
    | literal s => simp [pushComponent, he]
    | pattern => simp [hkind] at hk
  | cons c' cs ih =>
    intro c pre h
    have hk := h c List.mem_cons_self
    have h' : NoWild m c' cs := fun x hx => h x (List.mem_cons_of_mem _ hx)
    simp only [isWild] at hk
    rw [searchDir, searchDir]
    simp only [searchStep]
    cases hkind : m.kind (toPattern c) with
    | invalid => simp [pushComponent, ih c' _ h']
    | literal s => simp [pushComponent, ih c' _ h']
    | pattern => simp [hkind] at hk

end YashModel.Glob
