/-
  C05 — Spec of pathname expansion, stated on whole pathnames (no directory walk):

    the result is the sorted list of all pathnames `p` such that `p` exists, `p` has exactly one file
    name per component of the field, every name matches its component (a component that is not a
    pattern only "matches" its own text; a pattern component matches a real file name — non-empty, no
    slash — other than `.` and `..` that the pattern matches), and the parent directory of every
    pattern component can be listed;  if there is no such pathname, or `noglob` is set, the result is
    the field itself with quotes removed.

  `SpecMember`/`SpecResult` are the declarative statement (used by the theorems);
  `specGlobU` is an executable brute-force version over a finite set of candidate names
  (generate every tuple of names, keep the witnesses), used by the driver for the Spec column.
-/
import YashModel.Glob.Model
namespace YashModel.Glob

/-- a real directory entry name: non-empty and without a slash -/
def validName (n : Name) : Bool := !n.isEmpty && !n.contains '/'

/-- is the component a pattern (so that a directory has to be listed for it)? -/
def isWild (m : Matcher) (c : List AttrChar) : Bool :=
  match m.kind (toPattern c) with
  | Kind.pattern => true
  | _ => false

/-- does the file name `n` match the component `c`? -/
def compMatches (m : Matcher) (c : List AttrChar) (n : Name) : Bool :=
  match m.kind (toPattern c) with
  | Kind.invalid => n == removeQuotes c
  | Kind.literal s => n == s
  | Kind.pattern => validName n && n != dot && n != dotdot && m.isMatch (toPattern c) n

/-- `n₁/n₂/…/nₖ` -/
def joinPath : List Name → Path
  | [] => []
  | [n] => n
  | n :: n' :: ns => n ++ '/' :: joinPath (n' :: ns)

/-- `names` (one per component of `c :: cs`) witnesses that `pre ++ joinPath names` belongs to the
    expansion of the components below the directory prefix `pre`. -/
def witness (m : Matcher) (fs : Fs) : Path → List AttrChar → List (List AttrChar) → List Name → Bool
  | pre, c, [], [n] =>
    compMatches m c n && (!isWild m c || (fs.list (dirPath pre)).isSome) && fs.exist (pre ++ n)
  | pre, c, c' :: cs, n :: ns =>
    compMatches m c n && (!isWild m c || (fs.list (dirPath pre)).isSome)
      && witness m fs (pre ++ n ++ ['/']) c' cs ns
  | _, _, _, _ => false

/-- `p` is one of the pathnames the field stands for -/
def SpecMember (m : Matcher) (fs : Fs) (field : List AttrChar) (p : Path) : Prop :=
  ∃ names, witness m fs [] (splitComponents field).1 (splitComponents field).2 names = true
    ∧ p = joinPath names

/-- strictly increasing in the bytewise order: sorted and without duplicates -/
def StrictSorted (l : List Path) : Prop :=
  l.Pairwise (fun a b => pathLe a b = true ∧ a ≠ b)

/-- what the property demands of the result `out` -/
def SpecResult (m : Matcher) (fs : Fs) (noglob : Bool) (field : List AttrChar) (out : List Path) : Prop :=
  (noglob = true ∨ (∀ p, ¬ SpecMember m fs field p) → out = [removeQuotes field]) ∧
  (noglob = false → (∃ p, SpecMember m fs field p) →
      StrictSorted out ∧ ∀ p, p ∈ out ↔ SpecMember m fs field p)

/-- a directory prefix as `search_dir` builds it: empty, or ending in a slash -/
def PrefixOK (pre : Path) : Prop := pre = [] ∨ ∃ q, pre = q ++ ['/']

/-- The consistency hypothesis on the two oracles: a directory listing contains exactly the names
    that exist in it, once each; and a pathname can only exist if the part before any of its slashes
    exists. -/
structure WF (fs : Fs) : Prop where
  listing : ∀ pre ns, PrefixOK pre → fs.list (dirPath pre) = some ns →
    ns.Nodup ∧ ∀ n, n ∈ ns ↔ (validName n = true ∧ fs.exist (pre ++ n) = true)
  prefixClosed : ∀ p q, fs.exist (p ++ '/' :: q) = true → fs.exist p = true

/-- what a returned name may be for the component `c`, whatever the file system says: a component
    that is not a pattern contributes exactly its text; a pattern component contributes a name
    other than `.` and `..` that the pattern matches -/
def fits (m : Matcher) (c : List AttrChar) (n : Name) : Prop :=
  match m.kind (toPattern c) with
  | Kind.invalid => n = removeQuotes c
  | Kind.literal s => n = s
  | Kind.pattern => n ≠ dot ∧ n ≠ dotdot ∧ m.isMatch (toPattern c) n = true

/-- one fitting name per component -/
def namesFit (m : Matcher) : List AttrChar → List (List AttrChar) → List Name → Prop
  | c, [], [n] => fits m c n
  | c, c' :: cs, n :: ns => fits m c n ∧ namesFit m c' cs ns
  | _, _, _ => False

/-- The one fact about the matcher that the leading-period clause needs (it is `yash_fnmatch`'s
    `literal_period` rule, property C04; the driver checks it on the table of real answers,
    `periodDump`): a pattern matches a name that starts with a period only if the pattern itself starts
    with a period character — unquoted or quoted, both are `.`. -/
def PeriodRule (m : Matcher) : Prop :=
  ∀ pcs n, m.isMatch pcs n = true → n.head? = some '.' →
    pcs.head?.map PatternChar.charValue = some '.'

/-- everything the property says about the name `n` that stands for the component `c`; the last
    clause is the leading-period rule: a name starting with a period is only matched by a component
    whose text (quotes removed — so whether that period was quoted or not) starts with a period -/
def nameClauses (m : Matcher) (c : List AttrChar) (n : Name) : Prop :=
  match m.kind (toPattern c) with
  | Kind.invalid => n = removeQuotes c
  | Kind.literal s => n = s
  | Kind.pattern =>
    n ≠ [] ∧ '/' ∉ n ∧ n ≠ dot ∧ n ≠ dotdot ∧ m.isMatch (toPattern c) n = true
      ∧ (n.head? = some '.' → (removeQuotes c).head? = some '.')

/-- one such name per component -/
def namesClauses (m : Matcher) : List AttrChar → List (List AttrChar) → List Name → Prop
  | c, [], [n] => nameClauses m c n
  | c, c' :: cs, n :: ns => nameClauses m c n ∧ namesClauses m c' cs ns
  | _, _, _ => False

/-! ### executable brute-force version over a finite set of names -/

/-- candidate names for one component -/
def candidates (m : Matcher) (univ : List Name) (c : List AttrChar) : List Name :=
  match m.kind (toPattern c) with
  | Kind.invalid => [removeQuotes c]
  | Kind.literal s => [s]
  | Kind.pattern => univ

/-- all tuples with one candidate per component -/
def tuples (m : Matcher) (univ : List Name) : List (List AttrChar) → List (List Name)
  | [] => [[]]
  | c :: cs => (candidates m univ c).flatMap (fun n => (tuples m univ cs).map (fun t => n :: t))

/-- insertion into a list sorted by Lean's own lexicographic order on `List Char` (independent of
    the model's `pathLe`), dropping duplicates -/
def insertSorted (p : Path) : List Path → List Path
  | [] => [p]
  | q :: qs => if p = q then q :: qs else if p < q then p :: q :: qs else q :: insertSorted p qs

def sortDedup (l : List Path) : List Path := l.foldr insertSorted []

def specGlobU (m : Matcher) (fs : Fs) (univ : List Name) (noglob : Bool) (field : List AttrChar) :
    List Path :=
  let cs := splitComponents field
  let found := ((tuples m univ (cs.1 :: cs.2)).filter (witness m fs [] cs.1 cs.2)).map joinPath
  if noglob || found.isEmpty then [removeQuotes field] else sortDedup found

/-- Spec of the whole step: in `Multiple` mode each field is replaced, in order, by the pathnames it
    stands for (or by itself, quotes removed); in `Single` mode no field is ever globbed. -/
def specFieldsU (m : Matcher) (fs : Fs) (univ : List Name) (noglob : Bool) (mode : Mode)
    (fields : List (List AttrChar)) : List Path :=
  match mode with
  | Mode.multiple => fields.flatMap (specGlobU m fs univ noglob)
  | Mode.single => fields.map removeQuotes

end YashModel.Glob
