/-
  C05 wave 3 — the Spec for file systems whose two oracles are NOT consistent (`WF` fails): trees with
  symbolic links (a dangling link is a directory entry, but `fstatat` fails on it) and directories the
  owner cannot search (`foo/bar` is an entry of `foo`, but cannot be looked up).  POSIX states pathname
  expansion in terms of *directory entries*: a pattern component matches the names found in the
  directory; a component without pattern characters is not looked for in any listing, the finished
  pathname is only checked for existence.  That is `EntryMember`:

    `p = n₁/…/nₖ`, one name per component; a component that is not a pattern contributes its text; a
    pattern component contributes a name that is an ENTRY of the directory named by the prefix (which
    can be opened), other than `.` and `..`, matched by the pattern; and if the LAST component is not a
    pattern, `p` exists (`fstatat`, following links).

  With consistent oracles `EntryMember = SpecMember` (`entryMember_iff_specMember`); without, it is what
  the property can still say, and `glob` meets it exactly for every file system whose listings are
  duplicate-free lists of valid names (`ListingsOK` — proved for every world with unique keys and plain
  names, links and unsearchable directories included; decided per case by `lwfDump`).
  Import-free and executable (`specGlobE` is the driver's Spec column when `wfDump` fails).
-/
import YashModel.Glob.Model
import YashModel.Glob.Spec
import YashModel.Glob.Dump
import YashModel.Glob.World
namespace YashModel.Glob

/-- what the name `n` standing for the component `c` below the prefix `pre` must be (entry-based) -/
def estep (m : Matcher) (fs : Fs) (pre : Path) (c : List AttrChar) (n : Name) : Bool :=
  match m.kind (toPattern c) with
  | Kind.invalid => n == removeQuotes c
  | Kind.literal s => n == s
  | Kind.pattern =>
    match fs.list (dirPath pre) with
    | none => false
    | some ns => ns.contains n && n != dot && n != dotdot && m.isMatch (toPattern c) n

/-- `names` (one per component) witnesses that `pre ++ joinPath names` belongs to the entry-based
    expansion: only a final non-pattern component asks `exist` -/
def ewitness (m : Matcher) (fs : Fs) : Path → List AttrChar → List (List AttrChar) → List Name → Bool
  | pre, c, [], [n] => estep m fs pre c n && (isWild m c || fs.exist (pre ++ n))
  | pre, c, c' :: cs, n :: ns => estep m fs pre c n && ewitness m fs (pre ++ n ++ ['/']) c' cs ns
  | _, _, _, _ => false

/-- `p` is one of the pathnames the field stands for, in terms of directory entries -/
def EntryMember (m : Matcher) (fs : Fs) (field : List AttrChar) (p : Path) : Prop :=
  ∃ names, ewitness m fs [] (splitComponents field).1 (splitComponents field).2 names = true
    ∧ p = joinPath names

/-- what the property demands of the result `out`, in terms of directory entries -/
def EntryResult (m : Matcher) (fs : Fs) (noglob : Bool) (field : List AttrChar) (out : List Path) : Prop :=
  (noglob = true ∨ (∀ p, ¬ EntryMember m fs field p) → out = [removeQuotes field]) ∧
  (noglob = false → (∃ p, EntryMember m fs field p) →
      StrictSorted out ∧ ∀ p, p ∈ out ↔ EntryMember m fs field p)

/-- the only thing asked of the oracles: a listing has no duplicates and holds valid names -/
def ListingsOK (fs : Fs) : Prop :=
  ∀ pre ns, PrefixOK pre → fs.list (dirPath pre) = some ns →
    ns.Nodup ∧ ∀ n, n ∈ ns → validName n = true

/-- half of `WF`, true of every world (links and unsearchable directories included): what exists
    below a listable prefix is listed, and existence is prefix-closed -/
structure Covering (fs : Fs) : Prop where
  listed : ∀ pre ns, PrefixOK pre → fs.list (dirPath pre) = some ns →
    ∀ n, validName n = true → fs.exist (pre ++ n) = true → n ∈ ns
  prefixClosed : ∀ p q, fs.exist (p ++ '/' :: q) = true → fs.exist p = true

/-! ### executable brute-force version -/

def specGlobE (m : Matcher) (fs : Fs) (univ : List Name) (noglob : Bool) (field : List AttrChar) :
    List Path :=
  let cs := splitComponents field
  let found := ((tuples m univ (cs.1 :: cs.2)).filter (ewitness m fs [] cs.1 cs.2)).map joinPath
  if noglob || found.isEmpty then [removeQuotes field] else sortDedup found

def specFieldsE (m : Matcher) (fs : Fs) (univ : List Name) (noglob : Bool) (mode : Mode)
    (fields : List (List AttrChar)) : List Path :=
  match mode with
  | Mode.multiple => fields.flatMap (specGlobE m fs univ noglob)
  | Mode.single => fields.map removeQuotes

/-- `ListingsOK (mkFs e l)`, decided on the finite dump -/
def lwfDump (l : List (Path × List Name)) : Bool :=
  l.all fun x =>
    match preOfDir x.1 with
    | none => true
    | some _ => nodupB x.2 && x.2.all validName

/-- The decidable class of worlds for which `ListingsOK` and `Covering` are proved: every key occurs
    once and every name on every key is plain.  Symbolic links (dangling, loops), directories of any
    mode and files are all allowed. -/
def tidyWorld (w : World) : Bool :=
  nodupKeys (w.entries.map (·.1)) && w.entries.all (fun x => x.1.all plainName)

/-! ### wave 3, second pass: the member predicate stated on the inode table itself -/

/-- `n` is an entry of the directory that the prefix `pre` names, read off the inode table: the path
    has no NUL, a descriptor is free, the look-up of the directory (`FileSystem::get`: every directory on
    the way searchable by its owner, `.`/`..`/trailing slash need a directory) ends at a directory, and `n`
    is `.`, `..` or has an inode below it.  No read permission is involved. -/
def World.entryAt (w : World) (pre : Path) (n : Name) : Bool :=
  !(dirPath pre).contains '\x00' && w.fdFree &&
    match w.get (absPath (dirPath pre)) with
    | some key => w.isDir key && (n == dot || n == dotdot || (w.kindAt (key ++ [n])).isSome)
    | none => false

/-- `fstatat(AT_FDCWD, p, follow)` succeeds: no NUL, and the look-up of `p`, following a final symbolic
    link hop by hop (each target resolved in the directory of the link being followed, at most
    `symloopMax` look-ups), ends at a node -/
def World.resolves (w : World) (p : Path) : Bool :=
  !p.contains '\x00' && w.follow YashModel.Generated.GlobTables.symloopMax (absPath p)

def inodeStep (m : Matcher) (w : World) (pre : Path) (c : List AttrChar) (n : Name) : Bool :=
  match m.kind (toPattern c) with
  | Kind.invalid => n == removeQuotes c
  | Kind.literal s => n == s
  | Kind.pattern => w.entryAt pre n && n != dot && n != dotdot && m.isMatch (toPattern c) n

def inodeWitness (m : Matcher) (w : World) : Path → List AttrChar → List (List AttrChar) → List Name → Bool
  | pre, c, [], [n] => inodeStep m w pre c n && (isWild m c || w.resolves (pre ++ n))
  | pre, c, c' :: cs, n :: ns => inodeStep m w pre c n && inodeWitness m w (pre ++ n ++ ['/']) c' cs ns
  | _, _, _, _ => false

/-- **the member predicate on the inode table**: `p = n₁/…/nₖ`, one name per component of the field; a
    component that is not a pattern contributes its text; a pattern component contributes an entry
    (`World.entryAt`) of the directory named by what precedes it, other than `.`/`..`, that the pattern
    matches; and if the last component is not a pattern, `p` resolves (`World.resolves`) -/
def InodeMember (m : Matcher) (w : World) (field : List AttrChar) (p : Path) : Prop :=
  ∃ names, inodeWitness m w [] (splitComponents field).1 (splitComponents field).2 names = true
    ∧ p = joinPath names

/-- `out` is the strictly sorted list of exactly the members, or — with `noglob`, or when there is no
    member — the field itself with quotes removed -/
def InodeResult (m : Matcher) (w : World) (noglob : Bool) (field : List AttrChar) (out : List Path) : Prop :=
  (noglob = true ∨ (∀ p, ¬ InodeMember m w field p) → out = [removeQuotes field]) ∧
  (noglob = false → (∃ p, InodeMember m w field p) →
      StrictSorted out ∧ ∀ p, p ∈ out ↔ InodeMember m w field p)

end YashModel.Glob
