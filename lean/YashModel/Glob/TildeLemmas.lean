/-
  C05 wave 3, second pass — bridge to C01's model of tilde expansion (area Expansion): conversion of its
  attributed characters, and hard-expansion prefixes of a component are literal pattern characters.
-/
import YashModel.Glob.EntryLemmas
import YashModel.Expansion.PipelineLemmas
namespace YashModel.Glob

/-- C01's attributed characters (area Expansion has its own copy of `attr.rs`) as this area's -/
def ofExpOrigin : Expansion.Origin → Origin
  | .literal => .literal
  | .hardExpansion => .hardExpansion
  | .softExpansion => .softExpansion

def ofExp (c : Expansion.AttrChar) : AttrChar :=
  { value := c.value, origin := ofExpOrigin c.origin, isQuoted := c.isQuoted, isQuoting := c.isQuoting }

theorem toPatternChars_hard_prefix (rest : List AttrChar) : ∀ (h : List AttrChar) (nq : Bool),
    (∀ c, c ∈ h → c.isQuoting = false ∧ c.origin = Origin.hardExpansion) → h ≠ [] →
    toPatternChars nq (h ++ rest) = h.map (fun c => PatternChar.literal c.value) ++ toPatternChars false rest := by
  intro h
  induction h with
  | nil => intro nq _ hne; exact absurd rfl hne
  | cons c cs ih =>
    intro nq hall _
    have hc := hall c List.mem_cons_self
    have hcond : (nq || c.isQuoted || c.origin == Origin.hardExpansion) = true := by simp [hc.2]
    simp only [List.cons_append, toPatternChars, hc.1, Bool.false_eq_true, if_false, hcond, if_true,
      List.map_cons, List.cons.injEq, true_and]
    cases cs with
    | nil => rfl
    | cons d ds =>
      exact ih false (fun x hx => hall x (List.mem_cons_of_mem _ hx)) (by simp)

theorem tilde_chars (env : Expansion.Env) (name : List Char) (slash : Bool) :
    (Expansion.expandTilde env name slash).map ofExp =
      if Expansion.tildeText env name slash = [] then
        [{ value := '"', origin := Origin.hardExpansion, isQuoted := false, isQuoting := true }]
      else (Expansion.tildeText env name slash).map
        (fun c => { value := c, origin := Origin.hardExpansion, isQuoted := false, isQuoting := false }) := by
  rw [Expansion.expandTilde_eq_posixTilde]
  unfold Expansion.posixTilde
  split
  · rfl
  · simp only [List.map_map]
    rfl

end YashModel.Glob
