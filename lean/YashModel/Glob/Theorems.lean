/-
  C05 — property theorems (and non-vacuity examples) ONLY.  Helper lemmas: `Lemmas.lean`, `Quoted.lean`,
  `SpecExec.lean`, `Utf8.lean`, `DumpLemmas.lean`, `WorldLemmas.lean`.

  Property text: "For every directory tree and every field, pathname expansion returns exactly the
  existing pathnames that match the field component by component (slashes only match literally, a
  leading period only a literal period, quoted characters and tilde results are literal), in sorted
  order; if nothing matches, or `noglob` is set, the result is the field itself with quotes removed.
  It never returns a nonexistent path, never omits a matching one, never produces `.` or `..` from a
  wildcard, and never treats quoted text as wildcards."

  Every theorem holds for every matcher `m` (what `yash_fnmatch` decides about one component is a
  parameter; its correctness — including the leading-period rule — is property C04) and every file
  system `fs`; those that speak about "existing pathnames" assume the consistency `WF fs` of the two
  system oracles (`Spec.lean`).
-/
import YashModel.Glob.WorldLemmas
namespace YashModel.Glob

variable (m : Matcher) (fs : Fs) (field : List AttrChar)

theorem searchField_nodup (hwf : WF fs) : (searchField m fs field).Nodup :=
  searchDir_nodup m fs hwf _ _ [] prefixOK_nil

theorem glob_on_eq :
    glob m fs false field =
      if (searchField m fs field) = [] then [removeQuotes field] else sortPaths (searchField m fs field) := by
  simp only [glob, Bool.false_eq_true, if_false, List.isEmpty_iff]

/-- ★ `glob_sound`: every pathname returned (with pathname expansion on) is one the Spec admits —
    it exists, has one name per component, every name matches its component, pattern components'
    parents are listable — unless it is the quote-removed field returned because nothing matches. -/
theorem glob_sound (hwf : WF fs) (p : Path) (hp : p ∈ glob m fs false field) :
    SpecMember m fs field p ∨ (p = removeQuotes field ∧ ∀ q, ¬ SpecMember m fs field q) := by
  rw [glob_on_eq] at hp
  by_cases he : searchField m fs field = []
  · rw [if_pos he] at hp
    right
    refine ⟨by simpa using hp, fun q hq => ?_⟩
    have := (mem_searchField m fs hwf field q).mpr hq
    rw [he] at this
    simp at this
  · rw [if_neg he, mem_sortPaths] at hp
    exact Or.inl ((mem_searchField m fs hwf field p).mp hp)

/-- ★ `glob_complete`: when something matches, the result is *exactly* the set of pathnames the Spec
    admits (nothing nonexistent, nothing omitted). -/
theorem glob_complete (hwf : WF fs) (hne : ∃ q, SpecMember m fs field q) (p : Path) :
    p ∈ glob m fs false field ↔ SpecMember m fs field p := by
  obtain ⟨q, hq⟩ := hne
  have hq' := (mem_searchField m fs hwf field q).mpr hq
  have he : searchField m fs field ≠ [] := fun e => by rw [e] at hq'; simp at hq'
  rw [glob_on_eq, if_neg he, mem_sortPaths]
  exact mem_searchField m fs hwf field p

/-- ★ `glob_sorted_nodup`: the result is strictly increasing in the bytewise order (sorted, and no
    pathname appears twice). -/
theorem glob_sorted_nodup (hwf : WF fs) (noglob : Bool) : StrictSorted (glob m fs noglob field) := by
  cases noglob with
  | true => simp [glob, StrictSorted]
  | false =>
    rw [glob_on_eq]
    by_cases he : searchField m fs field = []
    · rw [if_pos he]; simp [StrictSorted]
    · rw [if_neg he]; exact sortPaths_strict _ (searchField_nodup m fs field hwf)

/-- ★ `fallback_exact`: with `noglob`, or when no pathname matches, the result is exactly the field
    with quotes removed, as a single field. -/
theorem fallback_exact (hwf : WF fs) (noglob : Bool)
    (h : noglob = true ∨ ∀ p, ¬ SpecMember m fs field p) :
    glob m fs noglob field = [removeQuotes field] := by
  cases noglob with
  | true => simp [glob]
  | false =>
    have h' : ∀ p, ¬ SpecMember m fs field p := by
      rcases h with h | h
      · cases h
      · exact h
    rw [glob_on_eq]
    have he : searchField m fs field = [] := by
      cases hs : searchField m fs field with
      | nil => rfl
      | cons x xs =>
        exact absurd ((mem_searchField m fs hwf field x).mp (by rw [hs]; simp)) (h' x)
    rw [if_pos he]

/-- `noglob` needs no hypothesis at all -/
theorem glob_noglob : glob m fs true field = [removeQuotes field] := by simp [glob]

/-- ★ the property as one statement: the result meets the Spec … -/
theorem glob_meets_spec (hwf : WF fs) (noglob : Bool) :
    SpecResult m fs noglob field (glob m fs noglob field) := by
  refine ⟨fun h => fallback_exact m fs field hwf noglob h, fun hng hne => ?_⟩
  subst hng
  exact ⟨glob_sorted_nodup m fs field hwf false, glob_complete m fs field hwf hne⟩

/-- … and the Spec determines the result uniquely. -/
theorem specResult_unique (noglob : Bool) (o₁ o₂ : List Path)
    (h₁ : SpecResult m fs noglob field o₁) (h₂ : SpecResult m fs noglob field o₂) : o₁ = o₂ := by
  by_cases h : noglob = true ∨ ∀ p, ¬ SpecMember m fs field p
  · rw [h₁.1 h, h₂.1 h]
  · have hng : noglob = false := by
      cases noglob with
      | true => exact absurd (Or.inl rfl) h
      | false => rfl
    have hne : ∃ p, SpecMember m fs field p := by
      apply Classical.byContradiction
      intro hc
      exact h (Or.inr (fun p hp => hc ⟨p, hp⟩))
    obtain ⟨s₁, m₁⟩ := h₁.2 hng hne
    obtain ⟨s₂, m₂⟩ := h₂.2 hng hne
    exact strictSorted_ext o₁ o₂ s₁ s₂ (fun p => (m₁ p).trans (m₂ p).symm)

/-- ★ `no_dot_dotdot_from_wildcard` (no hypothesis on the file system, so also for inconsistent
    oracles): every pathname found by the search consists of one name per component; the name for a
    pattern component is never `.` or `..` and is matched by the pattern; a component that is not a
    pattern contributes exactly its own text. -/
theorem no_dot_dotdot_from_wildcard (p : Path) (hp : p ∈ searchField m fs field) :
    ∃ names, p = joinPath names
      ∧ namesFit m (splitComponents field).1 (splitComponents field).2 names := by
  unfold searchField at hp
  obtain ⟨names, hw, e⟩ := (mem_searchDir_l m fs _ _ [] p).mp hp
  exact ⟨names, by simpa using e, lwitness_namesFit m fs _ _ _ names hw⟩

/-- corollary: a field that is a single pattern component never expands to `.` or `..` -/
theorem wildcard_never_dot (h1 : (splitComponents field).2 = [])
    (hw : m.kind (toPattern (splitComponents field).1) = Kind.pattern) :
    dot ∉ searchField m fs field ∧ dotdot ∉ searchField m fs field := by
  have key : ∀ p, p ∈ searchField m fs field → p ≠ dot ∧ p ≠ dotdot := by
    intro p hp
    obtain ⟨names, e, hf⟩ := no_dot_dotdot_from_wildcard m fs field p hp
    rw [h1] at hf
    match names, hf with
    | [n], hf =>
      simp only [namesFit, fits, hw] at hf
      simp only [joinPath] at e
      subst e
      exact ⟨hf.1, hf.2.1⟩
  exact ⟨fun h => (key _ h).1 rfl, fun h => (key _ h).2 rfl⟩

/-- ★ `quoted_is_literal`, part 1: a field without pattern components never consults the directory
    listing — the result is the same for any two systems that agree on `exist`. -/
theorem quoted_is_literal_no_list (fs' : Fs) (noglob : Bool)
    (hn : NoWild m (splitComponents field).1 (splitComponents field).2)
    (he : ∀ p, fs.exist p = fs'.exist p) :
    glob m fs noglob field = glob m fs' noglob field := by
  have : searchField m fs field = searchField m fs' field := by
    unfold searchField
    exact searchDir_noWild_list m fs fs' he _ _ [] hn
  simp [glob, this]

/-- ★ `quoted_is_literal`, part 2: a field all of whose characters are quoted (or come from a hard
    expansion such as a tilde result) expands to itself, quotes removed, on every file system:
    quoted text is never treated as a wildcard.  `LiteralFaithful m` is the one fact about
    `yash_fnmatch` that is needed (a pattern of literal characters is that literal string). -/
theorem quoted_is_literal (hm : LiteralFaithful m) (hq : FullyQuoted field)
    (hs : SlashNotQuoting field) (noglob : Bool) :
    glob m fs noglob field = [removeQuotes field] := by
  cases noglob with
  | true => simp [glob]
  | false =>
    have hall : AllLiteral m (splitComponents field).1 (splitComponents field).2 := by
      intro x hx
      apply quoted_kind m hm
      intro a ha
      have := splitAux_mem field [] x hx a ha
      rcases this with e | e
      · simp at e
      · exact hq a e
    have hj := splitAux_join field [] hs
    simp only [List.reverse_nil, List.nil_append] at hj
    rw [glob_on_eq]
    unfold searchField
    simp only []
    rw [searchDir_allLiteral m fs _ _ [] hall]
    unfold splitComponents
    rw [hj]
    simp only [List.nil_append]
    by_cases he : fs.exist (removeQuotes field) = true
    · simp [he, sortPaths]
    · simp [he]

/-! ### the executable Spec of the driver, and the order -/

/-- the brute-force search of `specGlobU` finds a pathname iff the Spec admits it -/
theorem specGlobU_found_iff (hwf : WF fs) (univ : List Name) (hU : UnivCovers fs univ) (p : Path) :
    p ∈ ((tuples m univ ((splitComponents field).1 :: (splitComponents field).2)).filter
          (witness m fs [] (splitComponents field).1 (splitComponents field).2)).map joinPath
      ↔ SpecMember m fs field p :=
  mem_found m fs hwf univ hU field p

/-- ★ The driver's Spec column is a proved object: the executable brute-force `specGlobU` (all tuples
    of candidate names, filtered by `witness`, sorted and de-duplicated by insertion over Lean's own
    order on `List Char`) meets the declarative `SpecResult` — sound, complete, strictly sorted,
    exact fallback — whenever the oracles are consistent and the finite name set `univ` contains every
    listed name (true of the driver's `univ` by construction: it is the union of the dumped listings). -/
theorem specGlobU_meets_spec (hwf : WF fs) (univ : List Name) (hU : UnivCovers fs univ) (noglob : Bool) :
    SpecResult m fs noglob field (specGlobU m fs univ noglob field) := by
  have hmem := mem_found m fs hwf univ hU field
  unfold specGlobU
  simp only []
  constructor
  · intro h
    rcases h with h | h
    · simp [h]
    · have : (((tuples m univ ((splitComponents field).1 :: (splitComponents field).2)).filter
          (witness m fs [] (splitComponents field).1 (splitComponents field).2)).map joinPath) = [] := by
        apply List.eq_nil_iff_forall_not_mem.mpr
        intro p hp
        exact h p ((hmem p).mp hp)
      simp [this]
  · intro hng hne
    obtain ⟨q, hq⟩ := hne
    have hq' := (hmem q).mpr hq
    have hne' : (((tuples m univ ((splitComponents field).1 :: (splitComponents field).2)).filter
          (witness m fs [] (splitComponents field).1 (splitComponents field).2)).map joinPath).isEmpty = false := by
      cases hf : ((tuples m univ ((splitComponents field).1 :: (splitComponents field).2)).filter
          (witness m fs [] (splitComponents field).1 (splitComponents field).2)).map joinPath with
      | nil => rw [hf] at hq'; simp at hq'
      | cons a t => rfl
    rw [hng, hne']
    simp only [Bool.or_self, Bool.false_eq_true, if_false]
    exact ⟨sortDedup_strict _, fun p => (mem_sortDedup _ p).trans (hmem p)⟩

/-- hence the two columns the driver prints are equal as a theorem, not only on the cases run -/
theorem specGlobU_eq_glob (hwf : WF fs) (univ : List Name) (hU : UnivCovers fs univ) (noglob : Bool) :
    specGlobU m fs univ noglob field = glob m fs noglob field :=
  specResult_unique m fs field noglob _ _ (specGlobU_meets_spec m fs field hwf univ hU noglob)
    (glob_meets_spec m fs field hwf noglob)

/-- ★ the model's comparison `pathLe` (transcribing `a.value.cmp(&b.value)`) is Lean's lexicographic
    `≤` on lists of characters compared by code point … -/
theorem pathLe_is_lex (a b : Path) : pathLe a b = true ↔ a ≤ b := pathLe_iff_le a b

/-- … so the result is strictly increasing in that order -/
theorem glob_sorted_lex (hwf : WF fs) (noglob : Bool) :
    (glob m fs noglob field).Pairwise (fun a b => a < b) := by
  have := glob_sorted_nodup m fs field hwf noglob
  unfold StrictSorted at this
  exact this.imp (fun {a b} h => (pathLt_iff a b).mpr h)

/-- ★ … and it is the order the code uses: Rust's `String::cmp` compares the UTF-8 encodings byte by
    byte, and `pathLe a b` holds iff the UTF-8 bytes of `a` (Lean's encoder `String.utf8EncodeChar`;
    `utf8Bytes l` is `List.utf8Encode l` as a list) are lexicographically `≤` those of `b`. -/
theorem pathLe_is_utf8_bytewise (a b : Path) : pathLe a b = true ↔ utf8Bytes a ≤ utf8Bytes b := by
  rw [pathLe_iff_le, ← List.not_lt, ← List.not_lt, utf8Bytes_lt_iff]

/-- the result is strictly increasing bytewise on the UTF-8 encodings -/
theorem glob_sorted_bytewise (hwf : WF fs) (noglob : Bool) :
    (glob m fs noglob field).Pairwise (fun a b => utf8Bytes a < utf8Bytes b) :=
  (glob_sorted_lex m fs field hwf noglob).imp (fun {a b} h => (utf8Bytes_lt_iff a b).mp h)

/-! ### which fields are globbed at all (`expand_word_with_mode`, `expand_words`, `expand_value`) -/

/-- ★ `Single` mode (scalar assignment values, `name=value` operands of declaration utilities) never
    globs: whatever the file system and the matcher, each field is returned with its quotes removed. -/
theorem single_mode_never_globs (noglob : Bool) (fields : List (List AttrChar)) :
    expandFields m fs noglob Mode.single fields = fields.map removeQuotes := rfl

/-- `Multiple` mode handles the fields one by one and in order: the result for a list of fields is the
    concatenation of the results for its parts (command words, `for` lists, array values, and the
    several fields one word splits into) -/
theorem expandFields_append (noglob : Bool) (mode : Mode) (f g : List (List AttrChar)) :
    expandFields m fs noglob mode (f ++ g)
      = expandFields m fs noglob mode f ++ expandFields m fs noglob mode g := by
  cases mode <;> simp [expandFields]

/-- a pathname is in the result iff some field expands to it -/
theorem mem_expandFields_multiple (noglob : Bool) (fields : List (List AttrChar)) (p : Path) :
    p ∈ expandFields m fs noglob Mode.multiple fields ↔ ∃ f, f ∈ fields ∧ p ∈ glob m fs noglob f := by
  simp [expandFields, List.mem_flatMap]

/-- ★ the whole step meets its Spec: with consistent oracles the model's `expandFields` equals the
    executable Spec `specFieldsU` (each field replaced in order by the sorted pathnames it stands for,
    or by itself), in both modes -/
theorem expandFields_eq_spec (hwf : WF fs) (univ : List Name) (hU : UnivCovers fs univ) (noglob : Bool)
    (mode : Mode) (fields : List (List AttrChar)) :
    specFieldsU m fs univ noglob mode fields = expandFields m fs noglob mode fields := by
  cases mode with
  | single => rfl
  | multiple =>
    simp only [specFieldsU, expandFields]
    induction fields with
    | nil => rfl
    | cons f t ih =>
      simp only [List.flatMap_cons, ih, specGlobU_eq_glob m fs f hwf univ hU noglob]

/-- with `noglob` every field of every mode is returned verbatim (quotes removed) -/
theorem expandFields_noglob (mode : Mode) (fields : List (List AttrChar)) :
    expandFields m fs true mode fields = fields.map removeQuotes := by
  cases mode with
  | single => rfl
  | multiple =>
    simp only [expandFields]
    induction fields with
    | nil => rfl
    | cons f t ih => simp [List.flatMap_cons, ih, glob_noglob]

/-! ### the property end to end -/

/-- every Spec member exists and is one name per component, each name meeting the clauses of the
    property (literal text / a real name that is not `.` or `..`, has no slash, is matched, and starts
    with a period only if the component's text does) -/
theorem specMember_clauses (hp : PeriodRule m) (p : Path) (h : SpecMember m fs field p) :
    fs.exist p = true ∧ ∃ names, p = joinPath names
      ∧ namesClauses m (splitComponents field).1 (splitComponents field).2 names := by
  obtain ⟨names, hw, e⟩ := h
  refine ⟨?_, names, e, witness_clauses m fs hp _ _ [] names hw⟩
  have := witness_exist m fs _ _ [] names hw
  simpa [e] using this

/-- ★★ **The property, as one statement about `glob`**, for every matcher obeying the leading-period
    rule, every file system with consistent oracles, every field and both settings of `noglob`:
    1. with `noglob`, or when no pathname matches, the result is the field itself, quotes removed;
    2. otherwise the result consists of exactly the Spec's pathnames (none nonexistent, none omitted),
    3. as whole pathnames in strictly increasing byte order of their UTF-8 encodings (so also without
       duplicates) — not merely name by name within each directory,
    4. and every returned pathname exists and is made of one name per component: a component that is
       not a pattern contributes its own text; a pattern component contributes a non-empty, slash-free
       name other than `.` and `..` that the pattern matches, and one starting with a period only if
       the component's text (quoted or not) starts with a period. -/
theorem glob_property (hwf : WF fs) (hp : PeriodRule m) (noglob : Bool) :
    ((noglob = true ∨ ∀ p, ¬ SpecMember m fs field p) → glob m fs noglob field = [removeQuotes field]) ∧
    (noglob = false → (∃ p, SpecMember m fs field p) →
      (∀ p, p ∈ glob m fs noglob field ↔ SpecMember m fs field p) ∧
      (glob m fs noglob field).Pairwise (fun a b => utf8Bytes a < utf8Bytes b) ∧
      (∀ p, p ∈ glob m fs noglob field → fs.exist p = true ∧ ∃ names, p = joinPath names
        ∧ namesClauses m (splitComponents field).1 (splitComponents field).2 names)) := by
  refine ⟨fun h => fallback_exact m fs field hwf noglob h, fun hng hne => ?_⟩
  subst hng
  have hc := glob_complete m fs field hwf hne
  exact ⟨hc, glob_sorted_bytewise m fs field hwf false,
    fun p hp' => specMember_clauses m fs field hp p ((hc p).mp hp')⟩

/-- ★★ **What the driver prints.**  For the matcher and file system that the driver builds from a case
    line (`mkMatcher tab`, `mkFs e l`) and its name set `univOf l`: whenever its decidable check
    `wfDump e l` succeeds — the only situation in which it prints a Spec column — that column
    (`specFieldsU`) equals the model column (`expandFields`), every field of a `Multiple` context
    meets `SpecResult`, and if the table check `periodDump tab` succeeds as well, `glob_property`
    applies to every field.  No hypothesis is left to trust. -/
theorem driver_spec_column (tab : List MEntry) (e : List Path) (l : List (Path × List Name))
    (noglob : Bool) (mode : Mode) (fields : List (List AttrChar)) (hwf : wfDump e l = true) :
    specFieldsU (mkMatcher tab) (mkFs e l) (univOf l) noglob mode fields
        = expandFields (mkMatcher tab) (mkFs e l) noglob mode fields
      ∧ (∀ f, f ∈ fields → SpecResult (mkMatcher tab) (mkFs e l) noglob f
            (glob (mkMatcher tab) (mkFs e l) noglob f)) :=
  ⟨expandFields_eq_spec _ _ (wfDump_sound e l hwf) _ (univOf_covers e l) noglob mode fields,
   fun f _ => glob_meets_spec _ _ f (wfDump_sound e l hwf) noglob⟩

theorem driver_glob_property (tab : List MEntry) (e : List Path) (l : List (Path × List Name))
    (hwf : wfDump e l = true) (hp : periodDump tab = true) :
    WF (mkFs e l) ∧ PeriodRule (mkMatcher tab) ∧ UnivCovers (mkFs e l) (univOf l) :=
  ⟨wfDump_sound e l hwf, periodDump_sound tab hp, univOf_covers e l⟩

/-! ### the world behind the oracles: mode bits -/

/-- what "reachable" says, bit by bit: the directory we are in is a directory whose mode has the
    *owner's search bit* (0o100) — no group or other bit, no read bit is asked for — the next name is
    present in it, and so on down the path -/
theorem reachable_cons (w : World) (key : List Name) (n : Name) (ns : List Name) :
    w.reachable key (n :: ns) = true ↔
      (∃ mode, w.kindAt key = some (NodeKind.dir mode) ∧ mode / 64 % 2 = 1)
        ∧ (w.kindAt (key ++ [n])).isSome = true ∧ w.reachable (key ++ [n]) ns = true := by
  simp only [World.reachable, World.searchable, ownerSearch_bit, Bool.and_eq_true]
  constructor
  · rintro ⟨⟨h1, h2⟩, h3⟩
    refine ⟨?_, h2, h3⟩
    cases hk : w.kindAt key with
    | none => simp [hk] at h1
    | some k =>
      cases k with
      | dir mode => exact ⟨mode, rfl, by simpa [hk] using h1⟩
      | file => simp [hk] at h1
      | link t => simp [hk] at h1
  · rintro ⟨⟨mode, hk, hm⟩, h2, h3⟩
    exact ⟨⟨by simp [hk, hm], h2⟩, h3⟩

/-- ★ **A pathname of plain names exists iff every directory on it is searchable by its owner and
    every name is there** (`fstatat` in the world model; the final node not being a symbolic link).
    A model that asked for the group's or others' search bit, or for a read bit, would not satisfy
    this (see the examples with modes 0700 and 0070 below). -/
theorem world_exist_iff_searchable (w : World) (hroot : w.isDir [] = true) (names : List Name)
    (hne : names ≠ []) (h : ∀ n, n ∈ names → plainName n = true)
    (hl : ∀ tgt, w.kindAt (['t'] :: names) ≠ some (NodeKind.link tgt)) :
    (fsOfWorld w).exist (joinPath names) = w.reachable [] (['t'] :: names) := by
  have hg : w.get (absPath (joinPath names))
      = if w.reachable [] (['t'] :: names) then some (['t'] :: names) else none := by
    rw [absPath_rel _ (joinPath_head names hne h)]
    exact get_plain w hroot names hne h
  simp only [fsOfWorld, joinPath_nul names h, Bool.not_false, Bool.true_and]
  rw [show YashModel.Generated.GlobTables.symloopMax = 7 + 1 from rfl, follow_succ, hg]
  by_cases hr : w.reachable [] (['t'] :: names) = true
  · rw [hr]
    show (match w.kindAt (['t'] :: names) with
      | some (NodeKind.link target) => w.follow 7 (retarget (absPath (joinPath names)) target)
      | _ => true) = true
    cases hk : w.kindAt (['t'] :: names) with
    | none => rfl
    | some k =>
      cases k with
      | link tgt => exact absurd hk (hl tgt)
      | file => rfl
      | dir mode => rfl
  · have hr' : w.reachable [] (['t'] :: names) = false := by simpa using hr
    simp [hr']

/-- ★ **A directory of plain names can be listed iff it can be reached that way, is a directory, and a
    descriptor is free** — `opendir` asks for no read permission; the listing is `.`, `..` and the
    directory's entries. -/
theorem world_list_iff (w : World) (hroot : w.isDir [] = true) (names : List Name)
    (hne : names ≠ []) (h : ∀ n, n ∈ names → plainName n = true) :
    (fsOfWorld w).list (joinPath names ++ ['/'])
      = if w.fdFree && w.reachable [] (['t'] :: names) && w.isDir (['t'] :: names)
        then some (dot :: dotdot :: w.children (['t'] :: names)) else none := by
  have hnul : (joinPath names ++ ['/']).contains '\x00' = false := by
    have := joinPath_nul names h
    simp only [List.contains_eq_mem, List.mem_append, decide_eq_false_iff_not] at *
    rintro (h1 | h1)
    · exact this h1
    · simp at h1
  have habs : absPath (joinPath names ++ ['/']) = ['/', 't', '/'] ++ (joinPath names ++ ['/']) := by
    apply absPath_rel
    have h1 := joinPath_head names hne h
    have h2 := joinPath_ne_nil names hne h
    cases hj : joinPath names with
    | nil => exact absurd hj h2
    | cons c cs => rw [hj] at h1; simpa using h1
  have hg := get_plain_slash w hroot names hne h
  rw [← habs] at hg
  simp only [fsOfWorld, hnul, Bool.false_or, hg]
  by_cases hf : w.fdFree = true
  · by_cases hr : w.reachable [] (['t'] :: names) = true
    · by_cases hd : w.isDir (['t'] :: names) = true
      · simp [hf, hr, hd]
      · simp [hf, hr, hd]
    · simp [hf, hr]
  · simp [hf]

/-- ★ **Symbolic links are followed hop by hop, each target resolved in the directory of the link that
    is being followed** (not of the first link of the chain): if the look-up of `x/n` ends at a link
    with the relative target `tgt`, then `x/n` exists iff `x/tgt` does, with one hop less to spend;
    an absolute target replaces the path; after 8 look-ups the answer is no. -/
theorem world_follow_hop (w : World) (fuel : Nat) (x : Path) (n : Name) (hn : '/' ∉ n) (key : List Name)
    (tgt : Path) (hg : w.get (x ++ '/' :: n) = some key) (hk : w.kindAt key = some (NodeKind.link tgt)) :
    w.follow (fuel + 1) (x ++ '/' :: n)
      = w.follow fuel (if tgt.head? = some '/' then tgt else x ++ '/' :: tgt) := by
  rw [follow_succ, hg]
  simp only [hk]
  by_cases ht : tgt.head? = some '/'
  · have : retarget (x ++ '/' :: n) tgt = tgt := by simp [retarget, ht]
    rw [this, if_pos ht]
  · rw [retarget_relative x n hn tgt ht, if_neg ht]

theorem world_follow_bound (w : World) (abs : Path) : w.follow 0 abs = false := rfl

/-! ### non-vacuity: a concrete system and matcher meeting every hypothesis, with a two-result expansion -/

/-- three files `a`, `b`, `.h` in the working directory -/
def fs₀ : Fs where
  exist p := p == ['a'] || p == ['b'] || p == ['.', 'h']
  list d := if d == ['.'] then some [['a'], ['b'], ['.', 'h']] else none

/-- `*` is a pattern that matches every name not starting with a period; anything else is literal -/
def m₀ : Matcher where
  kind pcs := if pcs == [PatternChar.normal '*'] then Kind.pattern else Kind.literal (pcs.map PatternChar.charValue)
  isMatch _ n := n.head? != some '.'

/-- the unquoted word `*` -/
def star : List AttrChar := [{ value := '*', origin := Origin.literal, isQuoted := false, isQuoting := false }]

/-- the word `"*"` without its quotation marks' characters: a quoted `*` -/
def qstar : List AttrChar := [{ value := '*', origin := Origin.literal, isQuoted := true, isQuoting := false }]

/-- the unquoted word `c` -/
def litc : List AttrChar := [{ value := 'c', origin := Origin.literal, isQuoted := false, isQuoting := false }]

theorem wf_fs₀ : WF fs₀ := by
  constructor
  · intro pre ns hpre hl
    rcases hpre with e | ⟨q, e⟩
    · subst e
      simp only [fs₀, dirPath] at hl
      simp only [List.isEmpty_nil, if_true, beq_self_eq_true, Option.some.injEq] at hl
      subst hl
      refine ⟨by decide, fun n => ?_⟩
      simp only [fs₀, List.nil_append, Bool.or_eq_true, beq_iff_eq, List.mem_cons, List.not_mem_nil, or_false]
      constructor
      · rintro (h | h | h) <;> subst h <;> simp [validName]
      · rintro ⟨_, h⟩
        rcases h with (h | h) | h
        · exact Or.inl h
        · exact Or.inr (Or.inl h)
        · exact Or.inr (Or.inr h)
    · subst e
      have hne : (q ++ ['/']).isEmpty = false := by cases q <;> rfl
      have hd : q ++ ['/'] ≠ ['.'] := by
        intro h
        have := congrArg List.reverse h
        simp at this
      simp [fs₀, dirPath, hne, hd] at hl
  · intro p q h
    exfalso
    simp only [fs₀, Bool.or_eq_true, beq_iff_eq] at h
    have hm : '/' ∈ p ++ '/' :: q := by simp
    rcases h with (h | h) | h <;> rw [h] at hm <;> simp at hm

example : searchField m₀ fs₀ star = [['a'], ['b']] := by decide

/-- two results, sorted; the dot file is not matched -/
example : glob m₀ fs₀ false star = [['a'], ['b']] := by
  apply strictSorted_ext _ _ (glob_sorted_nodup m₀ fs₀ star wf_fs₀ false) (by unfold StrictSorted; decide)
  intro p
  rw [glob_on_eq, show searchField m₀ fs₀ star = [['a'], ['b']] by decide]
  simp [mem_sortPaths]

example : glob m₀ fs₀ false qstar = [['*']] := by
  rw [glob_on_eq, show searchField m₀ fs₀ qstar = [] by decide]; rfl
example : glob m₀ fs₀ true star = [['*']] := by simp [glob, star, removeQuotes]
example : glob m₀ fs₀ false litc = [['c']] := by
  rw [glob_on_eq, show searchField m₀ fs₀ litc = [] by decide]; rfl
example : SpecMember m₀ fs₀ star ['a'] := ⟨[['a']], by decide, rfl⟩
example : ∃ q, SpecMember m₀ fs₀ star q := ⟨['a'], [['a']], by decide, rfl⟩
example : ∀ p, ¬ SpecMember m₀ fs₀ litc p := by
  intro p hp
  have := (mem_searchField m₀ fs₀ wf_fs₀ litc p).mpr hp
  rw [show searchField m₀ fs₀ litc = [] by decide] at this
  simp at this
theorem literalFaithful_m₀ : LiteralFaithful m₀ := by
  intro pcs h
  simp only [m₀]
  have : (pcs == [PatternChar.normal '*']) = false := by
    apply beq_false_of_ne
    intro e
    subst e
    have := h (PatternChar.normal '*') (by simp)
    simp [PatternChar.isLiteral] at this
  simp [this]
example : FullyQuoted qstar ∧ SlashNotQuoting qstar := by
  constructor
  · intro a ha _
    simp [qstar] at ha
    subst ha
    exact Or.inl rfl
  · intro a ha hv
    simp [qstar] at ha
    subst ha
    rfl
example : UnivCovers fs₀ [['a'], ['b'], ['.', 'h']] := by
  intro d ns h n hn
  simp only [fs₀] at h
  split at h
  · cases h; exact hn
  · cases h
-- a two-byte and a three-byte character: code-point order = byte order
example : pathLe ['é'] ['€'] = true ∧ utf8Bytes ['é'] = [0xc3, 0xa9] ∧ utf8Bytes ['€'] = [0xe2, 0x82, 0xac] := by decide
example : expandFields m₀ fs₀ false Mode.single [star] = [['*']] := by decide
example : PeriodRule m₀ := by
  intro pcs n h hd
  simp [m₀, hd] at h
-- the driver's checks succeed on a concrete dump and table (three files, `*` matching the two plain ones)
example : wfDump [['a'], ['b'], ['.', 'h']] [(['.'], [['a'], ['b'], ['.', 'h']])] = true := by decide
example : periodDump [{ pcs := [PatternChar.normal '*'], kind := Kind.pattern, names := [['a'], ['b']] }] = true := by
  decide
-- … and reject a dump in which a listed name does not exist, and a table in which `*` matches a dot file
example : wfDump [['a']] [(['.'], [['a'], ['b']])] = false := by decide
example : periodDump [{ pcs := [PatternChar.normal '*'], kind := Kind.pattern, names := [['.', 'h']] }] = false := by
  decide
/-- `/t/priv` (mode `m`) and `/t/pub` (0755), each holding a file `a` -/
def w₀ (m : Nat) : World where
  entries := [([], NodeKind.dir 0o755), ([['t']], NodeKind.dir 0o755),
    ([['t'], ['p', 'r', 'i', 'v']], NodeKind.dir m), ([['t'], ['p', 'r', 'i', 'v'], ['a']], NodeKind.file),
    ([['t'], ['p', 'u', 'b']], NodeKind.dir 0o755), ([['t'], ['p', 'u', 'b'], ['a']], NodeKind.file)]
  fdFree := true

/-- `/t/d/a`, `/t/d/k -> a`, `/t/e/l -> ../d/k` (exists), `/t/f/a`, `/t/g/k -> a` (dangling),
    `/t/f/l -> ../g/k` (dangling): the second hop must be resolved in `d` resp. `g`, not in `e` resp. `f` -/
def wLinks : World where
  entries := [([], NodeKind.dir 0o755), ([['t']], NodeKind.dir 0o755),
    ([['t'], ['d']], NodeKind.dir 0o755), ([['t'], ['d'], ['a']], NodeKind.file),
    ([['t'], ['d'], ['k']], NodeKind.link ['a']),
    ([['t'], ['e']], NodeKind.dir 0o755), ([['t'], ['e'], ['l']], NodeKind.link ['.', '.', '/', 'd', '/', 'k']),
    ([['t'], ['f']], NodeKind.dir 0o755), ([['t'], ['f'], ['a']], NodeKind.file),
    ([['t'], ['g']], NodeKind.dir 0o755), ([['t'], ['g'], ['k']], NodeKind.link ['a']),
    ([['t'], ['f'], ['l']], NodeKind.link ['.', '.', '/', 'g', '/', 'k'])]
  fdFree := true

/-- the unquoted word `*/l` -/
def starSlashL : List AttrChar :=
  ['*', '/', 'l'].map (fun c => { value := c, origin := Origin.literal, isQuoted := false, isQuoting := false })

example : (fsOfWorld wLinks).exist ['e', '/', 'l'] = true ∧ (fsOfWorld wLinks).exist ['f', '/', 'l'] = false := by
  decide
example : searchField m₀ (fsOfWorld wLinks) starSlashL = [['e', '/', 'l']] := by decide
example : wLinks.get ['/', 't', '/', 'e', '/', 'l'] = some [['t'], ['e'], ['l']]
    ∧ wLinks.kindAt [['t'], ['e'], ['l']] = some (NodeKind.link ['.', '.', '/', 'd', '/', 'k']) := by decide

/-- the unquoted word `*/a` -/
def starSlashA : List AttrChar :=
  ['*', '/', 'a'].map (fun c => { value := c, origin := Origin.literal, isQuoted := false, isQuoting := false })

-- only the owner's search bit counts: 0700, 0710, 0100 are as good as 0755; 0070, 0644, 0011 are not
example : ownerSearch 0o700 = true ∧ ownerSearch 0o710 = true ∧ ownerSearch 0o100 = true
    ∧ ownerSearch 0o070 = false ∧ ownerSearch 0o644 = false ∧ ownerSearch 0o011 = false := by decide
example : searchField m₀ (fsOfWorld (w₀ 0o700)) starSlashA = [['p','r','i','v','/','a'], ['p','u','b','/','a']] := by
  decide
example : searchField m₀ (fsOfWorld (w₀ 0o070)) starSlashA = [['p','u','b','/','a']] := by decide
example : (w₀ 0o700).reachable [] [['t'], ['p','r','i','v'], ['a']] = true
    ∧ (w₀ 0o070).reachable [] [['t'], ['p','r','i','v'], ['a']] = false := by decide
example : (w₀ 0o700).isDir [] = true ∧ (∀ n, n ∈ [['p','r','i','v'], ['a']] → plainName n = true) := by
  refine ⟨by decide, ?_⟩
  intro n hn
  simp only [List.mem_cons, List.not_mem_nil, or_false] at hn
  rcases hn with e | e <;> subst e <;> decide
example : NoWild m₀ (splitComponents qstar).1 (splitComponents qstar).2 := by unfold NoWild; decide
example : (splitComponents star).2 = []
    ∧ m₀.kind (toPattern (splitComponents star).1) = Kind.pattern := by decide

end YashModel.Glob
