/-
  C05 — what the driver builds from one case line: the matcher from the table of real yash_fnmatch
  answers, the file system from the dumped oracles, and the *decidable checks* that it runs on them
  (`wfDump`, `periodDump`).  Import-free (part of the driver); `DumpLemmas.lean` proves that the checks
  imply the hypotheses of the theorems (`WF`, `UnivCovers`, `PeriodRule`), so that nothing about the
  driver's Spec column rests on an unproved assumption.
-/
import YashModel.Glob.Model
import YashModel.Glob.Spec
namespace YashModel.Glob

/-- one line of the match table: a component pattern, its classification, the names it matches -/
structure MEntry where
  pcs : List PatternChar
  kind : Kind
  names : List Name

def lookupM (tab : List MEntry) (pcs : List PatternChar) : Option MEntry :=
  tab.find? (fun e => e.pcs == pcs)

def mkMatcher (tab : List MEntry) : Matcher where
  kind pcs := match lookupM tab pcs with
    | some e => e.kind
    | none => Kind.invalid
  isMatch pcs n := match lookupM tab pcs with
    | some e => e.names.contains n
    | none => false

def mkFs (e : List Path) (l : List (Path × List Name)) : Fs where
  exist p := e.contains p
  list d := (l.find? (fun x => x.1 == d)).map (·.2)

/-- every way of cutting `p` at a slash: the parts before -/
def slashPrefixes : Path → Path → List Path
  | _, [] => []
  | acc, c :: cs =>
    let rest := slashPrefixes (acc ++ [c]) cs
    if c == '/' then acc :: rest else rest

/-- `p` without the prefix `pre`, if it has it -/
def stripPre : Path → Path → Option Path
  | [], p => some p
  | _ :: _, [] => none
  | a :: as, b :: bs => if a == b then stripPre as bs else none

def nodupB : List Path → Bool
  | [] => true
  | x :: xs => !xs.contains x && nodupB xs

/-- the directory prefix whose `dirPath` is `d` -/
def preOfDir (d : Path) : Option Path :=
  if d == ['.'] then some [] else if d.getLast? == some '/' then some d else none

/-- `WF (mkFs e l)`, decided on the finite dump: every listing is duplicate-free, lists only valid
    existing names, and contains every valid name that exists below its prefix; existence is closed
    under cutting at a slash. -/
def wfDump (e : List Path) (l : List (Path × List Name)) : Bool :=
  (l.all fun x =>
    match preOfDir x.1 with
    | none => true
    | some pre =>
      nodupB x.2
      && x.2.all (fun n => validName n && e.contains (pre ++ n))
      && e.all (fun p => match stripPre pre p with
          | some n => !validName n || x.2.contains n
          | none => true))
  && e.all (fun p => (slashPrefixes [] p).all e.contains)

/-- the leading-period rule, decided on the match table: a pattern that matches a name starting with
    a period starts with a period character itself (quoted or not) -/
def periodDump (tab : List MEntry) : Bool :=
  tab.all fun en =>
    en.names.all fun n =>
      !(n.head? == some '.') || (en.pcs.head?.map PatternChar.charValue == some '.')

/-- names without repetition -/
def dedupNames : List Name → List Name
  | [] => []
  | x :: xs => if (dedupNames xs).contains x then dedupNames xs else x :: dedupNames xs

/-- the finite set of names handed to `specGlobU`: every name of every dumped listing -/
def univOf (l : List (Path × List Name)) : List Name := dedupNames (l.flatMap (·.2))

end YashModel.Glob
