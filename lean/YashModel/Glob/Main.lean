/-
  Driver for C05.  stdin: one case per line, stdout: `<model observation>\t<spec>`.

  Case line = five sections separated by ` | `:
    T <tree> W <words>|D <fields> A <assignments> [R <n>] G <0|1> [C <context>]
                         what the harness builds/runs; read here: `G` (1 = glob on) and `C` (`scalar`/`decl` =
                         expansion mode Single; `cmd`/`for`/`arr`/`direct` or absent = Multiple)
    F <field;field;…>    the attributed fields after field splitting, each `<c,c,…>` with
                         `c = <code point hex>:<L|H|S><quoted 0|1><quoting 0|1>`; `-` = empty field, `/` = no field
    E <hex,hex,…>        the pathnames (among those the case can ask about) for which `file_exists` holds
    L <dir>=<n.n.…>,…    the directories that `opendir` can list, with their entry names (hex)
    M <pcs>=<kind>[=<n.n.…>],…   per component pattern (`n<cp>`/`l<cp>` joined by `.`): what yash_fnmatch
                         says: `N` unparsable, `L<hex>` literal, `P` pattern + the candidate names it matches
    X <tree>             what the root directory holds besides `t` (same entry syntax, paths from `/`)
  The matcher is the C04 model of yash-fnmatch under glob's `Config` (`fnMatcher`, memoised per case);
  `M` is only compared with it (`FNMATCH-MODEL-DIFFERS:<patterns>` when they disagree about a candidate name
  without the expansion being affected; otherwise the columns simply differ from the shell's fields).
  From `T`, `X` and `R` the driver also builds the world model (`World.lean`: inode table with mode
  bits), derives the two oracles from it and demands that they answer like the dump (`E`, `L`) and give
  the same expansion; otherwise the observation is `WORLD-MODEL-DIFFERS`.
  Observation: the resulting fields, hex, comma-separated.
  Spec column: `=<fields>` from the brute-force `specGlobU` when the dumped oracles satisfy `WF`
  (checked here on the finite dump); otherwise (links, unsearchable directories) from the entry-based
  brute force `specGlobE` when the dumped listings satisfy `ListingsOK` (`lwfDump`); `-` otherwise.
-/
import YashModel.Common.Proto
import YashModel.Glob.Model
import YashModel.Glob.Spec
import YashModel.Glob.Dump
import YashModel.Glob.World
import YashModel.Glob.FnMatcher
import YashModel.Glob.EntrySpec
open YashModel YashModel.Glob YashModel.Proto

def hexNat (s : String) : Option Nat :=
  s.toList.foldl (fun acc c => do
    let a ← acc
    let v ← hexVal c
    pure (a * 16 + v)) (if s.isEmpty then none else some 0)

def parseAttr (t : String) : Option AttrChar :=
  match t.splitOn ":" with
  | [cp, fl] =>
    match fl.toList with
    | [o, q, g] => do
      let n ← hexNat cp
      let origin ← (match o with
        | 'L' => some Origin.literal
        | 'H' => some Origin.hardExpansion
        | 'S' => some Origin.softExpansion
        | _ => none)
      pure { value := Char.ofNat n, origin := origin, isQuoted := q == '1', isQuoting := g == '1' }
    | _ => none
  | _ => none

def listOf (t : String) (sep : String) : List String :=
  if t == "-" || t.isEmpty then [] else t.splitOn sep

def parseField (t : String) : Option (List AttrChar) :=
  (listOf t ",").mapM parseAttr

def parseFields (t : String) : Option (List (List AttrChar)) :=
  if t == "/" then some [] else (t.splitOn ";").mapM parseField

/-- value following the key `k` among the tokens -/
def keyed (k : String) : List String → Option String
  | a :: b :: rest => if a == k then some b else keyed k (b :: rest)
  | _ => none

def parsePc (t : String) : Option PatternChar :=
  match t.toList with
  | 'n' :: r => (hexNat (String.ofList r)).map (fun n => PatternChar.normal (Char.ofNat n))
  | 'l' :: r => (hexNat (String.ofList r)).map (fun n => PatternChar.literal (Char.ofNat n))
  | _ => none

def parsePcs (t : String) : Option (List PatternChar) :=
  (listOf t ".").mapM parsePc

def parseMEntry (t : String) : Option MEntry :=
  match t.splitOn "=" with
  | [p, "N"] => do pure { pcs := ← parsePcs p, kind := Kind.invalid, names := [] }
  | [p, "P"] => do pure { pcs := ← parsePcs p, kind := Kind.pattern, names := [] }
  | [p, "P", ns] => do pure { pcs := ← parsePcs p, kind := Kind.pattern, names := ← (listOf ns ".").mapM decChars }
  | [p, k] =>
    match k.toList with
    | 'L' :: r => do pure { pcs := ← parsePcs p, kind := Kind.literal (← decChars (String.ofList r)), names := [] }
    | _ => none
  | _ => none

def parseLEntry (t : String) : Option (Path × List Name) :=
  match t.splitOn "=" with
  | [d, ns] => do pure (← decChars d, ← (listOf ns ".").mapM decChars)
  | _ => none

def octNat (s : String) : Option Nat :=
  s.toList.foldl (fun acc c => do
    let a ← acc
    if '0' ≤ c ∧ c ≤ '7' then pure (a * 8 + (c.toNat - 48)) else none) (if s.isEmpty then none else some 0)

def segsOf (p : Path) : List Name := (splitSeg [] p).filter (· != [])

/-- one tree entry (`f<path>`, `d<path>:<mode>`, `l<path>:<target>`) below the directory `base` -/
def parseEntry (base : List Name) (t : String) : Option (List Name × NodeKind) :=
  match t.toList with
  | 'f' :: r => do pure (base ++ segsOf (← decChars (String.ofList r)), NodeKind.file)
  | 'd' :: r =>
    match (String.ofList r).splitOn ":" with
    | [p, m] => do pure (base ++ segsOf (← decChars p), NodeKind.dir (← octNat m))
    | _ => none
  | 'l' :: r =>
    match (String.ofList r).splitOn ":" with
    | [p, x] => do pure (base ++ segsOf (← decChars p), NodeKind.link (← decChars x))
    | _ => none
  | _ => none

def mkWorld (tEntries xEntries : List (List Name × NodeKind)) (fdFree : Bool) : World where
  entries := ([], NodeKind.dir 0o755) :: ([['t']], NodeKind.dir 0o755) :: (tEntries ++ xEntries)
  fdFree := fdFree

def sameNames (a b : List Name) : Bool := a.all b.contains && b.all a.contains

def showFields (l : List Path) : String :=
  if l.isEmpty then "none" else ",".intercalate (l.map encChars)

def showPcs (p : List PatternChar) : String :=
  if p.isEmpty then "-" else ".".intercalate (p.map fun c => match c with
    | .normal c => "n" ++ String.ofList (Nat.toDigits 16 c.toNat)
    | .literal c => "l" ++ String.ofList (Nat.toDigits 16 c.toNat))

def runLine (line : String) : String :=
  match splitTrim line "|" with
  | [prim, f, e, l, mm, xx] =>
    let r : Option String := do
      let pw := words prim
      let g ← keyed "G" pw
      let noglob := g == "0"
      let ctx := (keyed "C" pw).getD "cmd"
      let mode := if ctx == "scalar" || ctx == "decl" then Mode.single else Mode.multiple
      let fields ← match words f with
        | ["F", t] => parseFields t
        | _ => none
      let es ← match words e with
        | ["E", t] => (listOf t ",").mapM decChars
        | _ => none
      let ls ← match words l with
        | ["L", t] => (listOf t ",").mapM parseLEntry
        | _ => none
      let tab ← match words mm with
        | ["M", t] => (listOf t ",").mapM parseMEntry
        | _ => none
      let tEntries ← (listOf (← keyed "T" pw) ",").mapM (parseEntry [['t']])
      let xEntries ← match words xx with
        | ["X", t] => (listOf t ",").mapM (parseEntry [])
        | _ => none
      let world := mkWorld tEntries xEntries ((keyed "R" pw) != some "1")
      let wfs := fsOfWorld world
      -- the matcher is the C04 model of yash-fnmatch under glob's Config, memoised on the component
      -- patterns of this case and the candidate names (FnLemmas.lean: `mkMatcher (fnTab ..)` answers like
      -- `fnMatcher` there, and `glob` asks nothing else); the table `M` of real answers is only compared
      let univ := univOf ls
      let treeNames := tEntries.filterMap (fun x => x.1.getLast?)
      let cands := dedupNames (univ ++ treeNames ++ [dot, dotdot])
      let m := mkMatcher (fnTab cands (componentKeys fields))
      let mReal := mkMatcher tab
      let fs := mkFs es ls
      let missing := fields.any fun field =>
        let comps := splitComponents field
        (comps.1 :: comps.2).any (fun c => (lookupM tab (toPattern c)).isNone)
      if missing && !noglob && mode == Mode.multiple then
        pure "MISSING-PATTERN\t-"
      else
        let out := expandFields m fs noglob mode fields
        -- `wfDump` implies `WF fs`, `univOf` covers every listing (DumpLemmas.lean): by
        -- `driver_fn_column` the Spec column, when printed, is the declarative Spec of the dump
        -- wave 3: when the dump is not consistent (links, unsearchable directories) but its listings are
        -- duplicate-free lists of valid names (`lwfDump`), the Spec column is the entry-based brute force
        -- `specFieldsE` (`driver_entry_column`: it is the declarative `EntryResult` of the dump)
        let spec :=
          if wfDump es ls then "=" ++ showFields (specFieldsU m fs univ noglob mode fields)
          else if lwfDump ls then "=" ++ showFields (specFieldsE m fs univ noglob mode fields)
          else "-"
        let worldOK :=
          es.all wfs.exist
          && ls.all (fun x => match wfs.list x.1 with
              | some ns => sameNames ns x.2
              | none => false)
          && expandFields m wfs noglob mode fields == out
        if !worldOK then
          pure "WORLD-MODEL-DIFFERS\t-"
        else if goodWorld world && !wfDump es ls then
          -- `wf_fsOfWorld`: the oracles of a good world are consistent, so a dump of them that is not
          -- would mean that the dump is not what the world model says (or that the harness asked
          -- about too little)
          pure "GOOD-WORLD-BUT-DUMP-NOT-WF\t-"
        else if tidyWorld world && !lwfDump ls then
          -- `listingsOK_fsOfWorld`: the listings of a tidy world are duplicate-free lists of valid names
          pure "TIDY-WORLD-BUT-LISTINGS-NOT-OK\t-"
        else if !periodDump tab then
          pure "PERIOD-RULE-VIOLATED-BY-MATCH-TABLE\t-"
        else if !tabAgrees cands tab && expandFields mReal fs noglob mode fields == out then
          -- the real crate and the C04 model disagree about some candidate name, although not about one
          -- that decides this expansion (if they did, `out` below already differs from the shell's fields)
          let bad := (tab.filter (fun e => !entryAgrees cands e)).map (fun e => showPcs e.pcs)
          pure ("FNMATCH-MODEL-DIFFERS:" ++ ",".intercalate bad ++ "\t-")
        else
        pure (showFields out ++ "\t" ++ spec)
    r.getD "bad-case\t-"
  | _ => "bad-case\t-"

def main : IO Unit := mainLoop runLine
