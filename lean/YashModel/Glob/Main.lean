/-
  Driver for C05.  stdin: one case per line, stdout: `<model observation>\t<spec>`.

  Case line = five sections separated by ` | `:
    T <tree> W <words>|D <fields> A <assignments> [R <n>] G <0|1> [C <context>]
                         what the harness builds/runs; read here: `G` (1 = glob on) and `C` (`scalar`/`decl` =
                         expansion mode Single; `cmd`/`for`/`arr`/`direct` or absent = Multiple)
    F <field;field;…>    the attributed fields after field splitting, each `<c,c,…>` with
                         `c = <code point hex>:<L|H|S><quoted 0|1><quoting 0|1>`; `-` = empty field, `/` = no field
    E <hex,hex,…>        the pathnames (among those the case can ask about) for which `file_exists` holds
    L <dir>=<n.n.…>,…    the directories that `opendir` can list, with their entry names (hex)
    M <pcs>=<kind>[=<n.n.…>],…   per component pattern (`n<cp>`/`l<cp>` joined by `.`): what yash_fnmatch
                         says: `N` unparsable, `L<hex>` literal, `P` pattern + the candidate names it matches
  Observation: the resulting fields, hex, comma-separated.
  Spec column: `=<fields>` from the brute-force `specGlobU` when the dumped oracles satisfy `WF`
  (checked here on the finite dump), `-` otherwise (the theorems assume `WF`).
-/
import YashModel.Common.Proto
import YashModel.Glob.Model
import YashModel.Glob.Spec
open YashModel YashModel.Glob YashModel.Proto

def hexNat (s : String) : Option Nat :=
  s.toList.foldl (fun acc c => do
    let a ← acc
    let v ← hexVal c
    pure (a * 16 + v)) (if s.isEmpty then none else some 0)

def parseAttr (t : String) : Option AttrChar :=
  match t.splitOn ":" with
  | [cp, fl] =>
    match fl.toList with
    | [o, q, g] => do
      let n ← hexNat cp
      let origin ← (match o with
        | 'L' => some Origin.literal
        | 'H' => some Origin.hardExpansion
        | 'S' => some Origin.softExpansion
        | _ => none)
      pure { value := Char.ofNat n, origin := origin, isQuoted := q == '1', isQuoting := g == '1' }
    | _ => none
  | _ => none

def listOf (t : String) (sep : String) : List String :=
  if t == "-" || t.isEmpty then [] else t.splitOn sep

def parseField (t : String) : Option (List AttrChar) :=
  (listOf t ",").mapM parseAttr

def parseFields (t : String) : Option (List (List AttrChar)) :=
  if t == "/" then some [] else (t.splitOn ";").mapM parseField

/-- value following the key `k` among the tokens -/
def keyed (k : String) : List String → Option String
  | a :: b :: rest => if a == k then some b else keyed k (b :: rest)
  | _ => none

def parsePc (t : String) : Option PatternChar :=
  match t.toList with
  | 'n' :: r => (hexNat (String.ofList r)).map (fun n => PatternChar.normal (Char.ofNat n))
  | 'l' :: r => (hexNat (String.ofList r)).map (fun n => PatternChar.literal (Char.ofNat n))
  | _ => none

def parsePcs (t : String) : Option (List PatternChar) :=
  (listOf t ".").mapM parsePc

structure MEntry where
  pcs : List PatternChar
  kind : Kind
  names : List Name

def parseMEntry (t : String) : Option MEntry :=
  match t.splitOn "=" with
  | [p, "N"] => do pure { pcs := ← parsePcs p, kind := Kind.invalid, names := [] }
  | [p, "P"] => do pure { pcs := ← parsePcs p, kind := Kind.pattern, names := [] }
  | [p, "P", ns] => do pure { pcs := ← parsePcs p, kind := Kind.pattern, names := ← (listOf ns ".").mapM decChars }
  | [p, k] =>
    match k.toList with
    | 'L' :: r => do pure { pcs := ← parsePcs p, kind := Kind.literal (← decChars (String.ofList r)), names := [] }
    | _ => none
  | _ => none

def parseLEntry (t : String) : Option (Path × List Name) :=
  match t.splitOn "=" with
  | [d, ns] => do pure (← decChars d, ← (listOf ns ".").mapM decChars)
  | _ => none

def lookupM (tab : List MEntry) (pcs : List PatternChar) : Option MEntry :=
  tab.find? (fun e => e.pcs == pcs)

def mkMatcher (tab : List MEntry) : Matcher where
  kind pcs := match lookupM tab pcs with
    | some e => e.kind
    | none => Kind.invalid
  isMatch pcs n := match lookupM tab pcs with
    | some e => e.names.contains n
    | none => false

def mkFs (e : List Path) (l : List (Path × List Name)) : Fs where
  exist p := e.contains p
  list d := (l.find? (fun x => x.1 == d)).map (·.2)

/-- every way of cutting `p` at a slash: the parts before -/
def slashPrefixes : Path → Path → List Path
  | _, [] => []
  | acc, c :: cs =>
    let rest := slashPrefixes (acc ++ [c]) cs
    if c == '/' then acc :: rest else rest

/-- `WF` evaluated on the finite dump (`univ` = every name that occurs in a listing) -/
def wfDump (fs : Fs) (e : List Path) (l : List (Path × List Name)) (univ : List Name) : Bool :=
  (l.all fun (d, ns) =>
    let pre? : Option Path :=
      if d == ['.'] then some [] else if d.getLast? == some '/' then some d else none
    match pre? with
    | none => true
    | some pre =>
      ns.eraseDups.length == ns.length
      && ns.all (fun n => validName n && fs.exist (pre ++ n))
      && univ.all (fun n => !(validName n && fs.exist (pre ++ n)) || ns.contains n))
  && e.all (fun p => (slashPrefixes [] p).all fs.exist)

def showFields (l : List Path) : String :=
  if l.isEmpty then "none" else ",".intercalate (l.map encChars)

def runLine (line : String) : String :=
  match splitTrim line "|" with
  | [prim, f, e, l, mm] =>
    let r : Option String := do
      let pw := words prim
      let g ← keyed "G" pw
      let noglob := g == "0"
      let ctx := (keyed "C" pw).getD "cmd"
      let mode := if ctx == "scalar" || ctx == "decl" then Mode.single else Mode.multiple
      let fields ← match words f with
        | ["F", t] => parseFields t
        | _ => none
      let es ← match words e with
        | ["E", t] => (listOf t ",").mapM decChars
        | _ => none
      let ls ← match words l with
        | ["L", t] => (listOf t ",").mapM parseLEntry
        | _ => none
      let tab ← match words mm with
        | ["M", t] => (listOf t ",").mapM parseMEntry
        | _ => none
      let m := mkMatcher tab
      let fs := mkFs es ls
      let missing := fields.any fun field =>
        let comps := splitComponents field
        (comps.1 :: comps.2).any (fun c => (lookupM tab (toPattern c)).isNone)
      if missing && !noglob && mode == Mode.multiple then
        pure "MISSING-PATTERN\t-"
      else
        let out := expandFields m fs noglob mode fields
        let univ := (ls.flatMap (·.2)).eraseDups
        let spec :=
          if wfDump fs es ls univ then "=" ++ showFields (specFieldsU m fs univ noglob mode fields) else "-"
        pure (showFields out ++ "\t" ++ spec)
    r.getD "bad-case\t-"
  | _ => "bad-case\t-"

def main : IO Unit := mainLoop runLine
