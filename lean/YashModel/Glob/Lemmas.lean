/-
  C05 — helper lemmas: the bytewise order, sorting, path algebra, and the characterisation of
  `searchDir` by `witness` (the induction over the component list).
-/
import YashModel.Glob.Model
import YashModel.Glob.Spec
namespace YashModel.Glob

/-! ### the order `pathLe` -/

theorem pathLe_refl (a : Path) : pathLe a a = true := by
  induction a with
  | nil => simp [pathLe]
  | cons x xs ih => simp [pathLe, ih]

theorem pathLe_total (a b : Path) : (pathLe a b || pathLe b a) = true := by
  induction a generalizing b with
  | nil => simp [pathLe]
  | cons x xs ih =>
    cases b with
    | nil => simp [pathLe]
    | cons y ys =>
      simp only [pathLe]
      by_cases h1 : x.toNat < y.toNat
      · simp [h1]
      · by_cases h2 : y.toNat < x.toNat
        · simp [h1, h2]
        · simpa [h1, h2] using ih ys

theorem pathLe_trans (a b c : Path) : pathLe a b = true → pathLe b c = true → pathLe a c = true := by
  induction a generalizing b c with
  | nil => intros; simp [pathLe]
  | cons x xs ih =>
    cases b with
    | nil => simp [pathLe]
    | cons y ys =>
      cases c with
      | nil => simp [pathLe]
      | cons z zs =>
        simp only [pathLe]
        intro h1 h2
        by_cases hxy : x.toNat < y.toNat
        · by_cases hyz : y.toNat < z.toNat
          · have : x.toNat < z.toNat := Nat.lt_trans hxy hyz
            simp [this]
          · by_cases hzy : z.toNat < y.toNat
            · simp [hyz, hzy] at h2
            · have : x.toNat < z.toNat := by omega
              simp [this]
        · by_cases hyx : y.toNat < x.toNat
          · simp [hxy, hyx] at h1
          · have hxy' : x.toNat = y.toNat := by omega
            simp only [hxy, hyx, if_false] at h1
            by_cases hyz : y.toNat < z.toNat
            · have : x.toNat < z.toNat := by omega
              simp [this]
            · by_cases hzy : z.toNat < y.toNat
              · simp [hyz, hzy] at h2
              · simp only [hyz, hzy, if_false] at h2
                have h3 : ¬ x.toNat < z.toNat := by omega
                have h4 : ¬ z.toNat < x.toNat := by omega
                simp only [h3, h4, if_false]
                exact ih ys zs h1 h2

theorem pathLe_antisymm (a b : Path) : pathLe a b = true → pathLe b a = true → a = b := by
  induction a generalizing b with
  | nil =>
    cases b with
    | nil => intros; rfl
    | cons y ys => simp [pathLe]
  | cons x xs ih =>
    cases b with
    | nil => simp [pathLe]
    | cons y ys =>
      simp only [pathLe]
      intro h1 h2
      by_cases hxy : x.toNat < y.toNat
      · have : ¬ y.toNat < x.toNat := by omega
        simp [hxy, this] at h2
      · by_cases hyx : y.toNat < x.toNat
        · simp [hxy, hyx] at h1
        · simp only [hxy, hyx, if_false] at h1 h2
          have hc : x = y := Char.toNat_inj.mp (by omega)
          rw [hc, ih ys h1 h2]

/-! ### sorting -/

theorem sortPaths_perm (l : List Path) : (sortPaths l).Perm l :=
  List.mergeSort_perm l pathLe

theorem sortPaths_sorted (l : List Path) : (sortPaths l).Pairwise (fun a b => pathLe a b = true) :=
  List.pairwise_mergeSort pathLe_trans pathLe_total l

theorem mem_sortPaths (l : List Path) (p : Path) : p ∈ sortPaths l ↔ p ∈ l :=
  (sortPaths_perm l).mem_iff

theorem sortPaths_strict (l : List Path) (h : l.Nodup) : StrictSorted (sortPaths l) := by
  unfold StrictSorted
  exact List.Pairwise.and (sortPaths_sorted l) ((sortPaths_perm l).nodup_iff.mpr h)

/-- two strictly sorted lists with the same members are equal -/
theorem strictSorted_ext (l₁ l₂ : List Path) (h₁ : StrictSorted l₁) (h₂ : StrictSorted l₂)
    (h : ∀ p, p ∈ l₁ ↔ p ∈ l₂) : l₁ = l₂ := by
  induction l₁ generalizing l₂ with
  | nil =>
    cases l₂ with
    | nil => rfl
    | cons y ys => exact absurd ((h y).mpr (by simp)) (by simp)
  | cons x xs ih =>
    cases l₂ with
    | nil => exact absurd ((h x).mp (by simp)) (by simp)
    | cons y ys =>
      unfold StrictSorted at h₁ h₂
      rw [List.pairwise_cons] at h₁ h₂
      have hxy : x = y := by
        have hx : x ∈ y :: ys := (h x).mp (by simp)
        have hy : y ∈ x :: xs := (h y).mpr (by simp)
        rw [List.mem_cons] at hx hy
        rcases hx with hx | hx
        · exact hx
        · rcases hy with hy | hy
          · exact hy.symm
          · exact pathLe_antisymm x y (h₁.1 y hy).1 (h₂.1 x hx).1
      subst hxy
      have : xs = ys := by
        apply ih ys h₁.2 h₂.2
        intro p
        constructor
        · intro hp
          have := (h p).mp (List.mem_cons_of_mem _ hp)
          rw [List.mem_cons] at this
          rcases this with e | e
          · exact absurd e.symm (h₁.1 p hp).2
          · exact e
        · intro hp
          have := (h p).mpr (List.mem_cons_of_mem _ hp)
          rw [List.mem_cons] at this
          rcases this with e | e
          · exact absurd e.symm (h₂.1 p hp).2
          · exact e
      rw [this]

/-! ### one step of the search, without any hypothesis on the oracles -/

/-- what `search_dir` demands of the name it appends for the component `c` below `pre` -/
def stepOK (m : Matcher) (fs : Fs) (pre : Path) (c : List AttrChar) (n : Name) : Prop :=
  match m.kind (toPattern c) with
  | Kind.invalid => n = removeQuotes c
  | Kind.literal s => n = s
  | Kind.pattern => ∃ ns, fs.list (dirPath pre) = some ns ∧ n ∈ ns ∧ n ≠ dot ∧ n ≠ dotdot
      ∧ m.isMatch (toPattern c) n = true

theorem mem_pushComponent_none (fs : Fs) (pre : Path) (fe : Bool) (n : Name) (p : Path) :
    p ∈ pushComponent fs none pre fe n ↔ (fe = true ∨ fs.exist (pre ++ n) = true) ∧ p = pre ++ n := by
  unfold pushComponent
  by_cases h : (fe || fs.exist (pre ++ n)) = true
  · have h' := h
    rw [Bool.or_eq_true] at h'
    simp [h, h']
  · have h' := h
    rw [Bool.or_eq_true] at h'
    simp [h, h']

theorem pushComponent_some (fs : Fs) (k : Path → List Path) (pre : Path) (fe : Bool) (n : Name) :
    pushComponent fs (some k) pre fe n = k (pre ++ n ++ ['/']) := rfl

theorem mem_searchStep (m : Matcher) (fs : Fs) (c : List AttrChar) (next : Option (Path → List Path))
    (pre p : Path) :
    p ∈ searchStep m fs c next pre ↔
      ∃ n, stepOK m fs pre c n ∧ p ∈ pushComponent fs next pre (isWild m c) n := by
  simp only [searchStep, stepOK, isWild]
  cases hk : m.kind (toPattern c) with
  | invalid => simp
  | literal s => simp
  | pattern =>
    cases hl : fs.list (dirPath pre) with
    | none => simp
    | some ns =>
      simp only [List.mem_flatMap, List.mem_filter, Bool.and_eq_true, bne_iff_ne, ne_eq]
      constructor
      · rintro ⟨n, ⟨hn, ⟨h1, h2⟩, h3⟩, hp⟩
        exact ⟨n, ⟨ns, rfl, hn, h1, h2, h3⟩, hp⟩
      · rintro ⟨n, ⟨ns', hns, hn, h1, h2, h3⟩, hp⟩
        cases hns
        exact ⟨n, ⟨hn, ⟨h1, h2⟩, h3⟩, hp⟩

/-- `names` is what the search appends, component by component (listing-based; no `WF` needed) -/
def lwitness (m : Matcher) (fs : Fs) : Path → List AttrChar → List (List AttrChar) → List Name → Prop
  | pre, c, [], [n] => stepOK m fs pre c n ∧ (isWild m c = true ∨ fs.exist (pre ++ n) = true)
  | pre, c, c' :: cs, n :: ns => stepOK m fs pre c n ∧ lwitness m fs (pre ++ n ++ ['/']) c' cs ns
  | _, _, _, _ => False

theorem lwitness_ne (m : Matcher) (fs : Fs) (pre : Path) (c : List AttrChar) (cs : List (List AttrChar))
    (names : List Name) (h : lwitness m fs pre c cs names) : names ≠ [] := by
  intro e
  subst e
  cases cs <;> simp [lwitness] at h

theorem joinPath_cons (n : Name) (ns : List Name) (h : ns ≠ []) :
    joinPath (n :: ns) = n ++ '/' :: joinPath ns := by
  cases ns with
  | nil => exact absurd rfl h
  | cons a t => rfl

theorem path_assoc (pre n rest : Path) : pre ++ n ++ ['/'] ++ rest = pre ++ (n ++ '/' :: rest) := by
  simp [List.append_assoc]

/-- ★ (lemma) `searchDir` returns exactly the pathnames that have a listing-based witness -/
theorem mem_searchDir_l (m : Matcher) (fs : Fs) (cs : List (List AttrChar)) :
    ∀ (c : List AttrChar) (pre p : Path),
      p ∈ searchDir m fs c cs pre ↔ ∃ names, lwitness m fs pre c cs names ∧ p = pre ++ joinPath names := by
  induction cs with
  | nil =>
    intro c pre p
    rw [searchDir, mem_searchStep]
    constructor
    · rintro ⟨n, hs, hp⟩
      rw [mem_pushComponent_none] at hp
      exact ⟨[n], ⟨hs, hp.1⟩, hp.2⟩
    · rintro ⟨names, hw, hp⟩
      match names, hw with
      | [n], hw =>
        refine ⟨n, hw.1, ?_⟩
        rw [mem_pushComponent_none]
        exact ⟨hw.2, hp⟩
  | cons c' cs ih =>
    intro c pre p
    rw [searchDir, mem_searchStep]
    constructor
    · rintro ⟨n, hs, hp⟩
      rw [pushComponent_some, ih] at hp
      obtain ⟨names, hw, hp⟩ := hp
      refine ⟨n :: names, ⟨hs, hw⟩, ?_⟩
      rw [hp, joinPath_cons n names (lwitness_ne m fs _ c' cs names hw), path_assoc]
    · rintro ⟨names, hw, hp⟩
      match names, hw with
      | n :: ns, hw =>
        refine ⟨n, hw.1, ?_⟩
        rw [pushComponent_some, ih]
        refine ⟨ns, hw.2, ?_⟩
        rw [hp, joinPath_cons n ns (lwitness_ne m fs _ c' cs ns hw.2), path_assoc]

theorem stepOK_fits (m : Matcher) (fs : Fs) (pre : Path) (c : List AttrChar) (n : Name)
    (h : stepOK m fs pre c n) : fits m c n := by
  simp only [stepOK, fits] at *
  cases hk : m.kind (toPattern c) with
  | invalid => rw [hk] at h; exact h
  | literal s => rw [hk] at h; exact h
  | pattern =>
    rw [hk] at h
    obtain ⟨ns, _, _, h1, h2, h3⟩ := h
    exact ⟨h1, h2, h3⟩

theorem lwitness_namesFit (m : Matcher) (fs : Fs) (cs : List (List AttrChar)) :
    ∀ (c : List AttrChar) (pre : Path) (names : List Name),
      lwitness m fs pre c cs names → namesFit m c cs names := by
  induction cs with
  | nil =>
    intro c pre names h
    match names, h with
    | [n], h => exact stepOK_fits m fs pre c n h.1
  | cons c' cs ih =>
    intro c pre names h
    match names, h with
    | n :: ns, h => exact ⟨stepOK_fits m fs pre c n h.1, ih c' _ ns h.2⟩

/-! ### with consistent oracles, listing-based witnesses are the Spec's witnesses -/

theorem prefixOK_nil : PrefixOK [] := Or.inl rfl

theorem prefixOK_push (pre n : Path) : PrefixOK (pre ++ n ++ ['/']) := Or.inr ⟨pre ++ n, rfl⟩

theorem witness_ne (m : Matcher) (fs : Fs) (pre : Path) (c : List AttrChar) (cs : List (List AttrChar))
    (names : List Name) (h : witness m fs pre c cs names = true) : names ≠ [] := by
  intro e
  subst e
  cases cs <;> simp [witness] at h

theorem witness_exist (m : Matcher) (fs : Fs) (cs : List (List AttrChar)) :
    ∀ (c : List AttrChar) (pre : Path) (names : List Name),
      witness m fs pre c cs names = true → fs.exist (pre ++ joinPath names) = true := by
  induction cs with
  | nil =>
    intro c pre names h
    match names, h with
    | [n], h =>
      simp only [witness, Bool.and_eq_true] at h
      exact h.2
    | [], h => simp [witness] at h
    | _ :: _ :: _, h => simp [witness] at h
  | cons c' cs ih =>
    intro c pre names h
    match names, h with
    | n :: ns, h =>
      simp only [witness, Bool.and_eq_true] at h
      have := ih c' _ ns h.2
      rw [joinPath_cons n ns (witness_ne m fs _ c' cs ns h.2), ← path_assoc]
      exact this
    | [], h => simp [witness] at h

theorem stepOK_spec (m : Matcher) (fs : Fs) (hwf : WF fs) (pre : Path) (hpre : PrefixOK pre)
    (c : List AttrChar) (n : Name) (h : stepOK m fs pre c n) :
    compMatches m c n = true ∧ (!isWild m c || (fs.list (dirPath pre)).isSome) = true
      ∧ (isWild m c = true → fs.exist (pre ++ n) = true) := by
  simp only [stepOK, compMatches, isWild] at *
  cases hk : m.kind (toPattern c) with
  | invalid => rw [hk] at h; simp [h]
  | literal s => rw [hk] at h; simp [h]
  | pattern =>
    rw [hk] at h
    obtain ⟨ns, hl, hn, h1, h2, h3⟩ := h
    have hv := ((hwf.listing pre ns hpre hl).2 n).mp hn
    simp [hl, hv.1, hv.2, h1, h2, h3]

theorem spec_stepOK (m : Matcher) (fs : Fs) (hwf : WF fs) (pre : Path) (hpre : PrefixOK pre)
    (c : List AttrChar) (n : Name) (h1 : compMatches m c n = true)
    (h2 : (!isWild m c || (fs.list (dirPath pre)).isSome) = true)
    (h3 : fs.exist (pre ++ n) = true) : stepOK m fs pre c n := by
  simp only [stepOK, compMatches, isWild] at *
  cases hk : m.kind (toPattern c) with
  | invalid => rw [hk] at h1; simpa using h1
  | literal s => rw [hk] at h1; simpa using h1
  | pattern =>
    rw [hk] at h1 h2
    simp only [Bool.not_true, Bool.false_or] at h2
    cases hl : fs.list (dirPath pre) with
    | none => simp [hl] at h2
    | some ns =>
      simp only [Bool.and_eq_true, bne_iff_ne, ne_eq] at h1
      refine ⟨ns, rfl, ?_, h1.1.1.2, h1.1.2, h1.2⟩
      exact ((hwf.listing pre ns hpre hl).2 n).mpr ⟨h1.1.1.1, h3⟩

theorem lwitness_iff_witness (m : Matcher) (fs : Fs) (hwf : WF fs) (cs : List (List AttrChar)) :
    ∀ (c : List AttrChar) (pre : Path) (names : List Name), PrefixOK pre →
      (lwitness m fs pre c cs names ↔ witness m fs pre c cs names = true) := by
  induction cs with
  | nil =>
    intro c pre names hpre
    match names with
    | [] => simp [lwitness, witness]
    | _ :: _ :: _ => simp [lwitness, witness]
    | [n] =>
      simp only [lwitness, witness, Bool.and_eq_true]
      constructor
      · rintro ⟨hs, he⟩
        obtain ⟨a, b, d⟩ := stepOK_spec m fs hwf pre hpre c n hs
        refine ⟨⟨a, b⟩, ?_⟩
        rcases he with he | he
        · exact d he
        · exact he
      · rintro ⟨⟨a, b⟩, d⟩
        exact ⟨spec_stepOK m fs hwf pre hpre c n a b d, Or.inr d⟩
  | cons c' cs ih =>
    intro c pre names hpre
    match names with
    | [] => simp [lwitness, witness]
    | n :: ns =>
      simp only [lwitness, witness, Bool.and_eq_true]
      rw [ih c' _ ns (prefixOK_push pre n)]
      constructor
      · rintro ⟨hs, hw⟩
        obtain ⟨a, b, _⟩ := stepOK_spec m fs hwf pre hpre c n hs
        exact ⟨⟨a, b⟩, hw⟩
      · rintro ⟨⟨a, b⟩, hw⟩
        refine ⟨spec_stepOK m fs hwf pre hpre c n a b ?_, hw⟩
        have := witness_exist m fs cs c' _ ns hw
        rw [path_assoc, ← List.append_assoc] at this
        exact hwf.prefixClosed _ _ this

/-- ★ (lemma) with consistent oracles `searchDir` returns exactly the Spec's pathnames -/
theorem mem_searchDir (m : Matcher) (fs : Fs) (hwf : WF fs) (c : List AttrChar)
    (cs : List (List AttrChar)) (pre p : Path) (hpre : PrefixOK pre) :
    p ∈ searchDir m fs c cs pre ↔
      ∃ names, witness m fs pre c cs names = true ∧ p = pre ++ joinPath names := by
  rw [mem_searchDir_l]
  constructor
  · rintro ⟨names, hw, hp⟩
    exact ⟨names, (lwitness_iff_witness m fs hwf cs c pre names hpre).mp hw, hp⟩
  · rintro ⟨names, hw, hp⟩
    exact ⟨names, (lwitness_iff_witness m fs hwf cs c pre names hpre).mpr hw, hp⟩

theorem mem_searchField (m : Matcher) (fs : Fs) (hwf : WF fs) (field : List AttrChar) (p : Path) :
    p ∈ searchField m fs field ↔ SpecMember m fs field p := by
  unfold searchField SpecMember
  simp only []
  rw [mem_searchDir m fs hwf _ _ [] p prefixOK_nil]
  simp

/-! ### no pathname is produced twice -/

theorem validName_noslash (n : Name) (h : validName n = true) : '/' ∉ n := by
  simp [validName] at h
  exact h.2

theorem append_slash_inj (a : List Char) : ∀ (b r s : List Char), '/' ∉ a → '/' ∉ b →
    a ++ '/' :: r = b ++ '/' :: s → a = b := by
  induction a with
  | nil =>
    intro b r s _ hb h
    cases b with
    | nil => rfl
    | cons y ys =>
      simp only [List.nil_append, List.cons_append, List.cons.injEq] at h
      exact absurd (h.1 ▸ List.mem_cons_self) hb
  | cons x xs ih =>
    intro b r s ha hb h
    cases b with
    | nil =>
      simp only [List.nil_append, List.cons_append, List.cons.injEq] at h
      exact absurd (h.1 ▸ List.mem_cons_self) ha
    | cons y ys =>
      simp only [List.cons_append, List.cons.injEq] at h
      have hxs : '/' ∉ xs := fun hm => ha (List.mem_cons_of_mem _ hm)
      have hys : '/' ∉ ys := fun hm => hb (List.mem_cons_of_mem _ hm)
      rw [h.1, ih ys r s hxs hys h.2]

theorem searchDir_prefix (m : Matcher) (fs : Fs) (c : List AttrChar) (cs : List (List AttrChar))
    (pre p : Path) (h : p ∈ searchDir m fs c cs pre) : ∃ r, p = pre ++ r := by
  obtain ⟨names, _, hp⟩ := (mem_searchDir_l m fs cs c pre p).mp h
  exact ⟨_, hp⟩

theorem searchStep_nodup (m : Matcher) (fs : Fs) (hwf : WF fs) (c : List AttrChar)
    (next : Option (Path → List Path)) (pre : Path) (hpre : PrefixOK pre)
    (hk : ∀ k, next = some k → (∀ q, PrefixOK q → (k q).Nodup) ∧ (∀ q x, x ∈ k q → ∃ r, x = q ++ r)) :
    (searchStep m fs c next pre).Nodup := by
  have hpush : ∀ fe n, (pushComponent fs next pre fe n).Nodup := by
    intro fe n
    cases next with
    | none =>
      unfold pushComponent
      simp only []
      split <;> simp
    | some k => exact (hk k rfl).1 _ (prefixOK_push pre n)
  simp only [searchStep]
  cases hkind : m.kind (toPattern c) with
  | invalid => exact hpush _ _
  | literal s => exact hpush _ _
  | pattern =>
    cases hl : fs.list (dirPath pre) with
    | none => exact List.nodup_nil
    | some ns =>
      have hls := hwf.listing pre ns hpre hl
      simp only []
      unfold List.Nodup
      rw [List.pairwise_flatMap]
      refine ⟨fun n _ => hpush _ _, ?_⟩
      have hnd : (ns.filter (fun n => n != dot && n != dotdot && m.isMatch (toPattern c) n)).Nodup :=
        List.Pairwise.filter _ hls.1
      refine List.Pairwise.imp_of_mem ?_ hnd
      intro n₁ n₂ hn₁ hn₂ hne x hx y hy hxy
      have hv₁ := ((hls.2 n₁).mp (List.mem_filter.mp hn₁).1).1
      have hv₂ := ((hls.2 n₂).mp (List.mem_filter.mp hn₂).1).1
      subst hxy
      cases next with
      | none =>
        rw [mem_pushComponent_none] at hx hy
        exact hne (List.append_cancel_left (hx.2.symm.trans hy.2))
      | some k =>
        rw [pushComponent_some] at hx hy
        obtain ⟨r₁, e₁⟩ := (hk k rfl).2 _ _ hx
        obtain ⟨r₂, e₂⟩ := (hk k rfl).2 _ _ hy
        rw [path_assoc] at e₁ e₂
        have := List.append_cancel_left (e₁.symm.trans e₂)
        exact hne (append_slash_inj n₁ n₂ r₁ r₂ (validName_noslash n₁ hv₁) (validName_noslash n₂ hv₂) this)

theorem searchDir_nodup (m : Matcher) (fs : Fs) (hwf : WF fs) (cs : List (List AttrChar)) :
    ∀ (c : List AttrChar) (pre : Path), PrefixOK pre → (searchDir m fs c cs pre).Nodup := by
  induction cs with
  | nil =>
    intro c pre hpre
    rw [searchDir]
    exact searchStep_nodup m fs hwf c none pre hpre (by intro k h; cases h)
  | cons c' cs ih =>
    intro c pre hpre
    rw [searchDir]
    apply searchStep_nodup m fs hwf c _ pre hpre
    intro k h
    cases h
    exact ⟨fun q hq => ih c' q hq, fun q x hx => searchDir_prefix m fs c' cs q x hx⟩

end YashModel.Glob
