/-
  C05 wave 3, second pass — lemmas: the inode-level member predicate equals the entry-based one over the
  derived oracles; `Normal('\\')` is an ordinary character for the C04 matcher.
-/
import YashModel.Glob.FnTheorems
import YashModel.Glob.EntryLemmas
namespace YashModel.Glob
open YashModel.Generated

theorem children_contains (w : World) (key : List Name) (n : Name) :
    (w.children key).contains n = (w.kindAt (key ++ [n])).isSome := by
  rw [Bool.eq_iff_iff, List.contains_iff_mem, mem_children]

theorem entryAt_eq_list (w : World) (pre : Path) (n : Name) :
    w.entryAt pre n = (match (fsOfWorld w).list (dirPath pre) with
      | none => false
      | some ns => ns.contains n) := by
  unfold World.entryAt
  simp only [fsOfWorld]
  by_cases hc : ((dirPath pre).contains '\x00' || !w.fdFree) = true
  · rw [if_pos hc]
    simp only [Bool.or_eq_true, Bool.not_eq_true'] at hc
    rcases hc with h | h
    · rw [h]; rfl
    · rw [h]; simp
  · rw [if_neg hc]
    simp only [Bool.or_eq_true, not_or, Bool.not_eq_true, Bool.not_eq_false'] at hc
    simp only [hc.1, hc.2, Bool.not_false, Bool.true_and]
    cases w.get (absPath (dirPath pre)) with
    | none => rfl
    | some key =>
      simp only []
      by_cases hd : w.isDir key = true
      · simp only [hd, if_true, Bool.true_and, List.contains_cons, children_contains, Bool.or_assoc]
      · have hd' : w.isDir key = false := by simpa using hd
        simp [hd']

theorem inodeStep_eq_estep (m : Matcher) (w : World) (pre : Path) (c : List AttrChar) (n : Name) :
    inodeStep m w pre c n = estep m (fsOfWorld w) pre c n := by
  unfold inodeStep estep
  cases m.kind (toPattern c) with
  | invalid => rfl
  | literal s => rfl
  | pattern =>
    simp only [entryAt_eq_list]
    cases (fsOfWorld w).list (dirPath pre) with
    | none => rfl
    | some ns => rfl

theorem inodeWitness_eq_ewitness (m : Matcher) (w : World) (cs : List (List AttrChar)) :
    ∀ (c : List AttrChar) (pre : Path) (names : List Name),
      inodeWitness m w pre c cs names = ewitness m (fsOfWorld w) pre c cs names := by
  induction cs with
  | nil =>
    intro c pre names
    match names with
    | [] => rfl
    | _ :: _ :: _ => rfl
    | [n] => simp only [inodeWitness, ewitness, inodeStep_eq_estep]; rfl
  | cons c' cs ih =>
    intro c pre names
    match names with
    | [] => rfl
    | n :: ns => simp only [inodeWitness, ewitness, inodeStep_eq_estep, ih]

/-- the C04 matcher treats `Normal('\\')` as an ordinary character (escape handling lives in
    `with_escape`, which glob does not use): alone it matches exactly the name `\` -/
theorem posixMatch_backslash (a : Name)
    (h : Fnmatch.posixMatch ([PatternChar.normal '\\'].map convPc) a = true) : a = ['\\'] := by
  have hp : Fnmatch.specParse ([PatternChar.normal '\\'].map convPc) = [Fnmatch.Atom.char '\\'] := by
    have := parseAtoms_append_simple ([PatternChar.normal '\\'].map convPc) [] (by decide)
    simp only [List.append_nil, Fnmatch.parseAtoms] at this
    rw [show Fnmatch.specParse ([PatternChar.normal '\\'].map convPc)
      = Fnmatch.parseAtoms ([PatternChar.normal '\\'].map convPc) from (astOf_eq _)]
    rw [this]; rfl
  unfold Fnmatch.posixMatch Fnmatch.globMatch at h
  rw [hp] at h
  cases a with
  | nil => simp [Fnmatch.globAtoms] at h
  | cons c t =>
    cases t with
    | nil => simp [Fnmatch.globAtoms] at h; rw [h]
    | cons d u => simp [Fnmatch.globAtoms] at h


end YashModel.Glob
