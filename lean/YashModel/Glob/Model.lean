/-
  C05 — Impl model of pathname expansion: a transcription of
  `yash-semantics/src/expansion/glob.rs` (`glob`, `SearchEnv::{search_dir, push_component, file_exists}`,
  `to_pattern`, `remove_quotes_and_strip`).  Import-free and executable.

  What is a parameter (and why):
  * `Fs` — the two system-call oracles the code uses.  `exist p` is `SearchEnv::file_exists` with
    `prefix = p` (`CString::new` + `fstatat(AT_FDCWD, p, follow symlinks)` succeeded); `list d` is
    `opendir(d)` followed by reading every entry whose name is valid UTF-8 (`none` = `opendir` failed
    or `d` contains NUL).  The harness dumps both from the real (virtual) system for every case.
  * `Matcher` — what `yash_fnmatch` decides about one component: `kind` is the outcome of
    `Pattern::parse_with_config(..).ok().map(Pattern::into_literal)` (`None` / `Some(Ok(literal))` /
    `Some(Err(pattern))`), `isMatch` is `Pattern::is_match` of that compiled pattern (anchored at both
    ends, `literal_period`).  Pattern-matching correctness is property C04; here every theorem holds
    for *every* matcher.  The driver instantiates it by the table of real `yash_fnmatch` answers that
    the harness sends with each case.

  Not modelled: interruption by SIGINT while scanning (interactive shells only).
-/
namespace YashModel.Glob

abbrev Name := List Char
abbrev Path := List Char

/-- `yash_env::semantics::expansion::attr::Origin` -/
inductive Origin where
  | literal | hardExpansion | softExpansion
  deriving DecidableEq, Repr

/-- `AttrChar` -/
structure AttrChar where
  value : Char
  origin : Origin
  isQuoted : Bool
  isQuoting : Bool
  deriving DecidableEq, Repr

/-- `yash_fnmatch::PatternChar` -/
inductive PatternChar where
  | normal (c : Char)
  | literal (c : Char)
  deriving DecidableEq, Repr

def PatternChar.charValue : PatternChar → Char
  | .normal c => c
  | .literal c => c

def PatternChar.isLiteral : PatternChar → Bool
  | .normal _ => false
  | .literal _ => true

/-- outcome of `to_pattern(this).map(Pattern::into_literal)` -/
inductive Kind where
  /-- `None`: the component does not parse as a pattern -/
  | invalid
  /-- `Some(Ok(literal))`: the pattern consists of literal characters only -/
  | literal (s : Name)
  /-- `Some(Err(pattern))`: a real pattern; the directory must be scanned -/
  | pattern
  deriving DecidableEq, Repr

/-- the part of `yash_fnmatch` that pathname expansion relies on (parameter, see header) -/
structure Matcher where
  kind : List PatternChar → Kind
  isMatch : List PatternChar → Name → Bool

/-- the part of the system that pathname expansion relies on (parameter, see header) -/
structure Fs where
  exist : Path → Bool
  list : Path → Option (List Name)

/-- `to_pattern`'s `Chars` iterator.  `nq` is `next_quoted`.  Note that the flag is taken
    (`mem::replace(.., false)`) *before* the `is_quoting` test, so a quoting character that follows an
    unquoted backslash uses the flag up. -/
def toPatternChars : Bool → List AttrChar → List PatternChar
  | _, [] => []
  | nq, c :: cs =>
    if c.isQuoting then toPatternChars false cs
    else if nq || c.isQuoted || c.origin == Origin.hardExpansion then
      PatternChar.literal c.value :: toPatternChars false cs
    else
      PatternChar.normal c.value :: toPatternChars (c.value == '\\') cs

/-- `to_pattern(field)` up to the call of `Pattern::parse_with_config` -/
def toPattern (cs : List AttrChar) : List PatternChar := toPatternChars false cs

/-- `remove_quotes_and_strip`: `skip_quotes(..).strip()` -/
def removeQuotes (cs : List AttrChar) : List Char :=
  (cs.filter (fun c => !c.isQuoting)).map (·.value)

/-- The successive `suffix.iter().position(|c| c.value == '/')` splits of `search_dir`, done in
    advance: the field is cut at *every* character whose value is `/`, whatever its attributes.
    `splitAux cur cs` returns the first component (accumulated in reverse in `cur`) and the rest. -/
def splitAux : List AttrChar → List AttrChar → List AttrChar × List (List AttrChar)
  | cur, [] => (cur.reverse, [])
  | cur, c :: cs =>
    if c.value == '/' then
      let r := splitAux [] cs
      (cur.reverse, r.1 :: r.2)
    else splitAux (c :: cur) cs

/-- first component and the remaining components (`new_suffix = None` ⇔ the list is empty) -/
def splitComponents (field : List AttrChar) : List AttrChar × List (List AttrChar) :=
  splitAux [] field

/-- `dir_path` in `search_dir`: `"."` for the empty prefix -/
def dirPath (pre : Path) : Path := if pre.isEmpty then ['.'] else pre

def dot : Name := ['.']
def dotdot : Name := ['.', '.']

/-- `push_component(new_suffix, file_exists, |prefix| prefix.push_str(text))`.
    `next = none` is `suffix = None` (the path is complete); otherwise `next = some k` where `k` is
    `search_dir(new_suffix)` as a function of the new prefix. -/
def pushComponent (fs : Fs) (next : Option (Path → List Path)) (pre : Path) (fileExists : Bool)
    (text : Name) : List Path :=
  let p := pre ++ text
  match next with
  | none => if fileExists || fs.exist p then [p] else []
  | some k => k (p ++ ['/'])

/-- the three arms of `search_dir` for the component `this` -/
def searchStep (m : Matcher) (fs : Fs) (this : List AttrChar) (next : Option (Path → List Path))
    (pre : Path) : List Path :=
  let pcs := toPattern this
  match m.kind pcs with
  | Kind.invalid => pushComponent fs next pre false (removeQuotes this)
  | Kind.literal s => pushComponent fs next pre false s
  | Kind.pattern =>
    match fs.list (dirPath pre) with
    | none => []
    | some ns =>
      (ns.filter (fun n => n != dot && n != dotdot && m.isMatch pcs n)).flatMap
        (fun n => pushComponent fs next pre true n)

/-- `SearchEnv::search_dir` on the component `this` followed by the components `rest`, with
    `self.prefix = pre`; returns what is appended to `self.results`, in order. -/
def searchDir (m : Matcher) (fs : Fs) : List AttrChar → List (List AttrChar) → Path → List Path
  | this, [], pre => searchStep m fs this none pre
  | this, c :: rest, pre => searchStep m fs this (some (searchDir m fs c rest)) pre

/-- `search_env.search_dir(&field.chars)` with the empty prefix -/
def searchField (m : Matcher) (fs : Fs) (field : List AttrChar) : List Path :=
  let cs := splitComponents field
  searchDir m fs cs.1 cs.2 []

/-- `a.value.cmp(&b.value)` on strings is bytewise on UTF-8, i.e. lexicographic by code point;
    `pathLe a b` is `a ≤ b` in that order. -/
def pathLe : Path → Path → Bool
  | [], _ => true
  | _ :: _, [] => false
  | a :: as, b :: bs => if a.toNat < b.toNat then true else if b.toNat < a.toNat then false else pathLe as bs

/-- `results.sort_unstable_by(..)` (elements that compare equal are equal, so stability is moot) -/
def sortPaths (l : List Path) : List Path := l.mergeSort pathLe

/-- `glob(env, field)`; `noglob` is `env.options.get(Glob) == Off` -/
def glob (m : Matcher) (fs : Fs) (noglob : Bool) (field : List AttrChar) : List Path :=
  if noglob then [removeQuotes field]
  else
    let results := searchField m fs field
    if results.isEmpty then [removeQuotes field] else sortPaths results

/-- `yash_syntax::syntax::ExpansionMode`: how the caller wants a word expanded -/
inductive Mode where
  /-- `Single`: scalar assignment values (`expand_value`, `Scalar`), `name=value` operands of declaration
      utilities (`expand_word_with_mode`, `Single`): initial expansion, quote removal — no field
      splitting, no pathname expansion -/
  | single
  /-- `Multiple`: command words, `for` word lists, array assignment values (`expand_words`,
      `expand_word_multiple`): every field that field splitting delivers goes through `glob` -/
  | multiple
  deriving DecidableEq, Repr

/-- The last step of `expand_word_with_mode` / `expand_words` in yash-semantics/src/expansion.rs, on
    the fields that the initial expansion and field splitting deliver (for `Single`: the one joined
    field): `Multiple` runs `glob` on each field in order and appends the results
    (`results.extend(fields)`); `Single` only removes quotes. -/
def expandFields (m : Matcher) (fs : Fs) (noglob : Bool) (mode : Mode) (fields : List (List AttrChar)) :
    List Path :=
  match mode with
  | Mode.multiple => fields.flatMap (glob m fs noglob)
  | Mode.single => fields.map removeQuotes

end YashModel.Glob
