/-
  C05 wave 3 — property theorems (and non-vacuity examples) ONLY, for file systems whose two oracles
  are not consistent: trees with symbolic links (dangling ones, loops) and directories the owner cannot
  search — two thirds of what the property's quantifier names ("with symlinks and unreadable
  directories") and the third of the generated cases for which the driver used to print no Spec column.
  Helper lemmas: `EntryLemmas.lean`.  Spec: `EntrySpec.lean` (`EntryMember`: pattern components match
  directory ENTRIES; only a final component that is not a pattern is checked with `fstatat`).
-/
import YashModel.Glob.FnTheorems
import YashModel.Glob.EntryLemmas
import YashModel.Glob.InodeLemmas
import YashModel.Glob.TildeLemmas
namespace YashModel.Glob

variable (m : Matcher) (fs : Fs) (field : List AttrChar)

/-- ★ with no hypothesis whatever on the oracles: the search finds exactly the entry-based members -/
theorem search_finds_exactly_entries (p : Path) :
    p ∈ searchField m fs field ↔ EntryMember m fs field p :=
  mem_searchField_entry m fs field p

/-- ★★ **`glob` meets the entry-based Spec on every file system whose listings are duplicate-free lists
    of valid names** — nothing is asked about how `exist` and `list` relate, so dangling links and
    unsearchable directories are covered: fallback exactly when `noglob` or no member; otherwise
    exactly the members, strictly sorted. -/
theorem glob_entry_exact (hL : ListingsOK fs) (noglob : Bool) :
    EntryResult m fs noglob field (glob m fs noglob field) := by
  constructor
  · intro h
    cases noglob with
    | true => simp [glob]
    | false =>
      have h' : ∀ p, ¬ EntryMember m fs field p := by
        rcases h with h | h
        · cases h
        · exact h
      rw [glob_on_eq]
      have he : searchField m fs field = [] := by
        cases hs : searchField m fs field with
        | nil => rfl
        | cons x xs =>
          exact absurd ((mem_searchField_entry m fs field x).mp (by rw [hs]; simp)) (h' x)
      rw [if_pos he]
  · intro hng hne
    subst hng
    obtain ⟨q, hq⟩ := hne
    have hq' := (mem_searchField_entry m fs field q).mpr hq
    have he : searchField m fs field ≠ [] := fun e => by rw [e] at hq'; simp at hq'
    rw [glob_on_eq, if_neg he]
    exact ⟨sortPaths_strict _ (searchField_nodup_l m fs hL field),
      fun p => (mem_sortPaths _ p).trans (mem_searchField_entry m fs field p)⟩

/-- … and that Spec determines the result -/
theorem entryResult_unique (noglob : Bool) (o₁ o₂ : List Path)
    (h₁ : EntryResult m fs noglob field o₁) (h₂ : EntryResult m fs noglob field o₂) : o₁ = o₂ := by
  by_cases h : noglob = true ∨ ∀ p, ¬ EntryMember m fs field p
  · rw [h₁.1 h, h₂.1 h]
  · have hng : noglob = false := by
      cases noglob with
      | true => exact absurd (Or.inl rfl) h
      | false => rfl
    have hne : ∃ p, EntryMember m fs field p := by
      apply Classical.byContradiction
      intro hc
      exact h (Or.inr (fun p hp => hc ⟨p, hp⟩))
    obtain ⟨s₁, m₁⟩ := h₁.2 hng hne
    obtain ⟨s₂, m₂⟩ := h₂.2 hng hne
    exact strictSorted_ext o₁ o₂ s₁ s₂ (fun p => (m₁ p).trans (m₂ p).symm)

/-- ★ the entry-based Spec generalises the Spec of the earlier rounds: with consistent oracles the two
    notions of member coincide (so `glob_entry_exact` gives `glob_meets_spec` back) -/
theorem entryMember_iff_specMember (hwf : WF fs) (p : Path) :
    EntryMember m fs field p ↔ SpecMember m fs field p :=
  (mem_searchField_entry m fs field p).symm.trans (mem_searchField m fs hwf field p)

theorem wf_implies_listingsOK_covering (hwf : WF fs) : ListingsOK fs ∧ Covering fs :=
  ⟨wf_listingsOK fs hwf, wf_covering fs hwf⟩

/-- ★★ **"never omits a matching one" without consistency**: if the listings cover what exists below
    them and existence is prefix-closed (`Covering` — true of EVERY world, `covering_fsOfWorld`), every
    pathname that exists (`fstatat`), matches component by component and has listable pattern parents is
    returned. -/
theorem glob_never_omits (hC : Covering fs) (p : Path) (h : SpecMember m fs field p) :
    p ∈ glob m fs false field := by
  have hm := specMember_mem_searchField m fs hC field p h
  have he : searchField m fs field ≠ [] := fun e => by rw [e] at hm; simp at hm
  rw [glob_on_eq, if_neg he, mem_sortPaths]
  exact hm

/-- the last component of the field -/
def lastComponent (field : List AttrChar) : List AttrChar :=
  ((splitComponents field).2.getLast?).getD (splitComponents field).1

theorem lwitness_last (cs : List (List AttrChar)) : ∀ (c : List AttrChar) (pre : Path) (names : List Name),
    lwitness m fs pre c cs names →
      isWild m ((cs.getLast?).getD c) = true ∨ fs.exist (pre ++ joinPath names) = true := by
  induction cs with
  | nil =>
    intro c pre names h
    match names, h with
    | [n], h => exact h.2
  | cons c' cs ih =>
    intro c pre names h
    match names, h with
    | n :: ns, h =>
      have := ih c' _ ns h.2
      rw [List.getLast?_cons, Option.getD_some]
      rw [joinPath_cons n ns (lwitness_ne m fs _ c' cs ns h.2), ← path_assoc]
      exact this

/-- ★★ **The property, clause by clause, on every file system with `ListingsOK`** (links, unsearchable
    directories): 1. fallback exactly when `noglob` or no entry-based member; 2. otherwise exactly the
    members; 3. whole pathnames strictly increasing bytewise (UTF-8); 4. every returned pathname is one
    name per component with all the name clauses of `glob_property` (text of a non-pattern component; a
    non-empty slash-free name other than `.`/`..` that is matched, a leading period only for a component
    text starting with a period), and it EXISTS whenever the last component is not a pattern (a final
    pattern component returns directory entries as they are — a dangling link is returned). -/
theorem glob_entry_property (hL : ListingsOK fs) (hp : PeriodRule m) (noglob : Bool) :
    ((noglob = true ∨ ∀ p, ¬ EntryMember m fs field p) → glob m fs noglob field = [removeQuotes field]) ∧
    (noglob = false → (∃ p, EntryMember m fs field p) →
      (∀ p, p ∈ glob m fs noglob field ↔ EntryMember m fs field p) ∧
      (glob m fs noglob field).Pairwise (fun a b => utf8Bytes a < utf8Bytes b) ∧
      (∀ p, p ∈ glob m fs noglob field →
        (isWild m (lastComponent field) = false → fs.exist p = true) ∧
        ∃ names, p = joinPath names
          ∧ namesClauses m (splitComponents field).1 (splitComponents field).2 names)) := by
  have hE := glob_entry_exact m fs field hL noglob
  refine ⟨hE.1, fun hng hne => ?_⟩
  obtain ⟨hs, hm⟩ := hE.2 hng hne
  refine ⟨hm, ?_, fun p hp' => ?_⟩
  · unfold StrictSorted at hs
    exact hs.imp (fun {a b} h => (utf8Bytes_lt_iff a b).mp ((pathLt_iff a b).mpr h))
  · obtain ⟨names, hw, e⟩ := (hm p).mp hp'
    have hl := (ewitness_iff_lwitness m fs _ _ [] names).mp hw
    refine ⟨fun hlast => ?_, names, e, lwitness_clauses m fs hL hp _ _ [] names prefixOK_nil hl⟩
    rcases lwitness_last m fs _ _ [] names hl with h | h
    · unfold lastComponent at hlast
      rw [hlast] at h; cases h
    · simpa [e] using h

/-! ### the executable Spec of the driver for these cases -/

/-- the brute-force `specGlobE` meets the entry-based Spec (no hypothesis on the listings: it sorts and
    de-duplicates by itself) -/
theorem specGlobE_meets_spec (univ : List Name) (hU : UnivCovers fs univ) (noglob : Bool) :
    EntryResult m fs noglob field (specGlobE m fs univ noglob field) := by
  have hmem := mem_foundE m fs univ hU field
  unfold specGlobE
  simp only []
  constructor
  · intro h
    rcases h with h | h
    · simp [h]
    · have : (((tuples m univ ((splitComponents field).1 :: (splitComponents field).2)).filter
          (ewitness m fs [] (splitComponents field).1 (splitComponents field).2)).map joinPath) = [] := by
        apply List.eq_nil_iff_forall_not_mem.mpr
        intro p hp
        exact h p ((hmem p).mp hp)
      simp [this]
  · intro hng hne
    obtain ⟨q, hq⟩ := hne
    have hq' := (hmem q).mpr hq
    have hne' : (((tuples m univ ((splitComponents field).1 :: (splitComponents field).2)).filter
          (ewitness m fs [] (splitComponents field).1 (splitComponents field).2)).map joinPath).isEmpty = false := by
      cases hf : ((tuples m univ ((splitComponents field).1 :: (splitComponents field).2)).filter
          (ewitness m fs [] (splitComponents field).1 (splitComponents field).2)).map joinPath with
      | nil => rw [hf] at hq'; simp at hq'
      | cons a t => rfl
    rw [hng, hne']
    simp only [Bool.or_self, Bool.false_eq_true, if_false]
    exact ⟨sortDedup_strict _, fun p => (mem_sortDedup _ p).trans (hmem p)⟩

theorem specGlobE_eq_glob (hL : ListingsOK fs) (univ : List Name) (hU : UnivCovers fs univ) (noglob : Bool) :
    specGlobE m fs univ noglob field = glob m fs noglob field :=
  entryResult_unique m fs field noglob _ _ (specGlobE_meets_spec m fs field univ hU noglob)
    (glob_entry_exact m fs field hL noglob)

theorem expandFields_eq_specE (hL : ListingsOK fs) (univ : List Name) (hU : UnivCovers fs univ)
    (noglob : Bool) (mode : Mode) (fields : List (List AttrChar)) :
    specFieldsE m fs univ noglob mode fields = expandFields m fs noglob mode fields := by
  cases mode with
  | single => rfl
  | multiple =>
    simp only [specFieldsE, expandFields]
    induction fields with
    | nil => rfl
    | cons f t ih =>
      simp only [List.flatMap_cons, ih, specGlobE_eq_glob m fs f hL univ hU noglob]

/-- ★★ **What the driver prints when `wfDump` fails** (links, unsearchable directories): whenever
    `lwfDump l` holds its Spec column `specFieldsE` (memoised C04 matcher) equals pathname expansion with
    `fnMatcher` on the dump, the dump satisfies `ListingsOK`, and every field's result meets
    `EntryResult fnMatcher`.  With `driver_fn_column` every case now has a proved Spec column. -/
theorem driver_entry_column (e : List Path) (l : List (Path × List Name)) (extra : List Name)
    (noglob : Bool) (mode : Mode) (fields : List (List AttrChar)) (hl : lwfDump l = true) :
    let M := mkMatcher (fnTab (dedupNames (univOf l ++ extra)) (componentKeys fields))
    specFieldsE M (mkFs e l) (univOf l) noglob mode fields
        = expandFields fnMatcher (mkFs e l) noglob mode fields
      ∧ ListingsOK (mkFs e l)
      ∧ ∀ f, f ∈ fields → EntryResult fnMatcher (mkFs e l) noglob f (glob fnMatcher (mkFs e l) noglob f) := by
  intro M
  have h1 := (driver_fn_column e l extra noglob mode fields).1
  have hL := lwfDump_sound e l hl
  refine ⟨?_, hL, fun f _ => glob_entry_exact fnMatcher (mkFs e l) f hL noglob⟩
  rw [expandFields_eq_specE M (mkFs e l) hL (univOf l) (univOf_covers e l) noglob mode fields]
  exact h1

/-- a consistent dump passes the weaker check too (so the new Spec column is defined wherever the old is) -/
theorem wfDump_implies_lwfDump (e : List Path) (l : List (Path × List Name)) (h : wfDump e l = true) :
    lwfDump l = true := wfDump_lwfDump e l h

/-! ### from the inode table: worlds with links and unsearchable directories -/

/-- ★★ listings of EVERY tidy world (`tidyWorld`, decidable: unique keys, plain names — any symbolic
    links, any directory modes) are duplicate-free lists of valid names, for every prefix the search
    can build -/
theorem listingsOK_fsOfWorld (w : World) (h : tidyWorld w = true) : ListingsOK (fsOfWorld w) :=
  listingsOK_of_tidy w (tidy_of_tidyWorld w h)

/-- ★★ in EVERY world whose working directory exists, what `fstatat` finds below a listable prefix is in
    the listing, and existence is prefix-closed -/
theorem covering_fsOfWorld (w : World) (hcwd : (fsOfWorld w).exist [] = true) : Covering (fsOfWorld w) :=
  covering_of_world w hcwd

/-- ★★ **The property from the inode table up for every tidy world** — symbolic links (dangling, chains,
    loops) and directories of any mode included; C04 matcher model, world model of the look-up:
    `glob_entry_property` with the POSIX name clauses. -/
theorem world_glob_entry_property (w : World) (h : tidyWorld w = true) (field : List AttrChar) (noglob : Bool) :
    ((noglob = true ∨ ∀ p, ¬ EntryMember fnMatcher (fsOfWorld w) field p) →
      glob fnMatcher (fsOfWorld w) noglob field = [removeQuotes field]) ∧
    (noglob = false → (∃ p, EntryMember fnMatcher (fsOfWorld w) field p) →
      (∀ p, p ∈ glob fnMatcher (fsOfWorld w) noglob field ↔ EntryMember fnMatcher (fsOfWorld w) field p) ∧
      (glob fnMatcher (fsOfWorld w) noglob field).Pairwise (fun a b => utf8Bytes a < utf8Bytes b) ∧
      (∀ p, p ∈ glob fnMatcher (fsOfWorld w) noglob field →
        (isWild fnMatcher (lastComponent field) = false → (fsOfWorld w).exist p = true) ∧
        ∃ names, p = joinPath names
          ∧ posixNamesClauses (splitComponents field).1 (splitComponents field).2 names)) := by
  have hp := glob_entry_property fnMatcher (fsOfWorld w) field (listingsOK_fsOfWorld w h)
    periodRule_fnMatcher noglob
  refine ⟨hp.1, fun hng hne => ?_⟩
  obtain ⟨h1, h2, h3⟩ := hp.2 hng hne
  refine ⟨h1, h2, fun p hp' => ?_⟩
  obtain ⟨he, names, e, hc⟩ := h3 p hp'
  exact ⟨he, names, e, namesClauses_posix _ _ names hc⟩

/-- ★★ **never omits, in every world**: whatever exists, matches component by component and has listable
    pattern parents is returned — links and unsearchable directories included, nothing assumed but that
    `/t` exists -/
theorem world_never_omits (w : World) (hcwd : (fsOfWorld w).exist [] = true) (field : List AttrChar)
    (p : Path) (h : SpecMember fnMatcher (fsOfWorld w) field p) :
    p ∈ glob fnMatcher (fsOfWorld w) false field :=
  glob_never_omits fnMatcher (fsOfWorld w) field (covering_fsOfWorld w hcwd) p h

/-! ### the control constants of the code -/

open YashModel.Generated in
/-- ★ the control constants of the search, re-extracted from glob.rs on every run (wave 3), are the ones
    the model is written with: which arms of `search_dir` hand `file_exists = true` to `push_component`
    (only the pattern arm: a listed name is not checked again, a literal or unparsable component is
    checked with `fstatat` at the end), the names a scan skips, that `file_exists` follows symbolic
    links, and that the final sort is ascending.  Each clause states the model's definition with the
    generated constant in the place of the hand-written one. -/
theorem glob_control_tie (m : Matcher) (fs : Fs) (c : List AttrChar) (next : Option (Path → List Path))
    (pre : Path) (w : World) (p : Path) (l : List Path) :
    searchStep m fs c next pre =
      (match m.kind (toPattern c) with
       | Kind.invalid => pushComponent fs next pre GlobTables.assumeExistInvalid (removeQuotes c)
       | Kind.literal s => pushComponent fs next pre GlobTables.assumeExistLiteral s
       | Kind.pattern =>
         match fs.list (dirPath pre) with
         | none => []
         | some ns =>
           (ns.filter (fun n => !GlobTables.skippedNames.contains n && m.isMatch (toPattern c) n)).flatMap
             (fun n => pushComponent fs next pre GlobTables.assumeExistPattern n))
    ∧ (fsOfWorld w).exist p = (!p.contains '\x00' &&
        if GlobTables.existFollowsLinks then w.follow GlobTables.symloopMax (absPath p)
        else (w.get (absPath p)).isSome)
    ∧ sortPaths l = l.mergeSort (fun a b => if GlobTables.sortAscending then pathLe a b else pathLe b a) := by
  refine ⟨?_, rfl, rfl⟩
  unfold searchStep
  simp only []
  cases m.kind (toPattern c) with
  | invalid => rfl
  | literal s => rfl
  | pattern =>
    simp only []
    cases fs.list (dirPath pre) with
    | none => rfl
    | some ns =>
      simp only []
      congr 1
      apply List.filter_congr
      intro n _
      have : GlobTables.skippedNames.contains n = (n == dot || n == dotdot) := by
        have hs : GlobTables.skippedNames = [dot, dotdot] := by decide
        rw [hs]
        simp only [List.contains, List.elem]
        generalize (n == dot) = a
        generalize (n == dotdot) = b
        cases a <;> cases b <;> rfl
      rw [this]
      simp only [bne]
      generalize (n == dot) = a
      generalize (n == dotdot) = b
      cases a <;> cases b <;> rfl

/-! ### non-vacuity -/

-- the world with link chains and dangling links is tidy (not good); so is one with an unsearchable directory
example : tidyWorld wLinks = true ∧ goodWorld wLinks = false
    ∧ tidyWorld (w₀ 0o644) = true ∧ goodWorld (w₀ 0o644) = false := by decide
example : (fsOfWorld wLinks).exist [] = true ∧ (fsOfWorld (w₀ 0o644)).exist [] = true := by decide

/-- the unquoted word `*/*` -/
def starSlashStar : List AttrChar :=
  ['*', '/', '*'].map (fun c => { value := c, origin := Origin.literal, isQuoted := false, isQuoting := false })

/-- the unquoted word `priv/*` -/
def privSlashStar : List AttrChar :=
  ['p', 'r', 'i', 'v', '/', '*'].map
    (fun c => { value := c, origin := Origin.literal, isQuoted := false, isQuoting := false })

-- `*/l` with the literal last component: the dangling `f/l` is not a member, `e/l` is
example : EntryMember m₀ (fsOfWorld wLinks) starSlashL ['e', '/', 'l'] := ⟨[['e'], ['l']], by decide, rfl⟩
example : ¬ EntryMember m₀ (fsOfWorld wLinks) starSlashL ['f', '/', 'l'] := by
  intro h
  have := (mem_searchField_entry m₀ _ starSlashL _).mpr h
  revert this; decide
-- `*/*` with the pattern last component: the dangling `f/l` IS a member although it does not exist, and
-- it is not a member of the Spec of the earlier rounds: the two Specs really differ here
example : EntryMember m₀ (fsOfWorld wLinks) starSlashStar ['f', '/', 'l']
    ∧ (fsOfWorld wLinks).exist ['f', '/', 'l'] = false
    ∧ ¬ SpecMember m₀ (fsOfWorld wLinks) starSlashStar ['f', '/', 'l'] := by
  refine ⟨⟨[['f'], ['l']], by decide, rfl⟩, by decide, ?_⟩
  rintro ⟨names, hw, e⟩
  have := witness_exist m₀ _ _ _ [] names hw
  rw [List.nil_append, ← e] at this
  revert this; decide
-- a directory without search permission (0644) can be listed: `priv/*` returns `priv/a`, which `fstatat`
-- cannot reach; `*/a` does not return it
example : EntryMember m₀ (fsOfWorld (w₀ 0o644)) privSlashStar ['p','r','i','v','/','a']
    ∧ (fsOfWorld (w₀ 0o644)).exist ['p','r','i','v','/','a'] = false := by
  exact ⟨⟨[['p','r','i','v'], ['a']], by decide, rfl⟩, by decide⟩
example : searchField m₀ (fsOfWorld (w₀ 0o644)) starSlashA = [['p','u','b','/','a']] := by decide
-- `lastComponent`, and the clause "exists when the last component is not a pattern" is not vacuous
example : isWild m₀ (lastComponent starSlashL) = false ∧ isWild m₀ (lastComponent starSlashStar) = true := by
  decide
-- the dump checks
example : lwfDump [(['.'], [['a'], ['b']]), (['d', '/'], [['l']])] = true
    ∧ wfDump [['a']] [(['.'], [['a'], ['b']])] = false
    ∧ lwfDump [(['.'], [['a'], ['a']])] = false ∧ lwfDump [(['.'], [['a', '/', 'b']])] = false := by decide
-- `Covering` holds where `WF` fails: `f/l` is listed in `f/` but does not exist
example : ∃ ns, (fsOfWorld wLinks).list ['f', '/'] = some ns ∧ ['l'] ∈ ns
    ∧ (fsOfWorld wLinks).exist ['f', '/', 'l'] = false :=
  ⟨[dot, dotdot, ['a'], ['l']], by decide, by decide, by decide⟩

/-! ### strength audit (wave 3): quoting at the field level, the hop bound at its boundary, listings as inode entries -/

/-- ★ **A quoted (or hard-expansion) character of a field becomes a literal pattern character whatever
    precedes it in the component** — unquoted wildcards, an unquoted backslash from an expansion (its
    pending escape is simply used up), quoting characters — and what follows it starts with no pending
    escape.  (`toPatternChars_quoted` only covered components that are quoted throughout.) -/
theorem quoted_attr_char_is_literal (a b : List AttrChar) (q : AttrChar) (hq : q.isQuoting = false)
    (hl : q.isQuoted = true ∨ q.origin = Origin.hardExpansion) : ∀ nq,
    toPatternChars nq (a ++ q :: b)
      = toPatternChars nq a ++ PatternChar.literal q.value :: toPatternChars false b := by
  induction a with
  | nil =>
    intro nq
    have hc : (nq || q.isQuoted || q.origin == Origin.hardExpansion) = true := by
      rcases hl with h | h
      · simp [h]
      · simp [h]
    simp [toPatternChars, hq, hc]
  | cons c cs ih =>
    intro nq
    simp only [List.cons_append, toPatternChars]
    split
    · exact ih false
    · split
      · rw [ih false]; rfl
      · rw [ih (c.value == '\\')]; rfl

/-- ★ **"never treats quoted text as wildcards", for partially quoted components**: if the component is
    `a ++ [q] ++ b` with `q` quoted (or from a hard expansion) and the part before it has no unquoted
    `[`, then every name the component matches is `x ++ [q.value] ++ y` with `x` matched by the part
    before and `y` by the part after — the quoted character stands for itself, at the field level. -/
theorem quoted_attr_char_matches_itself (a b : List AttrChar) (q : AttrChar) (hq : q.isQuoting = false)
    (hl : q.isQuoted = true ∨ q.origin = Origin.hardExpansion)
    (hpre : ∀ pc, pc ∈ toPattern a → pc ≠ PatternChar.normal '[') (n : Name)
    (h : fnMatcher.isMatch (toPattern (a ++ q :: b)) n = true) :
    ∃ x y, n = x ++ q.value :: y ∧ Fnmatch.posixMatch ((toPattern a).map convPc) x = true
      ∧ Fnmatch.posixMatch ((toPatternChars false b).map convPc) y = true := by
  unfold toPattern at h
  rw [quoted_attr_char_is_literal a b q hq hl false] at h
  exact quoted_char_literal_after_wildcards (toPatternChars false a) (toPatternChars false b) q.value hpre n h

private def ac (c : Char) (o : Origin) (quoted quoting : Bool) : AttrChar :=
  { value := c, origin := o, isQuoted := quoted, isQuoting := quoting }

-- the order inside `Chars::next` (`mem::replace` of the flag BEFORE the `is_quoting` test): in `${v}""*`
-- with v=`\` the empty quotation uses the pending escape up and the star stays a pattern character; a
-- model that tested `is_quoting` first would give `literal '*'`.  And `$v*` with v=`\`: the star is escaped.
example : toPattern [ac '\\' .softExpansion false false, ac '"' .literal false true, ac '"' .literal false true,
      ac '*' .literal false false] = [PatternChar.normal '\\', PatternChar.normal '*']
    ∧ toPattern [ac '\\' .softExpansion false false, ac '*' .literal false false]
      = [PatternChar.normal '\\', PatternChar.literal '*']
    -- a quoted backslash does not escape; an escaped backslash does not escape either
    ∧ toPattern [ac '\\' .literal true false, ac '*' .literal false false]
      = [PatternChar.literal '\\', PatternChar.normal '*']
    ∧ toPattern [ac '\\' .softExpansion false false, ac '\\' .softExpansion false false, ac '*' .literal false false]
      = [PatternChar.normal '\\', PatternChar.literal '\\', PatternChar.normal '*'] := by decide
-- non-vacuity of `quoted_attr_char_matches_itself`: `*"*"` at the field level
example : toPattern ([ac '*' .literal false false] ++ ac '*' .literal true false :: [])
    = [PatternChar.normal '*', PatternChar.literal '*'] := by decide

/-- a directory `/t/c` holding a file `f` and links `l1 -> f`, `l2 -> l1`, …, `l9 -> l8` -/
def wChain : World where
  entries := [([], NodeKind.dir 0o755), ([['t']], NodeKind.dir 0o755), ([['t'], ['c']], NodeKind.dir 0o755),
    ([['t'], ['c'], ['f']], NodeKind.file),
    ([['t'], ['c'], ['l', '1']], NodeKind.link ['f']),
    ([['t'], ['c'], ['l', '2']], NodeKind.link ['l', '1']),
    ([['t'], ['c'], ['l', '3']], NodeKind.link ['l', '2']),
    ([['t'], ['c'], ['l', '4']], NodeKind.link ['l', '3']),
    ([['t'], ['c'], ['l', '5']], NodeKind.link ['l', '4']),
    ([['t'], ['c'], ['l', '6']], NodeKind.link ['l', '5']),
    ([['t'], ['c'], ['l', '7']], NodeKind.link ['l', '6']),
    ([['t'], ['c'], ['l', '8']], NodeKind.link ['l', '7']),
    ([['t'], ['c'], ['l', '9']], NodeKind.link ['l', '8'])]
  fdFree := true

-- the bound at its boundary: a chain of 7 links is followed (8 look-ups), a chain of 8 is not; and the
-- entry-based Spec lists all of them for a final pattern component
example : (fsOfWorld wChain).exist ['c', '/', 'l', '7'] = true
    ∧ (fsOfWorld wChain).exist ['c', '/', 'l', '8'] = false
    ∧ (fsOfWorld wChain).exist ['c', '/', 'l', '9'] = false
    ∧ tidyWorld wChain = true := by decide

/-- ★ what a listing is, at the level of the inode table, in EVERY world: the directory named by the
    path can be looked up, is a directory, a descriptor is free (no read permission is asked), and the
    listed names are `.`, `..` and exactly the names that have an inode below that directory — so every
    name an `EntryMember` takes from a listing is a real directory entry (a file, a directory or a
    symbolic link, dangling or not). -/
theorem world_listing_is_entries (w : World) (d : Path) (ns : List Name)
    (h : (fsOfWorld w).list d = some ns) :
    ∃ key, w.get (absPath d) = some key ∧ w.isDir key = true ∧ w.fdFree = true ∧
      ∀ n, n ∈ ns ↔ (n = dot ∨ n = dotdot ∨ (w.kindAt (key ++ [n])).isSome = true) := by
  simp only [fsOfWorld] at h
  by_cases hc : (d.contains '\x00' || !w.fdFree) = true
  · rw [if_pos hc] at h; cases h
  rw [if_neg hc] at h
  cases hg : w.get (absPath d) with
  | none => rw [hg] at h; cases h
  | some key =>
    rw [hg] at h
    simp only at h
    by_cases hd : w.isDir key = true
    · rw [if_pos hd, Option.some.injEq] at h
      subst h
      have hf : w.fdFree = true := by
        simp only [Bool.or_eq_true, not_or, Bool.not_eq_true, Bool.not_eq_false'] at hc
        simpa using hc.2
      refine ⟨key, rfl, hd, hf, fun n => ?_⟩
      simp only [List.mem_cons, mem_children]
    · rw [if_neg hd] at h; cases h

example : ∃ ns, (fsOfWorld wChain).list ['c', '/'] = some ns ∧ ['l', '9'] ∈ ns :=
  ⟨[dot, dotdot, ['f'], ['l','1'], ['l','2'], ['l','3'], ['l','4'], ['l','5'], ['l','6'], ['l','7'], ['l','8'],
    ['l','9']], by decide, by decide⟩

/-! ### second pass: the member predicate on the inode table, end to end -/

/-- the member predicate on the inode table is the entry-based member over the derived oracles -/
theorem inodeMember_iff_entryMember (m : Matcher) (w : World) (field : List AttrChar) (p : Path) :
    InodeMember m w field p ↔ EntryMember m (fsOfWorld w) field p := by
  unfold InodeMember EntryMember
  simp only [inodeWitness_eq_ewitness]

theorem inodeResult_iff_entryResult (m : Matcher) (w : World) (noglob : Bool) (field : List AttrChar)
    (out : List Path) : InodeResult m w noglob field out ↔ EntryResult m (fsOfWorld w) noglob field out := by
  unfold InodeResult EntryResult
  simp only [inodeMember_iff_entryMember]

/-- ★★★ **End to end, in one line.**  For every tidy world (inode table with unique keys and plain names:
    files, directories of any mode, symbolic links of any kind), every field, both settings of `noglob`:
    a list `out` is the strictly sorted (bytewise) list of exactly the pathnames `p` with
    `InodeMember fnMatcher w field p` — or `[field with quotes removed]` when `noglob` is set or there is
    no member — **iff** it is what pathname expansion returns (transcribed `glob.rs` + C04 model of
    yash-fnmatch + world model of `FileSystem::get`/`fstatat`/`opendir`).  The member predicate is read
    off the inode table: `World.entryAt` (`world_listing_is_entries`) and `World.resolves`
    (`world_follow_hop`, `world_follow_mono`). -/
theorem world_glob_end_to_end (w : World) (h : tidyWorld w = true) (field : List AttrChar) (noglob : Bool)
    (out : List Path) :
    InodeResult fnMatcher w noglob field out ↔ out = glob fnMatcher (fsOfWorld w) noglob field := by
  rw [inodeResult_iff_entryResult]
  have hg := glob_entry_exact fnMatcher (fsOfWorld w) field (listingsOK_fsOfWorld w h) noglob
  constructor
  · intro ho
    exact entryResult_unique fnMatcher (fsOfWorld w) field noglob _ _ ho hg
  · intro e
    rw [e]; exact hg

/-- what `World.entryAt` and `World.resolves` say, unfolded once: an entry is `.`, `..` or a name with an
    inode below the directory the prefix resolves to (free descriptor, directory, no read bit); a pathname
    whose look-up ends at a link with target `tgt` resolves iff the retargeted path does with one look-up
    less — the link's own directory, not the first link's -/
theorem inode_member_unfolded (w : World) :
    (∀ pre n, w.entryAt pre n = true ↔
      (dirPath pre).contains '\x00' = false ∧ w.fdFree = true ∧
        ∃ key, w.get (absPath (dirPath pre)) = some key ∧ w.isDir key = true ∧
          (n = dot ∨ n = dotdot ∨ (w.kindAt (key ++ [n])).isSome = true))
    ∧ (∀ p, w.resolves p = (fsOfWorld w).exist p)
    ∧ (∀ fuel x n key tgt, '/' ∉ n → w.get (x ++ '/' :: n) = some key →
        w.kindAt key = some (NodeKind.link tgt) →
        w.follow (fuel + 1) (x ++ '/' :: n)
          = w.follow fuel (if tgt.head? = some '/' then tgt else x ++ '/' :: tgt)) := by
  refine ⟨fun pre n => ?_, fun p => rfl, fun fuel x n key tgt hn hg hk => world_follow_hop w fuel x n hn key tgt hg hk⟩
  unfold World.entryAt
  cases hg : w.get (absPath (dirPath pre)) with
  | none => simp
  | some key =>
    simp only [Bool.and_eq_true, Bool.not_eq_true', Bool.or_eq_true, beq_iff_eq, Option.some.injEq]
    constructor
    · rintro ⟨⟨h1, h2⟩, h3, h4⟩
      refine ⟨h1, h2, key, rfl, h3, ?_⟩
      rcases h4 with (h | h) | h
      · exact Or.inl h
      · exact Or.inr (Or.inl h)
      · exact Or.inr (Or.inr h)
    · rintro ⟨h1, h2, k, e, h3, h4⟩
      subst e
      refine ⟨⟨h1, h2⟩, h3, ?_⟩
      rcases h4 with h | h | h
      · exact Or.inl (Or.inl h)
      · exact Or.inl (Or.inr h)
      · exact Or.inr h

-- non-vacuity on the world with link chains: `*/l` has exactly the member `e/l`; `*/*` has the dangling `f/l`
example : InodeMember m₀ wLinks starSlashL ['e', '/', 'l'] := ⟨[['e'], ['l']], by decide, rfl⟩
example : InodeMember m₀ wLinks starSlashStar ['f', '/', 'l'] ∧ wLinks.resolves ['f', '/', 'l'] = false :=
  ⟨⟨[['f'], ['l']], by decide, rfl⟩, by decide⟩
example : wLinks.entryAt ['f', '/'] ['l'] = true ∧ wLinks.entryAt ['f', '/'] ['z'] = false
    ∧ (w₀ 0o644).entryAt ['p','r','i','v','/'] ['a'] = true
    ∧ (w₀ 0o644).resolves ['p','r','i','v','/','a'] = false := by decide

/-! ### second pass: the backslash rule of `to_pattern` -/

/-- an unquoted backslash that is not a quoting character and does not come from a hard expansion: in
    practice one delivered by a parameter expansion or command substitution (`v='\*'; … $v`) — a
    backslash typed in the word itself is a *quoting* character and is dropped -/
def ExpansionBackslash (bs : AttrChar) : Prop :=
  bs.value = '\\' ∧ bs.isQuoting = false ∧ bs.isQuoted = false ∧ bs.origin ≠ Origin.hardExpansion

/-- ★ **The backslash rule of `to_pattern`, exactly as the code has it**: an unquoted backslash from an
    expansion (with no escape pending) STAYS in the pattern as the ordinary character `Normal('\\')` AND
    makes the next non-quoting character literal; a quoting character directly after it uses the escape
    up instead; at the end of the component it is just `Normal('\\')`. -/
theorem expansion_backslash_rule (bs : AttrChar) (hb : ExpansionBackslash bs) :
    (∀ x rest, x.isQuoting = false →
      toPatternChars false (bs :: x :: rest)
        = PatternChar.normal '\\' :: PatternChar.literal x.value :: toPatternChars false rest)
    ∧ (∀ g rest, g.isQuoting = true →
      toPatternChars false (bs :: g :: rest) = PatternChar.normal '\\' :: toPatternChars false rest)
    ∧ toPatternChars false [bs] = [PatternChar.normal '\\'] := by
  obtain ⟨hv, hq, hqd, ho⟩ := hb
  refine ⟨fun x rest hx => ?_, fun g rest hg => ?_, ?_⟩
  · simp [toPatternChars, hq, hv, hx, hqd, ho]
  · simp [toPatternChars, hq, hv, hg, hqd, ho]
  · simp [toPatternChars, hq, hv, hqd, ho]

/-- ★ **what `$v` with `v='\*'` (or `\?`, `\[`, `\\`) looks for**: a component that starts with an
    expansion backslash followed by the character `x` matches only names of the form `\` `x` … — the
    backslash itself must be in the name, and `x` stands for itself (never a wildcard).  So `$v` with
    `v='\*'` finds the entry named `\*`, not `*` and not `\`; any change of this rule (dropping the
    backslash as POSIX 2.13.1 would, or not escaping) contradicts this theorem. -/
theorem expansion_backslash_matches (bs x : AttrChar) (rest : List AttrChar) (hb : ExpansionBackslash bs)
    (hx : x.isQuoting = false) (n : Name)
    (h : fnMatcher.isMatch (toPattern (bs :: x :: rest)) n = true) :
    ∃ y, n = '\\' :: x.value :: y
      ∧ Fnmatch.posixMatch ((toPatternChars false rest).map convPc) y = true := by
  unfold toPattern at h
  rw [(expansion_backslash_rule bs hb).1 x rest hx] at h
  obtain ⟨a, b, e, ha, hb'⟩ := quoted_char_literal_after_wildcards [PatternChar.normal '\\']
    (toPatternChars false rest) x.value (by intro pc hpc; simp at hpc; subst hpc; decide) n h
  have := posixMatch_backslash a ha
  subst this
  exact ⟨b, e, hb'⟩

private def sc (c : Char) : AttrChar := { value := c, origin := .softExpansion, isQuoted := false, isQuoting := false }

-- non-vacuity: `$v` with v=`\*` is the literal component `\*`; v=`\` is the literal `\`; v=`\\` is `\\`
example : ExpansionBackslash (sc '\\') := ⟨rfl, rfl, rfl, by decide⟩
example : fnMatcher.kind (toPattern [sc '\\', sc '*']) = Kind.literal ['\\', '*']
    ∧ fnMatcher.kind (toPattern [sc '\\']) = Kind.literal ['\\']
    ∧ fnMatcher.kind (toPattern [sc '\\', sc '\\']) = Kind.literal ['\\', '\\']
    ∧ fnMatcher.kind (toPattern [sc '\\', sc '*', sc '*']) = Kind.pattern
    ∧ fnMatcher.isMatch (toPattern [sc '\\', sc '*', sc '*']) ['\\', '*', 'z'] = true
    ∧ fnMatcher.isMatch (toPattern [sc '\\', sc '*', sc '*']) ['*', 'z'] = false
    ∧ fnMatcher.isMatch (toPattern [sc '\\', sc '*', sc '*']) ['\\', 'z'] = false := by
  have e1 : toPattern [sc '\\', sc '*'] = [PatternChar.normal '\\', PatternChar.literal '*'] := by decide
  have e2 : toPattern [sc '\\'] = [PatternChar.normal '\\'] := by decide
  have e3 : toPattern [sc '\\', sc '\\'] = [PatternChar.normal '\\', PatternChar.literal '\\'] := by decide
  have e4 : toPattern [sc '\\', sc '*', sc '*']
      = [PatternChar.normal '\\', PatternChar.literal '*', PatternChar.normal '*'] := by decide
  rw [e1, e2, e3, e4]
  simp only [fnMatcher, fnKind, fnIsMatch]
  rw [fnCompile_simple _ (by decide), fnCompile_simple _ (by decide), fnCompile_simple _ (by decide),
    fnCompile_simple _ (by decide)]
  decide

/-! ### second pass: tilde results are literal (composition with C01) -/

/-- ★★ **Tilde results are literal — composition with C01's model of tilde expansion**: whatever the home
    directory holds (`*`, `[`, `?`, a trailing slash that C01 drops before a following slash), the
    attributed characters `Expansion.expandTilde env name slash` produces (C01's transcription of
    `initial/tilde.rs`, proved equal to its POSIX Spec) enter the pattern of their component as LITERAL
    characters — the text `Expansion.tildeText env name slash` — and what follows in the field starts
    with no escape pending: `~/*` with `HOME='*'` is the pattern literal-`*` `/` wildcard-`*`. -/
theorem tilde_prefix_is_literal (env : Expansion.Env) (name : List Char) (slash : Bool) (rest : List AttrChar) :
    toPattern ((Expansion.expandTilde env name slash).map ofExp ++ rest)
      = (Expansion.tildeText env name slash).map PatternChar.literal ++ toPatternChars false rest := by
  rw [tilde_chars]
  unfold toPattern
  by_cases ht : Expansion.tildeText env name slash = []
  · rw [if_pos ht, ht]
    simp [toPatternChars]
  · rw [if_neg ht, toPatternChars_hard_prefix rest _ false ?_ (by simpa using ht)]
    · simp only [List.map_map]; rfl
    · intro c hc
      obtain ⟨d, _, rfl⟩ := List.mem_map.mp hc
      exact ⟨rfl, rfl⟩

/-- ★ a field that is nothing but a tilde expansion expands to the directory text itself on every file
    system, whatever characters it holds — no directory is listed -/
theorem tilde_field_expands_to_itself (env : Expansion.Env) (name : List Char) (slash : Bool) (fs : Fs)
    (noglob : Bool) :
    glob fnMatcher fs noglob ((Expansion.expandTilde env name slash).map ofExp)
      = [Expansion.tildeText env name slash] := by
  have hq : FullyQuoted ((Expansion.expandTilde env name slash).map ofExp) := by
    rw [tilde_chars]
    intro a ha _
    split at ha
    · simp only [List.mem_singleton] at ha; subst ha; exact Or.inr rfl
    · obtain ⟨d, _, rfl⟩ := List.mem_map.mp ha; exact Or.inr rfl
  have hs : SlashNotQuoting ((Expansion.expandTilde env name slash).map ofExp) := by
    rw [tilde_chars]
    intro a ha hv
    split at ha
    · simp only [List.mem_singleton] at ha; subst ha; cases hv
    · obtain ⟨d, _, rfl⟩ := List.mem_map.mp ha; rfl
  rw [quoted_is_literal_posix fs _ hq hs noglob, tilde_chars]
  by_cases ht : Expansion.tildeText env name slash = []
  · rw [if_pos ht, ht]; rfl
  · rw [if_neg ht]
    simp [removeQuotes, List.filter_map, Function.comp_def]

-- `~/*` with HOME=`*`: the home directory's star is a literal, the typed one a wildcard
example : toPattern ([{ value := '*', origin := Origin.hardExpansion, isQuoted := false, isQuoting := false }]
      ++ [{ value := '/', origin := Origin.literal, isQuoted := false, isQuoting := false },
          { value := '*', origin := Origin.literal, isQuoted := false, isQuoting := false }])
    = [PatternChar.literal '*', PatternChar.normal '/', PatternChar.normal '*'] := by decide

/-! ### second pass: the pre-sort order, and `opendir`'s requests -/

/-- ★ **The order of the results before the final sort does not matter** (it cannot be observed:
    `SearchEnv` is private): whatever order `search_dir` finds the pathnames in — appended or prepended,
    directories read front to back or not — sorting any rearrangement of them gives the same list.  So
    `sort_unstable_by` is as good as a stable sort, and nothing about the property hides in that order. -/
theorem presort_order_irrelevant (m : Matcher) (fs : Fs) (hL : ListingsOK fs) (field : List AttrChar)
    (l' : List Path) (hp : l'.Perm (searchField m fs field)) :
    sortPaths l' = sortPaths (searchField m fs field) := by
  have hnd := searchField_nodup_l m fs hL field
  have hnd' : l'.Nodup := hp.nodup_iff.mpr hnd
  apply strictSorted_ext _ _ (sortPaths_strict _ hnd') (sortPaths_strict _ hnd)
  intro p
  rw [mem_sortPaths, mem_sortPaths]
  exact hp.mem_iff

open YashModel.Generated in
/-- ★ second part of the control tie: the model's `opendir` (`fsOfWorld.list`) restated with the constants
    re-extracted from `VirtualSystem::opendir` / `resolve_file` on every run — a free descriptor is needed,
    a directory is needed, and NO permission bit of the directory is asked for (mask 0: in particular not
    the read bit) —, and found pathnames are appended in reading order (which `searchStep`'s `flatMap`
    over the listing transcribes) -/
theorem glob_control_tie_opendir (w : World) (d : Path) :
    (fsOfWorld w).list d =
      (if d.contains '\x00' || (GlobTables.opendirNeedsFreeFd && !w.fdFree) then none
       else match w.get (absPath d) with
         | some key =>
           if !GlobTables.opendirNeedsDirectory || w.isDir key then some (dot :: dotdot :: w.children key)
           else none
         | none => none)
    ∧ GlobTables.opendirPermissionMask = 0
    ∧ GlobTables.resultsAppended = true := by
  refine ⟨?_, rfl, rfl⟩
  simp only [fsOfWorld, GlobTables.opendirNeedsFreeFd, GlobTables.opendirNeedsDirectory, Bool.true_and,
    Bool.not_true, Bool.false_or]
  rfl

-- non-vacuity: a rearranged result list
example : [['b'], ['a']].Perm (searchField m₀ fs₀ star) := by
  rw [show searchField m₀ fs₀ star = [['a'], ['b']] by decide]
  exact List.Perm.swap _ _ _

end YashModel.Glob
