/-
  C05 — helper lemmas about the executable brute-force Spec `specGlobU` (tuples of candidate names,
  `insertSorted`/`sortDedup` over Lean's own order on `List Char`) and about the order itself:
  `pathLe` is Lean's lexicographic `≤` on lists of characters (characters compared by code point).
-/
import YashModel.Glob.Quoted
namespace YashModel.Glob

/-! ### `pathLe` is the lexicographic order of `List Char` -/

theorem char_lt_iff (a b : Char) : a < b ↔ a.toNat < b.toNat := by
  rw [Char.lt_def, UInt32.lt_iff_toNat_lt, Char.toNat_val, Char.toNat_val]

/-- Lean's strict lexicographic order on `List Char` is `pathLe` minus equality -/
theorem pathLt_iff (a : Path) : ∀ b : Path, a < b ↔ (pathLe a b = true ∧ a ≠ b) := by
  induction a with
  | nil =>
    intro b
    cases b with
    | nil => simp [List.lt_irrefl]
    | cons y ys => simp [pathLe, List.nil_lt_cons]
  | cons x xs ih =>
    intro b
    cases b with
    | nil => simp [pathLe, List.not_lt_nil]
    | cons y ys =>
      rw [List.cons_lt_cons_iff, char_lt_iff, ih ys]
      simp only [pathLe]
      by_cases h1 : x.toNat < y.toNat
      · have hne : x ≠ y := fun e => by subst e; omega
        simp [h1, hne]
      · by_cases h2 : y.toNat < x.toNat
        · have hne : x ≠ y := fun e => by subst e; omega
          simp [h1, h2, hne]
        · have he : x = y := Char.toNat_inj.mp (by omega)
          subst he
          simp [h1]

/-- `pathLe` is Lean's `≤` on `List Char` -/
theorem pathLe_iff_le (a b : Path) : pathLe a b = true ↔ a ≤ b := by
  rw [← List.not_lt, pathLt_iff]
  constructor
  · rintro h ⟨h', hne⟩
    exact hne (pathLe_antisymm b a h' h)
  · intro h
    have ht := pathLe_total a b
    rw [Bool.or_eq_true] at ht
    rcases ht with ht | ht
    · exact ht
    · by_cases e : b = a
      · subst e; exact pathLe_refl b
      · exact absurd ⟨ht, e⟩ h

/-! ### the strict order used by `StrictSorted` -/

theorem slt_trans (a b c : Path) (h1 : pathLe a b = true ∧ a ≠ b) (h2 : pathLe b c = true ∧ b ≠ c) :
    pathLe a c = true ∧ a ≠ c := by
  refine ⟨pathLe_trans a b c h1.1 h2.1, fun e => ?_⟩
  subst e
  exact h1.2 (pathLe_antisymm a b h1.1 h2.1)

theorem slt_of_not (p q : Path) (hne : p ≠ q) (hlt : ¬ p < q) : pathLe q p = true ∧ q ≠ p := by
  rw [pathLt_iff] at hlt
  have ht := pathLe_total p q
  rw [Bool.or_eq_true] at ht
  rcases ht with ht | ht
  · exact absurd ⟨ht, hne⟩ hlt
  · exact ⟨ht, fun e => hne e.symm⟩

/-! ### `insertSorted` / `sortDedup` -/

theorem mem_insertSorted (p x : Path) (l : List Path) : x ∈ insertSorted p l ↔ x = p ∨ x ∈ l := by
  induction l with
  | nil => simp [insertSorted]
  | cons q qs ih =>
    simp only [insertSorted]
    by_cases h1 : p = q
    · subst h1
      simp
    · by_cases h2 : p < q
      · simp [h1, h2]
      · simp only [h1, h2, if_false, List.mem_cons, ih]
        constructor
        · rintro (h | h | h)
          · exact Or.inr (Or.inl h)
          · exact Or.inl h
          · exact Or.inr (Or.inr h)
        · rintro (h | h | h)
          · exact Or.inr (Or.inl h)
          · exact Or.inl h
          · exact Or.inr (Or.inr h)

theorem insertSorted_strict (p : Path) (l : List Path) (h : StrictSorted l) :
    StrictSorted (insertSorted p l) := by
  induction l with
  | nil => simp [insertSorted, StrictSorted]
  | cons q qs ih =>
    unfold StrictSorted at h ⊢
    rw [List.pairwise_cons] at h
    simp only [insertSorted]
    by_cases h1 : p = q
    · simp only [h1, if_true]
      exact List.pairwise_cons.mpr h
    · by_cases h2 : p < q
      · simp only [h1, h2, if_false, if_true]
        have hpq := (pathLt_iff p q).mp h2
        refine List.pairwise_cons.mpr ⟨?_, List.pairwise_cons.mpr h⟩
        intro y hy
        rw [List.mem_cons] at hy
        rcases hy with e | hy
        · subst e; exact hpq
        · exact slt_trans p q y hpq (h.1 y hy)
      · simp only [h1, h2, if_false]
        refine List.pairwise_cons.mpr ⟨?_, ih h.2⟩
        intro y hy
        rw [mem_insertSorted] at hy
        rcases hy with e | hy
        · subst e; exact slt_of_not y q h1 h2
        · exact h.1 y hy

theorem mem_sortDedup (l : List Path) (x : Path) : x ∈ sortDedup l ↔ x ∈ l := by
  induction l with
  | nil => simp [sortDedup]
  | cons p ps ih =>
    have : sortDedup (p :: ps) = insertSorted p (sortDedup ps) := rfl
    rw [this, mem_insertSorted, ih, List.mem_cons]

theorem sortDedup_strict (l : List Path) : StrictSorted (sortDedup l) := by
  induction l with
  | nil => simp [sortDedup, StrictSorted]
  | cons p ps ih =>
    have : sortDedup (p :: ps) = insertSorted p (sortDedup ps) := rfl
    rw [this]
    exact insertSorted_strict p _ ih

/-! ### the tuples of candidate names contain every witness -/

/-- the finite set of names handed to `specGlobU` contains every name of every listing -/
def UnivCovers (fs : Fs) (univ : List Name) : Prop :=
  ∀ d ns, fs.list d = some ns → ∀ n, n ∈ ns → n ∈ univ

theorem stepOK_candidates (m : Matcher) (fs : Fs) (univ : List Name) (hU : UnivCovers fs univ)
    (pre : Path) (c : List AttrChar) (n : Name) (h : stepOK m fs pre c n) :
    n ∈ candidates m univ c := by
  simp only [stepOK, candidates] at *
  cases hk : m.kind (toPattern c) with
  | invalid => rw [hk] at h; simp [h]
  | literal s => rw [hk] at h; simp [h]
  | pattern =>
    rw [hk] at h
    obtain ⟨ns, hl, hn, _⟩ := h
    exact hU _ ns hl n hn

theorem lwitness_mem_tuples (m : Matcher) (fs : Fs) (univ : List Name) (hU : UnivCovers fs univ)
    (cs : List (List AttrChar)) : ∀ (c : List AttrChar) (pre : Path) (names : List Name),
      lwitness m fs pre c cs names → names ∈ tuples m univ (c :: cs) := by
  induction cs with
  | nil =>
    intro c pre names h
    match names, h with
    | [n], h =>
      simp only [tuples, List.mem_flatMap, List.mem_map, List.mem_singleton]
      exact ⟨n, stepOK_candidates m fs univ hU pre c n h.1, [], rfl, rfl⟩
  | cons c' cs ih =>
    intro c pre names h
    match names, h with
    | n :: ns, h =>
      have := ih c' _ ns h.2
      rw [tuples]
      simp only [List.mem_flatMap, List.mem_map]
      exact ⟨n, stepOK_candidates m fs univ hU pre c n h.1, ns, this, rfl⟩

/-- the pathnames `specGlobU` finds are exactly the Spec's members -/
theorem mem_found (m : Matcher) (fs : Fs) (hwf : WF fs) (univ : List Name) (hU : UnivCovers fs univ)
    (field : List AttrChar) (p : Path) :
    p ∈ ((tuples m univ ((splitComponents field).1 :: (splitComponents field).2)).filter
          (witness m fs [] (splitComponents field).1 (splitComponents field).2)).map joinPath
      ↔ SpecMember m fs field p := by
  simp only [List.mem_map, List.mem_filter]
  constructor
  · rintro ⟨names, ⟨_, hw⟩, e⟩
    exact ⟨names, hw, e.symm⟩
  · rintro ⟨names, hw, e⟩
    refine ⟨names, ⟨?_, hw⟩, e.symm⟩
    apply lwitness_mem_tuples m fs univ hU _ _ []
    exact (lwitness_iff_witness m fs hwf _ _ [] names prefixOK_nil).mpr hw

end YashModel.Glob
