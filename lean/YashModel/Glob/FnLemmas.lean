/-
  C05 ∘ C04 — helper lemmas about `fnMatcher` (the C04 model of yash-fnmatch under glob's `Config`):
  what it matches (C04's `literal_period_correct`), the two facts the C05 theorems used to assume about a
  matcher (`PeriodRule`, `LiteralFaithful`), the memoised table the driver computes with, the fact that
  `glob` only asks a matcher about the component patterns and the listed names, and "a quoted pattern
  character is literal whatever precedes it".
-/
import YashModel.Glob.DumpLemmas
import YashModel.Glob.FnMatcher
import YashModel.Fnmatch.AnchorLemmas
import YashModel.Fnmatch.Theorems
namespace YashModel.Glob
open YashModel.Generated

theorem globConfig_begin : globConfig.anchorBegin = true := rfl
theorem globConfig_end : globConfig.anchorEnd = true := rfl
theorem globConfig_period : globConfig.literalPeriod = true := rfl

/-- the syntax tree of a component pattern, by the *grammar* of the C04 Spec -/
def astOf (pcs : List PatternChar) : Fnmatch.Ast := Fnmatch.specParse (pcs.map convPc)

theorem astOf_eq (pcs : List PatternChar) : astOf pcs = Fnmatch.parseAtoms (pcs.map convPc) :=
  ((Fnmatch.parser_is_grammar _).2).symm

theorem fnCompile_some {pcs : List PatternChar} {p : Fnmatch.Pattern} (h : fnCompile pcs = some p) :
    Fnmatch.Pattern.fromAst (astOf pcs) globConfig = .ok p := by
  unfold fnCompile Fnmatch.Pattern.parse at h
  rw [astOf_eq]
  split at h
  · rename_i q hq; cases h; exact hq
  · cases h

theorem fnCompile_none {pcs : List PatternChar} (h : fnCompile pcs = none) :
    ∃ e, Fnmatch.Pattern.fromAst (astOf pcs) globConfig = .error e := by
  unfold fnCompile Fnmatch.Pattern.parse at h
  rw [astOf_eq]
  split at h
  · cases h
  · rename_i e he; exact ⟨e, he⟩

/-- ★ what the compiled component matches: POSIX pattern matching of the whole name, with the
    leading-period rule (C04: `literal_period_correct`) -/
theorem fnCompile_isMatch {pcs : List PatternChar} {p : Fnmatch.Pattern} (h : fnCompile pcs = some p)
    (n : Name) : p.isMatch n = Fnmatch.specPeriodMatch (astOf pcs) n :=
  Fnmatch.literal_period_correct (astOf pcs) globConfig globConfig_begin globConfig_end globConfig_period
    p (fnCompile_some h) n

theorem fnIsMatch_eq (pcs : List PatternChar) (n : Name) :
    fnIsMatch pcs n = ((fnCompile pcs).isSome && Fnmatch.specPeriodMatch (astOf pcs) n) := by
  unfold fnIsMatch
  cases h : fnCompile pcs with
  | none => rfl
  | some p => simp [fnCompile_isMatch h]

/-- a component inside POSIX's defined notation always compiles (C04: `defined_compiles`) -/
theorem fnCompile_defined (pcs : List PatternChar) (h : Fnmatch.astDefined (astOf pcs) = true) :
    (fnCompile pcs).isSome = true := by
  obtain ⟨p, hp⟩ := Fnmatch.defined_compiles (astOf pcs) h globConfig
  cases hc : fnCompile pcs with
  | some q => rfl
  | none =>
    obtain ⟨e, he⟩ := fnCompile_none hc
    rw [hp] at he
    cases he

/-- the classification is by the syntax tree: a literal iff the tree has ordinary characters only -/
theorem fnKind_cases (pcs : List PatternChar) :
    (fnCompile pcs = none ∧ fnKind pcs = Kind.invalid) ∨
    (∃ p s, fnCompile pcs = some p ∧ Fnmatch.toLiteral (astOf pcs) = some s ∧ fnKind pcs = Kind.literal s) ∨
    (∃ p, fnCompile pcs = some p ∧ Fnmatch.toLiteral (astOf pcs) = none ∧ fnKind pcs = Kind.pattern) := by
  unfold fnKind
  cases h : fnCompile pcs with
  | none => exact Or.inl ⟨rfl, rfl⟩
  | some p =>
    right
    have hf := fnCompile_some h
    unfold Fnmatch.Pattern.fromAst at hf
    split at hf
    · rename_i l hl
      left
      simp only [Except.ok.injEq] at hf
      subst hf
      exact ⟨_, l, rfl, hl, rfl⟩
    · rename_i hl
      right
      refine ⟨p, rfl, ?_, ?_⟩
      · exact hl
      · split at hf
        · cases hf
        · split at hf
          · cases hf
          · simp only [Except.ok.injEq] at hf
            subst hf
            rfl

/-! ### the two facts about a matcher that the C05 theorems assumed -/

theorem explicitDot_head (cs : List Fnmatch.PatternChar)
    (h : Fnmatch.explicitDot (Fnmatch.parseAtoms cs) = true) :
    cs.head?.map Fnmatch.PatternChar.charValue = some '.' := by
  cases cs with
  | nil => simp [Fnmatch.parseAtoms, Fnmatch.explicitDot] at h
  | cons pc t =>
    rw [Fnmatch.parseAtoms] at h
    split at h
    · simp [Fnmatch.explicitDot] at h
    · split at h
      · simp [Fnmatch.explicitDot] at h
      · split at h
        · split at h
          · simp [Fnmatch.explicitDot] at h
          · simp [Fnmatch.explicitDot] at h
        · simpa [Fnmatch.explicitDot] using h

theorem convPc_charValue (pc : PatternChar) : (convPc pc).charValue = pc.charValue := by
  cases pc <;> rfl

/-- ★ `PeriodRule` holds for the real matcher: no hypothesis about yash_fnmatch is left in the
    leading-period clause -/
theorem periodRule_fnMatcher : PeriodRule fnMatcher := by
  intro pcs n hm hd
  have hm' : fnIsMatch pcs n = true := hm
  rw [fnIsMatch_eq] at hm'
  simp only [Bool.and_eq_true] at hm'
  have hs := hm'.2
  unfold Fnmatch.specPeriodMatch at hs
  simp only [Bool.and_eq_true, Bool.or_eq_true, bne_iff_ne, ne_eq] at hs
  have hdot : Fnmatch.explicitDot (astOf pcs) = true := by
    rcases hs.2 with h | h
    · exact absurd hd h
    · exact h
  rw [astOf_eq] at hdot
  have := explicitDot_head _ hdot
  cases pcs with
  | nil => simp at this
  | cons pc t =>
    simp only [List.map_cons, List.head?_cons, Option.map_some, Option.some.injEq] at this ⊢
    rw [← convPc_charValue]; exact this

theorem map_convPc_literal (pcs : List PatternChar) (h : ∀ pc, pc ∈ pcs → pc.isLiteral = true) :
    pcs.map convPc = (pcs.map PatternChar.charValue).map Fnmatch.PatternChar.literal := by
  induction pcs with
  | nil => rfl
  | cons pc t ih =>
    have h1 := h pc List.mem_cons_self
    have ih' := ih (fun q hq => h q (List.mem_cons_of_mem _ hq))
    cases pc with
    | normal c => simp [PatternChar.isLiteral] at h1
    | literal c => simp [convPc, PatternChar.charValue, ih']

/-- ★ `LiteralFaithful` holds for the real matcher: a component of quoted characters is the literal
    string (C04: `literal_is_literal`) -/
theorem literalFaithful_fnMatcher : LiteralFaithful fnMatcher := by
  intro pcs h
  show fnKind pcs = _
  obtain ⟨_, p, hp, _⟩ := Fnmatch.literal_is_literal (pcs.map PatternChar.charValue) globConfig
    globConfig_begin globConfig_end
  rw [← map_convPc_literal pcs h] at hp
  have hc : fnCompile pcs = some p := by unfold fnCompile; rw [hp]
  rcases fnKind_cases pcs with ⟨h0, _⟩ | ⟨q, s, hq, hl, hk⟩ | ⟨q, hq, hl, _⟩
  · rw [hc] at h0; cases h0
  · rw [hk]
    rw [astOf_eq, map_convPc_literal pcs h, Fnmatch.Proofs.parseAtoms_literals,
      Fnmatch.Proofs.toLiteral_chars] at hl
    cases hl; rfl
  · rw [astOf_eq, map_convPc_literal pcs h, Fnmatch.Proofs.parseAtoms_literals,
      Fnmatch.Proofs.toLiteral_chars] at hl
    cases hl

/-! ### the memoised table the driver computes with -/

theorem fnEntry_pcs (cands : List Name) (pcs : List PatternChar) : (fnEntry cands pcs).pcs = pcs := by
  unfold fnEntry; split <;> rfl

theorem lookupM_fnTab (cands : List Name) (keys : List (List PatternChar)) (pcs : List PatternChar)
    (h : pcs ∈ keys) : lookupM (fnTab cands keys) pcs = some (fnEntry cands pcs) := by
  induction keys with
  | nil => cases h
  | cons k t ih =>
    simp only [lookupM, fnTab, List.map_cons, List.find?_cons, fnEntry_pcs]
    by_cases hk : k = pcs
    · subst hk; simp
    · have hk' : (k == pcs) = false := beq_false_of_ne hk
      rw [hk']
      have ht : pcs ∈ t := by
        rcases List.mem_cons.mp h with e | e
        · exact absurd e.symm hk
        · exact e
      exact ih ht

theorem mkMatcher_fnTab_kind (cands : List Name) (keys : List (List PatternChar)) (pcs : List PatternChar)
    (h : pcs ∈ keys) : (mkMatcher (fnTab cands keys)).kind pcs = fnKind pcs := by
  simp only [mkMatcher, lookupM_fnTab cands keys pcs h]
  unfold fnEntry fnKind
  cases fnCompile pcs <;> rfl

theorem mkMatcher_fnTab_isMatch (cands : List Name) (keys : List (List PatternChar))
    (pcs : List PatternChar) (h : pcs ∈ keys) (n : Name) (hn : n ∈ cands) :
    (mkMatcher (fnTab cands keys)).isMatch pcs n = fnIsMatch pcs n := by
  simp only [mkMatcher, lookupM_fnTab cands keys pcs h]
  unfold fnEntry fnIsMatch
  cases fnCompile pcs with
  | none => simp
  | some p =>
    simp only [List.contains_eq_mem, List.mem_filter, hn, true_and]
    cases p.isMatch n <;> simp

/-! ### `glob` asks a matcher only about the component patterns and the listed names -/

/-- two matchers agree on everything `glob` can ask about these components on this file system -/
def MatcherAgree (m m' : Matcher) (fs : Fs) (comps : List (List AttrChar)) : Prop :=
  ∀ c, c ∈ comps → m.kind (toPattern c) = m'.kind (toPattern c) ∧
    (m'.kind (toPattern c) = Kind.pattern →
      ∀ d ns, fs.list d = some ns → ∀ n, n ∈ ns → m.isMatch (toPattern c) n = m'.isMatch (toPattern c) n)

theorem searchStep_congr (m m' : Matcher) (fs : Fs) (c : List AttrChar)
    (hk : m.kind (toPattern c) = m'.kind (toPattern c))
    (hm : m'.kind (toPattern c) = Kind.pattern →
      ∀ d ns, fs.list d = some ns → ∀ n, n ∈ ns → m.isMatch (toPattern c) n = m'.isMatch (toPattern c) n)
    (next : Option (Path → List Path)) (pre : Path) :
    searchStep m fs c next pre = searchStep m' fs c next pre := by
  unfold searchStep
  simp only []
  rw [hk]
  cases hkd : m'.kind (toPattern c) with
  | invalid => rfl
  | literal s => rfl
  | pattern =>
    simp only []
    cases hl : fs.list (dirPath pre) with
    | none => rfl
    | some ns =>
      simp only []
      congr 1
      apply List.filter_congr
      intro n hn
      rw [hm hkd _ _ hl n hn]

theorem searchDir_congr (m m' : Matcher) (fs : Fs) (cs : List (List AttrChar)) :
    ∀ (c : List AttrChar), MatcherAgree m m' fs (c :: cs) →
      ∀ pre, searchDir m fs c cs pre = searchDir m' fs c cs pre := by
  induction cs with
  | nil =>
    intro c h pre
    have hc := h c List.mem_cons_self
    simp only [searchDir]
    exact searchStep_congr m m' fs c hc.1 hc.2 none pre
  | cons c' rest ih =>
    intro c h pre
    have hc := h c List.mem_cons_self
    have hrest : MatcherAgree m m' fs (c' :: rest) := fun x hx => h x (List.mem_cons_of_mem _ hx)
    have hf : searchDir m fs c' rest = searchDir m' fs c' rest := funext (ih c' hrest)
    simp only [searchDir]
    rw [hf]
    exact searchStep_congr m m' fs c hc.1 hc.2 _ pre

/-- ★ `glob` depends on the matcher only through its answers about the field's component patterns and
    the names the file system lists -/
theorem glob_congr (m m' : Matcher) (fs : Fs) (noglob : Bool) (field : List AttrChar)
    (h : MatcherAgree m m' fs ((splitComponents field).1 :: (splitComponents field).2)) :
    glob m fs noglob field = glob m' fs noglob field := by
  have : searchField m fs field = searchField m' fs field := by
    unfold searchField
    exact searchDir_congr m m' fs _ _ h []
  simp only [glob, this]

theorem expandFields_congr (m m' : Matcher) (fs : Fs) (noglob : Bool) (mode : Mode)
    (fields : List (List AttrChar))
    (h : ∀ f, f ∈ fields → MatcherAgree m m' fs ((splitComponents f).1 :: (splitComponents f).2)) :
    expandFields m fs noglob mode fields = expandFields m' fs noglob mode fields := by
  cases mode with
  | single => rfl
  | multiple =>
    simp only [expandFields]
    induction fields with
    | nil => rfl
    | cons f t ih =>
      simp only [List.flatMap_cons]
      rw [glob_congr m m' fs noglob f (h f List.mem_cons_self),
        ih (fun g hg => h g (List.mem_cons_of_mem _ hg))]

theorem mem_componentKeys (fields : List (List AttrChar)) (f : List AttrChar) (hf : f ∈ fields)
    (c : List AttrChar) (hc : c ∈ (splitComponents f).1 :: (splitComponents f).2) :
    toPattern c ∈ componentKeys fields := by
  unfold componentKeys
  exact List.mem_flatMap.mpr ⟨f, hf, List.mem_map.mpr ⟨c, hc, rfl⟩⟩

/-- the driver's memoised matcher agrees with `fnMatcher` on everything its `glob` asks -/
theorem fnTab_agree (cands : List Name) (fs : Fs) (hc : UnivCovers fs cands)
    (fields : List (List AttrChar)) (f : List AttrChar) (hf : f ∈ fields) :
    MatcherAgree (mkMatcher (fnTab cands (componentKeys fields))) fnMatcher fs
      ((splitComponents f).1 :: (splitComponents f).2) := by
  intro c hcm
  have hk := mem_componentKeys fields f hf c hcm
  refine ⟨mkMatcher_fnTab_kind cands _ _ hk, fun _ d ns hl n hn => ?_⟩
  exact mkMatcher_fnTab_isMatch cands _ _ hk n (hc d ns hl n hn)

/-! ### a quoted pattern character is literal whatever precedes it -/

/-- the atom a pattern character other than an unquoted `[` stands for -/
def headAtom (pc : Fnmatch.PatternChar) : Fnmatch.Atom :=
  if pc = .normal '?' then .anyChar else if pc = .normal '*' then .anyString else .char pc.charValue

theorem parseAtoms_cons_simple (pc : Fnmatch.PatternChar) (t : List Fnmatch.PatternChar)
    (h : pc ≠ .normal '[') : Fnmatch.parseAtoms (pc :: t) = headAtom pc :: Fnmatch.parseAtoms t := by
  rw [Fnmatch.parseAtoms]
  unfold headAtom
  split
  · rfl
  · split
    · rfl
    · first | rfl | rw [if_neg h]

theorem parseAtoms_append_simple (pre rest : List Fnmatch.PatternChar)
    (h : ∀ pc, pc ∈ pre → pc ≠ .normal '[') :
    Fnmatch.parseAtoms (pre ++ rest) = pre.map headAtom ++ Fnmatch.parseAtoms rest := by
  induction pre with
  | nil => rfl
  | cons pc t ih =>
    rw [List.cons_append, parseAtoms_cons_simple pc _ (h pc List.mem_cons_self),
      ih (fun q hq => h q (List.mem_cons_of_mem _ hq))]
    rfl

/-- a match of `A ++ B`, `A` without bracket expressions, splits the string -/
theorem globAtoms_append_simple (pre : List Fnmatch.PatternChar) (B : List Fnmatch.Atom) :
    ∀ s : List Char, Fnmatch.globAtoms (pre.map headAtom ++ B) s = true →
      ∃ k, Fnmatch.globAtoms (pre.map headAtom) (s.take k) = true ∧ Fnmatch.globAtoms B (s.drop k) = true := by
  induction pre with
  | nil =>
    intro s h
    exact ⟨0, by simp [Fnmatch.globAtoms], by simpa using h⟩
  | cons pc t ih =>
    intro s h
    simp only [List.map_cons, List.cons_append] at h ⊢
    by_cases h1 : pc = .normal '?'
    · have hd : headAtom pc = .anyChar := by simp [headAtom, h1]
      rw [hd] at h ⊢
      cases s with
      | nil => simp [Fnmatch.globAtoms] at h
      | cons c r =>
        simp only [Fnmatch.globAtoms] at h
        obtain ⟨k, hk1, hk2⟩ := ih r h
        exact ⟨k + 1, by simpa [Fnmatch.globAtoms] using hk1, by simpa using hk2⟩
    · by_cases h2 : pc = .normal '*'
      · have hd : headAtom pc = .anyString := by simp [headAtom, h2]
        rw [hd] at h ⊢
        simp only [Fnmatch.globAtoms, List.any_eq_true, List.mem_range] at h
        obtain ⟨j, hj, hm⟩ := h
        obtain ⟨k, hk1, hk2⟩ := ih (s.drop j) hm
        refine ⟨j + k, ?_, by simpa [List.drop_drop, Nat.add_comm] using hk2⟩
        simp only [Fnmatch.globAtoms, List.any_eq_true, List.mem_range]
        refine ⟨j, ?_, ?_⟩
        · simp only [List.length_take]; omega
        · rw [List.drop_take]
          simpa using hk1
      · have hd : headAtom pc = .char pc.charValue := by simp [headAtom, h1, h2]
        rw [hd] at h ⊢
        cases s with
        | nil => simp [Fnmatch.globAtoms] at h
        | cons c r =>
          simp only [Fnmatch.globAtoms, Bool.and_eq_true] at h
          obtain ⟨k, hk1, hk2⟩ := ih r h.2
          exact ⟨k + 1, by simp [Fnmatch.globAtoms, h.1, hk1], by simpa using hk2⟩

/-! ### evaluating the composed matcher on bracket-free components -/

/-- how the examples below evaluate the composed matcher: on a component without an unquoted `[` the
    parser's tree is one atom per character (the parser itself is a well-founded recursion that `decide`
    cannot unfold) -/
theorem fnCompile_simple (pcs : List PatternChar) (h : ∀ pc, pc ∈ pcs.map convPc → pc ≠ Fnmatch.PatternChar.normal '[') :
    fnCompile pcs = (match Fnmatch.Pattern.fromAst ((pcs.map convPc).map headAtom) globConfig with
      | .ok p => some p
      | .error _ => none) := by
  have := parseAtoms_append_simple (pcs.map convPc) [] h
  simp only [List.append_nil, Fnmatch.parseAtoms] at this
  unfold fnCompile Fnmatch.Pattern.parse
  rw [this]
  cases Fnmatch.Pattern.fromAst (List.map headAtom (List.map convPc pcs)) globConfig <;> rfl

/-! ### the name clauses of the property in terms of the C04 Spec -/

/-- what the property says about the name `n` standing for the component `c`, in terms of the C04 Spec
    only: a component that does not compile, or whose syntax tree has ordinary characters only,
    contributes its own text; a pattern component contributes a real file name (non-empty, slash-free)
    other than `.` and `..` that matches it in POSIX notation, and one starting with a period only if the
    pattern begins with an explicit period (hence the component's text, quoted or not, starts with one) -/
def posixNameClauses (c : List AttrChar) (n : Name) : Prop :=
  (fnCompile (toPattern c) = none → n = removeQuotes c) ∧
  (∀ s, (fnCompile (toPattern c)).isSome = true → Fnmatch.toLiteral (astOf (toPattern c)) = some s → n = s) ∧
  ((fnCompile (toPattern c)).isSome = true → Fnmatch.toLiteral (astOf (toPattern c)) = none →
    n ≠ [] ∧ '/' ∉ n ∧ n ≠ dot ∧ n ≠ dotdot
      ∧ Fnmatch.posixMatch ((toPattern c).map convPc) n = true
      ∧ (n.head? = some '.' → Fnmatch.explicitDot (astOf (toPattern c)) = true
          ∧ (removeQuotes c).head? = some '.'))

def posixNamesClauses : List AttrChar → List (List AttrChar) → List Name → Prop
  | c, [], [n] => posixNameClauses c n
  | c, c' :: cs, n :: ns => posixNameClauses c n ∧ posixNamesClauses c' cs ns
  | _, _, _ => False

theorem nameClauses_posix (c : List AttrChar) (n : Name) (h : nameClauses fnMatcher c n) :
    posixNameClauses c n := by
  unfold nameClauses at h
  have hk : fnMatcher.kind (toPattern c) = fnKind (toPattern c) := rfl
  rw [hk] at h
  rcases fnKind_cases (toPattern c) with ⟨h0, hkd⟩ | ⟨p, s, hp, hl, hkd⟩ | ⟨p, hp, hl, hkd⟩
  · rw [hkd] at h
    refine ⟨fun _ => h, fun s hs => ?_, fun hs => ?_⟩
    · rw [h0] at hs; cases hs
    · rw [h0] at hs; cases hs
  · rw [hkd] at h
    refine ⟨fun h0 => ?_, fun s' _ hl' => ?_, fun _ hl' => ?_⟩
    · rw [hp] at h0; cases h0
    · rw [hl] at hl'; cases hl'; exact h
    · rw [hl] at hl'; cases hl'
  · rw [hkd] at h
    refine ⟨fun h0 => ?_, fun s' _ hl' => ?_, fun _ _ => ?_⟩
    · rw [hp] at h0; cases h0
    · rw [hl] at hl'; cases hl'
    obtain ⟨h1, h2, h3, h4, h5, h6⟩ := h
    have h5' : fnIsMatch (toPattern c) n = true := h5
    rw [fnIsMatch_eq] at h5'
    simp only [Bool.and_eq_true, Fnmatch.specPeriodMatch, Bool.or_eq_true, bne_iff_ne, ne_eq] at h5'
    refine ⟨h1, h2, h3, h4, h5'.2.1, fun hd => ⟨?_, h6 hd⟩⟩
    rcases h5'.2.2 with e | e
    · exact absurd hd e
    · exact e

theorem namesClauses_posix (cs : List (List AttrChar)) :
    ∀ (c : List AttrChar) (ns : List Name), namesClauses fnMatcher c cs ns → posixNamesClauses c cs ns := by
  induction cs with
  | nil =>
    intro c ns h
    match ns, h with
    | [n], h => exact nameClauses_posix c n h
  | cons c' rest ih =>
    intro c ns h
    match ns, h with
    | n :: ns', h => exact ⟨nameClauses_posix c n h.1, ih c' ns' h.2⟩

end YashModel.Glob
