/-
  C18 — the same shell over a script descriptor whose bytes arrive in chunks (a pipe written with
  arbitrary `write` sizes; a regular file is one chunk).  Every access to the descriptor goes through
  the one-byte-per-`read` loops over the chunk list (`nextLineC`, `readLineCGo`, `drainC`): this machine
  never looks at the concatenation.  Everything that does not touch the descriptor is the flat
  machine's own code (`step`, `execUtil`, `parserOf`, `echoOf`), applied to `CState.st`, whose `inp`
  field is not used.  `Theorems.run_chunking_irrelevant` shows that a run over any chunking is the flat
  run over the concatenation.
  Import-free and executable.
-/
import YashModel.Input.Model
namespace YashModel.Input

structure CState where
  st : State                      -- everything but the script descriptor (`st.inp` is unused)
  src : List (List Byte)          -- the script descriptor: chunks not consumed yet

/-- the flat state a chunked state stands for -/
def CState.flat (c : CState) : State := { c.st with inp := c.src.flatten }

structure PulledC where
  text : List Byte
  rest : List (List Byte)
  res : ParseRes
  sawEof : Bool

def PulledC.flat (p : PulledC) : Pulled :=
  { text := p.text, rest := p.rest.flatten, res := p.res, sawEof := p.sawEof }

/-- `pull` with `FdReader2::next_line` reading from the chunked source -/
def pullC (parse : Bool → List Byte → ParseRes) : Nat → List Byte → List (List Byte) → PulledC
  | 0, buf, cs => { text := buf, rest := cs, res := .error, sawEof := true }
  | n + 1, buf, cs =>
    if (nextLineC cs).1 = [] then
      { text := buf, rest := (nextLineC cs).2, res := parse true buf, sawEof := true }
    else if (parse false (buf ++ (nextLineC cs).1)).isIncomplete then
      { pullC parse n (buf ++ (nextLineC cs).1) (nextLineC cs).2 with
        sawEof := (pullC parse n (buf ++ (nextLineC cs).1) (nextLineC cs).2).sawEof
                  || !endsNL (nextLineC cs).1 }
    else { text := buf ++ (nextLineC cs).1, rest := (nextLineC cs).2,
           res := parse false (buf ++ (nextLineC cs).1), sawEof := !endsNL (nextLineC cs).1 }

/-- everything left on a chunked source, read one byte at a time until end of input -/
def drainC (acc : List Byte) (cs : List (List Byte)) : List Byte :=
  match cs with
  | [] => acc
  | [] :: cs' => drainC acc cs'
  | (b :: c) :: cs' => drainC (acc ++ [b]) (c :: cs')
termination_by chunkMeasure cs
decreasing_by
  all_goals simp [chunkMeasure]
  all_goals omega

/-- `read` when standard input is the chunked script descriptor -/
def execReadC (c : CState) (d : Nat) (raw : Bool) (names : List String) : CState :=
  if c.st.shared then
    let r := readLineCGo d raw false [] c.src []
    let used := c.src.flatten.length - r.2.2.flatten.length      -- bytes consumed (for the offset)
    { st := { c.st with pos := c.st.pos + used,
                        vars := readAssign names r.1 r.2.1 c.st.vars,
                        status := readExit r.1 r.2.1,
                        hitEof := c.st.hitEof || (c.st.shared && r.2.1 != .found) },
      src := r.2.2 }
  else { c with st := execRead c.st d raw names }

def execCatC (c : CState) (here : Option (List Char)) : CState :=
  match here with
  | some k => { c with st := execCat c.st (some k) }
  | none =>
    if c.st.shared then
      let all := drainC [] c.src
      { st := { c.st with pos := c.st.pos + all.length,
                          out := (outLines (all.length + 1) all).reverse ++ c.st.out, status := 0,
                          hitEof := c.st.hitEof || c.st.shared },
        src := [] }
    else { c with st := execCat c.st none }

def execSimpleC (c : CState) (fields : List String) (here : Option (List Char)) :
    CState :=
  match fields with
  | [] => { c with st := execSimple c.st [] here }
  | name :: args =>
    match classify name with
    | .read =>
      execReadC c (parseReadArgs args false 10).2.1 (parseReadArgs args false 10).1
        (parseReadArgs args false 10).2.2
    | .cat => execCatC c here
    | .closein =>
      if c.st.shared then
        let all := drainC [] c.src
        { st := { c.st with pos := c.st.pos + all.length, status := 0, inClosed := true,
                            hitEof := c.st.hitEof || c.st.shared },
          src := [] }
      else { c with st := execClose c.st }
    | u => { c with st := execUtil c.st u name args here }

/-- one step: a simple command may read the descriptor; everything else is the flat machine's step -/
def stepC (k : List K) (c : CState) : Option (List K × CState) :=
  match k with
  | .cmd (.simple ws here) :: k' =>
    (match nested (expandWords c.st.vars c.st.status ws) with
     | some (text, echoes) => some (.src text echoes false :: k', c)
     | none => some (k', execSimpleC c (expandWords c.st.vars c.st.status ws) here))
  | k => (step k c.st).map fun r => (r.1, { c with st := r.2 })

def runKC : Nat → List K → CState → CState × Bool
  | 0, _, c => (c, false)
  | n + 1, k, c =>
    match stepC k c with
    | none => (c, true)
    | some (k', c') => runKC n k' c'

def pullOfC (c : CState) : PulledC :=
  pullC (parserOf c.st) (c.src.flatten.length + 1) [] c.src

def afterPullC (c : CState) : CState :=
  { st := { c.st with echo := echoOf c.st (pullOfC c).text,
                      pos := if c.st.shared then c.st.pos + (pullOfC c).text.length else c.st.pos },
    src := (pullOfC c).rest }

def atExecC (c : CState) : CState :=
  { afterPullC c with
    st := { (afterPullC c).st with hitEof := c.st.hitEof || (pullOfC c).sawEof } }

/-- the pulled command-line texts are logged so that "the same command sequence" can be stated -/
def loopC : Nat → CState → List (List Byte) → CState × Outcome × List (List Byte)
  | 0, c, log => (c, .outOfFuel, log)
  | n + 1, c, log =>
    match (pullOfC c).res with
    | .none =>
      ({ afterPullC c with
         st := { (afterPullC c).st with hitEof := c.st.hitEof || !(pullOfC c).text.isEmpty } }, .eof,
       log ++ [(pullOfC c).text])
    | .error =>
      ({ afterPullC c with st := { (afterPullC c).st with status := 2 } }, .syntaxError,
       log ++ [(pullOfC c).text])
    | .incomplete =>
      ({ afterPullC c with st := { (afterPullC c).st with status := 2 } }, .syntaxError,
       log ++ [(pullOfC c).text])
    | .ok cs =>
      let r := runKC execFuel (cmds cs) (atExecC c)
      if r.2 then
        (if r.1.st.aborted then (r.1, .syntaxError, log ++ [(pullOfC c).text])
         else loopC n r.1 (log ++ [(pullOfC c).text]))
      else (r.1, .outOfFuel, log ++ [(pullOfC c).text])

/-- a stdin-fed shell (`sh -s`) whose standard input delivers the script in the given chunks -/
def runC (chunks : List (List Byte)) : CState × Outcome × List (List Byte) :=
  loopC (chunks.flatten.length + 2) { st := initState true [] [], src := chunks } []

end YashModel.Input
