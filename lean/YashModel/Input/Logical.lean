/-
  C18 — lemmas tying `read` (`readLineGo`, the transcription of `read/input.rs  read`: an escape flag
  and a character buffer) to the declarative Spec of `ReadSpec.lean` (shortest prefix that ends with
  the delimiter after an even number of backslashes).
-/
import YashModel.Input.Utf8
import YashModel.Input.ReadSpec
namespace YashModel.Input

theorem byte_eq_bs (b : Byte) : b = BS ↔ b.toNat = 92 := by
  constructor
  · intro h; subst h; rfl
  · intro h; exact UInt8.toNat_inj.1 (by simpa [BS] using h)

theorem trailingBs_nil : trailingBs [] = 0 := rfl

theorem trailingBs_snoc (l : List Byte) (b : Byte) :
    trailingBs (l ++ [b]) = if b = BS then trailingBs l + 1 else 0 := by
  unfold trailingBs
  by_cases h : b = BS
  · simp [h]
  · simp [h]

theorem logicalEnd_nil (d : Nat) (raw : Bool) : logicalEnd d raw [] = false := rfl

theorem logicalEnd_snoc (d : Nat) (raw : Bool) (l : List Byte) (b : Byte) :
    logicalEnd d raw (l ++ [b]) = (b.toNat == d && (raw || trailingBs l % 2 == 0)) := by
  simp [logicalEnd]

/-- a byte other than the delimiter never ends a logical line -/
theorem logicalEnd_snoc_ne (d : Nat) (raw : Bool) (l : List Byte) (b : Byte) (h : b.toNat ≠ d) :
    logicalEnd d raw (l ++ [b]) = false := by
  simp [logicalEnd_snoc, h]

/-! ### `scanLogical` is the shortest complete prefix -/

theorem scanLogical_some (d : Nat) (raw : Bool) (inp : List Byte) :
    ∀ (hist pre rest : List Byte), logicalEnd d raw hist = false →
      scanLogical d raw hist inp = some (pre, rest) →
      ∃ w, pre = hist ++ w ∧ w ++ rest = inp ∧ logicalEnd d raw pre = true ∧
        ∀ q s, q ++ s = w → s ≠ [] → logicalEnd d raw (hist ++ q) = false := by
  induction inp with
  | nil => intro hist pre rest _ h; simp [scanLogical] at h
  | cons b t ih =>
    intro hist pre rest hh h
    simp only [scanLogical] at h
    by_cases hl : logicalEnd d raw (hist ++ [b]) = true
    · simp only [hl, if_true, Option.some.injEq, Prod.mk.injEq] at h
      refine ⟨[b], h.1.symm, by simp [h.2], by rw [← h.1]; exact hl, ?_⟩
      intro q s hqs hs
      cases q with
      | nil => simpa using hh
      | cons x q' =>
        simp only [List.cons_append, List.cons.injEq] at hqs
        have : q' ++ s = [] := hqs.2
        simp at this
        exact absurd this.2 hs
    · have hl' : logicalEnd d raw (hist ++ [b]) = false := by simpa using hl
      simp only [hl', Bool.false_eq_true, if_false] at h
      obtain ⟨w, h1, h2, h3, h4⟩ := ih _ _ _ hl' h
      refine ⟨b :: w, by simp [h1], by simp [h2], h3, ?_⟩
      intro q s hqs hs
      cases q with
      | nil => simpa using hh
      | cons x q' =>
        simp only [List.cons_append, List.cons.injEq] at hqs
        have := h4 q' s hqs.2 hs
        rw [hqs.1]
        simpa [List.append_assoc] using this

theorem scanLogical_none (d : Nat) (raw : Bool) (inp : List Byte) :
    ∀ (hist : List Byte), scanLogical d raw hist inp = none →
      ∀ q s, q ++ s = inp → q ≠ [] → logicalEnd d raw (hist ++ q) = false := by
  induction inp with
  | nil => intro hist _ q s hqs hq; simp at hqs; exact absurd hqs.1 hq
  | cons b t ih =>
    intro hist h q s hqs hq
    simp only [scanLogical] at h
    by_cases hl : logicalEnd d raw (hist ++ [b]) = true
    · simp [hl] at h
    · have hl' : logicalEnd d raw (hist ++ [b]) = false := by simpa using hl
      simp only [hl', Bool.false_eq_true, if_false] at h
      cases q with
      | nil => exact absurd rfl hq
      | cons x q' =>
        simp only [List.cons_append, List.cons.injEq] at hqs
        rw [hqs.1]
        by_cases hq' : q' = []
        · subst hq'; exact hl'
        · have := ih _ h q' s hqs.2 hq'
          simpa [List.append_assoc] using this

/-- conversely: a complete prefix none of whose proper prefixes is complete is what the scan finds -/
theorem scanLogical_unique (d : Nat) (raw : Bool) (w : List Byte) :
    ∀ (hist rest : List Byte), w ≠ [] → logicalEnd d raw (hist ++ w) = true →
      (∀ q s, q ++ s = w → s ≠ [] → q ≠ [] → logicalEnd d raw (hist ++ q) = false) →
      scanLogical d raw hist (w ++ rest) = some (hist ++ w, rest) := by
  induction w with
  | nil => intro _ _ h; exact absurd rfl h
  | cons b w' ih =>
    intro hist rest _ hend hmin
    simp only [List.cons_append, scanLogical]
    by_cases hw : w' = []
    · subst hw
      simp [hend]
    · have hl' : logicalEnd d raw (hist ++ [b]) = false :=
        hmin [b] w' rfl hw (by simp)
      simp only [hl', Bool.false_eq_true, if_false]
      have := ih (hist ++ [b]) rest hw (by simpa [List.append_assoc] using hend)
        (by
          intro q s hqs hs hq
          have := hmin (b :: q) s (by simp [hqs]) hs (by simp)
          simpa [List.append_assoc] using this)
      simpa [List.append_assoc] using this

/-- bytes other than the delimiter are skipped by the scan -/
theorem scanLogical_skip (d : Nat) (raw : Bool) (u : List Byte) :
    ∀ (hist rest : List Byte), (∀ x ∈ u, x.toNat ≠ d) →
      scanLogical d raw hist (u ++ rest) = scanLogical d raw (hist ++ u) rest := by
  induction u with
  | nil => intro hist rest _; simp
  | cons b u' ih =>
    intro hist rest hu
    have hb : b.toNat ≠ d := hu b (by simp)
    simp only [List.cons_append, scanLogical, logicalEnd_snoc_ne d raw hist b hb,
      Bool.false_eq_true, if_false]
    rw [ih (hist ++ [b]) rest (fun x hx => hu x (by simp [hx]))]
    simp [List.append_assoc]

/-! ### the escape flag of `read` is the parity of the trailing backslashes -/

/-- what the escape flag of `read/input.rs  read` must be after the bytes `hist` (no character being
    assembled): the previous character was an unquoted backslash -/
def escAfter (raw : Bool) (hist : List Byte) : Bool := !raw && trailingBs hist % 2 == 1

/-- `r` (a result of `readLineGo` on `p`, with `hist` consumed before in the same logical line) agrees
    with the Spec's scan -/
def ReadOK (d : Nat) (raw : Bool) (hist buf p : List Byte)
    (r : List AChar × RStat × List Byte) : Prop :=
  (r.2.1 = .found → ∃ pre, pre ++ r.2.2 = p ∧ scanLogical d raw hist p = some (hist ++ pre, r.2.2)) ∧
  (r.2.1 = .eof → scanLogical d raw hist p = none ∧ r.2.2 = []) ∧
  (r.2.1 = .err → validUtf8 buf p = false ∧
     ∀ pre' rest', scanLogical d raw hist p = some (pre', rest') → ∃ m, r.2.2 = m ++ rest')

theorem ReadOK_step (d : Nat) (raw : Bool) (hist buf buf' t : List Byte) (b : Byte)
    (r : List AChar × RStat × List Byte)
    (hl : logicalEnd d raw (hist ++ [b]) = false)
    (hv : validUtf8 buf (b :: t) = validUtf8 buf' t)
    (h : ReadOK d raw (hist ++ [b]) buf' t r) : ReadOK d raw hist buf (b :: t) r := by
  have hs : scanLogical d raw hist (b :: t) = scanLogical d raw (hist ++ [b]) t := by
    simp [scanLogical, hl]
  obtain ⟨h1, h2, h3⟩ := h
  refine ⟨?_, ?_, ?_⟩
  · intro hf
    obtain ⟨pre, e1, e2⟩ := h1 hf
    exact ⟨b :: pre, by simp [e1], by rw [hs, e2]; simp [List.append_assoc]⟩
  · intro he; rw [hs]; exact h2 he
  · intro he; rw [hs, hv]; exact h3 he

theorem utf8_more_ge (buf : List Byte) (b : Byte) (h : utf8Check (buf ++ [b]) = .more) :
    0x80 ≤ b.toNat := by
  by_cases hne : buf = []
  · subst hne; exact (utf8_single b).2 h
  · by_cases hb : b.toNat < 0x80
    · rw [utf8_ascii_mid buf b hb hne] at h; simp at h
    · omega

theorem utf8_ok_mid_ge (buf : List Byte) (b : Byte) (code : Nat) (hne : buf ≠ [])
    (h : utf8Check (buf ++ [b]) = .ok code) : 0x80 ≤ b.toNat := by
  by_cases hb : b.toNat < 0x80
  · rw [utf8_ascii_mid buf b hb hne] at h; simp at h
  · omega

theorem escAfter_snoc_ne (raw : Bool) (hist : List Byte) (b : Byte) (hb : b ≠ BS) :
    escAfter raw (hist ++ [b]) = false := by
  simp [escAfter, trailingBs_snoc, hb]

/-- ★ the core: `read`'s loop, started after `hist` with its escape flag equal to the parity of the
    backslashes at the end of `hist`, stops exactly where the Spec's scan stops -/
theorem readLineGo_logical (d : Nat) (hd : d < 128) (raw : Bool) (p : List Byte) :
    ∀ (esc : Bool) (buf hist : List Byte) (acc : List AChar),
      (buf = [] → esc = escAfter raw hist) →
      ReadOK d raw hist buf p (readLineGo d raw esc buf p acc) := by
  induction p with
  | nil =>
    intro esc buf hist acc _
    by_cases hb : buf = [] <;> simp [ReadOK, readLineGo, hb, scanLogical, validUtf8]
  | cons b t ih =>
    intro esc buf hist acc hinv
    -- a byte that is part of a multi-byte character: neither delimiter nor backslash
    have big : 0x80 ≤ b.toNat → logicalEnd d raw (hist ++ [b]) = false ∧
        escAfter raw (hist ++ [b]) = false := by
      intro hge
      refine ⟨logicalEnd_snoc_ne d raw hist b (by omega), escAfter_snoc_ne raw hist b ?_⟩
      intro e; have := (byte_eq_bs b).1 e; omega
    simp only [readLineGo]
    cases hu : utf8Check (buf ++ [b]) with
    | more =>
      simp only []
      have hge := utf8_more_ge buf b hu
      exact ReadOK_step d raw hist buf (buf ++ [b]) t b _ (big hge).1 (by simp [validUtf8, hu])
        (ih esc (buf ++ [b]) (hist ++ [b]) acc (by simp))
    | bad =>
      simp only []
      refine ⟨by simp, by simp, ?_⟩
      intro _
      refine ⟨by simp [validUtf8, hu], ?_⟩
      intro pre' rest' hs
      simp only [scanLogical] at hs
      by_cases hl : logicalEnd d raw (hist ++ [b]) = true
      · simp only [hl, if_true, Option.some.injEq, Prod.mk.injEq] at hs
        exact ⟨[], by simp [hs.2]⟩
      · have hl' : logicalEnd d raw (hist ++ [b]) = false := by simpa using hl
        simp only [hl', Bool.false_eq_true, if_false] at hs
        obtain ⟨w, _, h2, _, _⟩ := scanLogical_some d raw t _ _ _ hl' hs
        exact ⟨w, h2.symm⟩
    | ok code =>
      simp only []
      have hv : validUtf8 buf (b :: t) = validUtf8 [] t := by simp [validUtf8, hu]
      by_cases hbuf : buf = []
      · -- a one-byte character
        subst hbuf
        have hcode := (utf8_single b).1 code (by simpa using hu)
        have hE := hinv rfl
        cases esc with
        | true =>
          -- the character after an unquoted backslash: never the end, whatever it is
          have hE' : raw = false ∧ trailingBs hist % 2 = 1 := by
            have := hE.symm; simpa [escAfter] using this
          have hl : logicalEnd d raw (hist ++ [b]) = false := by
            simp [logicalEnd_snoc, hE'.1, hE'.2]
          have hn : false = escAfter raw (hist ++ [b]) := by
            by_cases hb : b = BS
            · simp [escAfter, trailingBs_snoc, hb, hE'.1]; omega
            · exact (escAfter_snoc_ne raw hist b hb).symm
          simp only [if_true]
          by_cases hc : code = 10
          · simp only [hc, if_true]
            exact ReadOK_step d raw hist [] [] t b _ hl hv (ih false [] (hist ++ [b]) acc (fun _ => hn))
          · simp only [hc, if_false]
            exact ReadOK_step d raw hist [] [] t b _ hl hv (ih false [] (hist ++ [b]) _ (fun _ => hn))
        | false =>
          have hE' : raw = true ∨ trailingBs hist % 2 = 0 := by
            have := hE.symm
            cases raw with
            | true => exact Or.inl rfl
            | false =>
              right
              simp [escAfter] at this
              omega
          simp only [Bool.false_eq_true, if_false]
          by_cases hc : code = d
          · -- the delimiter, not escaped: the logical line ends here
            simp only [hc, if_true]
            have hbd : b.toNat = d := by omega
            have hl : logicalEnd d raw (hist ++ [b]) = true := by
              rcases hE' with h | h <;> simp [logicalEnd_snoc, hbd, h]
            refine ⟨?_, by simp, by simp⟩
            intro _
            exact ⟨[b], by simp, by simp [scanLogical, hl]⟩
          · simp only [hc, if_false]
            have hbd : b.toNat ≠ d := by omega
            have hl := logicalEnd_snoc_ne d raw hist b hbd
            by_cases hbs : code = 92 ∧ (!raw) = true
            · simp only [hbs, and_self, if_true]
              have hraw : raw = false := by simpa using hbs.2
              have hb : b = BS := (byte_eq_bs b).2 (by omega)
              have hn : true = escAfter raw (hist ++ [b]) := by
                rcases hE' with h | h
                · simp [hraw] at h
                · simp [escAfter, trailingBs_snoc, hb, hraw]; omega
              exact ReadOK_step d raw hist [] [] t b _ hl hv (ih true [] (hist ++ [b]) acc (fun _ => hn))
            · simp only [hbs, if_false]
              have hn : false = escAfter raw (hist ++ [b]) := by
                by_cases hb : b = BS
                · have h92 : code = 92 := by have := (byte_eq_bs b).1 hb; omega
                  have hraw : raw = true := by
                    cases raw with
                    | true => rfl
                    | false => exact absurd ⟨h92, rfl⟩ hbs
                  simp [escAfter, hraw]
                · exact (escAfter_snoc_ne raw hist b hb).symm
              exact ReadOK_step d raw hist [] [] t b _ hl hv (ih false [] (hist ++ [b]) _ (fun _ => hn))
      · -- the last byte of a multi-byte character: code ≥ 128, neither delimiter nor backslash
        have hge := utf8_ok_mid_ge buf b code hbuf hu
        have hcode := utf8_multi_code buf b code hbuf hu
        have hn : false = escAfter raw (hist ++ [b]) := (big hge).2.symm
        cases esc with
        | true =>
          simp only [if_true]
          have hc : code ≠ 10 := by omega
          simp only [hc, if_false]
          exact ReadOK_step d raw hist buf [] t b _ (big hge).1 hv (ih false [] (hist ++ [b]) _ (fun _ => hn))
        | false =>
          simp only [Bool.false_eq_true, if_false]
          have hc : code ≠ d := by omega
          have hbs : ¬ (code = 92 ∧ (!raw) = true) := by intro h; omega
          simp only [hc, if_false, hbs]
          exact ReadOK_step d raw hist buf [] t b _ (big hge).1 hv (ih false [] (hist ++ [b]) _ (fun _ => hn))

/-- `read` from the start of a line -/
theorem readLine_logical (d : Nat) (hd : d < 128) (raw : Bool) (inp : List Byte) :
    ReadOK d raw [] [] inp (readLine d raw inp []) :=
  readLineGo_logical d hd raw inp false [] [] [] (fun _ => by simp [escAfter, trailingBs_nil])

/-! ### lines that end in `k` backslashes -/

theorem trailingBs_no_bs (w : List Byte) (hw : w.getLast? ≠ some BS) : trailingBs w = 0 := by
  rcases List.eq_nil_or_concat w with h | ⟨l, b, h⟩
  · subst h; rfl
  · subst h
    have hb : b ≠ BS := by
      intro e; apply hw; simp [e]
    simp [trailingBs_snoc, hb]

theorem trailingBs_replicate (w : List Byte) (hw : w.getLast? ≠ some BS) (k : Nat) :
    trailingBs (w ++ List.replicate k BS) = k := by
  induction k with
  | zero => simpa using trailingBs_no_bs w hw
  | succ n ih =>
    rw [List.replicate_succ', ← List.append_assoc, trailingBs_snoc]
    simp [ih]

theorem validUtf8_ascii (v : List Byte) (hv : ∀ x ∈ v, x.toNat < 128) : validUtf8 [] v = true := by
  induction v with
  | nil => rfl
  | cons x v' ih =>
    have hx : x.toNat < 0x80 := hv x (by simp)
    have hs : utf8Check [x] = .ok x.toNat := by simp [utf8Check, hx]
    simp only [validUtf8, List.nil_append, hs]
    exact ih (fun y hy => hv y (by simp [hy]))

theorem validUtf8_append_ascii (w v : List Byte) (hv : ∀ x ∈ v, x.toNat < 128) :
    ∀ buf, validUtf8 buf w = true → validUtf8 buf (w ++ v) = true := by
  induction w with
  | nil =>
    intro buf h
    have : buf = [] := by simpa [validUtf8] using h
    subst this
    simpa using validUtf8_ascii v hv
  | cons b t ih =>
    intro buf h
    simp only [validUtf8, List.cons_append] at h ⊢
    cases hu : utf8Check (buf ++ [b]) with
    | ok c => simp only [hu] at h ⊢; exact ih _ h
    | more => simp only [hu] at h ⊢; exact ih _ h
    | bad => simp [hu] at h

end YashModel.Input
