/-
  C18 — lemmas for `lazy_prefix` and `prefix_monotone`: what `pull` takes, and the frame property
  (bytes after the cursor do not influence a run until a reader reaches the end of the input).
-/
import YashModel.Input.Lemmas
import YashModel.Input.Spec
namespace YashModel.Input

theorem endsNL_iff (l : List Byte) : endsNL l = true ↔ l.getLast? = some NL := by
  simp [endsNL]

/-! ### `pull` -/

theorem pull_spec (parse : Bool → List Byte → ParseRes) (n : Nat) (buf inp : List Byte)
    (hn : inp.length < n) :
    ∃ k, (pull parse n buf inp).text = buf ++ (takeLines k inp).1
      ∧ (pull parse n buf inp).rest = (takeLines k inp).2
      ∧ (∀ j, 0 < j → j < k → (parse false (buf ++ (takeLines j inp).1)).isIncomplete = true)
      ∧ ((0 < k ∧ (pull parse n buf inp).res = parse false (pull parse n buf inp).text
            ∧ (pull parse n buf inp).res.isIncomplete = false)
         ∨ ((pull parse n buf inp).rest = []
            ∧ (pull parse n buf inp).res = parse true (pull parse n buf inp).text)) := by
  induction n generalizing buf inp with
  | zero => omega
  | succ n ih =>
    rw [pull]
    simp only [nextLine_eq]
    by_cases hl : (splitLine inp).1 = []
    · have hinp : inp = [] := (splitLine_nil_iff inp).1 hl
      subst hinp
      refine ⟨0, ?_⟩
      simp [splitLine, takeLines]
    · have hinp : inp ≠ [] := fun e => hl ((splitLine_nil_iff inp).2 e)
      have hlt := splitLine_rest_length inp hinp
      simp only [hl, if_false]
      by_cases hinc : (parse false (buf ++ (splitLine inp).1)).isIncomplete = true
      · simp only [hinc, if_true]
        obtain ⟨k, h1, h2, h3, h4⟩ := ih (buf ++ (splitLine inp).1) (splitLine inp).2 (by omega)
        refine ⟨k + 1, ?_, ?_, ?_, ?_⟩
        · simp [takeLines, nextLine_eq, h1]
        · simp [takeLines, nextLine_eq, h2]
        · intro j hj0 hjk
          cases j with
          | zero => omega
          | succ j =>
            cases j with
            | zero => simpa [takeLines, nextLine_eq] using hinc
            | succ j =>
              have := h3 (j + 1) (by omega) (by omega)
              simpa [takeLines, nextLine_eq, List.append_assoc] using this
        · cases h4 with
          | inl h => exact Or.inl ⟨by omega, h.2.1, h.2.2⟩
          | inr h => exact Or.inr ⟨h.1, h.2⟩
      · simp only [hinc]
        refine ⟨1, ?_⟩
        simp [takeLines, nextLine_eq]
        refine ⟨?_, Or.inl (by simpa using hinc)⟩
        intro j h0 h1; omega

theorem pull_append (parse : Bool → List Byte → ParseRes) (n m : Nat) (buf p S : List Byte)
    (h : (pull parse n buf p).sawEof = false) :
    pull parse (n + m) buf (p ++ S)
      = { pull parse n buf p with rest := (pull parse n buf p).rest ++ S } := by
  induction n generalizing buf p with
  | zero => simp [pull] at h
  | succ n ih =>
    have hnm : n + 1 + m = (n + m) + 1 := by omega
    rw [hnm]
    rw [pull] at h ⊢
    rw [pull]
    simp only [nextLine_eq] at h ⊢
    by_cases hl : (splitLine p).1 = []
    · simp [hl] at h
    · simp only [hl, if_false] at h ⊢
      have hends : endsNL (splitLine p).1 = true := by
        by_cases hinc : (parse false (buf ++ (splitLine p).1)).isIncomplete = true
        · simp only [hinc, if_true] at h
          cases hh : endsNL (splitLine p).1 <;> simp_all
        · simp only [hinc] at h
          cases hh : endsNL (splitLine p).1 <;> simp_all
      have hlast : (splitLine p).1.getLast? = some NL := (endsNL_iff _).1 hends
      rw [splitLine_append_right p S hlast]
      simp only [hl, if_false]
      by_cases hinc : (parse false (buf ++ (splitLine p).1)).isIncomplete = true
      · simp only [hinc, if_true] at h ⊢
        have h' : (pull parse n (buf ++ (splitLine p).1) (splitLine p).2).sawEof = false := by
          cases hh : (pull parse n (buf ++ (splitLine p).1) (splitLine p).2).sawEof <;> simp_all
        rw [ih _ _ h']
      · simp [hinc]

/-! ### `readLine` -/

theorem readLineGo_append (raw esc : Bool) (buf p S : List Byte) (acc cs : List AChar)
    (r : List Byte) (h : readLineGo d raw esc buf p acc = (cs, .found, r)) :
    readLineGo d raw esc buf (p ++ S) acc = (cs, .found, r ++ S) := by
  induction p generalizing esc buf acc with
  | nil => by_cases hb : buf = [] <;> simp [readLineGo, hb] at h
  | cons b rest ih =>
    simp only [readLineGo, List.cons_append] at h ⊢
    cases hu : utf8Check (buf ++ [b]) with
    | more => simp only [hu] at h ⊢; exact ih _ _ _ h
    | bad => simp [hu] at h
    | ok code =>
      simp only [hu] at h ⊢
      cases esc with
      | true =>
        simp only [if_true] at h ⊢
        by_cases hc : code = 10
        · simp only [hc, if_true] at h ⊢; exact ih _ _ _ h
        · simp only [hc, if_false] at h ⊢; exact ih _ _ _ h
      | false =>
        simp only [Bool.false_eq_true, if_false] at h ⊢
        by_cases hc : code = d
        · simp only [hc, if_true] at h ⊢
          simp only [Prod.mk.injEq, true_and] at h
          simp [h.1, h.2]
        · simp only [hc, if_false] at h ⊢
          by_cases hbs : code = 92 ∧ (!raw) = true
          · simp only [hbs, and_self, if_true] at h ⊢; exact ih _ _ _ h
          · simp only [hbs, if_false] at h ⊢; exact ih _ _ _ h

theorem readLine_append (raw : Bool) (p S : List Byte) (acc cs : List AChar) (r : List Byte)
    (h : readLine d raw p acc = (cs, .found, r)) :
    readLine d raw (p ++ S) acc = (cs, .found, r ++ S) := readLineGo_append raw false [] p S acc cs r h

theorem readLineGo_suffix (raw esc : Bool) (buf p : List Byte) (acc : List AChar) :
    ∃ pre, pre ++ (readLineGo d raw esc buf p acc).2.2 = p := by
  induction p generalizing esc buf acc with
  | nil => exact ⟨[], by simp [readLineGo]⟩
  | cons b rest ih =>
    simp only [readLineGo]
    cases hu : utf8Check (buf ++ [b]) with
    | more => obtain ⟨pre, hp⟩ := ih esc (buf ++ [b]) acc; exact ⟨b :: pre, by simp [hp]⟩
    | bad => exact ⟨[b], by simp⟩
    | ok code =>
      simp only []
      cases esc with
      | true =>
        simp only [if_true]
        by_cases hc : code = 10
        · simp only [hc, if_true]; obtain ⟨pre, hp⟩ := ih false [] acc; exact ⟨b :: pre, by simp [hp]⟩
        · simp only [hc, if_false]
          obtain ⟨pre, hp⟩ := ih false []
            (acc ++ [Expansion.readQuoting '\\', Expansion.readQuoted (Char.ofNat code)])
          exact ⟨b :: pre, by simp [hp]⟩
      | false =>
        simp only [Bool.false_eq_true, if_false]
        by_cases hc : code = d
        · simp only [hc, if_true]; exact ⟨[b], by simp⟩
        · simp only [hc, if_false]
          by_cases hbs : code = 92 ∧ (!raw) = true
          · simp only [hbs, and_self, if_true]
            obtain ⟨pre, hp⟩ := ih true [] acc; exact ⟨b :: pre, by simp [hp]⟩
          · simp only [hbs, if_false]
            obtain ⟨pre, hp⟩ := ih false [] (acc ++ [Expansion.plainChar (Char.ofNat code)])
            exact ⟨b :: pre, by simp [hp]⟩

theorem readLine_suffix (raw : Bool) (p : List Byte) (acc : List AChar) :
    ∃ pre, pre ++ (readLine d raw p acc).2.2 = p := readLineGo_suffix raw false [] p acc

end YashModel.Input
