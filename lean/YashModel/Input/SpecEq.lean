/-
  C18 — the machine equals the line-granular reference reader of `Spec.lean`: `pull` = `specPull`
  (the fewest whole lines), `loop` = `specLoop` up to the ghost flag.
-/
import YashModel.Input.Erase
namespace YashModel.Input

theorem takeLines_succ_end (k : Nat) (inp : List Byte) :
    takeLines (k + 1) inp
      = ((takeLines k inp).1 ++ (nextLine (takeLines k inp).2).1, (nextLine (takeLines k inp).2).2) := by
  induction k generalizing inp with
  | zero => simp [takeLines]
  | succ k ih =>
    rw [takeLines]
    rw [ih (nextLine inp).2]
    simp [takeLines, List.append_assoc]

theorem nextLine_nil_iff (inp : List Byte) : (nextLine inp).1 = [] ↔ inp = [] := by
  rw [nextLine_eq]; exact splitLine_nil_iff inp

/-- `pull` from the state reached after `k` lines is the reference search from index `k + 1` -/
theorem pull_eq_specPull_aux (parse : Bool → List Byte → ParseRes) (n : Nat) (orig : List Byte)
    (k : Nat) (hn : (takeLines k orig).2.length < n)
    (hk : k = 0 ∨ (takeLines k orig).2 ≠ []) :
    ((pull parse n (takeLines k orig).1 (takeLines k orig).2).text,
     (pull parse n (takeLines k orig).1 (takeLines k orig).2).rest,
     (pull parse n (takeLines k orig).1 (takeLines k orig).2).res)
      = specPull parse n (k + 1) orig := by
  induction n generalizing k with
  | zero => omega
  | succ n ih =>
    rw [pull, specPull]
    have hsucc := takeLines_succ_end k orig
    by_cases hl : (nextLine (takeLines k orig).2).1 = []
    · have hinp : (takeLines k orig).2 = [] := (nextLine_nil_iff _).1 hl
      have hk0 : k = 0 := by
        rcases hk with h | h
        · exact h
        · exact absurd hinp h
      subst hk0
      have horig : orig = [] := by simpa [takeLines] using hinp
      subst horig
      simp [takeLines, nextLine, nextLineGo]
    · have hinp : (takeLines k orig).2 ≠ [] := fun e => hl ((nextLine_nil_iff _).2 e)
      have horig : orig ≠ [] := by
        intro e; subst e
        have : ∀ j, (takeLines j ([] : List Byte)).2 = [] := by
          intro j; induction j with
          | zero => rfl
          | succ j ihj => simp [takeLines, nextLine, nextLineGo, ihj]
        exact hinp (this k)
      simp only [hl, if_false, horig]
      rw [hsucc]
      simp only []
      by_cases hinc : (parse false ((takeLines k orig).1 ++ (nextLine (takeLines k orig).2).1)).isIncomplete = true
      · simp only [hinc, if_true, Bool.not_true, Bool.false_eq_true, if_false]
        by_cases hrest : (nextLine (takeLines k orig).2).2 = []
        · simp only [hrest, if_true]
          -- the next pull meets the end of the input
          cases n with
          | zero =>
            have hlen : (takeLines k orig).2.length < 1 := hn
            have : (takeLines k orig).2 = [] := List.length_eq_zero_iff.mp (by omega)
            exact absurd this hinp
          | succ m =>
            simp [pull, nextLine, nextLineGo]
        · simp only [hrest, if_false]
          have hlt : (nextLine (takeLines k orig).2).2.length < (takeLines k orig).2.length := by
            rw [nextLine_eq]; exact splitLine_rest_length _ hinp
          have := ih (k + 1) (by rw [hsucc]; simp only []; omega) (Or.inr (by rw [hsucc]; exact hrest))
          rw [hsucc] at this
          simpa using this
      · simp [hinc]

/-- ★ `pull` takes exactly what the reference reader takes: the fewest whole lines that are a complete
    command for the parser (or everything, at end of input) -/
theorem pull_eq_specPull (parse : Bool → List Byte → ParseRes) (inp : List Byte) :
    ((pull parse (inp.length + 1) [] inp).text, (pull parse (inp.length + 1) [] inp).rest,
     (pull parse (inp.length + 1) [] inp).res) = specPull parse (inp.length + 1) 1 inp := by
  have := pull_eq_specPull_aux parse (inp.length + 1) inp 0 (by simp [takeLines]) (Or.inl rfl)
  simpa [takeLines] using this

theorem erase_fields {s t : State} (h : s.erase = t.erase) :
    s.inp = t.inp ∧ s.shared = t.shared ∧ s.pos = t.pos ∧ s.aliases = t.aliases
      ∧ s.portable = t.portable ∧ s.verbose = t.verbose ∧ s.echo = t.echo ∧ s.fdFed = t.fdFed := by
  have f : ∀ {α : Type} (g : State → α), g s.erase = g t.erase := fun g => by rw [h]
  exact ⟨f (·.inp), f (·.shared), f (·.pos), f (·.aliases), f (·.portable), f (·.verbose), f (·.echo),
    f (·.fdFed)⟩

theorem loop_eq_specLoop (n : Nat) (s t : State) (log : List Iter) (h : s.erase = t.erase) :
    (loop n s log).1.erase = (specLoop n t).1.erase ∧ (loop n s log).2.1 = (specLoop n t).2 := by
  induction n generalizing s t log with
  | zero => exact ⟨h, rfl⟩
  | succ n ih =>
    obtain ⟨hinp, hsh, hpos, hal, hpo, hve, hec, hfd⟩ := erase_fields h
    have hparser : parserOf s = parserOf t := by
      funext eof text; simp only [parserOf, hal, hpo]
    have hp := pull_eq_specPull (parserOf s) s.inp
    rw [hparser, hinp] at hp
    have htext : (pullOf s).text = (specPull (parserOf t) (t.inp.length + 1) 1 t.inp).1 := by
      simp only [pullOf, hparser, hinp]; exact congrArg (·.1) hp
    have hrest : (pullOf s).rest = (specPull (parserOf t) (t.inp.length + 1) 1 t.inp).2.1 := by
      simp only [pullOf, hparser, hinp]; exact congrArg (·.2.1) hp
    have hres : (pullOf s).res = (specPull (parserOf t) (t.inp.length + 1) 1 t.inp).2.2 := by
      simp only [pullOf, hparser, hinp]; exact congrArg (·.2.2) hp
    have hecho : echoOf s (pullOf s).text = echoOf t (specPull (parserOf t) (t.inp.length + 1) 1 t.inp).1 := by
      rw [htext]; simp only [echoOf, hve, hfd, hec]
    -- the states after the pull agree up to the ghost flag
    have hafter : ∀ b : Bool, ({ afterPull s with hitEof := b } : State).erase
        = ({ t with inp := (specPull (parserOf t) (t.inp.length + 1) 1 t.inp).2.1,
                    echo := echoOf t (specPull (parserOf t) (t.inp.length + 1) 1 t.inp).1,
                    pos := if t.shared then t.pos + (specPull (parserOf t) (t.inp.length + 1) 1 t.inp).1.length
                           else t.pos } : State).erase := by
      intro b
      have h1 : ({ afterPull s with hitEof := b } : State).erase
          = ({ s.erase with inp := (pullOf s).rest, echo := echoOf s (pullOf s).text,
                            pos := if s.shared then s.pos + (pullOf s).text.length else s.pos } : State) := rfl
      rw [h1, h, hrest, hecho, htext, hsh, hpos]
      rfl
    simp only [loop, specLoop]
    rw [hres]
    cases hr : (specPull (parserOf t) (t.inp.length + 1) 1 t.inp).2.2 with
    | none => exact ⟨hafter _, rfl⟩
    | error =>
      refine ⟨?_, rfl⟩
      have := hafter (afterPull s).hitEof
      exact congrArg (fun x : State => ({ x with status := 2 } : State)) this
    | incomplete =>
      refine ⟨?_, rfl⟩
      have := hafter (afterPull s).hitEof
      exact congrArg (fun x : State => ({ x with status := 2 } : State)) this
    | ok cs =>
      simp only []
      have hr2 := runK_erase execFuel (cmds cs) (atExec s) _ (hafter (s.hitEof || (pullOf s).sawEof))
      have hab : ∀ a b : State, a.erase = b.erase → a.aborted = b.aborted := by
        intro a b e
        have : a.erase.aborted = b.erase.aborted := by rw [e]
        exact this
      rw [← hr2.2]
      by_cases hfin : (runK execFuel (cmds cs) (atExec s)).2 = true
      · simp only [hfin, if_true]
        rw [← hab _ _ hr2.1]
        by_cases ha : (runK execFuel (cmds cs) (atExec s)).1.aborted = true
        · simp only [ha, if_true]; exact ⟨hr2.1, trivial⟩
        · simp only [ha]; exact ih _ _ _ hr2.1
      · have hf : (runK execFuel (cmds cs) (atExec s)).2 = false := by
          cases hh : (runK execFuel (cmds cs) (atExec s)).2 with
          | false => rfl
          | true => exact absurd hh hfin
        simp only [hf, Bool.false_eq_true, if_false]; exact ⟨hr2.1, trivial⟩

end YashModel.Input
