/-
  C18 — the "command complete" side of the input path: a lexer and a recursive-descent parser for the
  modelled command forms (quotes, backslash-newline, `if`/`while`/`until`/`{ }`/`( )`, and-or lists,
  here-documents, comments, alias substitution in command position, the `portable` rejection of `((`).

  It stands for `yash-syntax/src/parser/{list,and_or,command,compound_command,grouping,if,while_loop,
  simple_command,redir}.rs` + `lex/*` restricted to those forms.  What C18 needs from it is only the
  three-way answer on the text pulled so far:

    * `ok cmds`     – `Parser::command_line` returned `Ok(Some(list))` having consumed all of the text,
    * `incomplete`  – the lexer's buffer ran out in the middle: `LexerCore::peek_char` would call
                      `Input::next_line` again,
    * `error`       – a syntax error (`Err(Error { cause: Syntax(_) })`), no further line is pulled.

  The parser is re-run from the start of the command line every time a line is added, which is
  observably the same as the real incremental parser because parsing is a deterministic function of the
  text (aliases and parser mode are fixed during one `command_line`).
  Import-free and executable.
-/
namespace YashModel.Input

/-- one unit of a word -/
inductive Part where
  | lit (c : Char) (quoted : Bool)
  | var (name : String) (quoted : Bool)     -- `$name` / `$?`
  | emptyQuote                              -- `''` or `""`: makes the word produce a field
  deriving DecidableEq, Repr, Inhabited

abbrev Word := List Part

/-- the text of a word made of unquoted literal characters only (candidate keyword / alias name) -/
def Word.plain? : Word → Option (List Char)
  | [] => some []
  | .lit c false :: rest => (Word.plain? rest).map (c :: ·)
  | _ => none

def Word.plainStr? (w : Word) : Option String := (Word.plain? w).map String.ofList

inductive Tok where
  | word (w : Word) (noAlias : List String)   -- `noAlias`: alias names this token came out of
  | op (s : String)                           -- `;` `&&` `||` `(` `)` `;;` `|` `&`
  | here (k : Nat)                            -- `<<DELIM`, k-th here-document of the text
  | rin (path : List Char)                    -- `<path`: standard input from a file
  | nl
  deriving Repr, Inhabited

inductive LMode where
  | top | sq | dq | cmt
  | var (quoted : Bool) (acc : List Char)
  | bs (quoted : Bool)                        -- after a backslash (outside single quotes)
  | hop                                       -- after `<<`, before the delimiter
  | hdelim (acc : List Char)
  | hbody (line : List Char)                  -- reading here-document contents
  | rop                                       -- after `<`, before the pathname
  | rpath (acc : List Char)                   -- the pathname of `<path` (literal characters only)
  deriving Repr, Inhabited

structure LState where
  toks : List Tok := []                       -- reversed
  cur : Option (List Part) := none            -- word under construction (reversed)
  mode : LMode := .top
  skip : Bool := false                        -- second character of a two-character operator
  pend : List (List Char) := []               -- delimiters whose contents have not been read yet
  body : List Char := []                      -- contents collected so far for the head of `pend`
  bodies : List (List Char) := []             -- finished contents (reversed)
  nhere : Nat := 0
  bad : Bool := false
  deriving Repr, Inhabited

def isNameStart (c : Char) : Bool := c.isAlpha || c == '_'
def isNameChar (c : Char) : Bool := c.isAlphanum || c == '_'
/-- the characters of a redirection operand as the scripts write it (`/d1`, `r.txt`) -/
def isPathChar (c : Char) : Bool := isNameChar c || c == '/' || c == '.'

def LState.push (s : LState) (p : Part) : LState :=
  { s with cur := some (p :: s.cur.getD []) }

/-- delimit the word under construction -/
def LState.endWord (s : LState) : LState :=
  match s.cur with
  | none => s
  | some ps => { s with cur := none, toks := .word ps.reverse [] :: s.toks }

def LState.emit (s : LState) (t : Tok) : LState :=
  let s := s.endWord
  { s with toks := t :: s.toks }

/-- a newline token; pending here-document contents start on the next line -/
def LState.newline (s : LState) : LState :=
  let s := s.emit .nl
  if s.pend.isEmpty then s else { s with mode := .hbody [], body := [] }

/-- one character in the unquoted / double-quoted / single-quoted / comment / here-document modes;
    `next` is one character of look-ahead -/
def stepMain (s : LState) (c : Char) (next : Option Char) : LState :=
  match s.mode with
  | .cmt => if c == '\n' then ({ s with mode := .top }).newline else s
  | .sq => if c == '\'' then { s with mode := .top } else s.push (.lit c true)
  | .dq =>
    if c == '"' then { s with mode := .top }
    else if c == '\\' then
      -- inside double quotes a backslash quotes only `$`, `` ` ``, `"`, `\` and newline
      (match next with
       | some n => if n == '\n' || n == '$' || n == '"' || n == '\\' || n == '`'
                   then { s with mode := .bs true } else s.push (.lit c true)
       | none => { s with mode := .bs true })
    else if c == '$' then
      (match next with
       | some n => if isNameStart n then { s with mode := .var true [] }
                   else if n == '?' then { (s.push (.var "?" true)) with skip := true }
                   else s.push (.lit c true)
       | none => s.push (.lit c true))
    else s.push (.lit c true)
  | .bs q =>
    if c == '\n' then { s with mode := if q then .dq else .top }     -- line continuation
    else { (s.push (.lit c true)) with mode := if q then .dq else .top }
  | .hop =>
    if c == ' ' || c == '\t' then s
    else if isNameChar c then { s with mode := .hdelim [c] }
    else { s with bad := true, mode := .top }
  | .hdelim acc =>
    -- never reached with a name character (handled in `lexStep`)
    { s with mode := .hdelim acc }
  | .rop =>
    if c == ' ' || c == '\t' then s
    else if isPathChar c then { s with mode := .rpath [c] }
    else { s with bad := true, mode := .top }
  | .rpath acc =>
    -- never reached with a pathname character (handled in `lexStep`)
    { s with mode := .rpath acc }
  | .hbody line =>
    if c == '\n' then
      match s.pend with
      | [] => { s with mode := .top }
      | d :: rest =>
        if line.reverse == d then
          let s := { s with bodies := s.body :: s.bodies, body := [], pend := rest }
          if rest.isEmpty then { s with mode := .top } else { s with mode := .hbody [] }
        else { s with body := s.body ++ line.reverse ++ ['\n'], mode := .hbody [] }
    else { s with mode := .hbody (c :: line) }
  | .var _ _ => s
  | .top =>
    if c == '\n' then s.newline
    else if c == ' ' || c == '\t' then s.endWord
    else if c == '#' && s.cur.isNone then { s with mode := .cmt }
    else if c == '\'' then { (match s.cur with | none => { s with cur := some [.emptyQuote] } | some _ => s) with mode := .sq }
    else if c == '"' then { (match s.cur with | none => { s with cur := some [.emptyQuote] } | some _ => s) with mode := .dq }
    else if c == '\\' then { s with mode := .bs false }
    else if c == '$' then
      (match next with
       | some n => if isNameStart n then { s with mode := .var false [] }
                   else if n == '?' then { (s.push (.var "?" false)) with skip := true }
                   else s.push (.lit c false)
       | none => s.push (.lit c false))
    else if c == ';' then
      (if next == some ';' then { (s.emit (.op ";;")) with skip := true } else s.emit (.op ";"))
    else if c == '&' then
      (if next == some '&' then { (s.emit (.op "&&")) with skip := true } else s.emit (.op "&"))
    else if c == '|' then
      (if next == some '|' then { (s.emit (.op "||")) with skip := true } else s.emit (.op "|"))
    else if c == '(' then
      -- `(a`: an open parenthesis immediately followed by another one (`next.index == open.index + 1`)
      -- `(w`: immediately preceded by a word (`!(`, `name=(`); both: `(wa`
      (let w := s.cur.isSome
       let a := next == some '('
       s.emit (.op (if w then (if a then "(wa" else "(w") else (if a then "(a" else "("))))
    else if c == ')' then s.emit (.op ")")
    else if c == '<' then
      (if next == some '<' then
        let s := s.endWord
        { s with skip := true, mode := .hop }
       else
        -- `<path`: the operator delimits the word before it; the operand follows
        let s := s.endWord
        { s with mode := .rop })
    else if c == '>' || c == '`' then { s with bad := true }
    else s.push (.lit c false)

def LState.finishVar (s : LState) (q : Bool) (acc : List Char) : LState :=
  { (s.push (.var (String.ofList acc.reverse) q)) with mode := if q then .dq else .top }

def LState.finishDelim (s : LState) (acc : List Char) : LState :=
  { s with toks := .here s.nhere :: s.toks, nhere := s.nhere + 1, pend := s.pend ++ [acc.reverse],
           mode := .top }

def LState.finishPath (s : LState) (acc : List Char) : LState :=
  { s with toks := .rin acc.reverse :: s.toks, mode := .top }

def lexStep (s : LState) (c : Char) (next : Option Char) : LState :=
  if s.skip then { s with skip := false } else
  match s.mode with
  | .var q acc => if isNameChar c then { s with mode := .var q (c :: acc) }
                  else stepMain (s.finishVar q acc) c next
  | .hdelim acc => if isNameChar c then { s with mode := .hdelim (c :: acc) }
                   else stepMain (s.finishDelim acc) c next
  | .rpath acc => if isPathChar c then { s with mode := .rpath (c :: acc) }
                  else stepMain (s.finishPath acc) c next
  | _ => stepMain s c next

/-- the lexer is a left fold with one character of look-ahead -/
def lexGo (s : LState) : List Char → LState
  | [] => s
  | c :: rest => lexGo (lexStep s c rest.head?) rest

inductive LexEnd where
  | ok | incomplete | error
  deriving DecidableEq, Repr

structure Lexed where
  toks : List Tok
  bodies : List (List Char)
  status : LexEnd
  inComment : Bool := false     -- the text ends inside a comment (matters for alias values)
  deriving Repr

/-- End of the text pulled so far.  `eof = true`: the input itself has ended, so whatever is still
    open is a syntax error; otherwise the lexer would ask for another line. -/
def lexAll (text : List Char) (eof : Bool) : Lexed :=
  let s := lexGo {} text
  let s := match s.mode with
    | .var q acc => s.finishVar q acc
    | .hdelim acc => s.finishDelim acc
    | .rpath acc => s.finishPath acc
    | _ => s
  let open_ : Bool := match s.mode with
    | .sq | .dq | .bs _ | .hop | .rop | .hbody _ => true
    | _ => false
  let s' := s.endWord
  let status : LexEnd :=
    if s.bad then .error
    else if open_ || !s.pend.isEmpty then (if eof then .error else .incomplete)
    else .ok
  { toks := s'.toks.reverse, bodies := s'.bodies.reverse, status,
    inComment := match s.mode with | .cmt => true | _ => false }

/-! ### Commands -/

/-- a redirection of standard input: a here-document (its contents) or `<path` -/
inductive Rd where
  | here (body : List Char)
  | file (path : List Char)
  deriving Repr, Inhabited, DecidableEq

inductive Cmd where
  | simple (ws : List Word) (here : Option (List Char))   -- words (`here`: always `none` from the parser)
  | redir (rs : List Rd) (c : Cmd)             -- a command with its redirections, in the order written
  | ifc (cond thn els : List Cmd) (hasElse : Bool)
  | loop (untl : Bool) (cond body : List Cmd)
  | group (body : List Cmd)
  | subsh (body : List Cmd)
  | andor (l : Cmd) (isAnd : Bool) (r : Cmd)
  | neg (c : Cmd)                              -- `! command`
  | async (c : Cmd)                            -- `and-or-list &`
  deriving Repr, Inhabited

/-- parser result: value and remaining tokens, or "the tokens ran out", or a syntax error -/
inductive PR (α : Type) where
  | ok (a : α) (rest : List Tok)
  | inc
  | err
  deriving Repr

/-- parser configuration of one `command_line` call: the alias table and `Mode::portable` as they
    are when the iteration of the read-eval loop starts -/
structure PCfg where
  aliases : List (String × String)
  portable : Bool
  eof : Bool
  bodies : List (List Char) := []      -- here-document contents of the text being parsed
  deriving Repr

def lookupAlias (al : List (String × String)) (n : String) : Option String :=
  (al.find? (·.1 == n)).map (·.2)

def keywords : List String :=
  ["if", "then", "else", "elif", "fi", "while", "until", "do", "done", "{", "}", "!", "for", "case",
   "esac", "in", "function", "[[", "]]", "namespace", "select"]

/-- tokens that end a compound list (`TokenId::is_clause_delimiter`) -/
def isClauseDelim (t : Tok) : Bool :=
  match t with
  | .op ")" | .op ";;" => true
  | .word w _ => (match Word.plainStr? w with
                  | some k => ["then", "else", "elif", "fi", "do", "done", "}", "esac"].contains k
                  | none => false)
  | _ => false

def tokKeyword (t : Tok) : Option String :=
  match t with
  | .word w _ => (match Word.plainStr? w with
                  | some k => if keywords.contains k then some k else none
                  | none => none)
  | _ => none

/-- the rest of the token stream from the next newline on -/
def dropLine : List Tok → List Tok
  | [] => []
  | .nl :: rest => .nl :: rest
  | _ :: rest => dropLine rest

/-- alias substitution of the token in command-name position (`Parser::take_token_auto` /
    `substitute_alias`): the value is lexed and spliced in; a name is never substituted inside its own
    replacement -/
def substAlias (cfg : PCfg) : Nat → List Tok → List Tok
  | 0, ts => ts
  | n + 1, .word w banned :: rest =>
    (match Word.plainStr? w with
     | some name =>
       if keywords.contains name || banned.contains name then .word w banned :: rest else
       (match lookupAlias cfg.aliases name with
        | some value =>
          let lx := lexAll value.toList true
          let sub := lx.toks.map fun t =>
            match t with
            | .word w' b' => Tok.word w' (name :: banned ++ b')
            | t => t
          -- the replacement is text spliced into the line: a comment it opens runs to the end of
          -- the line and swallows what follows the alias there
          substAlias cfg n (sub ++ (if lx.inComment then dropLine rest else rest))
        | none => .word w banned :: rest)
     | none => .word w banned :: rest)
  | _, ts => ts

def skipNl : List Tok → List Tok
  | .nl :: rest => skipNl rest
  | ts => ts

/-- words and redirections of a simple command (`simple_command.rs`: they may be mixed; the
    redirections keep the order in which they are written) -/
def simpleWords (bodies : List (List Char)) :
    List Tok → List Word → List Rd → (List Word × List Rd × List Tok)
  | .word w _ :: rest, ws, rs => simpleWords bodies rest (ws ++ [w]) rs
  | .here k :: rest, ws, rs => simpleWords bodies rest ws (rs ++ [.here (bodies.getD k [])])
  | .rin p :: rest, ws, rs => simpleWords bodies rest ws (rs ++ [.file p])
  | ts, ws, rs => (ws, rs, ts)

/-- the redirections that follow a compound command (`Parser::redirections`) -/
def takeRedirs (bodies : List (List Char)) : List Tok → List Rd → (List Rd × List Tok)
  | .here k :: rest, rs => takeRedirs bodies rest (rs ++ [.here (bodies.getD k [])])
  | .rin p :: rest, rs => takeRedirs bodies rest (rs ++ [.file p])
  | ts, rs => (rs, ts)

/-- a command with its redirections (none: the command itself) -/
def withRedirs (rs : List Rd) (c : Cmd) : Cmd := if rs.isEmpty then c else .redir rs c

/-- an open parenthesis token: (immediately preceded by a word, immediately followed by `(`) -/
def openTok : Tok → Option (Bool × Bool)
  | .op "(" => some (false, false)
  | .op "(a" => some (false, true)
  | .op "(w" => some (true, false)
  | .op "(wa" => some (true, true)
  | _ => none

/-- `is_portable_name` of a literal word -/
def portableName (w : Word) : Bool :=
  match Word.plain? w with
  | some (c :: cs) => isNameStart c && cs.all isNameChar
  | _ => false

/-- an unquoted literal word `name=` (candidate array assignment) -/
def endsWithEq (w : Word) : Bool :=
  match Word.plain? w with
  | some cs => cs.getLast? == some '=' && cs.length > 1
  | none => false

/-- a command name ending with `:` (`ends_with_colon`: at least two units, the last an unquoted `:`) -/
def endsWithColon (w : Word) : Bool :=
  w.length > 1 && w.getLast? == some (.lit ':' false)

/-- the values of an array assignment, up to the closing parenthesis -/
def skipArray : List Tok → PR Unit
  | [] => .inc
  | .word _ _ :: rest => skipArray rest
  | .nl :: rest => skipArray rest
  | .op ")" :: rest => .ok () rest
  | _ => .err

def isCompound : Cmd → Bool
  | .ifc .. | .loop .. | .group .. | .subsh .. => true
  | .redir _ c => isCompound c
  | _ => false

/-- can this token start a command (`and_or_list` returns `Some`)? -/
def startsCmd (t : Tok) : Bool :=
  match t with
  | .word _ _ => !isClauseDelim t
  | .here _ => true
  | .rin _ => true
  | t => (openTok t).isSome

/-- after `&&` / `||` (`and_or.rs`): newlines are skipped before the next command, also the newlines
    that follow an alias substituted to nothing -/
def skipNlAlias (cfg : PCfg) : Nat → List Tok → List Tok
  | 0, ts => ts
  | n + 1, ts =>
    match substAlias cfg 8 (skipNl ts) with
    | .nl :: rest => skipNlAlias cfg n (.nl :: rest)
    | ts' => ts'

/-- `Parser::full_compound_command`: the redirections that follow the compound command; in portable
    mode a clause-delimiting reserved word may not directly follow a compound command that does not
    end with a reserved word (a subshell, or one with redirections) -/
def fullCompound (cfg : PCfg) (isSub : Bool) : PR Cmd → PR Cmd
  | .ok c r =>
    match (takeRedirs cfg.bodies r []).2 with
    | t2 :: _ =>
      if cfg.portable && (isSub || !(takeRedirs cfg.bodies r []).1.isEmpty)
         && (tokKeyword t2).isSome && isClauseDelim t2 then .err
      else .ok (withRedirs (takeRedirs cfg.bodies r []).1 c) (takeRedirs cfg.bodies r []).2
    | [] => .ok (withRedirs (takeRedirs cfg.bodies r []).1 c) (takeRedirs cfg.bodies r []).2
  | .inc => .inc
  | .err => .err

mutual
  /-- `Parser::command` (simple or compound) at a token that has been alias-substituted -/
  def pCommand (cfg : PCfg) : Nat → List Tok → PR Cmd
    | 0, _ => .err
    | n + 1, ts =>
      match substAlias cfg 8 ts with
      | [] => if cfg.eof then .err else .inc
      | t :: rest =>
        match tokKeyword t with
        | some "if" => fullCompound cfg false (pIf cfg n rest)
        | some "while" => fullCompound cfg false (pLoop cfg n false rest)
        | some "until" => fullCompound cfg false (pLoop cfg n true rest)
        | some "{" =>
          fullCompound cfg false
          (match pCList cfg n rest with
           | .ok body r =>
             (match r with
              | [] => if cfg.eof then .err else .inc
              | c :: r' => if tokKeyword c == some "}" && !body.isEmpty then .ok (.group body) r' else .err)
           | .inc => .inc
           | .err => .err)
        | some "!" =>
          -- `Parser::pipeline`: in portable mode `!(` is rejected
          (match rest with
           | [] => if cfg.eof then .err else .inc
           | t2 :: _ =>
             if cfg.portable && (openTok t2).map (·.1) == some true then .err else
             match pCommand cfg n rest with
             | .ok c r => .ok (.neg c) r
             | .inc => .inc
             | .err => .err)
        | some _ => .err
        | none =>
          match openTok t with
          | some (_, adjNext) =>
            -- `Parser::subshell`: in portable mode `((` is rejected
            if cfg.portable && adjNext then .err else
            -- `full_compound_command`: a subshell does not end with a reserved word, so in
            -- portable mode a clause-delimiting reserved word may not follow it directly
            fullCompound cfg true (pSub cfg n rest)
          | none =>
          match t with
          | .word _ _ | .here _ | .rin _ =>
            let (ws, h, r) := simpleWords cfg.bodies (t :: rest) [] []
            -- `simple_command`: a command name ending with `:` is rejected in portable mode
            if cfg.portable && (match t with | .word w _ => endsWithColon w | _ => false) then .err else
            (match ws, h, r with
             | [w], [], t2 :: r' =>
               (match openTok t2 with
                | some (adjWord, _) =>
                  if adjWord && endsWithEq w then
                    -- array assignment `name=(…)`: parsed to its end, then rejected in portable mode
                    (match skipArray r' with
                     | .ok _ r'' => if cfg.portable then .err else .ok (.simple [] none) r''
                     | .inc => if cfg.eof then .err else .inc
                     | .err => .err)
                  else
                    -- `short_function_definition`: `name ( ) compound-command`
                    (match r' with
                     | [] => if cfg.eof then .err else .inc
                     | .op ")" :: r'' =>
                       if cfg.portable && !portableName w then .err else
                       (match pCommand cfg n (skipNl r'') with
                        | .ok body r3 => if isCompound body then .ok (.simple [] none) r3 else .err
                        | .inc => .inc
                        | .err => .err)
                     | _ => .err)
                | none => .ok (.simple ws none) r)
             | _, _, _ => .ok (withRedirs h (.simple ws none)) r)
          | _ => .err

  def pSub (cfg : PCfg) : Nat → List Tok → PR Cmd
    | 0, _ => .err
    | n + 1, rest =>
      match pCList cfg n rest with
      | .ok body r =>
        (match r with
         | [] => if cfg.eof then .err else .inc
         | .op ")" :: r' => if body.isEmpty then .err else .ok (.subsh body) r'
         | _ => .err)
      | .inc => .inc
      | .err => .err

  /-- after `if`: condition `then` body (`elif` … | `else` …) `fi` -/
  def pIf (cfg : PCfg) : Nat → List Tok → PR Cmd
    | 0, _ => .err
    | n + 1, ts =>
      match pCList cfg n ts with
      | .inc => .inc
      | .err => .err
      | .ok cond r =>
        match r with
        | [] => if cfg.eof then .err else .inc
        | t :: r1 =>
          if tokKeyword t != some "then" || cond.isEmpty then .err else
          match pCList cfg n r1 with
          | .inc => .inc
          | .err => .err
          | .ok thn r2 =>
            if thn.isEmpty then .err else
            match r2 with
            | [] => if cfg.eof then .err else .inc
            | t2 :: r3 =>
              match tokKeyword t2 with
              | some "fi" => .ok (.ifc cond thn [] false) r3
              | some "elif" =>
                (match pIf cfg n r3 with
                 | .ok c r4 => .ok (.ifc cond thn [c] true) r4
                 | .inc => .inc
                 | .err => .err)
              | some "else" =>
                (match pCList cfg n r3 with
                 | .inc => .inc
                 | .err => .err
                 | .ok els r4 =>
                   if els.isEmpty then .err else
                   match r4 with
                   | [] => if cfg.eof then .err else .inc
                   | t4 :: r5 => if tokKeyword t4 == some "fi" then .ok (.ifc cond thn els true) r5 else .err)
              | _ => .err

  def pLoop (cfg : PCfg) : Nat → Bool → List Tok → PR Cmd
    | 0, _, _ => .err
    | n + 1, untl, ts =>
      match pCList cfg n ts with
      | .inc => .inc
      | .err => .err
      | .ok cond r =>
        match r with
        | [] => if cfg.eof then .err else .inc
        | t :: r1 =>
          if tokKeyword t != some "do" || cond.isEmpty then .err else
          match pCList cfg n r1 with
          | .inc => .inc
          | .err => .err
          | .ok body r2 =>
            if body.isEmpty then .err else
            match r2 with
            | [] => if cfg.eof then .err else .inc
            | t2 :: r3 => if tokKeyword t2 == some "done" then .ok (.loop untl cond body) r3 else .err

  /-- `Parser::and_or_list`: commands joined by `&&` / `||` (newlines allowed after the operator) -/
  def pAndOr (cfg : PCfg) : Nat → List Tok → PR Cmd
    | 0, _ => .err
    | n + 1, ts =>
      match pCommand cfg n ts with
      | .inc => .inc
      | .err => .err
      | .ok c r => pAndOrRest cfg n c r

  def pAndOrRest (cfg : PCfg) : Nat → Cmd → List Tok → PR Cmd
    | 0, _, _ => .err
    | n + 1, l, ts =>
      match ts with
      | .op "&&" :: r =>
        (match pCommand cfg n (skipNlAlias cfg 8 r) with
         | .ok c r' => pAndOrRest cfg n (.andor l true c) r'
         | .inc => .inc
         | .err => .err)
      | .op "||" :: r =>
        (match pCommand cfg n (skipNlAlias cfg 8 r) with
         | .ok c r' => pAndOrRest cfg n (.andor l false c) r'
         | .inc => .inc
         | .err => .err)
      | _ => .ok l ts

  /-- `Parser::list`: and-or lists separated by `;` on one line (possibly none); the delimiting newline
      is not consumed -/
  def pList (cfg : PCfg) : Nat → List Tok → PR (List Cmd)
    | 0, _ => .err
    | n + 1, ts =>
      match substAlias cfg 8 ts with
      | [] => .ok [] []
      | t :: rest =>
        -- `Parser::list`: after a `;` separator the next and-or list is parsed *without* skipping
        -- newlines: a newline there (also one left after an alias substituted to nothing) ends the list
        if !startsCmd t then .ok [] (t :: rest) else
        match pAndOr cfg n (t :: rest) with
        | .inc => .inc
        | .err => .err
        | .ok c r =>
          match r with
          | .op ";" :: r' =>
            (match pList cfg n r' with
             | .ok cs r'' => .ok (c :: cs) r''
             | .inc => .inc
             | .err => .err)
          | .op "&" :: r' =>
            -- `Operator(And)`: the and-or list is asynchronous
            (match pList cfg n r' with
             | .ok cs r'' => .ok (.async c :: cs) r''
             | .inc => .inc
             | .err => .err)
          | _ => .ok [c] r

  /-- `Parser::maybe_compound_list`: lists separated by newlines, up to a clause delimiter -/
  def pCList (cfg : PCfg) : Nat → List Tok → PR (List Cmd)
    | 0, _ => .err
    | n + 1, ts =>
      match pList cfg n ts with
      | .inc => .inc
      | .err => .err
      | .ok cs r =>
        match r with
        | .nl :: r' =>
          (match pCList cfg n r' with
           | .ok cs' r'' => .ok (cs ++ cs') r''
           | .inc => .inc
           | .err => .err)
        | [] => if cfg.eof then .err else .inc
        | t :: _ => if isClauseDelim t then .ok cs r else .err
end

/-- result of `Parser::command_line` on the text pulled so far -/
inductive ParseRes where
  | ok (cmds : List Cmd)                               -- `Ok(Some(list))`, all text consumed
  | none                                               -- `Ok(None)`: end of input, nothing to run
  | incomplete                                         -- needs another line
  | error                                              -- syntax error
  deriving Repr, Inhabited

def ParseRes.isIncomplete : ParseRes → Bool
  | .incomplete => true
  | _ => false

/-- `Parser::command_line` -/
def parseLine (cfg : PCfg) (text : List Char) : ParseRes :=
  let lx := lexAll text cfg.eof
  match lx.status with
  | .error => .error
  | .incomplete => .incomplete
  | .ok =>
    let cfg := { cfg with bodies := lx.bodies }
    match pList cfg (6 * lx.toks.length + 10) lx.toks with
    | .inc => .incomplete
    | .err => .error
    | .ok cs r =>
      match r with
      | [.nl] => .ok cs
      | .nl :: _ => .error            -- unreachable for line-by-line pulling (text ends at the newline)
      | [] => if cfg.eof then (if cs.isEmpty then .none else .ok cs) else .incomplete
      | _ => .error

end YashModel.Input
