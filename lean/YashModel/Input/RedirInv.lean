/-
  C18 — the invariant behind "when a command is over, standard input is again what it was": the open
  file description that descriptor 0 will refer to once every pending `undo_redirs` of the continuation
  has run (`outerDesc`) is never replaced — it can only be read from.
-/
import YashModel.Input.Steps
namespace YashModel.Input

/-- the description `d'` is the description `d`, possibly read from: same kind; for a stream of its own
    what is left is a suffix of what was there and the offset advanced by what was consumed -/
def Adv (d d' : SavedIn) : Prop :=
  d'.shared = d.shared ∧ ∃ pre, d.data = pre ++ d'.data ∧ (d.shared = false → d'.pos = d.pos + pre.length)

theorem Adv.refl (d : SavedIn) : Adv d d := ⟨rfl, [], by simp, fun _ => by simp⟩

theorem Adv.trans {a b c : SavedIn} (h1 : Adv a b) (h2 : Adv b c) : Adv a c := by
  obtain ⟨s1, p1, e1, q1⟩ := h1
  obtain ⟨s2, p2, e2, q2⟩ := h2
  refine ⟨s2.trans s1, p1 ++ p2, by rw [e1, e2, List.append_assoc], ?_⟩
  intro h
  have hb : b.shared = false := by rw [s1]; exact h
  rw [q2 hb, q1 h, List.length_append]; omega

/-- what descriptor 0 refers to after every pending `undo_redirs` of the continuation: each `undo`
    leaves the description its guard saved first (none saved: what is there) -/
def outerDesc : List K → SavedIn → SavedIn
  | [], d => d
  | .undo saved :: k, d => outerDesc k (saved.head?.getD d)
  | _ :: k, d => outerDesc k d

theorem outerDesc_mono (k : List K) (d d' : SavedIn) (h : Adv d d') :
    Adv (outerDesc k d) (outerDesc k d') := by
  induction k generalizing d d' with
  | nil => exact h
  | cons a k ih =>
    cases a with
    | undo saved =>
      simp only [outerDesc]
      cases saved with
      | nil => exact ih _ _ h
      | cons x l => exact ih _ _ (Adv.refl _)
    | cmd c => exact ih _ _ h
    | branch t e he => exact ih _ _ h
    | andK a r => exact ih _ _ h
    | loopTest u c b l => exact ih _ _ h
    | loopBack u c b => exact ih _ _ h
    | restore sv => exact ih _ _ h
    | negK => exact ih _ _ h
    | src t e x => exact ih _ _ h

theorem outerDesc_cmds (l : List Cmd) (k : List K) (d : SavedIn) :
    outerDesc (cmds l ++ k) d = outerDesc k d := by
  induction l with
  | nil => rfl
  | cons c l ih => exact ih

theorem outerDesc_dropGuards (k : List K) (d : SavedIn) : outerDesc (dropGuards k) d = outerDesc k d := by
  induction k generalizing d with
  | nil => rfl
  | cons a k ih =>
    cases a with
    | undo saved => simp only [dropGuards, outerDesc]; exact ih _
    | restore sv => rfl
    | cmd c => exact ih _
    | branch t e he => exact ih _
    | andK a r => exact ih _
    | loopTest u c b l => exact ih _
    | loopBack u c b => exact ih _
    | negK => exact ih _
    | src t e x => exact ih _

/-! ### what the built-ins do to descriptor 0: they read from it -/

theorem setStdin_adv (s : State) (pre rest : List Byte) (h : s.stdin = pre ++ rest) :
    Adv (stdinDesc s) (stdinDesc (s.setStdin rest pre.length)) := by
  cases hsh : s.shared with
  | true => exact ⟨by simp [State.setStdin, stdinDesc, hsh], [], by simp [State.setStdin, stdinDesc, hsh],
      by simp [stdinDesc, hsh]⟩
  | false =>
    simp only [State.stdin, hsh, Bool.false_eq_true, if_false] at h
    exact ⟨by simp [State.setStdin, stdinDesc, hsh], pre, by simp [State.setStdin, stdinDesc, hsh, h],
      by simp [State.setStdin, stdinDesc, hsh]⟩

theorem execRead_adv (s : State) (d : Nat) (raw : Bool) (names : List String) :
    Adv (stdinDesc s) (stdinDesc (execRead s d raw names)) := by
  obtain ⟨pre, hpre⟩ := readLine_suffix (d := d) raw s.stdin []
  have hlen : s.stdin.length - (readLine d raw s.stdin []).2.2.length = pre.length := by
    have : s.stdin.length = pre.length + (readLine d raw s.stdin []).2.2.length := by
      rw [← List.length_append, hpre]
    omega
  have := setStdin_adv s pre (readLine d raw s.stdin []).2.2 hpre.symm
  simp only [execRead, hlen]
  exact this

theorem execCat_adv (s : State) (here : Option (List Char)) :
    Adv (stdinDesc s) (stdinDesc (execCat s here)) := by
  cases here with
  | some t => exact Adv.refl _
  | none =>
    have := setStdin_adv s s.stdin [] (by simp)
    simp only [execCat]
    exact this

theorem setOption_desc (s : State) (o : String) (on : Bool) : stdinDesc (setOption s o on) = stdinDesc s := by
  unfold setOption; split
  · rfl
  · split <;> rfl

theorem execSimple_adv (s : State) (fields : List String) (here : Option (List Char)) :
    Adv (stdinDesc s) (stdinDesc (execSimple s fields here)) := by
  cases fields with
  | nil => exact Adv.refl _
  | cons name args =>
    simp only [execSimple]
    generalize classify name = u
    cases u with
    | probe => exact Adv.refl _
    | aliasName => exact Adv.refl _
    | echo => exact Adv.refl _
    | st => exact Adv.refl _
    | colon => exact Adv.refl _
    | read => exact execRead_adv _ _ _ _
    | alias => simp only [execUtil, execAlias]; split <;> exact Adv.refl _
    | unalias => simp only [execUtil, execUnalias]; split <;> exact Adv.refl _
    | set =>
      simp only [execUtil, execSet]
      split <;> first | (rw [setOption_desc]; exact Adv.refl _) | exact Adv.refl _
    | cat => exact execCat_adv _ _
    | closein =>
      have := setStdin_adv s s.stdin [] (by simp)
      simp only [execUtil, execClose]
      exact this
    | unknown => exact Adv.refl _

/-- `perform_redirs` followed by `undo_redirs` of what it saved: exactly the state before -/
theorem undo_perform (rs : List Rd) (s : State) :
    undoIn (performIn rs [] s).1 (performIn rs [] s).2.1 = s := by
  rcases performIn_first rs s with ⟨h1, h2⟩ | h
  · rw [h1, h2]; rfl
  · rw [undoIn_head _ _ _ h, performIn_state, setDesc_setDesc, setDesc_stdinDesc]

/-- ★ one step of the machine never replaces the description descriptor 0 will finally refer to -/
theorem step_outer (k k' : List K) (s s' : State) (h : step k s = some (k', s')) :
    Adv (outerDesc k (stdinDesc s)) (outerDesc k' (stdinDesc s')) := by
  cases k with
  | nil => simp [step] at h
  | cons a k0 =>
    cases a with
    | cmd c =>
      cases c with
      | simple ws here =>
        simp only [step, Option.some.injEq] at h
        unfold stepSimple at h
        split at h
        · simp only [Prod.mk.injEq] at h; rw [← h.1, ← h.2]; exact Adv.refl _
        · simp only [Prod.mk.injEq] at h; rw [← h.1, ← h.2]
          exact outerDesc_mono _ _ _ (execSimple_adv _ _ _)
      | async c =>
        simp only [step] at h
        split at h <;> (simp only [Option.some.injEq, Prod.mk.injEq] at h; rw [← h.1, ← h.2]) <;>
          exact Adv.refl _
      | redir rs c =>
        simp only [step] at h
        split at h
        · simp only [Option.some.injEq, Prod.mk.injEq] at h; rw [← h.1, ← h.2]
          simp only [outerDesc]
          rcases performIn_first rs s with ⟨h1, h2⟩ | hh
          · rw [h1, h2]; exact Adv.refl _
          · rw [hh]; exact Adv.refl _
        · split at h <;> (simp only [Option.some.injEq, Prod.mk.injEq] at h; rw [← h.1, ← h.2])
          · rw [undo_perform, outerDesc_dropGuards]; exact Adv.refl _
          · rw [undo_perform]; exact Adv.refl _
      | ifc c t e he =>
        simp only [step, Option.some.injEq, Prod.mk.injEq] at h; rw [← h.1, ← h.2, outerDesc_cmds]; exact Adv.refl _
      | loop u c b =>
        simp only [step, Option.some.injEq, Prod.mk.injEq] at h; rw [← h.1, ← h.2, outerDesc_cmds]; exact Adv.refl _
      | group b =>
        simp only [step, Option.some.injEq, Prod.mk.injEq] at h; rw [← h.1, ← h.2, outerDesc_cmds]; exact Adv.refl _
      | subsh b =>
        simp only [step, Option.some.injEq, Prod.mk.injEq] at h; rw [← h.1, ← h.2, outerDesc_cmds]; exact Adv.refl _
      | andor l a r =>
        simp only [step, Option.some.injEq, Prod.mk.injEq] at h; rw [← h.1, ← h.2]; exact Adv.refl _
      | neg c =>
        simp only [step, Option.some.injEq, Prod.mk.injEq] at h; rw [← h.1, ← h.2]; exact Adv.refl _
    | undo saved =>
      simp only [step, Option.some.injEq, Prod.mk.injEq] at h; rw [← h.1, ← h.2]
      simp only [outerDesc]
      cases saved with
      | nil => exact Adv.refl _
      | cons x l => rw [undoIn_head (x :: l) s x rfl]; exact Adv.refl _
    | branch t e he =>
      simp only [step] at h
      split at h
      · simp only [Option.some.injEq, Prod.mk.injEq] at h; rw [← h.1, ← h.2, outerDesc_cmds]; exact Adv.refl _
      · split at h <;> (simp only [Option.some.injEq, Prod.mk.injEq] at h; rw [← h.1, ← h.2])
        · rw [outerDesc_cmds]; exact Adv.refl _
        · exact Adv.refl _
    | andK a r =>
      simp only [step] at h
      split at h <;> (simp only [Option.some.injEq, Prod.mk.injEq] at h; rw [← h.1, ← h.2]; exact Adv.refl _)
    | loopTest u c b l =>
      simp only [step] at h
      split at h <;> (simp only [Option.some.injEq, Prod.mk.injEq] at h; rw [← h.1, ← h.2])
      · rw [outerDesc_cmds]; exact Adv.refl _
      · exact Adv.refl _
    | loopBack u c b =>
      simp only [step, Option.some.injEq, Prod.mk.injEq] at h; rw [← h.1, ← h.2, outerDesc_cmds]; exact Adv.refl _
    | restore sv =>
      simp only [step, Option.some.injEq, Prod.mk.injEq] at h; rw [← h.1, ← h.2]; exact Adv.refl _
    | negK =>
      simp only [step, Option.some.injEq, Prod.mk.injEq] at h; rw [← h.1, ← h.2]; exact Adv.refl _
    | src t e x =>
      simp only [step, Option.some.injEq] at h
      unfold stepSrc at h
      split at h <;> (simp only [Prod.mk.injEq] at h; rw [← h.1, ← h.2])
      · exact Adv.refl _
      · rw [outerDesc_cmds]; exact Adv.refl _
      · rw [outerDesc_dropGuards]; exact Adv.refl _

/-- a continuation run to its end: descriptor 0 refers to the description the pending undos lead to -/
theorem runK_outer (n : Nat) (k : List K) (s : State) (hfin : (runK n k s).2 = true) :
    Adv (outerDesc k (stdinDesc s)) (stdinDesc (runK n k s).1) := by
  induction n generalizing k s with
  | zero => simp [runK] at hfin
  | succ n ih =>
    simp only [runK] at hfin ⊢
    cases hst : step k s with
    | none =>
      have hk : k = [] := by
        cases k with
        | nil => rfl
        | cons a k0 =>
          exfalso
          cases a with
          | cmd c =>
            cases c with
            | redir rs c => simp only [step] at hst; split at hst <;> (try split at hst) <;> simp at hst
            | async c => simp only [step] at hst; split at hst <;> simp at hst
            | simple ws here => simp [step] at hst
            | ifc c t e he => simp [step] at hst
            | loop u c b => simp [step] at hst
            | group b => simp [step] at hst
            | subsh b => simp [step] at hst
            | andor l a r => simp [step] at hst
            | neg c => simp [step] at hst
          | branch t e he => simp only [step] at hst; split at hst <;> (try split at hst) <;> simp at hst
          | andK a r => simp only [step] at hst; split at hst <;> simp at hst
          | loopTest u c b l => simp only [step] at hst; split at hst <;> simp at hst
          | loopBack u c b => simp [step] at hst
          | restore sv => simp [step] at hst
          | negK => simp [step] at hst
          | undo saved => simp [step] at hst
          | src t e x => simp [step] at hst
      subst hk
      exact Adv.refl _
    | some r =>
      obtain ⟨k', s'⟩ := r
      simp only [hst] at hfin ⊢
      exact (step_outer _ _ _ _ hst).trans (ih k' s' hfin)

/-- a whole command line run to its end: no undo is pending before or after -/
theorem runK_cmds_adv (n : Nat) (cs : List Cmd) (s : State)
    (hfin : (runK n (cmds cs) s).2 = true) :
    Adv (stdinDesc s) (stdinDesc (runK n (cmds cs) s).1) := by
  have h := runK_outer n (cmds cs) s hfin
  have e : outerDesc (cmds cs) (stdinDesc s) = stdinDesc s := by
    have := outerDesc_cmds cs [] (stdinDesc s)
    rw [List.append_nil] at this
    exact this
  rw [e] at h
  exact h

theorem atExec_adv (s : State) : Adv (stdinDesc s) (stdinDesc (atExec s)) := by
  refine ⟨rfl, [], by simp [atExec, afterPull, stdinDesc], ?_⟩
  intro h
  have h' : s.shared = false := h
  simp [atExec, afterPull, stdinDesc, h']

theorem loop_stdin (n : Nat) (s : State) (log : List Iter) (h : (loop n s log).2.1 ≠ .outOfFuel) :
    Adv (stdinDesc s) (stdinDesc (loop n s log).1) := by
  induction n generalizing s log with
  | zero => simp [loop] at h
  | succ n ih =>
    have hafter : ∀ (b : Bool) (st : Nat), Adv (stdinDesc s)
        (stdinDesc ({ afterPull s with hitEof := b, status := st } : State)) := by
      intro b st
      refine ⟨rfl, [], by simp [afterPull, stdinDesc], ?_⟩
      intro hh
      have h' : s.shared = false := hh
      simp [afterPull, stdinDesc, h']
    simp only [loop] at h ⊢
    cases hres : (pullOf s).res with
    | none => simp only []; exact hafter _ (afterPull s).status
    | error => simp only []; exact hafter (afterPull s).hitEof 2
    | incomplete => simp only []; exact hafter (afterPull s).hitEof 2
    | ok cs =>
      simp only [hres] at h ⊢
      by_cases hfin : (runK execFuel (cmds cs) (atExec s)).2 = true
      · simp only [hfin, if_true] at h ⊢
        have h1 := (atExec_adv s).trans (runK_cmds_adv _ cs _ hfin)
        by_cases ha : (runK execFuel (cmds cs) (atExec s)).1.aborted = true
        · simp only [ha, if_true]; exact h1
        · simp only [ha] at h ⊢
          exact h1.trans (ih _ _ h)
      · simp [hfin] at h


/-- the parser on an empty text at end of input: no command (`Ok(None)`) -/
theorem parse_nothing (s : State) : parserOf s true [] = .none := by
  simp [parserOf, parseLine, toChars, decodeGo, lexAll, lexGo, LState.endWord, pList, substAlias]


end YashModel.Input
