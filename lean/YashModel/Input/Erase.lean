/-
  C18 — the ghost flag `hitEof` (used only in the hypothesis of `prefix_monotone`) never influences what
  the machine does: every operation commutes with erasing it.  Used to prove `run = specRun`.
-/
import YashModel.Input.Steps
import YashModel.Input.Spec
namespace YashModel.Input

/-- the state without its ghost flag -/
def State.erase (s : State) : State := { s with hitEof := false }

@[simp] theorem erase_erase (s : State) : s.erase.erase = s.erase := rfl

theorem erase_of_comm {f : State → State} (s : State) (h : f s.erase = (f s).erase) :
    (f s).erase = (f s.erase).erase := by rw [h]; rfl

theorem setOption_erase (s : State) (o : String) (on : Bool) :
    setOption s.erase o on = (setOption s o on).erase := by
  unfold setOption; split
  · rfl
  · split <;> rfl

theorem execSet_erase (s : State) (args : List String) :
    execSet s.erase args = (execSet s args).erase := by
  unfold execSet; split <;> first | rfl | exact setOption_erase _ _ _

theorem execAlias_erase (s : State) (args : List String) :
    execAlias s.erase args = (execAlias s args).erase := by
  unfold execAlias; split <;> rfl

theorem execUnalias_erase (s : State) (args : List String) :
    execUnalias s.erase args = (execUnalias s args).erase := by
  unfold execUnalias; split <;> rfl

theorem execRead_erase (s : State) (d : Nat) (raw : Bool) (names : List String) :
    (execRead s d raw names).erase = (execRead s.erase d raw names).erase := by
  cases hsh : s.shared <;> simp [execRead, State.erase, State.stdin, State.setStdin, hsh]

theorem execCat_erase (s : State) (here : Option (List Char)) :
    (execCat s here).erase = (execCat s.erase here).erase := by
  cases here with
  | some k => rfl
  | none => cases hsh : s.shared <;> simp [execCat, State.erase, State.stdin, State.setStdin, hsh]

theorem execSimple_erase (s : State) (fields : List String) (here : Option (List Char)) :
    (execSimple s fields here).erase = (execSimple s.erase fields here).erase := by
  cases fields with
  | nil => rfl
  | cons name args =>
    simp only [execSimple]
    generalize classify name = u
    cases u with
    | probe => rfl
    | aliasName => rfl
    | st => rfl
    | colon => rfl
    | read => exact execRead_erase _ _ _ _
    | alias => exact erase_of_comm (f := fun s => execAlias s args) s (execAlias_erase s args)
    | unalias => exact erase_of_comm (f := fun s => execUnalias s args) s (execUnalias_erase s args)
    | set => exact erase_of_comm (f := fun s => execSet s args) s (execSet_erase s args)
    | cat => exact execCat_erase _ _
    | closein =>
      cases hsh : s.shared <;> simp [execUtil, execClose, State.erase, State.stdin, State.setStdin, hsh]
    | echo => rfl
    | unknown => rfl

/-- the second component erased -/
def eraseR (r : List K × State) : List K × State := (r.1, r.2.erase)

theorem stepSimple_erase (ws : List Word) (here : Option (List Char)) (k : List K) (s : State) :
    eraseR (stepSimple ws here k s) = eraseR (stepSimple ws here k s.erase) := by
  unfold stepSimple
  show eraseR (match nested (expandWords s.vars s.status ws) with
      | some (text, echoes) => (K.src text echoes false :: k, s)
      | none => (k, execSimple s (expandWords s.vars s.status ws) here))
    = eraseR (match nested (expandWords s.vars s.status ws) with
      | some (text, echoes) => (K.src text echoes false :: k, s.erase)
      | none => (k, execSimple s.erase (expandWords s.vars s.status ws) here))
  cases nested (expandWords s.vars s.status ws) with
  | some r => rfl
  | none => simp only [eraseR]; rw [execSimple_erase]

theorem stepSrc_erase (text : List Byte) (echoes executed : Bool) (k : List K) (s : State) :
    eraseR (stepSrc text echoes executed k s) = eraseR (stepSrc text echoes executed k s.erase) := by
  have hp : parserOf s.erase = parserOf s := rfl
  unfold stepSrc
  simp only [hp]
  split <;> rfl

theorem step_erase (k : List K) (s : State) :
    (step k s).map eraseR = (step k s.erase).map eraseR := by
  cases k with
  | nil => rfl
  | cons a k0 =>
    cases a with
    | cmd c =>
      cases c with
      | simple ws here => simp only [step, Option.map]; rw [stepSimple_erase]
      | ifc c t e he => rfl
      | loop u c b => rfl
      | group b => rfl
      | subsh b => rfl
      | andor l a r => rfl
      | neg c => rfl
      | async c =>
        simp only [step]
        have hx : controlsJobs k0 s.erase = controlsJobs k0 s := rfl
        rw [hx]
        by_cases hc : controlsJobs k0 s = true
        · simp only [hc, if_true]; rfl
        · simp only [hc]; rfl
      | redir rs c =>
        simp only [step]
        rw [performIn_comm State.erase (fun _ => rfl) (fun _ _ => rfl)]
        by_cases hf : (performIn rs [] s).2.2 = true
        · simp only [hf, if_true]; rfl
        · simp only [hf]
          rw [undoIn_comm State.erase (fun _ _ => rfl)]
          have hx : redirErrorExits s.erase c = redirErrorExits s c := rfl
          rw [hx]
          by_cases hx2 : redirErrorExits s c = true
          · simp only [hx2, if_true]; rfl
          · simp only [hx2]; rfl
    | undo saved =>
      simp only [step]
      rw [undoIn_comm State.erase (fun _ _ => rfl)]; rfl
    | branch t e he =>
      by_cases h0 : s.status = 0 <;> cases he <;> simp [step, h0, State.erase, eraseR]
    | andK a r =>
      by_cases h0 : (s.status = 0) = (a = true) <;> simp [step, h0, State.erase, eraseR]
    | loopTest u c b l =>
      have e : s.erase.status = s.status := rfl
      simp only [step, e]
      by_cases hc : ((s.status = 0) != u) = true
      · rw [if_pos hc, if_pos hc]; rfl
      · rw [if_neg hc, if_neg hc]; rfl
    | loopBack u c b => rfl
    | restore sv => rfl
    | negK => rfl
    | src t e x => simp only [step, Option.map]; rw [stepSrc_erase]

theorem runK_erase (n : Nat) (k : List K) (s t : State) (h : s.erase = t.erase) :
    (runK n k s).1.erase = (runK n k t).1.erase ∧ (runK n k s).2 = (runK n k t).2 := by
  induction n generalizing k s t with
  | zero => exact ⟨h, rfl⟩
  | succ n ih =>
    simp only [runK]
    have hs : (step k s).map eraseR = (step k t).map eraseR := by
      rw [step_erase k s, step_erase k t, h]
    cases h1 : step k s with
    | none =>
      rw [h1] at hs
      cases h2 : step k t with
      | none => exact ⟨h, rfl⟩
      | some r => rw [h2] at hs; simp at hs
    | some r =>
      rw [h1] at hs
      cases h2 : step k t with
      | none => rw [h2] at hs; simp at hs
      | some r' =>
        rw [h2] at hs
        simp only [Option.map, Option.some.injEq, eraseR, Prod.mk.injEq] at hs
        simp only []
        rw [hs.1]
        exact ih r'.1 r.2 r'.2 hs.2

end YashModel.Input
